//! Runtime cases (`CASE X|S|H|Y`): data model, formatting and parsing. See FORMAT.md, section
//! "Runtime cases".

use crate::builder_case::{fmt_ops, parse_op, Op};

// ---------------------------------------------------------------------------------------------
// Configuration
// ---------------------------------------------------------------------------------------------

#[derive(Clone, Copy, Debug, PartialEq, Eq, Hash)]
pub enum Api {
    Fold,
    TryFold,
    ForEach,
    TryForEach,
}

impl Api {
    pub const ALL: [Api; 4] = [Api::Fold, Api::TryFold, Api::ForEach, Api::TryForEach];

    pub fn token(self) -> &'static str {
        match self {
            Api::Fold => "fold",
            Api::TryFold => "tryfold",
            Api::ForEach => "foreach",
            Api::TryForEach => "tryforeach",
        }
    }

    pub fn parse(s: &str) -> Option<Api> {
        Api::ALL.into_iter().find(|a| a.token() == s)
    }

    /// The user future can fail.
    pub fn is_try(self) -> bool {
        matches!(self, Api::TryFold | Api::TryForEach)
    }

    /// The `limit` argument exists.
    pub fn has_limit(self) -> bool {
        matches!(self, Api::ForEach | Api::TryForEach)
    }
}

#[derive(Clone, Copy, Debug, PartialEq, Eq, Hash)]
pub enum Strat {
    Non,
    Ign,
    Fin,
    Pn(u64),
}

impl Strat {
    pub fn token(self) -> String {
        match self {
            Strat::Non => "non".to_string(),
            Strat::Ign => "ign".to_string(),
            Strat::Fin => "fin".to_string(),
            Strat::Pn(k) => format!("pn:{k}"),
        }
    }

    pub fn parse(s: &str) -> Option<Strat> {
        match s {
            "non" => Some(Strat::Non),
            "ign" => Some(Strat::Ign),
            "fin" => Some(Strat::Fin),
            _ => s
                .strip_prefix("pn:")
                .and_then(|k| k.parse::<u64>().ok())
                .map(Strat::Pn),
        }
    }
}

#[derive(Clone, Debug, PartialEq, Eq, Hash)]
pub struct CallCfg {
    pub api: Api,
    pub mutable: bool,
    pub ctl: bool,
    pub with: bool,
    pub rev: bool,
    /// `0` = `None`.
    pub lim: usize,
    pub strat: Strat,
    pub incl: bool,
    /// `(function, ok)`: functions whose future is ready on its first poll.
    pub imm: Vec<(usize, bool)>,
    /// `sig=<i>` (optional token): the user future of function `i` itself sends the interrupt
    /// signal in the poll in which it completes (a signal sent in the middle of a poll of the call).
    pub sig: Option<usize>,
    /// `bops=<p>` (optional token, `t` runs): every user future performs `p` budget-consuming tokio
    /// operations before it completes.
    pub bops: usize,
    /// `yld=<k>` (optional token): every user future first wakes itself and returns `Pending` `k`
    /// times (a cooperatively yielding function).
    pub yld: usize,
}

impl CallCfg {
    /// `api`, shared, no `_with`, everything default.
    pub fn plain(api: Api) -> CallCfg {
        CallCfg {
            api,
            mutable: false,
            ctl: false,
            with: false,
            rev: false,
            lim: 0,
            strat: Strat::Non,
            incl: true,
            imm: Vec::new(),
            sig: None,
            bops: 0,
            yld: 0,
        }
    }

    /// The constraints FORMAT.md puts on the tokens.
    pub fn validate(&self) -> Result<(), String> {
        if !self.with && (self.rev || self.strat != Strat::Non || !self.incl) {
            return Err("with=0 requires ord=f strat=non incl=1".to_string());
        }
        if self.ctl && self.api != Api::TryForEach {
            return Err("ctl=1 requires api=tryforeach".to_string());
        }
        Ok(())
    }
}

fn b01(b: bool) -> char {
    if b {
        '1'
    } else {
        '0'
    }
}

pub fn fmt_call_cfg(c: &CallCfg) -> String {
    let imm = if c.imm.is_empty() {
        "-".to_string()
    } else {
        c.imm
            .iter()
            .map(|(i, ok)| format!("{}:{}", i, if *ok { 'o' } else { 'e' }))
            .collect::<Vec<_>>()
            .join(",")
    };
    let mut out = format!(
        "api={} mut={} ctl={} with={} ord={} lim={} strat={} incl={} imm={}",
        c.api.token(),
        b01(c.mutable),
        b01(c.ctl),
        b01(c.with),
        if c.rev { 'r' } else { 'f' },
        c.lim,
        c.strat.token(),
        b01(c.incl),
        imm
    );
    if let Some(i) = c.sig {
        out.push_str(&format!(" sig={i}"));
    }
    if c.bops > 0 {
        out.push_str(&format!(" bops={}", c.bops));
    }
    if c.yld > 0 {
        out.push_str(&format!(" yld={}", c.yld));
    }
    out
}

#[derive(Clone, Debug, PartialEq, Eq, Hash)]
pub struct StreamCfg {
    pub rev: bool,
    pub int: bool,
    pub strat: Strat,
}

pub fn fmt_stream_cfg(c: &StreamCfg) -> String {
    format!(
        "ord={} int={} strat={}",
        if c.rev { 'r' } else { 'f' },
        b01(c.int),
        c.strat.token()
    )
}

// ---------------------------------------------------------------------------------------------
// Events
// ---------------------------------------------------------------------------------------------

#[derive(Clone, Copy, Debug, PartialEq, Eq, Hash)]
pub enum CallEvKind {
    /// `s`
    Settle,
    /// `c<i>o` / `c<i>e`
    Complete(usize, bool),
    /// `i`
    Interrupt,
    /// `p`
    Poll,
    /// `a`
    Abort,
    /// `*<k>` (first event of a call run inside a history): the rest of the run is first executed `k`
    /// times without being observed
    Repeat(usize),
    /// `!` (pairs only): finish this side's run and start a fresh run with the same configuration
    /// on the same graph (observation prefix `A2.` / `B2.`, ...)
    Restart,
    /// `t`: drive the call to completion inside a tokio current-thread runtime (cooperative budget
    /// active; every function must be in `imm`)
    Tokio,
}

#[derive(Clone, Copy, Debug, PartialEq, Eq, Hash)]
pub struct CallEv {
    pub kind: CallEvKind,
    /// Leading `+`: do not settle after the event.
    pub nosettle: bool,
}

impl CallEv {
    pub fn new(kind: CallEvKind) -> CallEv {
        CallEv {
            kind,
            nosettle: false,
        }
    }

    pub fn nosettle(kind: CallEvKind) -> CallEv {
        CallEv {
            kind,
            nosettle: true,
        }
    }
}

pub fn fmt_call_ev(e: &CallEv) -> String {
    let body = match e.kind {
        CallEvKind::Settle => "s".to_string(),
        CallEvKind::Complete(i, ok) => format!("c{}{}", i, if ok { 'o' } else { 'e' }),
        CallEvKind::Interrupt => "i".to_string(),
        CallEvKind::Poll => "p".to_string(),
        CallEvKind::Abort => "a".to_string(),
        CallEvKind::Tokio => "t".to_string(),
        CallEvKind::Restart => "!".to_string(),
        CallEvKind::Repeat(k) => format!("*{k}"),
    };
    if e.nosettle {
        format!("+{body}")
    } else {
        body
    }
}

pub fn parse_call_ev(tok: &str) -> Result<CallEv, String> {
    let (nosettle, body) = match tok.strip_prefix('+') {
        Some(b) => (true, b),
        None => (false, tok),
    };
    let kind = match body {
        "s" => CallEvKind::Settle,
        "i" => CallEvKind::Interrupt,
        "p" => CallEvKind::Poll,
        "a" => CallEvKind::Abort,
        "t" => CallEvKind::Tokio,
        "!" => CallEvKind::Restart,
        _ if body.starts_with('*') => {
            let k = body[1..]
                .parse::<usize>()
                .map_err(|_| format!("bad call event `{tok}`"))?;
            CallEvKind::Repeat(k)
        }
        _ => {
            let rest = body
                .strip_prefix('c')
                .ok_or_else(|| format!("bad call event `{tok}`"))?;
            let (num, ok) = if let Some(n) = rest.strip_suffix('o') {
                (n, true)
            } else if let Some(n) = rest.strip_suffix('e') {
                (n, false)
            } else {
                return Err(format!("bad call event `{tok}`"));
            };
            let i = num
                .parse::<usize>()
                .map_err(|_| format!("bad call event `{tok}`"))?;
            CallEvKind::Complete(i, ok)
        }
    };
    Ok(CallEv { kind, nosettle })
}

#[derive(Clone, Copy, Debug, PartialEq, Eq, Hash)]
pub enum SEv {
    /// `n`
    Next,
    /// `d<i>`
    Drop(usize),
    /// `i`
    Interrupt,
    /// `x`
    DropStream,
    /// `u<i>`: the FnRef of function i is dropped while a panic unwinds (caught by the consumer)
    DropUnwind(usize),
    /// `t<k>`: consume the whole stream inside a tokio current-thread runtime, holding at most `k`
    /// FnRefs (must be the only event of the run)
    Tokio(usize),
    /// `r<k>`: `k` rounds of a real two-thread race: a worker thread drops the FnRefs while the
    /// consumer polls only when woken (must be the only event of the run)
    Race(usize),
}

pub fn fmt_sev(e: &SEv) -> String {
    match e {
        SEv::Next => "n".to_string(),
        SEv::Drop(i) => format!("d{i}"),
        SEv::Interrupt => "i".to_string(),
        SEv::DropStream => "x".to_string(),
        SEv::DropUnwind(i) => format!("u{i}"),
        SEv::Tokio(k) => format!("t{k}"),
        SEv::Race(k) => format!("r{k}"),
    }
}

pub fn parse_sev(tok: &str) -> Result<SEv, String> {
    match tok {
        "n" => Ok(SEv::Next),
        "i" => Ok(SEv::Interrupt),
        "x" => Ok(SEv::DropStream),
        _ => {
            if let Some(k) = tok.strip_prefix('t').and_then(|n| n.parse::<usize>().ok()) {
                return Ok(SEv::Tokio(k));
            }
            if let Some(k) = tok.strip_prefix('r').and_then(|n| n.parse::<usize>().ok()) {
                return Ok(SEv::Race(k));
            }
            if let Some(i) = tok.strip_prefix('u').and_then(|n| n.parse::<usize>().ok()) {
                return Ok(SEv::DropUnwind(i));
            }
            tok.strip_prefix('d')
                .and_then(|n| n.parse::<usize>().ok())
                .map(SEv::Drop)
                .ok_or_else(|| format!("bad stream event `{tok}`"))
        }
    }
}

fn fmt_list<T>(v: &[T], f: impl Fn(&T) -> String) -> String {
    if v.is_empty() {
        "-".to_string()
    } else {
        v.iter().map(f).collect::<Vec<_>>().join(" ")
    }
}

pub fn fmt_call_evs(v: &[CallEv]) -> String {
    fmt_list(v, fmt_call_ev)
}

pub fn fmt_sevs(v: &[SEv]) -> String {
    fmt_list(v, fmt_sev)
}

// ---------------------------------------------------------------------------------------------
// Cases
// ---------------------------------------------------------------------------------------------

#[derive(Clone, Debug)]
pub enum Run {
    Call(CallCfg, Vec<CallEv>),
    Stream(StreamCfg, Vec<SEv>),
}

#[derive(Clone, Debug)]
pub enum Body {
    X(CallCfg, Vec<CallEv>),
    S(StreamCfg, Vec<SEv>),
    H(Vec<Run>),
    /// Events are `(is_b, event)`.
    Y(CallCfg, CallCfg, Vec<(bool, CallEv)>),
    /// Two streams on one graph, each created at its first event; events are `(is_b, event)`.
    Z(StreamCfg, StreamCfg, Vec<(bool, SEv)>),
    /// A stream (A) and a call (B, `mut=0`) on one graph, each created at its first event.
    W(StreamCfg, CallCfg, Vec<MixEv>),
}

/// Event of a `W` case.
#[derive(Clone, Debug)]
pub enum MixEv {
    A(SEv),
    B(CallEv),
}

#[derive(Clone, Debug)]
pub struct RtCase {
    pub id: u64,
    pub family: String,
    pub ops: Vec<Op>,
    pub body: Body,
}

impl RtCase {
    pub fn kind(&self) -> char {
        match self.body {
            Body::X(..) => 'X',
            Body::S(..) => 'S',
            Body::H(..) => 'H',
            Body::Y(..) => 'Y',
            Body::Z(..) => 'Z',
            Body::W(..) => 'W',
        }
    }
}

pub fn fmt_rt_case(c: &RtCase) -> String {
    let head = format!(
        "CASE {} {} {} | {}",
        c.kind(),
        c.id,
        c.family,
        fmt_ops(&c.ops)
    );
    match &c.body {
        Body::X(cfg, evs) => format!("{head} | {} | {}", fmt_call_cfg(cfg), fmt_call_evs(evs)),
        Body::S(cfg, evs) => format!("{head} | {} | {}", fmt_stream_cfg(cfg), fmt_sevs(evs)),
        Body::H(runs) => {
            let mut s = head;
            for r in runs {
                match r {
                    Run::Call(cfg, evs) => s.push_str(&format!(
                        " | call {} ; {}",
                        fmt_call_cfg(cfg),
                        fmt_call_evs(evs)
                    )),
                    Run::Stream(cfg, evs) => s.push_str(&format!(
                        " | stream {} ; {}",
                        fmt_stream_cfg(cfg),
                        fmt_sevs(evs)
                    )),
                }
            }
            s
        }
        Body::Y(a, b, evs) => {
            let evs = fmt_list(evs, |(is_b, e)| {
                format!("{}:{}", if *is_b { 'B' } else { 'A' }, fmt_call_ev(e))
            });
            format!("{head} | {} | {} | {}", fmt_call_cfg(a), fmt_call_cfg(b), evs)
        }
        Body::W(a, b, evs) => {
            let evs = fmt_list(evs, |e| match e {
                MixEv::A(e) => format!("A:{}", fmt_sev(e)),
                MixEv::B(e) => format!("B:{}", fmt_call_ev(e)),
            });
            format!(
                "{head} | {} | {} | {}",
                fmt_stream_cfg(a),
                fmt_call_cfg(b),
                evs
            )
        }
        Body::Z(a, b, evs) => {
            let evs = fmt_list(evs, |(is_b, e)| {
                format!("{}:{}", if *is_b { 'B' } else { 'A' }, fmt_sev(e))
            });
            format!(
                "{head} | {} | {} | {}",
                fmt_stream_cfg(a),
                fmt_stream_cfg(b),
                evs
            )
        }
    }
}

// ---------------------------------------------------------------------------------------------
// Parsing
// ---------------------------------------------------------------------------------------------

fn parse_ops(s: &str) -> Result<Vec<Op>, String> {
    let s = s.trim();
    if s.is_empty() || s == "-" {
        return Ok(Vec::new());
    }
    s.split_whitespace().map(parse_op).collect()
}

fn parse_01(s: &str, what: &str) -> Result<bool, String> {
    match s {
        "0" => Ok(false),
        "1" => Ok(true),
        _ => Err(format!("bad {what} `{s}`")),
    }
}

fn parse_ord(s: &str) -> Result<bool, String> {
    match s {
        "f" => Ok(false),
        "r" => Ok(true),
        _ => Err(format!("bad ord `{s}`")),
    }
}

/// `key=value` tokens, in the fixed order of `keys`.
fn kv_tokens<'a>(s: &'a str, keys: &[&str]) -> Result<Vec<&'a str>, String> {
    let toks: Vec<&str> = s.split_whitespace().collect();
    if toks.len() != keys.len() {
        return Err(format!(
            "expected {} config tokens, got {}: `{}`",
            keys.len(),
            toks.len(),
            s.trim()
        ));
    }
    let mut out = Vec::with_capacity(keys.len());
    for (t, k) in toks.iter().zip(keys) {
        let v = t
            .strip_prefix(k)
            .and_then(|r| r.strip_prefix('='))
            .ok_or_else(|| format!("expected `{k}=…`, got `{t}`"))?;
        out.push(v);
    }
    Ok(out)
}

pub fn parse_call_cfg(s: &str) -> Result<CallCfg, String> {
    // optional trailing tokens
    let mut sig = None;
    let mut bops = 0usize;
    let mut yld = 0usize;
    let mut core: Vec<&str> = Vec::new();
    for t in s.split_whitespace() {
        if let Some(v) = t.strip_prefix("sig=") {
            sig = Some(v.parse::<usize>().map_err(|_| format!("bad sig `{t}`"))?);
        } else if let Some(v) = t.strip_prefix("bops=") {
            bops = v.parse::<usize>().map_err(|_| format!("bad bops `{t}`"))?;
        } else if let Some(v) = t.strip_prefix("yld=") {
            yld = v.parse::<usize>().map_err(|_| format!("bad yld `{t}`"))?;
        } else {
            core.push(t);
        }
    }
    let core = core.join(" ");
    let s: &str = &core;
    let v = kv_tokens(
        s,
        &[
            "api", "mut", "ctl", "with", "ord", "lim", "strat", "incl", "imm",
        ],
    )?;
    let imm = if v[8] == "-" {
        Vec::new()
    } else {
        v[8].split(',')
            .map(|t| {
                let (i, r) = t
                    .split_once(':')
                    .ok_or_else(|| format!("bad imm entry `{t}`"))?;
                let i = i
                    .parse::<usize>()
                    .map_err(|_| format!("bad imm entry `{t}`"))?;
                let ok = match r {
                    "o" => true,
                    "e" => false,
                    _ => return Err(format!("bad imm entry `{t}`")),
                };
                Ok((i, ok))
            })
            .collect::<Result<Vec<_>, String>>()?
    };
    let cfg = CallCfg {
        api: Api::parse(v[0]).ok_or_else(|| format!("bad api `{}`", v[0]))?,
        mutable: parse_01(v[1], "mut")?,
        ctl: parse_01(v[2], "ctl")?,
        with: parse_01(v[3], "with")?,
        rev: parse_ord(v[4])?,
        lim: v[5]
            .parse::<usize>()
            .map_err(|_| format!("bad lim `{}`", v[5]))?,
        strat: Strat::parse(v[6]).ok_or_else(|| format!("bad strat `{}`", v[6]))?,
        incl: parse_01(v[7], "incl")?,
        imm,
        sig,
        bops,
        yld,
    };
    cfg.validate()?;
    Ok(cfg)
}

pub fn parse_stream_cfg(s: &str) -> Result<StreamCfg, String> {
    let v = kv_tokens(s, &["ord", "int", "strat"])?;
    Ok(StreamCfg {
        rev: parse_ord(v[0])?,
        int: parse_01(v[1], "int")?,
        strat: Strat::parse(v[2]).ok_or_else(|| format!("bad strat `{}`", v[2]))?,
    })
}

fn parse_ev_list<T>(s: &str, f: impl Fn(&str) -> Result<T, String>) -> Result<Vec<T>, String> {
    let s = s.trim();
    if s.is_empty() || s == "-" {
        return Ok(Vec::new());
    }
    s.split_whitespace().map(f).collect()
}

/// Parses a `CASE X|S|H|Y|Z|W` line; `Ok(None)` for every other line.
pub fn parse_rt_case_line(line: &str) -> Result<Option<RtCase>, String> {
    let line = line.trim_end();
    let kind = match line.strip_prefix("CASE ").and_then(|r| r.split(' ').next()) {
        Some("X") => 'X',
        Some("S") => 'S',
        Some("H") => 'H',
        Some("Y") => 'Y',
        Some("Z") => 'Z',
        Some("W") => 'W',
        _ => return Ok(None),
    };
    let parts: Vec<&str> = line.split('|').collect();
    if parts.len() < 2 {
        return Err(format!("too few `|` sections: `{line}`"));
    }
    let head: Vec<&str> = parts[0].split_whitespace().collect();
    if head.len() != 4 {
        return Err(format!("bad case header `{}`", parts[0].trim()));
    }
    let id = head[2]
        .parse::<u64>()
        .map_err(|_| format!("bad case id `{}`", head[2]))?;
    let family = head[3].to_string();
    let ops = parse_ops(parts[1])?;
    let body = match kind {
        'X' => {
            if parts.len() != 4 {
                return Err(format!("CASE X needs 4 sections, got {}", parts.len()));
            }
            Body::X(
                parse_call_cfg(parts[2])?,
                parse_ev_list(parts[3], parse_call_ev)?,
            )
        }
        'S' => {
            if parts.len() != 4 {
                return Err(format!("CASE S needs 4 sections, got {}", parts.len()));
            }
            Body::S(
                parse_stream_cfg(parts[2])?,
                parse_ev_list(parts[3], parse_sev)?,
            )
        }
        'H' => {
            let mut runs = Vec::new();
            for p in &parts[2..] {
                let (cfg, evs) = p
                    .split_once(';')
                    .ok_or_else(|| format!("run without `;`: `{}`", p.trim()))?;
                let cfg = cfg.trim();
                if let Some(c) = cfg.strip_prefix("call ") {
                    runs.push(Run::Call(
                        parse_call_cfg(c)?,
                        parse_ev_list(evs, parse_call_ev)?,
                    ));
                } else if let Some(c) = cfg.strip_prefix("stream ") {
                    runs.push(Run::Stream(
                        parse_stream_cfg(c)?,
                        parse_ev_list(evs, parse_sev)?,
                    ));
                } else {
                    return Err(format!("run must start with `call`/`stream`: `{cfg}`"));
                }
            }
            Body::H(runs)
        }
        'W' => {
            if parts.len() != 5 {
                return Err(format!("CASE W needs 5 sections, got {}", parts.len()));
            }
            let a = parse_stream_cfg(parts[2])?;
            let b = parse_call_cfg(parts[3])?;
            if b.mutable {
                return Err("CASE W requires mut=0 for the call".to_string());
            }
            let evs = parse_ev_list(parts[4], |t| {
                if let Some(r) = t.strip_prefix("A:") {
                    Ok(MixEv::A(parse_sev(r)?))
                } else if let Some(r) = t.strip_prefix("B:") {
                    Ok(MixEv::B(parse_call_ev(r)?))
                } else {
                    Err(format!("pair event without `A:`/`B:`: `{t}`"))
                }
            })?;
            Body::W(a, b, evs)
        }
        'Z' => {
            if parts.len() != 5 {
                return Err(format!("CASE Z needs 5 sections, got {}", parts.len()));
            }
            let a = parse_stream_cfg(parts[2])?;
            let b = parse_stream_cfg(parts[3])?;
            let evs = parse_ev_list(parts[4], |t| {
                if let Some(r) = t.strip_prefix("A:") {
                    Ok((false, parse_sev(r)?))
                } else if let Some(r) = t.strip_prefix("B:") {
                    Ok((true, parse_sev(r)?))
                } else {
                    Err(format!("pair event without `A:`/`B:`: `{t}`"))
                }
            })?;
            Body::Z(a, b, evs)
        }
        _ => {
            if parts.len() != 5 {
                return Err(format!("CASE Y needs 5 sections, got {}", parts.len()));
            }
            let a = parse_call_cfg(parts[2])?;
            let b = parse_call_cfg(parts[3])?;
            if a.mutable || b.mutable {
                return Err("CASE Y requires mut=0 for both runs".to_string());
            }
            let evs = parse_ev_list(parts[4], |t| {
                if let Some(r) = t.strip_prefix("A:") {
                    Ok((false, parse_call_ev(r)?))
                } else if let Some(r) = t.strip_prefix("B:") {
                    Ok((true, parse_call_ev(r)?))
                } else {
                    Err(format!("pair event without `A:`/`B:`: `{t}`"))
                }
            })?;
            Body::Y(a, b, evs)
        }
    };
    Ok(Some(RtCase {
        id,
        family,
        ops,
        body,
    }))
}
