//! Builder cases: data model, CASE line formatting / parsing, and execution against the real
//! `fn_graph` producing the OBS lines described in FORMAT.md.

use std::panic::{catch_unwind, AssertUnwindSafe};

use fn_graph::{Edge, FnGraph, FnGraphBuilder, FnId};

use crate::payload::{Fun, MAX_TYPES};

/// Largest batch length supported for `LB` / `CB` (the Rust API takes const-generic arrays).
pub const MAX_BATCH: usize = 20;

#[derive(Clone, Debug, PartialEq, Eq)]
pub enum Op {
    /// `add_fn`
    F {
        fid: u64,
        rd: Vec<usize>,
        wr: Vec<usize>,
    },
    /// `add_logic_edge(a, b)`
    L(usize, usize),
    /// `add_contains_edge(a, b)`
    C(usize, usize),
    /// `add_logic_edges([...])`
    LB(Vec<(usize, usize)>),
    /// `add_contains_edges([...])`
    CB(Vec<(usize, usize)>),
}

#[derive(Clone, Debug)]
pub struct CaseB {
    pub id: u64,
    pub family: String,
    pub ops: Vec<Op>,
    pub tf: Vec<usize>,
}

#[derive(Clone, Debug)]
pub struct CaseBP {
    pub id: u64,
    pub family: String,
    pub a: Vec<Op>,
    pub b: Vec<Op>,
}

#[derive(Clone, Debug)]
pub enum Case {
    B(CaseB),
    BP(CaseBP),
}

impl Case {
    pub fn family(&self) -> &str {
        match self {
            Case::B(c) => &c.family,
            Case::BP(c) => &c.family,
        }
    }
}

// ---------------------------------------------------------------------------------------------
// Formatting
// ---------------------------------------------------------------------------------------------

fn join_usize(v: &[usize], sep: &str) -> String {
    let mut s = String::new();
    for (i, x) in v.iter().enumerate() {
        if i > 0 {
            s.push_str(sep);
        }
        s.push_str(&x.to_string());
    }
    s
}

/// Space separated indices, `-` if empty (observation lines).
fn obs_list(v: &[usize]) -> String {
    if v.is_empty() {
        "-".to_string()
    } else {
        join_usize(v, " ")
    }
}

fn fmt_pairs(pairs: &[(usize, usize)]) -> String {
    let mut s = String::new();
    for (i, (a, b)) in pairs.iter().enumerate() {
        if i > 0 {
            s.push(',');
        }
        s.push_str(&format!("{a}-{b}"));
    }
    s
}

pub fn fmt_op(op: &Op) -> String {
    match op {
        Op::F { fid, rd, wr } => {
            format!("F:{}:{}:{}", fid, join_usize(rd, "."), join_usize(wr, "."))
        }
        Op::L(a, b) => format!("L:{a}:{b}"),
        Op::C(a, b) => format!("C:{a}:{b}"),
        Op::LB(p) => format!("LB:{}", fmt_pairs(p)),
        Op::CB(p) => format!("CB:{}", fmt_pairs(p)),
    }
}

/// Ops separated by single spaces; an empty op list is written `-`.
pub fn fmt_ops(ops: &[Op]) -> String {
    if ops.is_empty() {
        return "-".to_string();
    }
    let mut s = String::new();
    for (i, op) in ops.iter().enumerate() {
        if i > 0 {
            s.push(' ');
        }
        s.push_str(&fmt_op(op));
    }
    s
}

pub fn fmt_case(case: &Case) -> String {
    match case {
        Case::B(c) => format!(
            "CASE B {} {} | {} | tf={}",
            c.id,
            c.family,
            fmt_ops(&c.ops),
            join_usize(&c.tf, ",")
        ),
        Case::BP(c) => format!(
            "CASE BP {} {} | {} | {}",
            c.id,
            c.family,
            fmt_ops(&c.a),
            fmt_ops(&c.b)
        ),
    }
}

// ---------------------------------------------------------------------------------------------
// Parsing
// ---------------------------------------------------------------------------------------------

fn parse_usize(s: &str, what: &str) -> Result<usize, String> {
    s.parse::<usize>()
        .map_err(|_| format!("bad {what} `{s}`"))
}

fn parse_type_list(s: &str) -> Result<Vec<usize>, String> {
    if s.is_empty() {
        return Ok(Vec::new());
    }
    s.split('.')
        .map(|t| {
            let k = parse_usize(t, "data type index")?;
            if k >= MAX_TYPES {
                return Err(format!("data type index {k} >= {MAX_TYPES}"));
            }
            Ok(k)
        })
        .collect()
}

fn parse_pairs(s: &str) -> Result<Vec<(usize, usize)>, String> {
    if s.is_empty() {
        return Ok(Vec::new()); // the empty batch `add_*_edges([])`
    }
    let pairs = s
        .split(',')
        .map(|p| {
            let (a, b) = p
                .split_once('-')
                .ok_or_else(|| format!("bad pair `{p}`"))?;
            Ok((parse_usize(a, "node index")?, parse_usize(b, "node index")?))
        })
        .collect::<Result<Vec<_>, String>>()?;
    if pairs.len() > MAX_BATCH {
        return Err(format!(
            "batch length {} unsupported (0..={MAX_BATCH})",
            pairs.len()
        ));
    }
    Ok(pairs)
}

pub fn parse_op(tok: &str) -> Result<Op, String> {
    let (head, rest) = tok
        .split_once(':')
        .ok_or_else(|| format!("bad op `{tok}`"))?;
    match head {
        "F" => {
            let parts: Vec<&str> = rest.split(':').collect();
            if parts.len() != 3 {
                return Err(format!("bad F op `{tok}`"));
            }
            let fid = parts[0]
                .parse::<u64>()
                .map_err(|_| format!("bad fid in `{tok}`"))?;
            Ok(Op::F {
                fid,
                rd: parse_type_list(parts[1])?,
                wr: parse_type_list(parts[2])?,
            })
        }
        "L" | "C" => {
            let (a, b) = rest
                .split_once(':')
                .ok_or_else(|| format!("bad edge op `{tok}`"))?;
            let a = parse_usize(a, "node index")?;
            let b = parse_usize(b, "node index")?;
            Ok(if head == "L" { Op::L(a, b) } else { Op::C(a, b) })
        }
        "LB" => Ok(Op::LB(parse_pairs(rest)?)),
        "CB" => Ok(Op::CB(parse_pairs(rest)?)),
        _ => Err(format!("unknown op `{tok}`")),
    }
}

fn parse_ops(s: &str) -> Result<Vec<Op>, String> {
    let s = s.trim();
    if s.is_empty() || s == "-" {
        return Ok(Vec::new());
    }
    s.split_whitespace().map(parse_op).collect()
}

/// Parses a `CASE B` / `CASE BP` line. Returns `Ok(None)` for any other line.
pub fn parse_case_line(line: &str) -> Result<Option<Case>, String> {
    let line = line.trim_end();
    let is_b = line.starts_with("CASE B ");
    let is_bp = line.starts_with("CASE BP ");
    if !is_b && !is_bp {
        return Ok(None);
    }
    let parts: Vec<&str> = line.split('|').collect();
    if parts.len() != 3 {
        return Err(format!("expected 3 `|`-separated sections: `{line}`"));
    }
    let head: Vec<&str> = parts[0].split_whitespace().collect();
    if head.len() != 4 {
        return Err(format!("bad case header: `{}`", parts[0]));
    }
    let id = head[2]
        .parse::<u64>()
        .map_err(|_| format!("bad case id `{}`", head[2]))?;
    let family = head[3].to_string();
    if is_bp {
        Ok(Some(Case::BP(CaseBP {
            id,
            family,
            a: parse_ops(parts[1])?,
            b: parse_ops(parts[2])?,
        })))
    } else {
        let ops = parse_ops(parts[1])?;
        let tf_s = parts[2].trim();
        let tf_s = tf_s
            .strip_prefix("tf=")
            .ok_or_else(|| format!("expected `tf=`: `{tf_s}`"))?;
        let tf = if tf_s.is_empty() {
            Vec::new()
        } else {
            tf_s.split(',')
                .map(|t| parse_usize(t, "tf index"))
                .collect::<Result<Vec<_>, String>>()?
        };
        Ok(Some(Case::B(CaseB {
            id,
            family,
            ops,
            tf,
        })))
    }
}

// ---------------------------------------------------------------------------------------------
// Execution
// ---------------------------------------------------------------------------------------------

/// Result of running the ops of one call sequence and `build()`.
pub struct Built {
    /// One token per op executed (`f<i>`, `ok`, `cyc`, `P`).
    pub r: Vec<String>,
    pub outcome: Outcome,
}

pub enum Outcome {
    /// A builder op panicked.
    OpPanic,
    /// `build()` panicked.
    BuildPanic,
    Ok {
        graph: FnGraph<Fun>,
        /// `verif_hooks::read()` taken right after `build()` (reset right before).
        hooks: Option<(u64, u64)>,
    },
}

fn to_ids(pairs: &[(usize, usize)]) -> Vec<(FnId, FnId)> {
    pairs
        .iter()
        .map(|&(a, b)| (FnId::new(a), FnId::new(b)))
        .collect()
}

/// Calls `add_logic_edges` / `add_contains_edges` with a const-generic array of the right length.
/// Returns `true` for `Ok`, `false` for `WouldCycle`.
fn apply_batch(builder: &mut FnGraphBuilder<Fun>, pairs: &[(usize, usize)], contains: bool) -> bool {
    let v = to_ids(pairs);
    macro_rules! go {
        ($n:literal) => {{
            let arr: [(FnId, FnId); $n] = v
                .try_into()
                .expect("batch length was matched just before");
            if contains {
                builder.add_contains_edges(arr).is_ok()
            } else {
                builder.add_logic_edges(arr).is_ok()
            }
        }};
    }
    match v.len() {
        0 => go!(0),
        1 => go!(1),
        2 => go!(2),
        3 => go!(3),
        4 => go!(4),
        5 => go!(5),
        6 => go!(6),
        7 => go!(7),
        8 => go!(8),
        9 => go!(9),
        10 => go!(10),
        11 => go!(11),
        12 => go!(12),
        13 => go!(13),
        14 => go!(14),
        15 => go!(15),
        16 => go!(16),
        17 => go!(17),
        18 => go!(18),
        19 => go!(19),
        20 => go!(20),
        21 => go!(21),
        22 => go!(22),
        23 => go!(23),
        24 => go!(24),
        25 => go!(25),
        26 => go!(26),
        27 => go!(27),
        28 => go!(28),
        29 => go!(29),
        30 => go!(30),
        31 => go!(31),
        32 => go!(32),
        33 => go!(33),
        34 => go!(34),
        35 => go!(35),
        36 => go!(36),
        37 => go!(37),
        38 => go!(38),
        39 => go!(39),
        40 => go!(40),
        n => panic!("harness: unsupported batch length {n}"),
    }
}

fn apply_op(builder: &mut FnGraphBuilder<Fun>, op: &Op, f_count: &mut usize) -> String {
    fn okcyc(ok: bool) -> String {
        if ok { "ok" } else { "cyc" }.to_string()
    }
    match op {
        Op::F { fid, rd, wr } => {
            let fun = Fun {
                idx: *f_count,
                fid: *fid,
                rd: rd.clone(),
                wr: wr.clone(),
            };
            *f_count += 1;
            let id = builder.add_fn(fun);
            format!("f{}", id.index())
        }
        Op::L(a, b) => okcyc(
            builder
                .add_logic_edge(FnId::new(*a), FnId::new(*b))
                .is_ok(),
        ),
        Op::C(a, b) => okcyc(
            builder
                .add_contains_edge(FnId::new(*a), FnId::new(*b))
                .is_ok(),
        ),
        Op::LB(p) => okcyc(apply_batch(builder, p, false)),
        Op::CB(p) => okcyc(apply_batch(builder, p, true)),
    }
}

/// `add_fns` with a const-generic array of 2..=4 functions; one result token per function.
fn apply_add_fns(builder: &mut FnGraphBuilder<Fun>, run: &[Op], f_count: &mut usize) -> Vec<String> {
    let mut funs = Vec::with_capacity(run.len());
    for op in run {
        if let Op::F { fid, rd, wr } = op {
            funs.push(Fun {
                idx: *f_count,
                fid: *fid,
                rd: rd.clone(),
                wr: wr.clone(),
            });
            *f_count += 1;
        }
    }
    macro_rules! go {
        ($n:literal) => {{
            let arr: [Fun; $n] = match funs.try_into() {
                Ok(a) => a,
                Err(_) => panic!("harness: run length was matched just before"),
            };
            builder
                .add_fns(arr)
                .iter()
                .map(|id| format!("f{}", id.index()))
                .collect()
        }};
    }
    match funs.len() {
        2 => go!(2),
        3 => go!(3),
        4 => go!(4),
        n => panic!("harness: unsupported add_fns length {n}"),
    }
}

/// Runs the ops against a fresh `FnGraphBuilder`, then `build()`.
pub fn build_ops(ops: &[Op]) -> Built {
    // `new()` and `Default::default()` must give the same empty builder: alternate between them
    let mut builder = if ops.len() % 2 == 0 {
        FnGraphBuilder::<Fun>::new()
    } else {
        FnGraphBuilder::<Fun>::default()
    };
    let mut r = Vec::with_capacity(ops.len());
    let mut f_count = 0usize;
    let mut k = 0usize;
    while k < ops.len() {
        // `add_fns`: a run of 2..=4 consecutive `F` ops whose first fid is even is added with one
        // `add_fns([..])` call (same ids expected as from that many `add_fn` calls).
        let run = ops[k..]
            .iter()
            .take(4)
            .take_while(|o| matches!(o, Op::F { .. }))
            .count();
        let first_even = matches!(&ops[k], Op::F { fid, .. } if fid % 2 == 0);
        if run >= 2 && first_even {
            let res = catch_unwind(AssertUnwindSafe(|| {
                apply_add_fns(&mut builder, &ops[k..k + run], &mut f_count)
            }));
            match res {
                Ok(toks) => r.extend(toks),
                Err(_) => {
                    r.push("P".to_string());
                    return Built {
                        r,
                        outcome: Outcome::OpPanic,
                    };
                }
            }
            k += run;
            continue;
        }
        let op = &ops[k];
        k += 1;
        // Batch lengths are validated by the parser / generators, so a panic here is the library's.
        let res = catch_unwind(AssertUnwindSafe(|| apply_op(&mut builder, op, &mut f_count)));
        match res {
            Ok(tok) => r.push(tok),
            Err(_) => {
                r.push("P".to_string());
                return Built {
                    r,
                    outcome: Outcome::OpPanic,
                };
            }
        }
    }

    #[cfg(feature = "verif_hooks")]
    fn_graph::verif_hooks::reset();
    let built = catch_unwind(AssertUnwindSafe(move || builder.build()));
    #[cfg(feature = "verif_hooks")]
    let hooks = Some(fn_graph::verif_hooks::read());
    #[cfg(not(feature = "verif_hooks"))]
    let hooks = None;

    match built {
        Ok(graph) => Built {
            r,
            outcome: Outcome::Ok { graph, hooks },
        },
        Err(_) => Built {
            r,
            outcome: Outcome::BuildPanic,
        },
    }
}

fn edge_char(e: &Edge) -> char {
    match e {
        Edge::Logic => 'L',
        Edge::Contains => 'C',
        Edge::Data => 'D',
    }
}

pub fn fmt_edges<'a, I>(edges: I) -> String
where
    I: Iterator<Item = (usize, usize, &'a Edge)>,
{
    let mut s = String::new();
    for (a, b, k) in edges {
        if !s.is_empty() {
            s.push(' ');
        }
        s.push_str(&format!("{}-{}{}", a, b, edge_char(k)));
    }
    if s.is_empty() {
        s.push('-');
    }
    s
}

fn fmt_try(entries: &[(usize, Vec<usize>, Option<usize>)]) -> String {
    if entries.is_empty() {
        return "-".to_string();
    }
    let mut s = String::new();
    for (i, (k, visited, res)) in entries.iter().enumerate() {
        if i > 0 {
            s.push(';');
        }
        let res = match res {
            Some(e) => format!("e{e}"),
            None => "ok".to_string(),
        };
        s.push_str(&format!("{}:{}:{}", k, join_usize(visited, "."), res));
    }
    s
}

/// Summary flags of one executed case, for the STATS lines.
#[derive(Clone, Copy, Debug, Default)]
pub struct CaseFlags {
    pub op_panic: bool,
    pub build_panic: bool,
    pub harness_panic: bool,
    pub has_cyc: bool,
}

pub struct CaseResult {
    pub lines: Vec<String>,
    pub flags: CaseFlags,
}

/// Executes one case and returns its OBS lines.
pub fn run_case(case: &Case) -> CaseResult {
    let mut lines = Vec::new();
    let mut flags = CaseFlags::default();
    let id = match case {
        Case::B(c) => c.id,
        Case::BP(c) => c.id,
    };
    // Safety net: panics of the library are expected only where FORMAT.md says they are caught.
    // Anything else (traversals, serde, the harness itself) is reported as `PANIC` instead of
    // silently killing the run (the panic hook is silent).
    let res = catch_unwind(AssertUnwindSafe(|| match case {
        Case::B(c) => run_b(c, &mut lines, &mut flags),
        Case::BP(c) => run_bp(c, &mut lines, &mut flags),
    }));
    if res.is_err() {
        flags.harness_panic = true;
        lines.push(format!("OBS {id} PANIC"));
    }
    CaseResult { lines, flags }
}

/// Stack of the thread that round-trips the GraphInfo of a `nm-deep` case (KiB).
#[cfg(feature = "graph_info")]
const DEEP_SERDE_STACK_KIB: usize = 64;

fn run_b(c: &CaseB, lines: &mut Vec<String>, flags: &mut CaseFlags) {
    let id = c.id;
    macro_rules! obs {
        ($tag:expr, $body:expr $(,)?) => {{
            let body: String = $body;
            lines.push(format!("OBS {} {} {}", id, $tag, body));
        }};
    }

    // `timed` families: build() is first run on a helper thread under a generous wall-clock budget
    // (the clean code needs milliseconds); an exponential path search would otherwise block the run.
    if c.family.starts_with("timed") {
        let ops = c.ops.clone();
        let (tx, rx) = std::sync::mpsc::channel();
        std::thread::spawn(move || {
            let b = build_ops(&ops);
            let _ = tx.send(matches!(b.outcome, Outcome::Ok { .. }));
        });
        match rx.recv_timeout(std::time::Duration::from_secs(4)) {
            Ok(_) => obs!("BT", "ok".to_string()),
            Err(_) => {
                obs!("BT", "timeout build() did not finish within 4 s".to_string());
                return;
            }
        }
    }
    // `nm-deep` family: build() is first run on a helper thread with a small stack (48 KiB; the clean build needs less than 16 KiB); the clean
    // code needs a constant amount of stack whatever the depth of the graph. A stack overflow kills
    // the whole process: the CASE line, flushed before the run, is then the last line of the output.
    if c.family.starts_with("nm-deep") {
        let ops = c.ops.clone();
        let handle = std::thread::Builder::new()
            .stack_size(48 * 1024)
            .spawn(move || matches!(build_ops(&ops).outcome, Outcome::Ok { .. }))
            .expect("spawn");
        match handle.join() {
            Ok(ok) => obs!("BD", if ok { "ok".to_string() } else { "failed".to_string() }),
            Err(_) => obs!("BD", "panicked".to_string()),
        }
        // the same for GraphInfo::from_graph and its serde round trip, on a small stack of their own
        #[cfg(feature = "graph_info")]
        {
            let ops = c.ops.clone();
            let handle = std::thread::Builder::new()
                .stack_size(DEEP_SERDE_STACK_KIB * 1024)
                .spawn(move || match build_ops(&ops).outcome {
                    Outcome::Ok { graph, .. } => {
                        let gi = fn_graph::GraphInfo::from_graph(&graph, |f: &Fun| f.fid);
                        match serde_yaml_ng::to_string(&gi) {
                            Ok(s) => serde_yaml_ng::from_str::<fn_graph::GraphInfo<u64>>(&s)
                                .map(|gi2| gi2 == gi)
                                .unwrap_or(false),
                            Err(_) => false,
                        }
                    }
                    _ => false,
                })
                .expect("spawn");
            match handle.join() {
                Ok(ok) => obs!("GD", if ok { "ok".to_string() } else { "failed".to_string() }),
                Err(_) => obs!("GD", "panicked".to_string()),
            }
        }
    }
    let built = build_ops(&c.ops);
    flags.has_cyc = built.r.iter().any(|t| t == "cyc");
    obs!(
        "R",
        if built.r.is_empty() {
            "-".to_string()
        } else {
            built.r.join(" ")
        },
    );
    let (mut g, hooks) = match built.outcome {
        Outcome::OpPanic => {
            flags.op_panic = true;
            lines.push(format!("OBS {id} X"));
            return;
        }
        Outcome::BuildPanic => {
            flags.build_panic = true;
            obs!("B", "P".to_string());
            return;
        }
        Outcome::Ok { graph, hooks } => (graph, hooks),
    };
    obs!("B", "ok".to_string());

    // E: raw edges in order.
    obs!(
        "E",
        fmt_edges(
            g.graph
                .raw_edges()
                .iter()
                .map(|e| (e.source().index(), e.target().index(), &e.weight)),
        ),
    );

    // K: ranks.
    let ranks: Vec<usize> = g.ranks().iter().map(|r| r.0).collect();
    obs!("K", obs_list(&ranks));

    // TI: iter()
    let ti: Vec<usize> = g.iter().map(|f| f.idx).collect();
    obs!("TI", obs_list(&ti));

    // TS: toposort() walked over the public graph (same nodes / edges / edge order as the private
    // graph_structure the Topo was created from).
    let mut ts = Vec::new();
    {
        let mut topo = g.toposort();
        while let Some(fn_id) = topo.next(&g.graph) {
            ts.push(fn_id.index());
        }
    }
    obs!("TS", obs_list(&ts));

    // TR: iter_rev()
    let tr: Vec<usize> = g.iter_rev().map(|f| f.idx).collect();
    obs!("TR", obs_list(&tr));

    // TM: map(..)
    let tm: Vec<usize> = g.map(|f: &mut Fun| f.idx).collect();
    obs!("TM", obs_list(&tm));

    // FO: fold(..)
    let fo: Vec<usize> = g.fold(Vec::new(), |mut v: Vec<usize>, f: &mut Fun| {
        v.push(f.idx);
        v
    });
    obs!("FO", obs_list(&fo));

    // FE: for_each(..)
    let mut fe = Vec::new();
    g.for_each(|f: &mut Fun| fe.push(f.idx));
    obs!("FE", obs_list(&fe));

    // TN: iter_insertion()
    let tn: Vec<usize> = g.iter_insertion().map(|f| f.idx).collect();
    obs!("TN", obs_list(&tn));
    // TNM: iter_insertion_mut(); TNI: iter_insertion_with_indices() as `<FnId>:<function>`
    let tnm: Vec<usize> = g.iter_insertion_mut().map(|f| f.idx).collect();
    obs!("TNM", obs_list(&tnm));
    let tni: Vec<String> = g
        .iter_insertion_with_indices()
        .map(|(id, f)| format!("{}:{}", id.index(), f.idx))
        .collect();
    obs!("TNI", if tni.is_empty() { "-".to_string() } else { tni.join(" ") });

    // PM1..PM4: a traversal after a partially consumed one (all on the same graph value):
    // map().next() dropped, then for_each; map().take(n/2) consumed, then fold; a map collected
    // into a Result that short-circuits at the second function, then map; iter().next(), then iter
    {
        let _ = g.map(|f: &mut Fun| f.idx).next();
        let mut v = Vec::new();
        g.for_each(|f: &mut Fun| v.push(f.idx));
        obs!("PM1", obs_list(&v));
        let half = g.graph.node_count() / 2;
        let _: Vec<usize> = g.map(|f: &mut Fun| f.idx).take(half).collect();
        let v: Vec<usize> = g.fold(Vec::new(), |mut v: Vec<usize>, f: &mut Fun| {
            v.push(f.idx);
            v
        });
        obs!("PM2", obs_list(&v));
        let mut seen = 0usize;
        let _: Result<Vec<usize>, ()> = g
            .map(|f: &mut Fun| {
                seen += 1;
                if seen >= 2 {
                    Err(())
                } else {
                    Ok(f.idx)
                }
            })
            .collect();
        let v: Vec<usize> = g.map(|f: &mut Fun| f.idx).collect();
        obs!("PM3", obs_list(&v));
        let _ = g.iter().next();
        let v: Vec<usize> = g.iter().map(|f| f.idx).collect();
        obs!("PM4", obs_list(&v));
    }

    // NI / NR / ZI / ZR: several lazy iterators of one graph value alive at once: the outer order of a
    // nested iter() loop whose inner loop runs an iter() (NI) or an iter_rev() (NR) to the end, and
    // iter() zipped with iter_rev() (ZI = the left items, ZR = the right items)
    {
        let mut outer = Vec::new();
        for f in g.iter() {
            outer.push(f.idx);
            let _inner: usize = g.iter().count();
        }
        obs!("NI", obs_list(&outer));
        let mut outer = Vec::new();
        for f in g.iter_rev() {
            outer.push(f.idx);
            let _inner: usize = g.iter().count();
        }
        obs!("NR", obs_list(&outer));
        let (zl, zr): (Vec<usize>, Vec<usize>) = g.iter().zip(g.iter_rev()).map(|(a, b)| (a.idx, b.idx)).unzip();
        obs!("ZI", obs_list(&zl));
        obs!("ZR", obs_list(&zr));
    }

    // CL*: iteration orders of a `clone()`, of `FnGraph::new()` after `clone_from(&g)`, and of a
    // different graph (chain 0 -> 1 -> 2) after `clone_from(&g)`
    {
        let order = |x: &FnGraph<Fun>| -> (String, String) {
            (
                obs_list(&x.iter().map(|f| f.idx).collect::<Vec<_>>()),
                obs_list(&x.iter_rev().map(|f| f.idx).collect::<Vec<_>>()),
            )
        };
        let c1 = g.clone();
        let (i, r) = order(&c1);
        obs!("CLI", i);
        obs!("CLR", r);
        let mut c2: FnGraph<Fun> = FnGraph::new();
        c2.clone_from(&g);
        let (i, r) = order(&c2);
        obs!("CFI", i);
        obs!("CFR", r);
        let chain = [
            Op::F { fid: 1, rd: vec![], wr: vec![] },
            Op::F { fid: 2, rd: vec![], wr: vec![] },
            Op::F { fid: 3, rd: vec![], wr: vec![] },
            Op::L(0, 1),
            Op::L(1, 2),
        ];
        if let Outcome::Ok { graph: mut c3, .. } = build_ops(&chain).outcome {
            c3.clone_from(&g);
            let (i, r) = order(&c3);
            obs!("CGI", i);
            obs!("CGR", r);
            obs!("CEQ", ((c3 == g) as u8).to_string());
        }
    }

    // TF / TE
    let mut tf_entries = Vec::new();
    let mut te_entries = Vec::new();
    for &k in &c.tf {
        let mut visited = Vec::new();
        let res: Result<usize, usize> = g.try_fold(0usize, |acc, f: &mut Fun| {
            visited.push(f.idx);
            if f.idx == k {
                Err(k)
            } else {
                Ok(acc + 1)
            }
        });
        tf_entries.push((k, visited, res.err()));

        let mut visited = Vec::new();
        let res: Result<(), usize> = g.try_for_each(|f: &mut Fun| {
            visited.push(f.idx);
            if f.idx == k {
                Err(k)
            } else {
                Ok(())
            }
        });
        te_entries.push((k, visited, res.err()));
    }
    obs!("TF", fmt_try(&tf_entries));
    obs!("TE", fmt_try(&te_entries));

    // P: work counters around build().
    if let Some((pops, queries)) = hooks {
        obs!("P", format!("{pops} {queries}"));
    }

    // Q: same op sequence built a second time from scratch.
    let second = build_ops(&c.ops);
    match second.outcome {
        Outcome::Ok { graph: g2, .. } => {
            let eq = g == g2;
            let ranks_eq = g.ranks() == g2.ranks();
            obs!("Q", format!("{} {}", eq as u8, ranks_eq as u8));
        }
        _ => obs!("Q", "X X".to_string()),
    }

    #[cfg(feature = "graph_info")]
    graph_info_obs(id, &g, lines);
}

#[cfg(feature = "graph_info")]
fn graph_info_obs(id: u64, g: &FnGraph<Fun>, lines: &mut Vec<String>) {
    use fn_graph::GraphInfo;

    let mut obs = |tag: &str, body: String| lines.push(format!("OBS {id} {tag} {body}"));

    let gi = match catch_unwind(AssertUnwindSafe(|| {
        GraphInfo::from_graph(g, |f: &Fun| f.fid)
    })) {
        Ok(gi) => gi,
        Err(_) => {
            obs("GP", "P".to_string());
            return;
        }
    };

    /// Node index of a reference yielded by `GraphInfo::iter*` (node values need not be unique, so
    /// this goes by address rather than by value).
    fn index_of(gi: &GraphInfo<u64>, r: &u64) -> usize {
        gi.graph
            .raw_nodes()
            .iter()
            .position(|n| std::ptr::eq(&n.weight, r))
            .expect("reference yielded by GraphInfo points into its node array")
    }
    fn edges_of(gi: &GraphInfo<u64>) -> String {
        fmt_edges(
            gi.graph
                .raw_edges()
                .iter()
                .map(|e| (e.source().index(), e.target().index(), &e.weight)),
        )
    }
    fn list_u64(v: &[u64]) -> String {
        if v.is_empty() {
            return "-".to_string();
        }
        v.iter()
            .map(|x| x.to_string())
            .collect::<Vec<_>>()
            .join(" ")
    }

    let gn: Vec<u64> = gi.graph.raw_nodes().iter().map(|n| n.weight).collect();
    obs("GN", list_u64(&gn));
    obs("GE", edges_of(&gi));
    let gi_iter: Vec<usize> = gi.iter().map(|r| index_of(&gi, r)).collect();
    obs("GI", obs_list(&gi_iter));
    let gr_iter: Vec<usize> = gi.iter_rev().map(|r| index_of(&gi, r)).collect();
    obs("GR", obs_list(&gr_iter));

    // GY: the YAML text itself (the model emits the same text: `Yaml.gi_yaml`), one line, `\n` written as `|`.
    match serde_yaml_ng::to_string(&gi) {
        Ok(s) => obs("GY", s.replace('\n', "|")),
        Err(_) => obs("GY", "E".to_string()),
    }
    // GYB / GYG: the reader on texts the writer never produced from a built graph (malformed stream): one more edge
    // triple appended whose target is not a node (petgraph must refuse it: `E`), and one from the first to the last
    // function of `iter()` (n >= 2: it cannot close a cycle, so the text is that of a legitimate GraphInfo value and
    // must be read back with that edge) - `Yaml.gi_parse` decides alike.
    if let Ok(s) = serde_yaml_ng::to_string(&gi) {
        let n = gn.len();
        let with_edge = |a: usize, b: usize, k: &str| -> String {
            let head = match s.strip_suffix("  edges: []\n") {
                Some(h) => format!("{h}  edges:\n"),
                None => s.clone(),
            };
            format!("{head}  - - {a}\n    - {b}\n    - {k}\n")
        };
        let read = |t: String| match serde_yaml_ng::from_str::<GraphInfo<u64>>(&t) {
            Ok(g2) => format!("ok {}", g2.graph.edge_count()),
            Err(_) => "E".to_string(),
        };
        obs("GYB", read(with_edge(0, n, "Logic")));
        if n >= 2 {
            obs("GYG", read(with_edge(gi_iter[0], gi_iter[n - 1], "Data")));
        }
    }
    // GS: serde_yaml_ng round trip.
    let round = serde_yaml_ng::to_string(&gi)
        .map_err(|_| ())
        .and_then(|s| serde_yaml_ng::from_str::<GraphInfo<u64>>(&s).map_err(|_| ()));
    match round {
        Ok(gi2) => {
            obs("GS", ((gi2 == gi) as u8).to_string());
            obs("GSE", edges_of(&gi2));
            let gsi: Vec<usize> = gi2.iter().map(|r| index_of(&gi2, r)).collect();
            obs("GSI", obs_list(&gsi));
        }
        Err(()) => obs("GS", "E".to_string()),
    }
    // GS2: the same round trip through a `serde_yaml_ng::Value` and through a reader (deserialisers
    // that hand out owned strings instead of strings borrowed from the input)
    let via_value = serde_yaml_ng::to_value(&gi)
        .map_err(|_| ())
        .and_then(|v| serde_yaml_ng::from_value::<GraphInfo<u64>>(v).map_err(|_| ()));
    let via_reader = serde_yaml_ng::to_string(&gi).map_err(|_| ()).and_then(|s| {
        serde_yaml_ng::from_reader::<_, GraphInfo<u64>>(std::io::Cursor::new(s.into_bytes())).map_err(|_| ())
    });
    let ok = |r: &Result<GraphInfo<u64>, ()>| match r {
        Ok(g2) => ((*g2 == gi) as u8).to_string(),
        Err(()) => "E".to_string(),
    };
    obs("GS2", format!("{} {}", ok(&via_value), ok(&via_reader)));
}

fn run_bp(c: &CaseBP, lines: &mut Vec<String>, flags: &mut CaseFlags) {
    let id = c.id;
    let a = build_ops(&c.a);
    let b = build_ops(&c.b);
    flags.has_cyc = a.r.iter().chain(b.r.iter()).any(|t| t == "cyc");
    for o in [&a.outcome, &b.outcome] {
        match o {
            Outcome::OpPanic => flags.op_panic = true,
            Outcome::BuildPanic => flags.build_panic = true,
            Outcome::Ok { .. } => {}
        }
    }
    match (a.outcome, b.outcome) {
        (Outcome::Ok { graph: ga, .. }, Outcome::Ok { graph: gb, .. }) => {
            lines.push(format!("OBS {id} EQ {}", (ga == gb) as u8));
            lines.push(format!("OBS {id} EQK {}", (ga.ranks() == gb.ranks()) as u8));
        }
        _ => {
            lines.push(format!("OBS {id} EQ X"));
            lines.push(format!("OBS {id} EQK X"));
        }
    }
}
