//! Generators for builder cases. All randomness comes from the single `Rng` passed in; every case
//! gets a fresh id from one counter. Cases are handed to a sink as they are generated.

use crate::builder_case::{Case, CaseB, CaseBP, Op};
use crate::rng::Rng;

#[derive(Clone, Copy, Debug, PartialEq, Eq)]
pub enum Tier {
    Quick,
    Thorough,
}

impl Tier {
    pub fn parse(s: &str) -> Option<Tier> {
        match s {
            "quick" => Some(Tier::Quick),
            "thorough" => Some(Tier::Thorough),
            _ => None,
        }
    }
}

/// Upper bound on the number of root-to-node paths (= rank calculation queue pops of the current
/// implementation) of generated `rank` cases, so that a dense random DAG cannot stall the run.
const RANK_POPS_CAP: u128 = 20_000;

struct Gen<'a> {
    rng: &'a mut Rng,
    next_id: u64,
    sink: &'a mut dyn FnMut(Case),
}

impl<'a> Gen<'a> {
    fn emit_b(&mut self, family: &str, ops: Vec<Op>, tf: Vec<usize>) {
        let id = self.next_id;
        self.next_id += 1;
        (self.sink)(Case::B(CaseB {
            id,
            family: family.to_string(),
            ops,
            tf,
        }));
    }

    fn emit_bp(&mut self, family: &str, a: Vec<Op>, b: Vec<Op>) {
        let id = self.next_id;
        self.next_id += 1;
        (self.sink)(Case::BP(CaseBP {
            id,
            family: family.to_string(),
            a,
            b,
        }));
    }
}

/// Generates all builder cases of the tier, in a fixed family order.
pub fn generate(tier: Tier, rng: &mut Rng, sink: &mut dyn FnMut(Case)) {
    let mut g = Gen {
        rng,
        next_id: 1,
        sink,
    };
    // a panic while generating one family (the generators run the library to choose events)
    // must not lose the other families
    if std::panic::catch_unwind(std::panic::AssertUnwindSafe(|| gen_exh3(&mut g))).is_err() {
        crate::GEN_PANICKED.store(true, std::sync::atomic::Ordering::SeqCst);
        eprintln!("generator family gen_exh3 panicked");
    }
    if std::panic::catch_unwind(std::panic::AssertUnwindSafe(|| gen_exh4(&mut g, tier))).is_err() {
        crate::GEN_PANICKED.store(true, std::sync::atomic::Ordering::SeqCst);
        eprintln!("generator family gen_exh4 panicked");
    }
    if std::panic::catch_unwind(std::panic::AssertUnwindSafe(|| gen_exh2ops(&mut g, tier))).is_err() {
        crate::GEN_PANICKED.store(true, std::sync::atomic::Ordering::SeqCst);
        eprintln!("generator family gen_exh2ops panicked");
    }
    if std::panic::catch_unwind(std::panic::AssertUnwindSafe(|| gen_rand(&mut g, tier))).is_err() {
        crate::GEN_PANICKED.store(true, std::sync::atomic::Ordering::SeqCst);
        eprintln!("generator family gen_rand panicked");
    }
    if std::panic::catch_unwind(std::panic::AssertUnwindSafe(|| gen_rank(&mut g, tier))).is_err() {
        crate::GEN_PANICKED.store(true, std::sync::atomic::Ordering::SeqCst);
        eprintln!("generator family gen_rank panicked");
    }
    if std::panic::catch_unwind(std::panic::AssertUnwindSafe(|| gen_layered(&mut g, tier))).is_err() {
        crate::GEN_PANICKED.store(true, std::sync::atomic::Ordering::SeqCst);
        eprintln!("generator family gen_layered panicked");
    }
    if std::panic::catch_unwind(std::panic::AssertUnwindSafe(|| gen_wide(&mut g))).is_err() {
        crate::GEN_PANICKED.store(true, std::sync::atomic::Ordering::SeqCst);
        eprintln!("generator family gen_wide panicked");
    }
    if std::panic::catch_unwind(std::panic::AssertUnwindSafe(|| gen_bigconf(&mut g, tier))).is_err() {
        crate::GEN_PANICKED.store(true, std::sync::atomic::Ordering::SeqCst);
        eprintln!("generator family gen_bigconf panicked");
    }
    if std::panic::catch_unwind(std::panic::AssertUnwindSafe(|| gen_big256(&mut g))).is_err() {
        crate::GEN_PANICKED.store(true, std::sync::atomic::Ordering::SeqCst);
        eprintln!("generator family gen_big256 panicked");
    }
    if std::panic::catch_unwind(std::panic::AssertUnwindSafe(|| gen_manytypes(&mut g, tier))).is_err() {
        crate::GEN_PANICKED.store(true, std::sync::atomic::Ordering::SeqCst);
        eprintln!("generator family gen_manytypes panicked");
    }
    if std::panic::catch_unwind(std::panic::AssertUnwindSafe(|| gen_longlists(&mut g, tier))).is_err() {
        crate::GEN_PANICKED.store(true, std::sync::atomic::Ordering::SeqCst);
        eprintln!("generator family gen_longlists panicked");
    }
    if std::panic::catch_unwind(std::panic::AssertUnwindSafe(|| gen_timed(&mut g, tier))).is_err() {
        crate::GEN_PANICKED.store(true, std::sync::atomic::Ordering::SeqCst);
        eprintln!("generator family gen_timed panicked");
    }
    if std::panic::catch_unwind(std::panic::AssertUnwindSafe(|| gen_malformed(&mut g, tier))).is_err() {
        crate::GEN_PANICKED.store(true, std::sync::atomic::Ordering::SeqCst);
        eprintln!("generator family gen_malformed panicked");
    }
    if std::panic::catch_unwind(std::panic::AssertUnwindSafe(|| gen_pair(&mut g, tier))).is_err() {
        crate::GEN_PANICKED.store(true, std::sync::atomic::Ordering::SeqCst);
        eprintln!("generator family gen_pair panicked");
    }
    if std::panic::catch_unwind(std::panic::AssertUnwindSafe(|| gen_deep(&mut g))).is_err() {
        crate::GEN_PANICKED.store(true, std::sync::atomic::Ordering::SeqCst);
        eprintln!("generator family gen_deep panicked");
    }
}

// ---------------------------------------------------------------------------------------------
// helpers
// ---------------------------------------------------------------------------------------------

/// Access of one function to one data type.
#[derive(Clone, Copy, Debug, PartialEq, Eq)]
enum Acc {
    None,
    R,
    W,
}

const ACCS: [Acc; 3] = [Acc::None, Acc::R, Acc::W];

/// `F` op from per-type accesses (`accs[k]` = access to data type `k`).
fn f_op(fid: u64, accs: &[Acc]) -> Op {
    let mut rd = Vec::new();
    let mut wr = Vec::new();
    for (k, a) in accs.iter().enumerate() {
        match a {
            Acc::None => {}
            Acc::R => rd.push(k),
            Acc::W => wr.push(k),
        }
    }
    Op::F { fid, rd, wr }
}

fn f_plain(fid: u64) -> Op {
    Op::F {
        fid,
        rd: Vec::new(),
        wr: Vec::new(),
    }
}

/// Ordered pairs `(a, b)`, `a != b`, over `0..n`, in lexicographic order.
fn ordered_pairs(n: usize) -> Vec<(usize, usize)> {
    let mut v = Vec::new();
    for a in 0..n {
        for b in 0..n {
            if a != b {
                v.push((a, b));
            }
        }
    }
    v
}

fn subset_of(pairs: &[(usize, usize)], mask: usize) -> Vec<(usize, usize)> {
    pairs
        .iter()
        .enumerate()
        .filter(|(i, _)| mask & (1 << i) != 0)
        .map(|(_, p)| *p)
        .collect()
}

/// One random access over two data types: `{none, R, W}` for type 0 times the same for type 1.
fn random_acc2(rng: &mut Rng) -> [Acc; 2] {
    [ACCS[rng.below(3)], ACCS[rng.below(3)]]
}

fn fixed_fid(idx: usize) -> u64 {
    100 + idx as u64
}

// ---------------------------------------------------------------------------------------------
// exh3
// ---------------------------------------------------------------------------------------------

fn gen_exh3(g: &mut Gen) {
    let n = 3;
    let pairs = ordered_pairs(n);
    let tf: Vec<usize> = (0..n).collect();
    for mask in 0..(1usize << pairs.len()) {
        let subset = subset_of(&pairs, mask);
        for rev in [false, true] {
            let mut edges = subset.clone();
            if rev {
                edges.reverse();
            }
            for pat in 0..27usize {
                let accs = [ACCS[pat / 9], ACCS[(pat / 3) % 3], ACCS[pat % 3]];
                let mut ops = Vec::with_capacity(n + edges.len());
                for (i, a) in accs.iter().enumerate() {
                    ops.push(f_op(fixed_fid(i), &[*a]));
                }
                for &(a, b) in &edges {
                    ops.push(Op::L(a, b));
                }
                g.emit_b(if rev { "exh3-rev" } else { "exh3-lex" }, ops, tf.clone());
            }
        }
        // One extra case per subset: random L/C kinds, random two-type access pattern.
        let mut ops = Vec::with_capacity(n + subset.len());
        for i in 0..n {
            let acc = random_acc2(g.rng);
            ops.push(f_op(fixed_fid(i), &acc));
        }
        for &(a, b) in &subset {
            ops.push(if g.rng.chance(1, 2) {
                Op::C(a, b)
            } else {
                Op::L(a, b)
            });
        }
        g.emit_b("exh3-mix", ops, tf.clone());
    }
}

// ---------------------------------------------------------------------------------------------
// exh4
// ---------------------------------------------------------------------------------------------

fn gen_exh4(g: &mut Gen, tier: Tier) {
    let n = 4;
    let pairs = ordered_pairs(n);
    let tf: Vec<usize> = (0..n).collect();
    let patterns = match tier {
        Tier::Quick => 1,
        Tier::Thorough => 4,
    };
    for mask in 0..(1usize << pairs.len()) {
        let subset = subset_of(&pairs, mask);
        for rev in [false, true] {
            let mut edges = subset.clone();
            if rev {
                edges.reverse();
            }
            for _ in 0..patterns {
                let mut ops = Vec::with_capacity(n + edges.len());
                for i in 0..n {
                    let acc = random_acc2(g.rng);
                    ops.push(f_op(fixed_fid(i), &acc));
                }
                for &(a, b) in &edges {
                    ops.push(Op::L(a, b));
                }
                g.emit_b(if rev { "exh4-rev" } else { "exh4-lex" }, ops, tf.clone());
            }
        }
    }
}

// ---------------------------------------------------------------------------------------------
// exh2ops
// ---------------------------------------------------------------------------------------------

fn gen_exh2ops(g: &mut Gen, tier: Tier) {
    // 18 possible calls: {L, C} x all 9 ordered pairs over 0..3, self pairs included.
    let mut calls = Vec::new();
    for contains in [false, true] {
        for a in 0..3 {
            for b in 0..3 {
                calls.push(if contains { Op::C(a, b) } else { Op::L(a, b) });
            }
        }
    }
    let k = calls.len();
    let prefix = || {
        vec![
            f_op(fixed_fid(0), &[Acc::W]),
            f_op(fixed_fid(1), &[Acc::R]),
            f_op(fixed_fid(2), &[Acc::W]),
        ]
    };
    for i in 0..k {
        let mut ops = prefix();
        ops.push(calls[i].clone());
        g.emit_b("exh2ops-1", ops, Vec::new());
    }
    for i in 0..k {
        for j in 0..k {
            let mut ops = prefix();
            ops.push(calls[i].clone());
            ops.push(calls[j].clone());
            g.emit_b("exh2ops-2", ops, Vec::new());
        }
    }
    match tier {
        Tier::Quick => {
            for _ in 0..1500 {
                let mut ops = prefix();
                for _ in 0..3 {
                    let c = g.rng.below(k);
                    ops.push(calls[c].clone());
                }
                g.emit_b("exh2ops-3r", ops, Vec::new());
            }
        }
        Tier::Thorough => {
            for i in 0..k {
                for j in 0..k {
                    for l in 0..k {
                        let mut ops = prefix();
                        ops.push(calls[i].clone());
                        ops.push(calls[j].clone());
                        ops.push(calls[l].clone());
                        g.emit_b("exh2ops-3", ops, Vec::new());
                    }
                }
            }
        }
    }
}

// ---------------------------------------------------------------------------------------------
// rand
// ---------------------------------------------------------------------------------------------

/// State of one random call-sequence generation.
struct RandSeq {
    /// Hidden position of each node; "valid" pairs go from lower to higher position.
    pos: Vec<usize>,
    /// Number of `F` ops emitted so far.
    added: usize,
    /// Pairs used by earlier edge calls, with `contains` flag.
    hist: Vec<(usize, usize, bool)>,
}

impl RandSeq {
    /// Random pair of distinct added nodes, ordered by hidden position. Requires `added >= 2`.
    fn valid_pair(&self, rng: &mut Rng) -> (usize, usize) {
        let a = rng.below(self.added);
        let mut b = rng.below(self.added - 1);
        if b >= a {
            b += 1;
        }
        if self.pos[a] < self.pos[b] {
            (a, b)
        } else {
            (b, a)
        }
    }

    /// A deliberately dubious pair together with its kind.
    fn bad_pair(&self, rng: &mut Rng, contains: bool) -> (usize, usize, bool) {
        match rng.below(4) {
            // reverse of an earlier pair (cyclic when that edge went in)
            0 if !self.hist.is_empty() => {
                let (a, b, _) = self.hist[rng.below(self.hist.len())];
                (b, a, contains)
            }
            // the same pair again with the other kind
            1 if !self.hist.is_empty() => {
                let (a, b, c) = self.hist[rng.below(self.hist.len())];
                (a, b, !c)
            }
            // self edge
            2 => {
                let a = rng.below(self.added);
                (a, a, contains)
            }
            // a pair against the hidden order
            _ => {
                if self.added >= 2 {
                    let (a, b) = self.valid_pair(rng);
                    (b, a, contains)
                } else {
                    let a = rng.below(self.added);
                    (a, a, contains)
                }
            }
        }
    }

    /// One edge call using only ids already returned. Requires `added >= 1`.
    fn edge_call(&mut self, rng: &mut Rng) -> Op {
        let contains = rng.chance(1, 3);
        if self.added < 2 {
            self.hist.push((0, 0, contains));
            return if contains { Op::C(0, 0) } else { Op::L(0, 0) };
        }
        let bad = rng.chance(1, 10);
        let batch = rng.chance(15, 100);
        if batch {
            let len = [0usize, 1, 1, 2, 2, 3, 3, 4, 5, 6, 8, 15, 16, 17, 20, 31, 32, 33, 40][rng.below(19)];
            let bad_at = if bad && len > 0 { Some(rng.below(len)) } else { None };
            let mut pairs = Vec::with_capacity(len);
            for i in 0..len {
                let (a, b) = if bad_at == Some(i) {
                    let (a, b, _) = self.bad_pair(rng, contains);
                    (a, b)
                } else {
                    self.valid_pair(rng)
                };
                pairs.push((a, b));
            }
            for &(a, b) in &pairs {
                self.hist.push((a, b, contains));
            }
            if contains {
                Op::CB(pairs)
            } else {
                Op::LB(pairs)
            }
        } else {
            let (a, b, c) = if bad {
                self.bad_pair(rng, contains)
            } else {
                let (a, b) = self.valid_pair(rng);
                (a, b, contains)
            };
            self.hist.push((a, b, c));
            if c {
                Op::C(a, b)
            } else {
                Op::L(a, b)
            }
        }
    }
}

/// Random `rand`-style op sequence with `n` in `n_lo..=n_hi`. Returns the ops and `n`.
fn rand_ops(rng: &mut Rng, n_lo: usize, n_hi: usize) -> (Vec<Op>, usize) {
    let n = n_lo + rng.below(n_hi - n_lo + 1);
    let ntypes = 1 + rng.below(3);
    // per (fn, type): percent chance of read / write
    let (p_r, p_w) = match rng.below(3) {
        0 => (10, 10),
        1 => (25, 25),
        _ => (40, 30),
    };
    // number of edge calls
    let calls = if n < 2 {
        rng.below(2)
    } else {
        match rng.below(3) {
            0 => n / 2 + rng.below(2),
            1 => n + rng.below(n / 2 + 1),
            _ => n * (n - 1) / 4 + rng.below(n + 1),
        }
    };
    let mut pos: Vec<usize> = (0..n).collect();
    rng.shuffle(&mut pos);
    let interleave = rng.chance(1, 3);

    let mut seq = RandSeq {
        pos,
        added: 0,
        hist: Vec::new(),
    };
    let mut ops = Vec::with_capacity(n + calls);
    let mut made = 0usize;
    while seq.added < n || made < calls {
        let add_f = if seq.added == n {
            false
        } else if made >= calls || !interleave || seq.added < 2 {
            true
        } else {
            rng.chance(1, 2)
        };
        if add_f {
            let idx = seq.added;
            let fid = 100 * (idx as u64 + 1) + rng.below(100) as u64;
            let mut rd = Vec::new();
            let mut wr = Vec::new();
            for k in 0..ntypes {
                let x = rng.below(100);
                if x < p_r {
                    rd.push(k);
                } else if x < p_r + p_w {
                    wr.push(k);
                }
                // rarely: the same type both read and written
                if rng.chance(1, 40) {
                    if !rd.contains(&k) {
                        rd.push(k);
                    }
                    if !wr.contains(&k) {
                        wr.push(k);
                    }
                }
            }
            ops.push(Op::F { fid, rd, wr });
            seq.added += 1;
        } else {
            ops.push(seq.edge_call(rng));
            made += 1;
        }
    }
    (ops, n)
}

fn gen_rand(g: &mut Gen, tier: Tier) {
    let count = match tier {
        Tier::Quick => 2500,
        Tier::Thorough => 40000,
    };
    for _ in 0..count {
        let (ops, n) = rand_ops(g.rng, 1, 12);
        let tf = vec![g.rng.below(n), g.rng.below(n)];
        g.emit_b("rand", ops, tf);
    }
}

// ---------------------------------------------------------------------------------------------
// rank
// ---------------------------------------------------------------------------------------------

/// Sum over all nodes of the number of root-to-node paths (saturating).
fn path_total(n: usize, order: &[usize], edges: &[(usize, usize)]) -> u128 {
    let mut parents: Vec<Vec<usize>> = vec![Vec::new(); n];
    for &(a, b) in edges {
        parents[b].push(a);
    }
    let mut paths = vec![0u128; n];
    let mut total = 0u128;
    for &v in order {
        paths[v] = if parents[v].is_empty() {
            1
        } else {
            parents[v]
                .iter()
                .fold(0u128, |s, &p| s.saturating_add(paths[p]))
        };
        total = total.saturating_add(paths[v]);
    }
    total
}

fn gen_rank(g: &mut Gen, tier: Tier) {
    let count = match tier {
        Tier::Quick => 200,
        Tier::Thorough => 2000,
    };
    for _ in 0..count {
        let n = 5 + g.rng.below(36);
        // order[i] = node at hidden position i; pos = inverse
        let mut order: Vec<usize> = (0..n).collect();
        g.rng.shuffle(&mut order);
        let mut pos = vec![0usize; n];
        for (i, &v) in order.iter().enumerate() {
            pos[v] = i;
        }
        let target = n / 2 + g.rng.below(7 * n / 2 + 1);
        let mut present = vec![false; n * n];
        let mut edges: Vec<(usize, usize)> = Vec::new();
        for _ in 0..target {
            let a = g.rng.below(n);
            let mut b = g.rng.below(n - 1);
            if b >= a {
                b += 1;
            }
            let (a, b) = if pos[a] < pos[b] { (a, b) } else { (b, a) };
            if !present[a * n + b] {
                present[a * n + b] = true;
                edges.push((a, b));
            }
        }
        while path_total(n, &order, &edges) > RANK_POPS_CAP {
            let i = g.rng.below(edges.len());
            edges.swap_remove(i);
        }
        g.rng.shuffle(&mut edges);
        let mut ops: Vec<Op> = (0..n).map(|i| f_plain(fixed_fid(i))).collect();
        for &(a, b) in &edges {
            ops.push(if g.rng.chance(1, 5) {
                Op::C(a, b)
            } else {
                Op::L(a, b)
            });
        }
        g.emit_b("rank", ops, Vec::new());
    }
}

// ---------------------------------------------------------------------------------------------
// layered
// ---------------------------------------------------------------------------------------------

fn gen_layered(g: &mut Gen, tier: Tier) {
    let max_layers = match tier {
        Tier::Quick => 10,
        Tier::Thorough => 14,
    };
    for w in [2usize, 3] {
        for layers in 2..=max_layers {
            for write0 in [false, true] {
                let n = w * layers;
                let mut ops: Vec<Op> = (0..n)
                    .map(|i| {
                        if write0 {
                            f_op(fixed_fid(i), &[Acc::W])
                        } else {
                            f_plain(fixed_fid(i))
                        }
                    })
                    .collect();
                for layer in 0..layers - 1 {
                    for a in 0..w {
                        for b in 0..w {
                            ops.push(Op::L(layer * w + a, (layer + 1) * w + b));
                        }
                    }
                }
                g.emit_b(
                    if write0 { "layered-w0" } else { "layered-plain" },
                    ops,
                    Vec::new(),
                );
            }
        }
    }
}

// ---------------------------------------------------------------------------------------------
// wide
// ---------------------------------------------------------------------------------------------

fn gen_wide(g: &mut Gen) {
    // The empty call sequence (no functions at all).
    g.emit_b("wide-empty", Vec::new(), Vec::new());
    for n in [17usize, 33, 65] {
        for variant in 0..4 {
            let (name, ops): (&str, Vec<Op>) = match variant {
                0 => ("wide-plain", (0..n).map(|i| f_plain(fixed_fid(i))).collect()),
                1 => (
                    "wide-w0",
                    (0..n).map(|i| f_op(fixed_fid(i), &[Acc::W])).collect(),
                ),
                2 => (
                    "wide-r0",
                    (0..n).map(|i| f_op(fixed_fid(i), &[Acc::R])).collect(),
                ),
                _ => (
                    "wide-alt",
                    (0..n)
                        .map(|i| f_op(fixed_fid(i), &[if i % 2 == 0 { Acc::R } else { Acc::W }]))
                        .collect(),
                ),
            };
            g.emit_b(name, ops, Vec::new());
        }
    }
}

// ---------------------------------------------------------------------------------------------
// bigconf: more than 20 functions, equal-rank conflicting functions, ranks not monotone in
// insertion order, several data types declared in arbitrary order
// ---------------------------------------------------------------------------------------------

/// `F` op whose read / write lists are in random order (declaration order must not matter).
fn f_op_shuffled(rng: &mut Rng, fid: u64, accs: &[Acc]) -> Op {
    match f_op(fid, accs) {
        Op::F { fid, mut rd, mut wr } => {
            // a declaration may list a type twice (two parameters of the same type)
            if !rd.is_empty() && rng.chance(1, 8) {
                let t = rd[rng.below(rd.len())];
                rd.push(t);
            }
            if !wr.is_empty() && rng.chance(1, 10) {
                let t = wr[rng.below(wr.len())];
                wr.push(t);
            }
            rng.shuffle(&mut rd);
            rng.shuffle(&mut wr);
            Op::F { fid, rd, wr }
        }
        other => other,
    }
}

fn gen_bigconf(g: &mut Gen, tier: Tier) {
    let count = match tier {
        Tier::Quick => 120,
        Tier::Thorough => 1500,
    };
    // deterministic rank patterns with every function writing type 0
    for n in [21usize, 24, 30, 36, 48] {
        for pattern in 0..3 {
            let mut ops: Vec<Op> = (0..n).map(|i| f_op(fixed_fid(i), &[Acc::W])).collect();
            match pattern {
                0 => {
                    // ranks 0,1,0,0,1,0,...
                    let mut i = 0;
                    while i + 1 < n {
                        ops.push(Op::L(i, i + 1));
                        i += 3;
                    }
                }
                1 => {
                    // roots inserted after their successors: ranks 2,1,0,2,1,0,...
                    let mut i = 0;
                    while i + 2 < n {
                        ops.push(Op::L(i + 2, i + 1));
                        ops.push(Op::L(i + 1, i));
                        i += 3;
                    }
                }
                _ => {
                    // ranks 1,0,1,0,...
                    let mut i = 0;
                    while i + 1 < n {
                        ops.push(Op::C(i + 1, i));
                        i += 2;
                    }
                }
            }
            g.emit_b("bigconf-pattern", ops, Vec::new());
        }
    }
    for _ in 0..count {
        let n = 21 + g.rng.below(28);
        let types = 1 + g.rng.below(3);
        // random levels; edges go from a lower to a higher level
        let levels: Vec<usize> = (0..n).map(|_| g.rng.below(4)).collect();
        let mut ops: Vec<Op> = Vec::new();
        for i in 0..n {
            let accs: Vec<Acc> = (0..types)
                .map(|_| {
                    let r = g.rng.below(10);
                    if r < 3 {
                        Acc::W
                    } else if r < 5 {
                        Acc::R
                    } else {
                        Acc::None
                    }
                })
                .collect();
            let op = f_op_shuffled(g.rng, fixed_fid(i), &accs);
            ops.push(op);
        }
        let n_edges = n / 2 + g.rng.below(n);
        for _ in 0..n_edges {
            let a = g.rng.below(n);
            let b = g.rng.below(n);
            if levels[a] < levels[b] {
                ops.push(if g.rng.chance(1, 3) { Op::C(a, b) } else { Op::L(a, b) });
            }
        }
        g.emit_b("bigconf-rand", ops, Vec::new());
    }
}

// ---------------------------------------------------------------------------------------------
// timed: path-rich layered block beside a disconnected chain (and variants), built under a
// wall-clock budget: a path search that enumerates paths instead of nodes does not return
// ---------------------------------------------------------------------------------------------

/// big256: 256 and more functions of which only a few declare data access, placed so that the
/// conflicting pairs sit 256 / 255 / 254 positions before the end of the rank-sorted order (and at
/// the very beginning); duplicate type declarations.
fn gen_big256(g: &mut Gen) {
    let fo = |fid: u64, rd: Vec<usize>, wr: Vec<usize>| Op::F { fid, rd, wr };
    for n in [256usize, 257, 258, 300, 513] {
        for variant in 0..2 {
            let mut ops: Vec<Op> = (0..n).map(|i| fo(fixed_fid(i), vec![], vec![])).collect();
            let mut t = 0usize;
            let mut pair = |a: usize, b: usize, ops: &mut Vec<Op>| {
                if a < n && b < n {
                    ops[a] = fo(fixed_fid(a), vec![], vec![t]);
                    ops[b] = if variant == 0 {
                        fo(fixed_fid(b), vec![], vec![t])
                    } else {
                        fo(fixed_fid(b), vec![t, t], vec![])
                    };
                    t += 1;
                }
            };
            pair(0, 1, &mut ops);
            if n >= 256 {
                pair(n - 256, n - 255, &mut ops);
            }
            if n >= 258 {
                pair(n - 254, n - 253, &mut ops);
            }
            if n >= 512 {
                pair(n - 512, n - 511, &mut ops);
            }
            pair(n - 2, n - 1, &mut ops);
            if variant == 1 {
                // a few logic edges so that the rank order differs from the insertion order
                ops.push(Op::L(n - 1, 5));
                ops.push(Op::L(7, 3));
            }
            g.emit_b("big256", ops, Vec::new());
        }
    }
}

/// manytypes: more distinct data types in one graph than any machine word has bits (65..200), and
/// single functions declaring more types than a small inline vector holds.
fn gen_manytypes(g: &mut Gen, tier: Tier) {
    let fo = |fid: u64, rd: Vec<usize>, wr: Vec<usize>| Op::F { fid, rd, wr };
    // every function writes its own type: no conflicts at all
    for n in [66usize, 72, 130] {
        let ops: Vec<Op> = (0..n).map(|i| fo(fixed_fid(i), vec![], vec![i])).collect();
        g.emit_b("manytypes-own", ops, Vec::new());
    }
    // one function writes type 0, the others read it and write their own type
    for n in [70usize, 100] {
        let mut ops = vec![fo(fixed_fid(0), vec![], vec![0])];
        for i in 1..n {
            ops.push(fo(fixed_fid(i), vec![0], vec![i]));
        }
        ops.push(Op::L(3, 5));
        ops.push(Op::C(7, 2));
        g.emit_b("manytypes-init", ops, Vec::new());
    }
    // pairs (i, i + 64 k) share nothing, pairs (i, i + 1) share a written type
    {
        let n = 80usize;
        let mut ops = Vec::new();
        for i in 0..n {
            ops.push(fo(fixed_fid(i), vec![], vec![i, i + 100]));
        }
        for i in (0..n - 1).step_by(7) {
            ops[i + 1] = fo(fixed_fid(i + 1), vec![i], vec![i + 1, i + 101]);
        }
        g.emit_b("manytypes-alias", ops, Vec::new());
    }
    // a function declaring many types itself
    {
        let mut ops = vec![fo(fixed_fid(0), (0..12).collect(), (12..30).collect())];
        for i in 1..40usize {
            ops.push(fo(fixed_fid(i), vec![i % 30], vec![30 + i]));
        }
        g.emit_b("manytypes-fat", ops, Vec::new());
    }
    let count = match tier {
        Tier::Quick => 12,
        Tier::Thorough => 150,
    };
    for _ in 0..count {
        let n = 30 + g.rng.below(50);
        let universe = 66 + g.rng.below(135);
        let mut ops = Vec::new();
        for i in 0..n {
            let k = 1 + g.rng.below(3);
            let mut rd = Vec::new();
            let mut wr = Vec::new();
            for _ in 0..k {
                // a few hot types so that conflicts exist, the rest spread over the universe
                let t = if g.rng.chance(1, 3) { g.rng.below(4) } else { g.rng.below(universe) };
                if rd.contains(&t) || wr.contains(&t) {
                    continue;
                }
                if g.rng.chance(1, 2) {
                    wr.push(t);
                } else {
                    rd.push(t);
                }
            }
            ops.push(fo(fixed_fid(i), rd, wr));
        }
        for _ in 0..g.rng.below(n) {
            let a = g.rng.below(n);
            let b = g.rng.below(n);
            if a < b {
                ops.push(Op::L(a, b));
            } else if b < a && g.rng.chance(1, 3) {
                ops.push(Op::C(a, b));
            }
        }
        g.emit_b("manytypes-rand", ops, Vec::new());
    }
}

/// longlists: few functions whose read / write declarations are longer than the 8 entries a `TypeIds`
/// holds inline (9..16), next to short ones, over a small universe so that lists overlap; every list
/// in a random order (the order of the `TypeId`s themselves is unrelated to the type indices).
/// Sub-families: only reads shared between two long declarations (no edge may appear), one written
/// type hidden in a long read list of another function, long writer against short reader.
fn gen_longlists(g: &mut Gen, tier: Tier) {
    let fo = |fid: u64, rd: Vec<usize>, wr: Vec<usize>| Op::F { fid, rd, wr };
    let count = match tier {
        Tier::Quick => 260,
        Tier::Thorough => 4000,
    };
    // a list of `len` distinct types drawn from `pool` (shuffled)
    fn pick(rng: &mut Rng, pool: &[usize], len: usize) -> Vec<usize> {
        let mut p = pool.to_vec();
        rng.shuffle(&mut p);
        p.truncate(len.min(pool.len()));
        p
    }
    fn len_of(rng: &mut Rng) -> usize {
        match rng.below(6) {
            0 => 0,
            1 => 1 + rng.below(3),
            2 => 4 + rng.below(5),
            3 => 9,
            _ => 9 + rng.below(8),
        }
    }
    // targeted: the single shared type sits at every position of a long list
    for long_len in [9usize, 10, 13, 16] {
        for pos in [0usize, 1, long_len / 2, long_len - 2, long_len - 1] {
            for shape in 0..6 {
                let shared = 40usize;
                let mut long: Vec<usize> = (0..long_len - 1).collect();
                g.rng.shuffle(&mut long);
                long.insert(pos.min(long.len()), shared);
                let other: Vec<usize> = (20..20 + long_len).collect();
                let fid0 = g.rng.below(3) as u64 * 100 + g.rng.below(3) as u64;
                let fid1 = 1000 + g.rng.below(3) as u64;
                let ops = match shape {
                    // long reader, short writer of the shared type (both insertion orders)
                    0 => vec![fo(fid0, long.clone(), vec![]), fo(fid1, vec![], vec![shared])],
                    1 => vec![fo(fid1, vec![], vec![shared]), fo(fid0, long.clone(), vec![])],
                    // long writer, short reader
                    2 => vec![fo(fid0, vec![], long.clone()), fo(fid1, vec![shared], vec![])],
                    3 => vec![fo(fid1, vec![shared, 60, 61], vec![]), fo(fid0, vec![62], long.clone())],
                    // two long readers sharing only reads, one writes something unrelated: no edge
                    4 => vec![fo(fid0, long.clone(), vec![70]), fo(fid1, {
                        let mut o = other.clone();
                        o.push(shared);
                        o
                    }, vec![])],
                    // two long writers sharing one written type
                    _ => vec![fo(fid0, vec![71], long.clone()), fo(fid1, vec![], {
                        let mut o = other.clone();
                        o.insert(pos.min(o.len()), shared);
                        o
                    })],
                };
                g.emit_b("longlists-pos", ops, Vec::new());
            }
        }
    }
    for _ in 0..count {
        let n = 2 + g.rng.below(5);
        let universe = 10 + g.rng.below(22);
        let pool: Vec<usize> = (0..universe).collect();
        let mut ops = Vec::new();
        for i in 0..n {
            let rl = len_of(g.rng);
            let wl = if g.rng.chance(1, 3) { 0 } else { len_of(g.rng) };
            let all = pick(g.rng, &pool, rl + wl);
            let rl = rl.min(all.len());
            let (rd, wr) = all.split_at(rl);
            let fid = g.rng.below(9) as u64 * 50 + i as u64;
            ops.push(fo(fid, rd.to_vec(), wr.to_vec()));
        }
        // only forward logic or only backward contains edges within one case: never a cycle
        let fwd = g.rng.chance(1, 2);
        for _ in 0..g.rng.below(n) {
            let a = g.rng.below(n);
            let b = g.rng.below(n);
            if a < b {
                ops.push(if fwd { Op::L(a, b) } else { Op::C(b, a) });
            }
        }
        g.emit_b("longlists-rand", ops, Vec::new());
    }
}

/// nm-deep: long chains (depth = number of functions: 800 sink-first, 400 mixed, 400 root-first); built
/// once with a small stack. Generated last: a stack overflow ends the harness process. Monitors only (the model
/// walks unary numbers and lists; a 400-chain takes it minutes).
fn gen_deep(g: &mut Gen) {
    for variant in 0..3 {
        let n = if variant == 0 { 800usize } else { 400 };
        let mut ops: Vec<Op> = (0..n).map(|i| f_plain(fixed_fid(i))).collect();
        for i in 0..n - 1 {
            ops.push(match variant {
                0 => Op::L(i + 1, i),                                  // sink-first
                1 => if i % 3 == 0 { Op::C(i + 1, i) } else { Op::L(i + 1, i) },
                _ => Op::L(i, i + 1),                                  // root-first
            });
        }
        g.emit_b("nm-deep", ops, Vec::new());
    }
}

fn gen_timed(g: &mut Gen, tier: Tier) {
    let shapes: &[(usize, usize)] = match tier {
        Tier::Quick => &[(3, 18), (2, 28)],
        Tier::Thorough => &[(3, 12), (3, 14), (3, 16), (3, 18), (3, 20), (3, 22), (2, 22), (2, 26), (2, 30), (2, 34), (4, 10), (4, 14)],
    };
    for &(w, layers) in shapes {
        let variants = match tier {
            Tier::Quick => 1,
            Tier::Thorough => 3,
        };
        for variant in 0..variants {
            let block = w * layers;
            let chain = layers + 1;
            let n = block + chain;
            let mut ops: Vec<Op> = (0..n)
                .map(|i| {
                    if variant == 2 && i % 5 == 0 {
                        f_op(fixed_fid(i), &[Acc::R])
                    } else {
                        f_plain(fixed_fid(i))
                    }
                })
                .collect();
            for layer in 0..layers - 1 {
                for a in 0..w {
                    for b in 0..w {
                        ops.push(Op::L(layer * w + a, (layer + 1) * w + b));
                    }
                }
            }
            match variant {
                0 | 2 => {
                    // a disconnected chain, one longer than the block is deep
                    for i in 0..chain - 1 {
                        ops.push(Op::L(block + i, block + i + 1));
                    }
                }
                _ => {
                    // chain inserted in reverse
                    for i in (0..chain - 1).rev() {
                        ops.push(Op::C(block + i, block + i + 1));
                    }
                }
            }
            g.emit_b("timed-side", ops, Vec::new());
        }
    }
    // a function added first that conflicts with the head of a path-rich region: the Data edge the
    // builder adds points at a function with exponentially many downward paths
    let heads: &[(usize, bool)] = match tier {
        Tier::Quick => &[(34, true), (3 * 14, false)],
        Tier::Thorough => &[(30, true), (40, true), (48, true), (3 * 12, false), (3 * 16, false), (2 * 24, false)],
    };
    for &(m, dense) in heads {
        for setup_first in [true, false] {
            let mut ops: Vec<Op> = Vec::new();
            let base = if setup_first {
                ops.push(f_op(fixed_fid(0), &[Acc::W]));
                1
            } else {
                0
            };
            for i in 0..m {
                ops.push(if i == 0 {
                    f_op(fixed_fid(base + i), &[Acc::W])
                } else {
                    f_plain(fixed_fid(base + i))
                });
            }
            if !setup_first {
                ops.push(f_op(fixed_fid(m), &[Acc::W]));
            }
            if dense {
                for i in 0..m {
                    for j in (i + 1)..m {
                        ops.push(Op::L(base + i, base + j));
                    }
                }
            } else {
                // head -> layers of 3, complete between consecutive layers
                let w = 3;
                let layers = (m - 1) / w;
                for b in 0..w {
                    ops.push(Op::L(base, base + 1 + b));
                }
                for layer in 0..layers.saturating_sub(1) {
                    for a in 0..w {
                        for b in 0..w {
                            ops.push(Op::L(base + 1 + layer * w + a, base + 1 + (layer + 1) * w + b));
                        }
                    }
                }
            }
            g.emit_b("timed-head", ops, Vec::new());
        }
    }
}

// ---------------------------------------------------------------------------------------------
// malformed
// ---------------------------------------------------------------------------------------------

fn gen_malformed(g: &mut Gen, tier: Tier) {
    let count = match tier {
        Tier::Quick => 100,
        Tier::Thorough => 1000,
    };
    for _ in 0..count {
        let n = 1 + g.rng.below(5);
        let mut pos: Vec<usize> = (0..n).collect();
        g.rng.shuffle(&mut pos);
        let seq = RandSeq {
            pos,
            added: n,
            hist: Vec::new(),
        };
        let oob = |rng: &mut Rng| {
            if rng.chance(1, 5) {
                1000 + rng.below(1000)
            } else {
                n + rng.below(3)
            }
        };
        let inb = |rng: &mut Rng| rng.below(n);

        // valid edge calls around the malformed one
        let n_valid = if n >= 2 { g.rng.below(4) } else { 0 };
        let mut edge_ops: Vec<Op> = Vec::new();
        for _ in 0..n_valid {
            let (a, b) = seq.valid_pair(g.rng);
            edge_ops.push(if g.rng.chance(1, 3) {
                Op::C(a, b)
            } else {
                Op::L(a, b)
            });
        }
        let contains = g.rng.chance(1, 3);
        let variant = g.rng.below(5);
        let (name, bad_op) = match variant {
            0 => {
                let (a, b) = (inb(g.rng), oob(g.rng));
                ("malformed-to", single(a, b, contains))
            }
            1 => {
                let (a, b) = (oob(g.rng), inb(g.rng));
                ("malformed-from", single(a, b, contains))
            }
            2 => {
                let a = oob(g.rng);
                let b = if g.rng.chance(1, 2) { a } else { oob(g.rng) };
                ("malformed-both", single(a, b, contains))
            }
            3 if n >= 2 => {
                let len = 1 + g.rng.below(4);
                let bad_at = g.rng.below(len);
                let mut pairs = Vec::new();
                for i in 0..len {
                    if i == bad_at {
                        if g.rng.chance(1, 2) {
                            pairs.push((inb(g.rng), oob(g.rng)));
                        } else {
                            pairs.push((oob(g.rng), inb(g.rng)));
                        }
                    } else {
                        pairs.push(seq.valid_pair(g.rng));
                    }
                }
                (
                    "malformed-batch",
                    if contains {
                        Op::CB(pairs)
                    } else {
                        Op::LB(pairs)
                    },
                )
            }
            // id that is returned only later: the edge call comes before the last `F`
            _ => {
                let a = inb(g.rng);
                let (a, b) = if g.rng.chance(1, 2) { (a, n) } else { (n, a) };
                ("malformed-early", single(a, b, contains))
            }
        };
        let at = g.rng.below(edge_ops.len() + 1);
        edge_ops.insert(at, bad_op);

        let mut ops: Vec<Op> = (0..n).map(|i| f_plain(fixed_fid(i))).collect();
        ops.extend(edge_ops);
        if name == "malformed-early" {
            // one more function afterwards, which makes id `n` valid too late
            ops.push(f_plain(fixed_fid(n)));
        }
        g.emit_b(name, ops, Vec::new());
    }
}

fn single(a: usize, b: usize, contains: bool) -> Op {
    if contains {
        Op::C(a, b)
    } else {
        Op::L(a, b)
    }
}

// ---------------------------------------------------------------------------------------------
// pair
// ---------------------------------------------------------------------------------------------

/// Applies one mutation of the given kind to `ops`; `None` if the kind is not applicable.
fn mutate(rng: &mut Rng, ops: &[Op], kind: usize) -> Option<Vec<Op>> {
    let f_at: Vec<usize> = (0..ops.len())
        .filter(|&i| matches!(ops[i], Op::F { .. }))
        .collect();
    let e_at: Vec<usize> = (0..ops.len())
        .filter(|&i| !matches!(ops[i], Op::F { .. }))
        .collect();
    let mut out = ops.to_vec();
    match kind {
        // fid
        0 => {
            let i = f_at[rng.below(f_at.len())];
            if let Op::F { fid, .. } = &mut out[i] {
                *fid += 1 + rng.below(50) as u64;
            }
            Some(out)
        }
        // rd / wr list: toggle one data type in one of the lists
        1 => {
            let i = f_at[rng.below(f_at.len())];
            let k = rng.below(3);
            let in_wr = rng.chance(1, 2);
            if let Op::F { rd, wr, .. } = &mut out[i] {
                let list = if in_wr { wr } else { rd };
                if let Some(p) = list.iter().position(|&x| x == k) {
                    list.remove(p);
                } else {
                    list.push(k);
                    list.sort_unstable();
                }
            }
            Some(out)
        }
        // one edge endpoint
        2 => {
            if e_at.is_empty() {
                return None;
            }
            let i = e_at[rng.below(e_at.len())];
            let avail = f_at.iter().filter(|&&f| f < i).count();
            if avail < 2 {
                return None;
            }
            let change = |rng: &mut Rng, old: usize| {
                let mut x = rng.below(avail - 1);
                if x >= old {
                    x += 1;
                }
                x
            };
            let first = rng.chance(1, 2);
            match &mut out[i] {
                Op::L(a, b) | Op::C(a, b) => {
                    if first {
                        *a = change(rng, *a);
                    } else {
                        *b = change(rng, *b);
                    }
                }
                Op::LB(p) | Op::CB(p) => {
                    if p.is_empty() {
                        return None; // the empty batch has no endpoint to change
                    }
                    let j = rng.below(p.len());
                    if first {
                        p[j].0 = change(rng, p[j].0);
                    } else {
                        p[j].1 = change(rng, p[j].1);
                    }
                }
                Op::F { .. } => unreachable!(),
            }
            Some(out)
        }
        // one edge kind
        3 => {
            if e_at.is_empty() {
                return None;
            }
            let i = e_at[rng.below(e_at.len())];
            out[i] = match out[i].clone() {
                Op::L(a, b) => Op::C(a, b),
                Op::C(a, b) => Op::L(a, b),
                Op::LB(p) => Op::CB(p),
                Op::CB(p) => Op::LB(p),
                f @ Op::F { .. } => f,
            };
            Some(out)
        }
        // delete one op (mostly an edge call; deleting an `F` shifts / invalidates later ids)
        _ => {
            let i = if !e_at.is_empty() && rng.chance(4, 5) {
                e_at[rng.below(e_at.len())]
            } else {
                f_at[rng.below(f_at.len())]
            };
            out.remove(i);
            Some(out)
        }
    }
}

fn gen_pair(g: &mut Gen, tier: Tier) {
    const NAMES: [&str; 5] = ["pair-fid", "pair-acc", "pair-end", "pair-kind", "pair-del"];
    let count = match tier {
        Tier::Quick => 600,
        Tier::Thorough => 6000,
    };
    for _ in 0..count {
        let (a, _n) = rand_ops(g.rng, 1, 6);
        if g.rng.chance(1, 5) {
            let b = a.clone();
            g.emit_bp("pair-none", a, b);
            continue;
        }
        let mut kind = g.rng.below(5);
        let b = loop {
            match mutate(g.rng, &a, kind) {
                Some(b) => break b,
                // not applicable (no edge call, too few ids): fall back to the fid change
                None => kind = 0,
            }
        };
        g.emit_bp(NAMES[kind], a, b);
    }
}
