//! Function payload stored in the graphs under test.

use std::any::TypeId;

use fn_graph::{DataAccessDyn, TypeIds};

/// Marker types: data-type index `k` of the case format maps to `TypeId::of::<T<k>>()`.
pub struct T<const K: usize>;

/// Number of distinct data-type indices supported (`0..MAX_TYPES`).
pub const MAX_TYPES: usize = 256;

macro_rules! type_ids {
    ($($k:literal)*) => { [$(TypeId::of::<T<$k>>()),*] };
}

pub fn type_id_of(k: usize) -> TypeId {
    static TABLE: std::sync::OnceLock<[TypeId; MAX_TYPES]> = std::sync::OnceLock::new();
    let table = TABLE.get_or_init(|| type_ids!(0 1 2 3 4 5 6 7 8 9 10 11 12 13 14 15 16 17 18 19 20 21 22 23 24 25 26 27 28 29 30 31 32 33 34 35 36 37 38 39 40 41 42 43 44 45 46 47 48 49 50 51 52 53 54 55 56 57 58 59 60 61 62 63 64 65 66 67 68 69 70 71 72 73 74 75 76 77 78 79 80 81 82 83 84 85 86 87 88 89 90 91 92 93 94 95 96 97 98 99 100 101 102 103 104 105 106 107 108 109 110 111 112 113 114 115 116 117 118 119 120 121 122 123 124 125 126 127 128 129 130 131 132 133 134 135 136 137 138 139 140 141 142 143 144 145 146 147 148 149 150 151 152 153 154 155 156 157 158 159 160 161 162 163 164 165 166 167 168 169 170 171 172 173 174 175 176 177 178 179 180 181 182 183 184 185 186 187 188 189 190 191 192 193 194 195 196 197 198 199 200 201 202 203 204 205 206 207 208 209 210 211 212 213 214 215 216 217 218 219 220 221 222 223 224 225 226 227 228 229 230 231 232 233 234 235 236 237 238 239 240 241 242 243 244 245 246 247 248 249 250 251 252 253 254 255));
    match table.get(k) {
        Some(t) => *t,
        None => panic!("data type index {k} out of range (0..{MAX_TYPES})"),
    }
}

/// `idx`: position of the `F` op among the `F` ops of its case (= expected node index), used only to
/// report traversal orders. `fid`: payload identity compared by `PartialEq`. `rd` / `wr`: data-type
/// indices borrowed / mutably borrowed.
#[derive(Clone, Debug)]
pub struct Fun {
    pub idx: usize,
    pub fid: u64,
    pub rd: Vec<usize>,
    pub wr: Vec<usize>,
}

impl PartialEq for Fun {
    fn eq(&self, other: &Self) -> bool {
        self.fid == other.fid && self.rd == other.rd && self.wr == other.wr
    }
}

impl Eq for Fun {}

impl DataAccessDyn for Fun {
    fn borrows(&self) -> TypeIds {
        type_ids_of(self.fid, &self.rd)
    }

    fn borrow_muts(&self) -> TypeIds {
        type_ids_of(self.fid, &self.wr)
    }
}

/// The list is built the way callers of the library build theirs: pushed one by one (inline up to 8
/// entries), or -- for every third payload identity -- converted from a `Vec` with spare capacity,
/// which leaves even a short list heap-backed (`spilled()`).
fn type_ids_of(fid: u64, ks: &[usize]) -> TypeIds {
    match fid % 3 {
        1 => {
            let mut v = Vec::with_capacity(ks.len() + 12);
            v.extend(ks.iter().map(|&k| type_id_of(k)));
            TypeIds::from_vec(v)
        }
        _ => {
            let mut ids = TypeIds::new();
            for &k in ks {
                ids.push(type_id_of(k));
            }
            ids
        }
    }
}
