//! Function payload stored in the graphs under test.

use std::any::TypeId;

use fn_graph::{DataAccessDyn, TypeIds};

/// Marker types: data-type index `k` of the case format maps to `TypeId::of::<T<k>>()`.
pub struct T<const K: usize>;

/// Number of distinct data-type indices supported (`0..MAX_TYPES`).
pub const MAX_TYPES: usize = 8;

pub fn type_id_of(k: usize) -> TypeId {
    match k {
        0 => TypeId::of::<T<0>>(),
        1 => TypeId::of::<T<1>>(),
        2 => TypeId::of::<T<2>>(),
        3 => TypeId::of::<T<3>>(),
        4 => TypeId::of::<T<4>>(),
        5 => TypeId::of::<T<5>>(),
        6 => TypeId::of::<T<6>>(),
        7 => TypeId::of::<T<7>>(),
        _ => panic!("data type index {k} out of range (0..{MAX_TYPES})"),
    }
}

/// `idx`: position of the `F` op among the `F` ops of its case (= expected node index), used only to
/// report traversal orders. `fid`: payload identity compared by `PartialEq`. `rd` / `wr`: data-type
/// indices borrowed / mutably borrowed.
#[derive(Clone, Debug)]
pub struct Fun {
    pub idx: usize,
    pub fid: u64,
    pub rd: Vec<usize>,
    pub wr: Vec<usize>,
}

impl PartialEq for Fun {
    fn eq(&self, other: &Self) -> bool {
        self.fid == other.fid && self.rd == other.rd && self.wr == other.wr
    }
}

impl Eq for Fun {}

impl DataAccessDyn for Fun {
    fn borrows(&self) -> TypeIds {
        let mut ids = TypeIds::new();
        for &k in &self.rd {
            ids.push(type_id_of(k));
        }
        ids
    }

    fn borrow_muts(&self) -> TypeIds {
        let mut ids = TypeIds::new();
        for &k in &self.wr {
            ids.push(type_id_of(k));
        }
        ids
    }
}
