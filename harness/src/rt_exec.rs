//! Controlled single-task executor for the streaming APIs of `fn_graph` (FORMAT.md, "Runtime
//! cases"): no runtime, no threads, no timers. The call's future / the stream is polled only here,
//! with a waker that sets an `AtomicBool`.

use std::cell::RefCell;
use std::collections::BTreeMap;
use std::future::Future;
use std::marker::PhantomData;
use std::ops::ControlFlow;
use std::panic::{catch_unwind, AssertUnwindSafe};
use std::pin::Pin;
use std::rc::Rc;
use std::sync::atomic::{AtomicBool, Ordering};
use std::sync::Arc;
use std::task::{Context, Poll, Wake, Waker};

use fn_graph::{FnGraph, FnRef, StreamOpts, StreamOutcome, StreamOutcomeState};
use futures::future::FutureExt;
use futures::stream::{Stream, StreamExt};
use interruptible::{
    InterruptSignal, InterruptStrategy, Interruptibility, InterruptibilityState, PollOutcome,
};
use tokio::sync::mpsc;

use crate::builder_case::{build_ops, Outcome};
use crate::payload::Fun;
use crate::rt_case::{
    Api, Body, CallCfg, CallEv, CallEvKind, MixEv, RtCase, Run, SEv, Strat, StreamCfg,
};

/// Upper bound on the polls of one settle; exceeding it is reported as status `L` (never expected:
/// a settle needs at most `2n + 3` polls).
const SETTLE_POLL_CAP: usize = 200_000;

// ---------------------------------------------------------------------------------------------
// Waker
// ---------------------------------------------------------------------------------------------

struct FlagWake(Arc<AtomicBool>);

impl Wake for FlagWake {
    fn wake(self: Arc<Self>) {
        self.0.store(true, Ordering::SeqCst);
    }

    fn wake_by_ref(self: &Arc<Self>) {
        self.0.store(true, Ordering::SeqCst);
    }
}

fn flag_waker(initial: bool) -> (Arc<AtomicBool>, Waker) {
    let flag = Arc::new(AtomicBool::new(initial));
    let waker = Waker::from(Arc::new(FlagWake(flag.clone())));
    (flag, waker)
}

// ---------------------------------------------------------------------------------------------
// Shared bookkeeping and the user future
// ---------------------------------------------------------------------------------------------

#[derive(Clone, Copy, Debug, PartialEq, Eq)]
pub enum Tok {
    /// `s<i>`
    Start(usize),
    /// `e<i>o` / `e<i>e`
    End(usize, bool),
    /// `!`: a user future sent the interrupt signal at this point (event `k<i>`)
    Sig,
}

fn fmt_trace(t: &[Tok]) -> String {
    if t.is_empty() {
        return "-".to_string();
    }
    t.iter()
        .map(|t| match t {
            Tok::Start(i) => format!("s{i}"),
            Tok::End(i, ok) => format!("e{}{}", i, if *ok { 'o' } else { 'e' }),
            Tok::Sig => "!".to_string(),
        })
        .collect::<Vec<_>>()
        .join(" ")
}

/// Bookkeeping captured by the user closures and the `ControlledFut`s of one run.
pub struct Shared {
    trace: Vec<Tok>,
    /// Functions in the order their closure call happened.
    started: Vec<usize>,
    completed: Vec<Option<bool>>,
    wakers: Vec<Option<Waker>>,
    imm: Vec<Option<bool>>,
    /// `k<i>`: the future of `i` sends the interrupt signal when it is polled to completion
    sig: Vec<bool>,
    sig_tx: Option<mpsc::Sender<InterruptSignal>>,
    /// `bops=<p>`: budget-consuming tokio operations every user future performs before completing
    bops: usize,
    bops_left: Vec<usize>,
    budget_tx: Option<mpsc::Sender<()>>,
    /// `yld=<k>`: self-wake-and-Pending rounds of every user future
    yld: usize,
    yld_left: Vec<usize>,
}

impl Shared {
    fn new(n: usize, imm_list: &[(usize, bool)], sig_fn: Option<usize>, bops: usize, yld: usize) -> Shared {
        let mut imm = vec![None; n];
        for &(i, ok) in imm_list {
            if i < n {
                imm[i] = Some(ok);
            }
        }
        Shared {
            trace: Vec::new(),
            started: Vec::new(),
            completed: vec![None; n],
            wakers: vec![None; n],
            imm,
            sig: (0..n).map(|i| Some(i) == sig_fn).collect(),
            sig_tx: None,
            bops,
            bops_left: vec![bops; n],
            budget_tx: None,
            yld,
            yld_left: vec![yld; n],
        }
    }

    fn ensure(&mut self, id: usize) {
        if id >= self.completed.len() {
            self.completed.resize(id + 1, None);
            self.wakers.resize(id + 1, None);
            self.imm.resize(id + 1, None);
            self.sig.resize(id + 1, false);
            let bops = self.bops;
            self.bops_left.resize(id + 1, bops);
            let yld = self.yld;
            self.yld_left.resize(id + 1, yld);
        }
    }
}

/// Output of a user future, built from the function's index and the outcome chosen by the schedule.
pub trait UserOut: 'static {
    fn make(id: usize, ok: bool) -> Self;
}

impl UserOut for () {
    fn make(_id: usize, _ok: bool) {}
}

impl UserOut for Result<(), usize> {
    fn make(id: usize, ok: bool) -> Self {
        if ok {
            Ok(())
        } else {
            Err(id)
        }
    }
}

impl UserOut for ControlFlow<usize, ()> {
    fn make(id: usize, ok: bool) -> Self {
        if ok {
            ControlFlow::Continue(())
        } else {
            ControlFlow::Break(id)
        }
    }
}

/// The future every user closure returns: completes when the schedule says so.
pub struct ControlledFut<O> {
    sh: Rc<RefCell<Shared>>,
    id: usize,
    marker: PhantomData<fn() -> O>,
}

impl<O> ControlledFut<O> {
    /// Called from the user closure: records the Start.
    fn start(sh: &Rc<RefCell<Shared>>, id: usize) -> Self {
        {
            let mut s = sh.borrow_mut();
            s.ensure(id);
            s.trace.push(Tok::Start(id));
            s.started.push(id);
        }
        ControlledFut {
            sh: sh.clone(),
            id,
            marker: PhantomData,
        }
    }
}

impl<O: UserOut> Future for ControlledFut<O> {
    type Output = O;

    fn poll(self: Pin<&mut Self>, cx: &mut Context<'_>) -> Poll<O> {
        let id = self.id;
        let mut s = self.sh.borrow_mut();
        if s.yld_left[id] > 0 {
            // a cooperatively yielding function: wakes itself and returns Pending
            s.yld_left[id] -= 1;
            cx.waker().wake_by_ref();
            return Poll::Pending;
        }
        let done = match (s.completed[id], s.imm[id]) {
            (Some(ok), _) => Some((ok, false)),
            (None, Some(ok)) => Some((ok, true)),
            (None, None) => None,
        };
        let Some((ok, by_imm)) = done else {
            s.wakers[id] = Some(cx.waker().clone());
            return Poll::Pending;
        };
        // `bops`: the future first performs tokio operations that each take one unit of the task's
        // cooperative budget (a bounded-channel send that always has room); out of budget = Pending
        while s.bops_left[id] > 0 {
            let tx = match s.budget_tx.clone() {
                Some(tx) => tx,
                None => break,
            };
            let mut send = std::pin::pin!(tx.send(()));
            match send.as_mut().poll(cx) {
                Poll::Ready(_) => s.bops_left[id] -= 1,
                Poll::Pending => return Poll::Pending,
            }
        }
        if by_imm {
            s.completed[id] = Some(ok);
            s.trace.push(Tok::End(id, ok));
        }
        if s.sig[id] {
            s.sig[id] = false;
            if let Some(tx) = s.sig_tx.as_ref() {
                let _ = tx.try_send(InterruptSignal);
            }
            s.trace.push(Tok::Sig);
        }
        Poll::Ready(O::make(id, ok))
    }
}

// ---------------------------------------------------------------------------------------------
// Result of a call
// ---------------------------------------------------------------------------------------------

pub struct CallOut {
    /// `None` for `folderr`.
    outcome: Option<(StreamOutcomeState, Vec<usize>, Vec<usize>)>,
    errs: Vec<usize>,
    verdict: String,
}

fn ids(v: &[fn_graph::FnId]) -> Vec<usize> {
    v.iter().map(|i| i.index()).collect()
}

fn outcome_parts<T>(o: &StreamOutcome<T>) -> (StreamOutcomeState, Vec<usize>, Vec<usize>) {
    (
        o.state,
        ids(&o.fn_ids_processed),
        ids(&o.fn_ids_not_processed),
    )
}

fn out_plain(o: StreamOutcome<()>) -> CallOut {
    CallOut {
        outcome: Some(outcome_parts(&o)),
        errs: Vec::new(),
        verdict: "ok".to_string(),
    }
}

type TryRes = Result<StreamOutcome<()>, (StreamOutcome<()>, Vec<usize>)>;

fn out_try(r: TryRes) -> CallOut {
    match r {
        Ok(o) => CallOut {
            outcome: Some(outcome_parts(&o)),
            errs: Vec::new(),
            verdict: "ok".to_string(),
        },
        Err((o, errs)) => CallOut {
            outcome: Some(outcome_parts(&o)),
            errs,
            verdict: "err".to_string(),
        },
    }
}

type CtlRes = ControlFlow<(StreamOutcome<()>, Vec<usize>), StreamOutcome<()>>;

fn out_ctl(r: CtlRes) -> CallOut {
    match r {
        ControlFlow::Continue(o) => CallOut {
            outcome: Some(outcome_parts(&o)),
            errs: Vec::new(),
            verdict: "cont".to_string(),
        },
        ControlFlow::Break((o, errs)) => CallOut {
            outcome: Some(outcome_parts(&o)),
            errs,
            verdict: "break".to_string(),
        },
    }
}

fn out_tryfold(r: Result<StreamOutcome<()>, usize>) -> CallOut {
    match r {
        Ok(o) => out_plain(o),
        Err(i) => CallOut {
            outcome: None,
            errs: Vec::new(),
            verdict: format!("folderr:{i}"),
        },
    }
}

fn list(v: &[usize]) -> String {
    if v.is_empty() {
        "-".to_string()
    } else {
        v.iter()
            .map(|x| x.to_string())
            .collect::<Vec<_>>()
            .join(" ")
    }
}

fn fmt_out(o: &CallOut) -> String {
    match &o.outcome {
        Some((state, p, np)) => {
            let st = match state {
                StreamOutcomeState::Finished => "F",
                StreamOutcomeState::Interrupted => "I",
                // Never produced by the entry points; printed as is should it ever appear.
                StreamOutcomeState::NotStarted => "N",
            };
            format!(
                "{} {} | {} | {} | {}",
                st,
                list(p),
                list(np),
                list(&o.errs),
                o.verdict
            )
        }
        None => format!("- - | - | - | {}", o.verdict),
    }
}

// ---------------------------------------------------------------------------------------------
// Creating the call
// ---------------------------------------------------------------------------------------------

pub enum GRef<'g> {
    Shared(&'g FnGraph<Fun>),
    Mut(&'g mut FnGraph<Fun>),
}

type BoxFut<'g> = Pin<Box<dyn Future<Output = CallOut> + 'g>>;
type Rx = mpsc::Receiver<InterruptSignal>;

pub fn strategy_of_pub(s: Strat) -> Option<InterruptStrategy> {
    strategy_of(s)
}

fn strategy_of(s: Strat) -> Option<InterruptStrategy> {
    match s {
        Strat::Non => None,
        Strat::Ign => Some(InterruptStrategy::IgnoreInterruptions),
        Strat::Fin => Some(InterruptStrategy::FinishCurrent),
        Strat::Pn(k) => Some(InterruptStrategy::PollNextN(k)),
    }
}

/// `StreamOpts` with the receiver owned by the interruptibility state.
/// Where the interruptibility of a run comes from: its own receiver, or a state shared with
/// earlier operations (`reborrow`).
pub enum IntSrc<'a> {
    Rx(Option<Rx>),
    State(InterruptibilityState<'a, 'a>),
}

thread_local! {
    /// Selects the order (and repetition) of the `StreamOpts` setter calls; set from the case id
    /// by `run_body`, so that a replayed case builds its options the same way.
    static OPTS_VARIANT: std::cell::Cell<usize> = const { std::cell::Cell::new(0) };
}

/// The same options whatever the order of the builder calls: `rev()` any number of times is one
/// `rev()`, the last `interrupted_next_item_include` wins, setting the state keeps the rest.
fn make_opts<'a>(rev: bool, strat: Strat, incl: bool, rx: IntSrc<'a>) -> StreamOpts<'a, 'a> {
    let state: Option<InterruptibilityState<'a, 'a>> = match rx {
        IntSrc::State(state) => Some(state),
        IntSrc::Rx(rx) => strategy_of(strat).map(|strategy| {
            let rx = rx.expect("harness: receiver is present whenever strat != non");
            InterruptibilityState::new(Interruptibility::new(rx.into(), strategy))
        }),
    };
    let set_state = |o: StreamOpts<'a, 'a>, state: Option<InterruptibilityState<'a, 'a>>| match state {
        Some(state) => o.interruptibility_state(state),
        None => o,
    };
    let set_rev = |o: StreamOpts<'a, 'a>| if rev { o.rev() } else { o };
    match OPTS_VARIANT.with(|v| v.get()) % 6 {
        0 => set_state(set_rev(StreamOpts::new()), state).interrupted_next_item_include(incl),
        1 => set_rev(set_state(StreamOpts::new().interrupted_next_item_include(incl), state)),
        2 => set_rev(set_state(StreamOpts::default(), state)).interrupted_next_item_include(incl),
        3 => set_state(set_rev(StreamOpts::new().interrupted_next_item_include(incl)), state),
        4 => set_state(
            set_rev(set_rev(StreamOpts::new()))
                .interrupted_next_item_include(!incl)
                .interrupted_next_item_include(incl),
            state,
        ),
        _ => set_rev(set_rev(set_state(
            StreamOpts::new().interrupted_next_item_include(incl),
            state,
        )))
        .interrupted_next_item_include(incl),
    }
}

/// Creates (does not poll) the future of the entry point selected by `cfg`.
fn make_call<'g>(
    g: GRef<'g>,
    cfg: &CallCfg,
    sh: &Rc<RefCell<Shared>>,
    rx: IntSrc<'g>,
) -> BoxFut<'g> {
    // `lim=0` of the case format stands for "unbounded": `None` on graphs with an even number of
    // functions, `Some(0)` on graphs with an odd number (both must behave the same).
    let n_fns = match &g {
        GRef::Shared(g) => g.graph.node_count(),
        GRef::Mut(g) => g.graph.node_count(),
    };
    let lim: Option<usize> = if cfg.lim == 0 {
        if n_fns % 2 == 1 {
            Some(0)
        } else {
            None
        }
    } else {
        Some(cfg.lim)
    };
    let sh = sh.clone();
    let with = cfg.with;
    match (cfg.api, g) {
        // ------------------------------------------------------------------ fold
        (Api::Fold, GRef::Shared(g)) => {
            if with {
                Box::pin(
                    g.fold_async_with((), make_opts(cfg.rev, cfg.strat, cfg.incl, rx), move |_seed, w| {
                        let id = w.idx;
                        ControlledFut::<()>::start(&sh, id).boxed_local()
                    })
                    .map(out_plain),
                )
            } else {
                Box::pin(
                    g.fold_async((), move |_seed, w| {
                        let id = w.idx;
                        ControlledFut::<()>::start(&sh, id).boxed_local()
                    })
                    .map(out_plain),
                )
            }
        }
        (Api::Fold, GRef::Mut(g)) => {
            if with {
                Box::pin(
                    g.fold_async_mut_with((), make_opts(cfg.rev, cfg.strat, cfg.incl, rx), move |_seed, w| {
                        let id = w.idx;
                        ControlledFut::<()>::start(&sh, id).boxed_local()
                    })
                    .map(out_plain),
                )
            } else {
                Box::pin(
                    g.fold_async_mut((), move |_seed, w| {
                        let id = w.idx;
                        ControlledFut::<()>::start(&sh, id).boxed_local()
                    })
                    .map(out_plain),
                )
            }
        }
        // --------------------------------------------------------------- tryfold
        (Api::TryFold, GRef::Shared(g)) => {
            if with {
                Box::pin(
                    g.try_fold_async_with((), make_opts(cfg.rev, cfg.strat, cfg.incl, rx), move |_seed, w| {
                        let id = w.idx;
                        ControlledFut::<Result<(), usize>>::start(&sh, id).boxed_local()
                    })
                    .map(out_tryfold),
                )
            } else {
                Box::pin(
                    g.try_fold_async((), move |_seed, w| {
                        let id = w.idx;
                        ControlledFut::<Result<(), usize>>::start(&sh, id).boxed_local()
                    })
                    .map(out_tryfold),
                )
            }
        }
        (Api::TryFold, GRef::Mut(g)) => {
            if with {
                Box::pin(
                    g.try_fold_async_mut_with((), make_opts(cfg.rev, cfg.strat, cfg.incl, rx), move |_seed, w| {
                        let id = w.idx;
                        ControlledFut::<Result<(), usize>>::start(&sh, id).boxed_local()
                    })
                    .map(out_tryfold),
                )
            } else {
                Box::pin(
                    g.try_fold_async_mut((), move |_seed, w| {
                        let id = w.idx;
                        ControlledFut::<Result<(), usize>>::start(&sh, id).boxed_local()
                    })
                    .map(out_tryfold),
                )
            }
        }
        // --------------------------------------------------------------- foreach
        (Api::ForEach, GRef::Shared(g)) => {
            let f = move |fun: &Fun| ControlledFut::<()>::start(&sh, fun.idx);
            if with {
                Box::pin(
                    g.for_each_concurrent_with(lim, make_opts(cfg.rev, cfg.strat, cfg.incl, rx), f)
                        .map(out_plain),
                )
            } else {
                Box::pin(g.for_each_concurrent(lim, f).map(out_plain))
            }
        }
        (Api::ForEach, GRef::Mut(g)) => {
            let f = move |fun: &mut Fun| ControlledFut::<()>::start(&sh, fun.idx);
            if with {
                Box::pin(
                    g.for_each_concurrent_mut_with(lim, make_opts(cfg.rev, cfg.strat, cfg.incl, rx), f)
                        .map(out_plain),
                )
            } else {
                Box::pin(g.for_each_concurrent_mut(lim, f).map(out_plain))
            }
        }
        // ------------------------------------------------------------ tryforeach
        (Api::TryForEach, GRef::Shared(g)) => {
            if cfg.ctl {
                let f = move |fun: &Fun| {
                    ControlledFut::<ControlFlow<usize, ()>>::start(&sh, fun.idx)
                };
                if with {
                    Box::pin(
                        g.try_for_each_concurrent_control_with(lim, make_opts(cfg.rev, cfg.strat, cfg.incl, rx), f)
                            .map(out_ctl),
                    )
                } else {
                    Box::pin(g.try_for_each_concurrent_control(lim, f).map(out_ctl))
                }
            } else {
                let f = move |fun: &Fun| ControlledFut::<Result<(), usize>>::start(&sh, fun.idx);
                if with {
                    Box::pin(
                        g.try_for_each_concurrent_with(lim, make_opts(cfg.rev, cfg.strat, cfg.incl, rx), f)
                            .map(out_try),
                    )
                } else {
                    Box::pin(g.try_for_each_concurrent(lim, f).map(out_try))
                }
            }
        }
        (Api::TryForEach, GRef::Mut(g)) => {
            if cfg.ctl {
                let f = move |fun: &mut Fun| {
                    ControlledFut::<ControlFlow<usize, ()>>::start(&sh, fun.idx)
                };
                if with {
                    Box::pin(
                        g.try_for_each_concurrent_control_mut_with(lim, make_opts(cfg.rev, cfg.strat, cfg.incl, rx), f)
                            .map(out_ctl),
                    )
                } else {
                    Box::pin(g.try_for_each_concurrent_control_mut(lim, f).map(out_ctl))
                }
            } else {
                let f =
                    move |fun: &mut Fun| ControlledFut::<Result<(), usize>>::start(&sh, fun.idx);
                if with {
                    Box::pin(
                        g.try_for_each_concurrent_mut_with(lim, make_opts(cfg.rev, cfg.strat, cfg.incl, rx), f)
                            .map(out_try),
                    )
                } else {
                    Box::pin(g.try_for_each_concurrent_mut(lim, f).map(out_try))
                }
            }
        }
    }
}

// ---------------------------------------------------------------------------------------------
// Call executor
// ---------------------------------------------------------------------------------------------

#[derive(Clone, Copy, Debug, PartialEq, Eq)]
pub enum Status {
    Pending,
    Returned,
    Panicked,
    Aborted,
    /// A settle exceeded `SETTLE_POLL_CAP` polls.
    Livelock,
}

impl Status {
    fn token(self) -> char {
        match self {
            Status::Pending => 'P',
            Status::Returned => 'R',
            Status::Panicked => 'X',
            Status::Aborted => 'A',
            Status::Livelock => 'L',
        }
    }
}

pub struct CallRun<'g> {
    fut: Option<BoxFut<'g>>,
    sh: Rc<RefCell<Shared>>,
    flag: Arc<AtomicBool>,
    waker: Waker,
    tx: mpsc::Sender<InterruptSignal>,
    /// Keeps the channel open when the receiver is not handed to the library (`strat=non`).
    _rx_unused: Option<Rx>,
    status: Status,
    out: Option<CallOut>,
    /// Number of entries of `Shared::started` already reported in an `e<k>` line.
    reported: usize,
    k: usize,
    /// No further events are processed (`a`, panic, livelock).
    ended: bool,
}

impl<'g> CallRun<'g> {
    pub fn new(g: GRef<'g>, cfg: &CallCfg) -> CallRun<'g> {
        let n = match &g {
            GRef::Shared(g) => g.graph.node_count(),
            GRef::Mut(g) => g.graph.node_count(),
        };
        let sh = Rc::new(RefCell::new(Shared::new(n, &cfg.imm, cfg.sig, cfg.bops, cfg.yld)));
        let (flag, waker) = flag_waker(true);
        let (tx, rx) = mpsc::channel::<InterruptSignal>(16);
        let (rx_lib, rx_unused) = if cfg.with && cfg.strat != Strat::Non {
            (Some(rx), None)
        } else {
            (None, Some(rx))
        };
        sh.borrow_mut().sig_tx = Some(tx.clone());
        let fut = make_call(g, cfg, &sh, IntSrc::Rx(rx_lib));
        CallRun {
            fut: Some(fut),
            sh,
            flag,
            waker,
            tx,
            _rx_unused: rx_unused,
            status: Status::Pending,
            out: None,
            reported: 0,
            k: 0,
            ended: false,
        }
    }

    /// A call whose `InterruptibilityState` is shared with earlier operations (`state` is a
    /// `reborrow()` of it; `tx` sends into its channel).
    pub fn new_shared(
        g: GRef<'g>,
        cfg: &CallCfg,
        tx: mpsc::Sender<InterruptSignal>,
        state: InterruptibilityState<'g, 'g>,
    ) -> CallRun<'g> {
        let n = match &g {
            GRef::Shared(g) => g.graph.node_count(),
            GRef::Mut(g) => g.graph.node_count(),
        };
        let sh = Rc::new(RefCell::new(Shared::new(n, &cfg.imm, cfg.sig, cfg.bops, cfg.yld)));
        let (flag, waker) = flag_waker(true);
        sh.borrow_mut().sig_tx = Some(tx.clone());
        let fut = make_call(g, cfg, &sh, IntSrc::State(state));
        CallRun {
            fut: Some(fut),
            sh,
            flag,
            waker,
            tx,
            _rx_unused: None,
            status: Status::Pending,
            out: None,
            reported: 0,
            k: 0,
            ended: false,
        }
    }

    pub fn status(&self) -> Status {
        self.status
    }

    pub fn ended(&self) -> bool {
        self.ended
    }

    pub fn flag(&self) -> bool {
        self.flag.load(Ordering::SeqCst)
    }

    /// Started and not yet completed, in start order.
    pub fn in_flight(&self) -> Vec<usize> {
        let s = self.sh.borrow();
        let mut v = Vec::new();
        for &i in &s.started {
            if s.completed[i].is_none() && !v.contains(&i) {
                v.push(i);
            }
        }
        v
    }

    /// Pending, nothing in flight, flag clear: nothing can ever wake the call.
    pub fn is_hung(&self) -> bool {
        self.status == Status::Pending && !self.flag() && self.in_flight().is_empty()
    }

    fn poll_once(&mut self) {
        let Some(fut) = self.fut.as_mut() else {
            return;
        };
        // every poll carries a NEW waker (the call may be polled by another task, or through a
        // combinator that wraps the waker): a wake-up of the waker of an earlier poll is lost
        let (flag, waker) = flag_waker(false);
        self.flag = flag;
        self.waker = waker.clone();
        let res = catch_unwind(AssertUnwindSafe(|| {
            let mut cx = Context::from_waker(&waker);
            fut.as_mut().poll(&mut cx)
        }));
        match res {
            Ok(Poll::Pending) => {}
            Ok(Poll::Ready(out)) => {
                self.status = Status::Returned;
                self.out = Some(out);
                self.drop_fut();
            }
            Err(_) => {
                self.status = Status::Panicked;
                self.ended = true;
                self.drop_fut();
            }
        }
    }

    fn drop_fut(&mut self) {
        if let Some(f) = self.fut.take() {
            let _ = catch_unwind(AssertUnwindSafe(move || drop(f)));
        }
    }

    fn settle(&mut self) {
        let mut polls = 0usize;
        while self.status == Status::Pending && self.flag.swap(false, Ordering::SeqCst) {
            self.poll_once();
            polls += 1;
            if polls >= SETTLE_POLL_CAP && self.status == Status::Pending {
                self.status = Status::Livelock;
                self.ended = true;
                self.drop_fut();
            }
        }
    }

    /// Applies one event; returns the body of its observation line (`e<k> <started> <status>`).
    pub fn apply(&mut self, ev: &CallEv) -> String {
        let mut settle = !ev.nosettle;
        match ev.kind {
            CallEvKind::Settle => {}
            CallEvKind::Complete(i, ok) => {
                let waker = {
                    let mut s = self.sh.borrow_mut();
                    let in_flight = s.started.contains(&i) && s.completed[i].is_none();
                    if in_flight {
                        s.completed[i] = Some(ok);
                        s.trace.push(Tok::End(i, ok));
                        s.wakers[i].take()
                    } else {
                        None
                    }
                };
                if let Some(w) = waker {
                    w.wake();
                }
            }
            CallEvKind::Interrupt => {
                let _ = self.tx.try_send(InterruptSignal);
            }
            CallEvKind::Poll => {
                if self.status == Status::Pending {
                    self.flag.swap(false, Ordering::SeqCst);
                    self.poll_once();
                }
            }
            CallEvKind::Tokio => {
                if self.status == Status::Pending {
                    if let Some(fut) = self.fut.take() {
                        // sink of the budget-consuming operations of the user futures (`bops`)
                        let (btx, _brx) = mpsc::channel::<()>(1 << 20);
                        self.sh.borrow_mut().budget_tx = Some(btx);
                        let res = catch_unwind(AssertUnwindSafe(|| {
                            let rt = tokio::runtime::Builder::new_current_thread()
                                .enable_time()
                                .build()
                                .expect("tokio runtime");
                            rt.block_on(async move {
                                tokio::time::timeout(std::time::Duration::from_secs(3), fut).await
                            })
                        }));
                        match res {
                            Ok(Ok(out)) => {
                                self.status = Status::Returned;
                                self.out = Some(out);
                            }
                            // not returned within the budget although every user future is ready
                            Ok(Err(_)) => self.ended = true,
                            Err(_) => {
                                self.status = Status::Panicked;
                                self.ended = true;
                            }
                        }
                    }
                }
                settle = false;
            }
            CallEvKind::Restart | CallEvKind::Repeat(_) => {
                settle = false; // handled by the pair / history runner
            }
            CallEvKind::Abort => {
                if self.status == Status::Pending {
                    self.status = Status::Aborted;
                    if OPTS_VARIANT.with(|v| v.get()) % 2 == 1 {
                        // cases with an odd id: the caller's code panics while it owns the future of the
                        // call, which is therefore dropped during unwinding (`std::thread::panicking()`
                        // is true inside its destructors); the caller catches the panic and carries on
                        if let Some(f) = self.fut.take() {
                            let _ = catch_unwind(AssertUnwindSafe(move || {
                                let _owned = f;
                                std::panic::resume_unwind(Box::new("caller panicked"));
                            }));
                        }
                    } else {
                        self.drop_fut();
                    }
                }
                self.ended = true;
                settle = false;
            }
        }
        if settle {
            self.settle();
        }
        let newly = {
            let s = self.sh.borrow();
            let v = &s.started[self.reported..];
            if v.is_empty() {
                "-".to_string()
            } else {
                v.iter()
                    .map(|x| x.to_string())
                    .collect::<Vec<_>>()
                    .join(".")
            }
        };
        self.reported = self.sh.borrow().started.len();
        let line = format!("e{} {} {}", self.k, newly, self.status.token());
        self.k += 1;
        line
    }

    /// Ends the run (a still pending future is dropped): bodies of the `T` and `O` lines.
    pub fn finish(&mut self) -> (String, String) {
        self.drop_fut();
        let t = format!("T {}", fmt_trace(&self.sh.borrow().trace));
        let o = match &self.out {
            Some(o) => format!("O {}", fmt_out(o)),
            None => "O -".to_string(),
        };
        (t, o)
    }
}

// ---------------------------------------------------------------------------------------------
// Stream executor
// ---------------------------------------------------------------------------------------------

enum SItem<'g> {
    Yield(FnRef<'g, Fun>),
    Interrupted(Option<FnRef<'g, Fun>>),
}

type BoxStream<'g> = Pin<Box<dyn Stream<Item = SItem<'g>> + 'g>>;

fn make_stream<'g>(g: &'g FnGraph<Fun>, cfg: &StreamCfg, rx: Option<Rx>) -> BoxStream<'g> {
    if cfg.int && !cfg.rev && cfg.strat == Strat::Non {
        // `stream_interruptible()` = `stream_with_interruptible(StreamOpts::default())`
        Box::pin(g.stream_interruptible().map(|po| match po {
            PollOutcome::NoInterrupt(r) => SItem::Yield(r),
            PollOutcome::Interrupted(o) => SItem::Interrupted(o),
        }))
    } else if cfg.int {
        Box::pin(
            g.stream_with_interruptible(make_opts(cfg.rev, cfg.strat, true, IntSrc::Rx(rx)))
                .map(|po| match po {
                    PollOutcome::NoInterrupt(r) => SItem::Yield(r),
                    PollOutcome::Interrupted(o) => SItem::Interrupted(o),
                }),
        )
    } else if !cfg.rev && cfg.strat == Strat::Non {
        Box::pin(g.stream().map(SItem::Yield))
    } else {
        Box::pin(
            g.stream_with(make_opts(cfg.rev, cfg.strat, true, IntSrc::Rx(rx)))
                .map(SItem::Yield),
        )
    }
}

pub struct StreamRun<'g> {
    stream: Option<BoxStream<'g>>,
    held: BTreeMap<usize, Vec<FnRef<'g, Fun>>>,
    flag: Arc<AtomicBool>,
    waker: Waker,
    tx: mpsc::Sender<InterruptSignal>,
    _rx_unused: Option<Rx>,
    trace: Vec<Tok>,
    k: usize,
    /// A poll or a drop panicked: no further events are processed.
    stopped: bool,
    // --- monitor (not part of the observations): a function whose predecessors were all handed out
    // and dropped, while the last poll returned Pending and the flag is clear, can never be yielded.
    preds: Vec<Vec<usize>>,
    yielded: Vec<bool>,
    dropped: Vec<bool>,
    last_pending: bool,
    signal_sent: bool,
    finished: bool,
    stalled: bool,
}

impl<'g> StreamRun<'g> {
    pub fn new(g: &'g FnGraph<Fun>, cfg: &StreamCfg) -> StreamRun<'g> {
        let n = g.graph.node_count();
        let (flag, waker) = flag_waker(false);
        let (tx, rx) = mpsc::channel::<InterruptSignal>(16);
        // `stream()` takes no options; everywhere else the receiver goes into the options (which
        // `stream_with` then ignores).
        let takes_opts = cfg.int || cfg.rev || cfg.strat != Strat::Non;
        let (rx_lib, rx_unused) = if takes_opts && cfg.strat != Strat::Non {
            (Some(rx), None)
        } else {
            (None, Some(rx))
        };
        let mut preds = vec![Vec::new(); n];
        for e in g.graph.raw_edges() {
            let (a, b) = (e.source().index(), e.target().index());
            if cfg.rev {
                preds[a].push(b);
            } else {
                preds[b].push(a);
            }
        }
        let stream = make_stream(g, cfg, rx_lib);
        StreamRun {
            stream: Some(stream),
            held: BTreeMap::new(),
            flag,
            waker,
            tx,
            _rx_unused: rx_unused,
            trace: Vec::new(),
            k: 0,
            stopped: false,
            preds,
            yielded: vec![false; n],
            dropped: vec![false; n],
            last_pending: false,
            signal_sent: false,
            finished: false,
            stalled: false,
        }
    }

    pub fn stopped(&self) -> bool {
        self.stopped
    }

    pub fn alive(&self) -> bool {
        self.stream.is_some()
    }

    /// The stream has returned `None` or an `Interrupted` item.
    pub fn finished(&self) -> bool {
        self.finished
    }

    pub fn stalled(&self) -> bool {
        self.stalled
    }

    /// The last `n` event polled the stream and got `Pending`.
    pub fn last_pending(&self) -> bool {
        self.last_pending
    }

    pub fn flag(&self) -> bool {
        self.flag.load(Ordering::SeqCst)
    }

    pub fn held_ids(&self) -> Vec<usize> {
        self.held
            .iter()
            .filter(|(_, v)| !v.is_empty())
            .map(|(k, _)| *k)
            .collect()
    }

    fn flag_tok(&self) -> String {
        // whether a wake-up is outstanding only means something while the consumer is parked, i.e.
        // after a poll that returned `Pending` (the wakers of earlier polls are gone)
        if !self.last_pending {
            return "W-".to_string();
        }
        format!("W{}", self.flag.load(Ordering::SeqCst) as u8)
    }

    fn hand_out(&mut self, r: FnRef<'g, Fun>) -> usize {
        let i = r.idx;
        self.trace.push(Tok::Start(i));
        if i < self.yielded.len() {
            self.yielded[i] = true;
        }
        self.held.entry(i).or_default().push(r);
        i
    }

    fn monitor(&mut self) {
        if self.stream.is_none()
            || self.finished
            || self.signal_sent
            || !self.last_pending
            || self.flag.load(Ordering::SeqCst)
        {
            return;
        }
        let n = self.yielded.len();
        for i in 0..n {
            if !self.yielded[i] && self.preds[i].iter().all(|&p| self.dropped[p]) {
                self.stalled = true;
            }
        }
    }

    /// Applies one event; returns the body of its observation line.
    pub fn apply(&mut self, ev: &SEv) -> String {
        let body = match *ev {
            SEv::Next => match self.stream.as_mut() {
                None => "P W-".to_string(),
                Some(stream) => {
                    // every poll carries a NEW waker (the polling task may change between polls, a
                    // combinator may wrap the waker): only a wake-up of the waker of the latest poll
                    // counts, a wake-up of an earlier one is lost with its flag
                    let (flag, waker) = flag_waker(false);
                    self.flag = flag;
                    self.waker = waker.clone();
                    let res = catch_unwind(AssertUnwindSafe(|| {
                        let mut cx = Context::from_waker(&waker);
                        stream.as_mut().poll_next(&mut cx)
                    }));
                    match res {
                        Err(_) => {
                            self.stopped = true;
                            self.last_pending = false;
                            "X W-".to_string()
                        }
                        Ok(Poll::Pending) => {
                            self.last_pending = true;
                            format!("P {}", self.flag_tok())
                        }
                        Ok(Poll::Ready(item)) => {
                            self.last_pending = false;
                            self.flag.store(false, Ordering::SeqCst);
                            match item {
                                None => {
                                    self.finished = true;
                                    "N W-".to_string()
                                }
                                Some(SItem::Yield(r)) => {
                                    let i = self.hand_out(r);
                                    format!("Y{i} W-")
                                }
                                Some(SItem::Interrupted(Some(r))) => {
                                    self.finished = true;
                                    let i = self.hand_out(r);
                                    format!("I{i} W-")
                                }
                                Some(SItem::Interrupted(None)) => {
                                    self.finished = true;
                                    "I- W-".to_string()
                                }
                            }
                        }
                    }
                }
            },
            SEv::Drop(i) | SEv::DropUnwind(i) => {
                let unwinding = matches!(*ev, SEv::DropUnwind(_));
                let r = self.held.get_mut(&i).and_then(|v| {
                    if v.is_empty() {
                        None
                    } else {
                        Some(v.remove(0))
                    }
                });
                if let Some(r) = r {
                    self.trace.push(Tok::End(i, true));
                    if i < self.dropped.len() {
                        self.dropped[i] = true;
                    }
                    if unwinding {
                        // the consumer's code panics while it holds the FnRef: the FnRef is dropped
                        // during unwinding; the consumer catches the panic and carries on
                        let _ = catch_unwind(AssertUnwindSafe(move || {
                            let _held = r;
                            std::panic::resume_unwind(Box::new("consumer panicked"));
                        }));
                    } else if catch_unwind(AssertUnwindSafe(move || drop(r))).is_err() {
                        self.stopped = true;
                    }
                }
                if self.stopped {
                    format!("X {}", self.flag_tok())
                } else {
                    self.flag_tok()
                }
            }
            SEv::Interrupt => {
                let _ = self.tx.try_send(InterruptSignal);
                self.signal_sent = true;
                self.flag_tok()
            }
            SEv::Tokio(_) | SEv::Race(_) => "-".to_string(), // handled by `run_stream_tokio` / `run_stream_race`
            SEv::DropStream => {
                if let Some(s) = self.stream.take() {
                    if catch_unwind(AssertUnwindSafe(move || drop(s))).is_err() {
                        self.stopped = true;
                    }
                }
                if self.stopped {
                    format!("X {}", self.flag_tok())
                } else {
                    self.flag_tok()
                }
            }
        };
        self.monitor();
        let line = format!("e{} {}", self.k, body);
        self.k += 1;
        line
    }

    /// Drops the remaining `FnRef`s (ascending id) and the stream: bodies of the `Z` and `T` lines.
    pub fn finish(&mut self) -> (String, String) {
        let held = std::mem::take(&mut self.held);
        let stream = self.stream.take();
        let ok = catch_unwind(AssertUnwindSafe(move || {
            drop(held);
            drop(stream);
        }))
        .is_ok();
        (
            format!("Z {}", if ok { "ok" } else { "X" }),
            format!("T {}", fmt_trace(&self.trace)),
        )
    }
}

// ---------------------------------------------------------------------------------------------
// Running whole cases
// ---------------------------------------------------------------------------------------------

#[derive(Clone, Copy, Debug, Default)]
pub struct RtFlags {
    /// A poll (or a drop) of the library panicked (`X`).
    pub panic: bool,
    /// A call ended pending with nothing in flight and the flag clear.
    pub hang: bool,
    /// Stream monitor: a releasable function can never be yielded (flag clear after `Pending`).
    pub stall: bool,
    /// A settle did not terminate within the poll cap.
    pub livelock: bool,
    /// The graph could not be built (an op or `build()` panicked).
    pub build_failed: bool,
    /// Something panicked outside the places FORMAT.md accounts for.
    pub harness_panic: bool,
}

pub struct RtResult {
    pub lines: Vec<String>,
    pub flags: RtFlags,
}

fn run_call_events(
    id: u64,
    prefix: &str,
    g: GRef<'_>,
    cfg: &CallCfg,
    evs: &[CallEv],
    lines: &mut Vec<String>,
    flags: &mut RtFlags,
) {
    let mut run = CallRun::new(g, cfg);
    for ev in evs {
        if run.ended() {
            break;
        }
        let body = run.apply(ev);
        lines.push(format!("OBS {id} {prefix}{body}"));
    }
    finish_call(id, prefix, &mut run, lines, flags);
}

fn finish_call(
    id: u64,
    prefix: &str,
    run: &mut CallRun<'_>,
    lines: &mut Vec<String>,
    flags: &mut RtFlags,
) {
    flags.panic |= run.status() == Status::Panicked;
    flags.livelock |= run.status() == Status::Livelock;
    flags.hang |= run.is_hung();
    let (t, o) = run.finish();
    lines.push(format!("OBS {id} {prefix}{t}"));
    lines.push(format!("OBS {id} {prefix}{o}"));
}

fn run_stream_events(
    id: u64,
    prefix: &str,
    g: &FnGraph<Fun>,
    cfg: &StreamCfg,
    evs: &[SEv],
    lines: &mut Vec<String>,
    flags: &mut RtFlags,
) {
    if let [SEv::Tokio(hold)] = evs {
        run_stream_tokio(id, prefix, g, cfg, *hold, lines, flags);
        return;
    }
    if let [SEv::Race(rounds)] = evs {
        run_stream_race(id, prefix, g, cfg, *rounds, lines, flags);
        return;
    }
    let mut run = StreamRun::new(g, cfg);
    for ev in evs {
        if run.stopped() {
            break;
        }
        let body = run.apply(ev);
        lines.push(format!("OBS {id} {prefix}{body}"));
    }
    flags.panic |= run.stopped();
    flags.stall |= run.stalled();
    let (z, t) = run.finish();
    flags.panic |= z == "Z X";
    lines.push(format!("OBS {id} {prefix}{z}"));
    lines.push(format!("OBS {id} {prefix}{t}"));
}

/// `t<k>`: the stream is consumed inside a tokio current-thread runtime (cooperative budget active)
/// by a consumer that never yields voluntarily: it takes items as long as the stream gives them,
/// holding at most `hold` FnRefs (oldest dropped first); on `Pending` it drops a held FnRef, or – if
/// it holds none – awaits the stream (2 s budget: a stream that is stalled never wakes it).
/// What happened is written as the expanded event list (`EV`) with one `e<k>` line per event, in
/// the format of the controlled runs.
type TokLog = Rc<RefCell<(Vec<String>, Vec<String>, Vec<Tok>)>>;

/// Consumer of one stream inside a tokio task: holds at most `hold` FnRefs, never yields to the
/// runtime unless the stream is `Pending` with nothing held.
async fn tokio_consume<'g>(stream: BoxStream<'g>, hold: usize, log2: TokLog) {
    use std::collections::VecDeque;
    let mut stream = stream;
    let mut held: VecDeque<FnRef<'_, Fun>> = VecDeque::new();
    let push = |ev: String, ob: String| {
        let mut l = log2.borrow_mut();
        l.0.push(ev);
        l.1.push(ob);
    };
    loop {
        let polled = match futures::poll!(stream.next()) {
            Poll::Ready(item) => Some(item),
            Poll::Pending => {
                if let Some(r) = held.pop_front() {
                    let i = r.idx;
                    log2.borrow_mut().2.push(Tok::End(i, true));
                    drop(r);
                    push(format!("d{i}"), "W-".to_string());
                    continue;
                }
                match tokio::time::timeout(std::time::Duration::from_secs(2), stream.next()).await {
                    Ok(item) => Some(item),
                    Err(_) => None,
                }
            }
        };
        match polled {
            None => {
                push("n".to_string(), "P W0".to_string());
                break;
            }
            Some(None) => {
                push("n".to_string(), "N W-".to_string());
                break;
            }
            Some(Some(SItem::Yield(r))) => {
                let i = r.idx;
                log2.borrow_mut().2.push(Tok::Start(i));
                push("n".to_string(), format!("Y{i} W-"));
                held.push_back(r);
                while held.len() > hold {
                    if let Some(r) = held.pop_front() {
                        let i = r.idx;
                        log2.borrow_mut().2.push(Tok::End(i, true));
                        drop(r);
                        push(format!("d{i}"), "W-".to_string());
                    }
                }
            }
            Some(Some(SItem::Interrupted(o))) => {
                match o {
                    Some(r) => {
                        let i = r.idx;
                        log2.borrow_mut().2.push(Tok::Start(i));
                        push("n".to_string(), format!("I{i} W-"));
                        held.push_back(r);
                    }
                    None => push("n".to_string(), "I- W-".to_string()),
                }
                break;
            }
        }
    }
    drop(held);
    drop(stream);
}

fn tokio_stream_of<'g>(g: &'g FnGraph<Fun>, cfg: &StreamCfg) -> BoxStream<'g> {
    let (_tx, rx) = mpsc::channel::<InterruptSignal>(16);
    let takes_opts = cfg.int || cfg.rev || cfg.strat != Strat::Non;
    let rx_lib = if takes_opts && cfg.strat != Strat::Non {
        Some(rx)
    } else {
        None
    };
    make_stream(g, cfg, rx_lib)
}

fn tokio_emit(id: u64, prefix: &str, log: &TokLog, ok: bool, lines: &mut Vec<String>, flags: &mut RtFlags) {
    let l = log.borrow();
    lines.push(format!(
        "OBS {id} {prefix}EV {}",
        if l.0.is_empty() { "-".to_string() } else { l.0.join(" ") }
    ));
    for (k, ob) in l.1.iter().enumerate() {
        lines.push(format!("OBS {id} {prefix}e{k} {ob}"));
    }
    flags.panic |= !ok;
    lines.push(format!("OBS {id} {prefix}Z {}", if ok { "ok" } else { "X" }));
    lines.push(format!("OBS {id} {prefix}T {}", fmt_trace(&l.2)));
}

fn new_tok_log() -> TokLog {
    Rc::new(RefCell::new((Vec::new(), Vec::new(), Vec::new())))
}

/// `t<hold>`: the stream is consumed inside a real tokio current-thread runtime.
fn run_stream_tokio(
    id: u64,
    prefix: &str,
    g: &FnGraph<Fun>,
    cfg: &StreamCfg,
    hold: usize,
    lines: &mut Vec<String>,
    flags: &mut RtFlags,
) {
    let stream = tokio_stream_of(g, cfg);
    let log = new_tok_log();
    let log2 = log.clone();
    let res = catch_unwind(AssertUnwindSafe(move || {
        let rt = tokio::runtime::Builder::new_current_thread()
            .enable_time()
            .build()
            .expect("tokio runtime");
        rt.block_on(tokio_consume(stream, hold, log2))
    }));
    tokio_emit(id, prefix, &log, res.is_ok(), lines, flags);
}

/// Several streams on one graph value consumed inside ONE tokio task (one cooperative budget):
/// `joined` = polled side by side with `join!` (two streams), otherwise one after the other without
/// yielding to the runtime in between.
fn run_streams_tokio_one_task(
    id: u64,
    g: &FnGraph<Fun>,
    runs: &[(String, StreamCfg, usize)],
    joined: bool,
    lines: &mut Vec<String>,
    flags: &mut RtFlags,
) {
    let logs: Vec<TokLog> = runs.iter().map(|_| new_tok_log()).collect();
    let logs2 = logs.clone();
    let res = catch_unwind(AssertUnwindSafe(move || {
        let rt = tokio::runtime::Builder::new_current_thread()
            .enable_time()
            .build()
            .expect("tokio runtime");
        rt.block_on(async move {
            if joined && runs.len() == 2 {
                let sa = tokio_stream_of(g, &runs[0].1);
                let sb = tokio_stream_of(g, &runs[1].1);
                futures::join!(
                    tokio_consume(sa, runs[0].2, logs2[0].clone()),
                    tokio_consume(sb, runs[1].2, logs2[1].clone())
                );
            } else {
                for (k, (_, cfg, hold)) in runs.iter().enumerate() {
                    let s = tokio_stream_of(g, cfg);
                    tokio_consume(s, *hold, logs2[k].clone()).await;
                }
            }
        })
    }));
    for (k, (prefix, _, _)) in runs.iter().enumerate() {
        tokio_emit(id, prefix, &logs[k], res.is_ok(), lines, flags);
    }
}

/// One wake-driven step of the consumer of `run_stream_race`: polls (until `Pending`) only if the
/// waker flag was set; returns whether it polled.
fn race_poll_woken<'g>(
    flag: &AtomicBool,
    waker: &Waker,
    stream: &mut BoxStream<'g>,
    later: &mut Vec<FnRef<'g, Fun>>,
    yielded: &mut [bool],
    ended: &mut bool,
    trace: &std::sync::Mutex<Vec<Tok>>,
) -> bool {
    if *ended || !flag.swap(false, Ordering::SeqCst) {
        return false;
    }
    loop {
        let mut cx = Context::from_waker(waker);
        match stream.as_mut().poll_next(&mut cx) {
            Poll::Ready(Some(SItem::Yield(r))) | Poll::Ready(Some(SItem::Interrupted(Some(r)))) => {
                yielded[r.idx] = true;
                if let Ok(mut t) = trace.lock() {
                    t.push(Tok::Start(r.idx));
                }
                later.push(r);
            }
            Poll::Ready(Some(SItem::Interrupted(None))) | Poll::Ready(None) => {
                *ended = true;
                break;
            }
            Poll::Pending => break,
        }
    }
    true
}

/// `r<k>`: up to `k` rounds of a real race between two OS threads. Per round: the consumer polls a
/// fresh stream until `Pending`, hands every FnRef it got to a worker thread, and from then on polls
/// ONLY when its waker was woken; the worker drops the FnRefs one by one (spinning a little in
/// between). When the worker has finished (joined) and the consumer has polled for as long as its
/// flag was set, every function whose predecessors were all dropped must have been yielded –
/// otherwise a wake-up was lost. No timeouts are involved, so a correct implementation can never
/// fail. The FnRefs yielded after the hand-over are dropped by the consumer at the end of the round.
/// Output: the events of the last round executed (the failing one, if any) as `EV` + `e<k>` lines.
fn run_stream_race(
    id: u64,
    prefix: &str,
    g: &FnGraph<Fun>,
    cfg: &StreamCfg,
    rounds: usize,
    lines: &mut Vec<String>,
    flags: &mut RtFlags,
) {
    let n = g.graph.node_count();
    let mut preds = vec![Vec::new(); n];
    for e in g.graph.raw_edges() {
        let (a, b) = (e.source().index(), e.target().index());
        if cfg.rev {
            preds[a].push(b);
        } else {
            preds[b].push(a);
        }
    }
    let mut last: (Vec<String>, Vec<String>, Vec<Tok>) = (Vec::new(), Vec::new(), Vec::new());
    let mut panicked = false;
    for round in 0..rounds.max(1) {
        let mut evs: Vec<String> = Vec::new();
        let mut obs: Vec<String> = Vec::new();
        let trace: std::sync::Mutex<Vec<Tok>> = std::sync::Mutex::new(Vec::new());
        let mut stalled = false;
        let res = catch_unwind(AssertUnwindSafe(|| {
            let (flag, waker) = flag_waker(false);
            let mut stream = make_stream(g, cfg, None);
            let mut yielded = vec![false; n];
            let mut first: Vec<FnRef<'_, Fun>> = Vec::new();
            let mut later: Vec<FnRef<'_, Fun>> = Vec::new();
            let mut ended = false;
            // phase 1: everything that is ready
            loop {
                flag.store(false, Ordering::SeqCst);
                let mut cx = Context::from_waker(&waker);
                match stream.as_mut().poll_next(&mut cx) {
                    Poll::Ready(Some(SItem::Yield(r))) | Poll::Ready(Some(SItem::Interrupted(Some(r)))) => {
                        yielded[r.idx] = true;
                        if let Ok(mut t) = trace.lock() {
                            t.push(Tok::Start(r.idx));
                        }
                        evs.push("n".to_string());
                        obs.push(format!("Y{} W-", r.idx));
                        first.push(r);
                    }
                    Poll::Ready(Some(SItem::Interrupted(None))) | Poll::Ready(None) => {
                        evs.push("n".to_string());
                        obs.push("N W-".to_string());
                        ended = true;
                        break;
                    }
                    Poll::Pending => {
                        evs.push("n".to_string());
                        obs.push("P W0".to_string());
                        break;
                    }
                }
            }
            let handed: Vec<usize> = first.iter().map(|r| r.idx).collect();
            let spin = 1 + (round * 7) % 40;
            std::thread::scope(|sc| {
                let trace_w = &trace;
                let worker = sc.spawn(move || {
                    for r in first {
                        for _ in 0..spin {
                            std::hint::spin_loop();
                        }
                        // logged just before the drop: the log never shows a successor before it
                        if let Ok(mut t) = trace_w.lock() {
                            t.push(Tok::End(r.idx, true));
                        }
                        drop(r);
                    }
                });
                // phase 2: wake-driven polling while the worker drops
                while !worker.is_finished() {
                    race_poll_woken(&flag, &waker, &mut stream, &mut later, &mut yielded, &mut ended, &trace);
                    std::hint::spin_loop();
                }
                let _ = worker.join();
                while race_poll_woken(&flag, &waker, &mut stream, &mut later, &mut yielded, &mut ended, &trace) {}
            });
            // all handed-over FnRefs are dropped now
            for &i in &handed {
                evs.push(format!("d{i}"));
                obs.push("W-".to_string());
            }
            let mut dropped = vec![false; n];
            for &i in &handed {
                dropped[i] = true;
            }
            for r in &later {
                evs.push("n".to_string());
                obs.push(format!("Y{} W-", r.idx));
            }
            if !ended {
                for v in 0..n {
                    if !yielded[v] && preds[v].iter().all(|&p| dropped[p]) {
                        stalled = true;
                    }
                }
            }
            if stalled {
                evs.push("n".to_string());
                obs.push("P W0".to_string());
            }
            drop(later);
            drop(stream);
        }));
        if res.is_err() {
            panicked = true;
        }
        last = (evs, obs, trace.into_inner().unwrap_or_default());
        if stalled || panicked {
            flags.stall |= stalled;
            break;
        }
    }
    lines.push(format!(
        "OBS {id} {prefix}EV {}",
        if last.0.is_empty() { "-".to_string() } else { last.0.join(" ") }
    ));
    for (k, ob) in last.1.iter().enumerate() {
        lines.push(format!("OBS {id} {prefix}e{k} {ob}"));
    }
    flags.panic |= panicked;
    lines.push(format!("OBS {id} {prefix}Z {}", if panicked { "X" } else { "ok" }));
    lines.push(format!("OBS {id} {prefix}T {}", fmt_trace(&last.2)));
}

/// Builds the graph of a runtime case (`None` if an op or `build()` panicked).
pub fn build_graph(ops: &[crate::builder_case::Op]) -> Option<FnGraph<Fun>> {
    match build_ops(ops).outcome {
        Outcome::Ok { graph, .. } => Some(graph),
        _ => None,
    }
}

/// One synchronous walk over the graph value that leaves every payload as it was; which API is used
/// is a function of `sel` (7 = none).  A panic inside the walk is left to the following run to expose.
fn sync_walk(g: &mut FnGraph<Fun>, sel: usize) {
    let _ = std::panic::catch_unwind(std::panic::AssertUnwindSafe(|| match sel % 8 {
        0 => g.for_each(|_f| {}),
        1 => {
            let _ = g.map(|f| f.idx).count();
        }
        2 => {
            let _ = g.fold(0usize, |acc, f| acc + f.idx);
        }
        3 => {
            let _ = g.try_fold(0usize, |acc, f| Ok::<usize, ()>(acc + f.idx));
        }
        4 => {
            let _ = g.try_for_each(|_f| Ok::<(), ()>(()));
        }
        5 => {
            let _ = g.iter_insertion_mut().count();
        }
        6 => {
            let dag: &mut fn_graph::daggy::Dag<Fun, fn_graph::Edge, fn_graph::FnIdInner> = &mut *g;
            let _ = dag.node_count();
        }
        _ => {}
    }));
}

fn run_body(c: &RtCase, lines: &mut Vec<String>, flags: &mut RtFlags) {
    let id = c.id;
    OPTS_VARIANT.with(|v| v.set(id as usize));
    let Some(mut g) = build_graph(&c.ops) else {
        flags.build_failed = true;
        lines.push(format!("OBS {id} B P"));
        return;
    };
    // G: raw edges of the built graph (the public `graph` field), used by the monitors.
    lines.push(format!(
        "OBS {id} G {}",
        crate::builder_case::fmt_edges(
            g.graph
                .raw_edges()
                .iter()
                .map(|e| (e.source().index(), e.target().index(), &e.weight)),
        )
    ));
    match &c.body {
        Body::X(cfg, evs) => {
            let gref = if cfg.mutable {
                GRef::Mut(&mut g)
            } else {
                GRef::Shared(&g)
            };
            run_call_events(id, "", gref, cfg, evs, lines, flags);
        }
        Body::S(cfg, evs) => run_stream_events(id, "", &g, cfg, evs, lines, flags),
        Body::H(runs) if c.family.starts_with("share") => {
            // every run is a call with the same strategy; ONE InterruptibilityState is shared by all
            // of them through `reborrow()` (monitors only, no fresh-graph oracle)
            let strat = runs
                .iter()
                .find_map(|r| match r {
                    Run::Call(cfg, _) => Some(cfg.strat),
                    Run::Stream(..) => None,
                })
                .unwrap_or(Strat::Fin);
            let (tx, rx) = mpsc::channel::<InterruptSignal>(16);
            let Some(strategy) = strategy_of(strat) else {
                return;
            };
            let mut state = InterruptibilityState::new(Interruptibility::new(rx.into(), strategy));
            // `share-closed`: after the first call every sender of the interrupt channel is dropped (the
            // signal handler has exited); later calls get a sender of an unrelated channel (unused)
            let closed = c.family.starts_with("share-closed");
            let mut tx = Some(tx);
            let (tx_dummy, _rx_dummy) = mpsc::channel::<InterruptSignal>(1);
            for (j, r) in runs.iter().enumerate() {
                let prefix = format!("r{j}.");
                if closed && j >= 1 {
                    tx = None;
                }
                let tx = match tx.as_ref() {
                    Some(t) => t.clone(),
                    None => tx_dummy.clone(),
                };
                if let Run::Call(cfg, evs) = r {
                    let gref = if cfg.mutable {
                        GRef::Mut(&mut g)
                    } else {
                        GRef::Shared(&g)
                    };
                    let mut run = CallRun::new_shared(gref, cfg, tx.clone(), state.reborrow());
                    for ev in evs {
                        if run.ended() {
                            break;
                        }
                        let body = run.apply(ev);
                        lines.push(format!("OBS {id} {prefix}{body}"));
                    }
                    finish_call(id, &prefix, &mut run, lines, flags);
                }
            }
        }
        Body::H(runs) if c.family.starts_with("tokio") => {
            // every run is a stream consumed by `t<hold>`; all of them inside one tokio task, one
            // after the other; oracle: each alone on a freshly built graph in a runtime of its own
            let specs: Vec<(String, StreamCfg, usize)> = runs
                .iter()
                .enumerate()
                .filter_map(|(j, r)| match r {
                    Run::Stream(cfg, evs) => match evs.as_slice() {
                        [SEv::Tokio(h)] => Some((format!("r{j}."), cfg.clone(), *h)),
                        _ => None,
                    },
                    Run::Call(..) => None,
                })
                .collect();
            run_streams_tokio_one_task(id, &g, &specs, false, lines, flags);
            for (j, (_, cfg, hold)) in specs.iter().enumerate() {
                let Some(fresh) = build_graph(&c.ops) else {
                    continue;
                };
                let mut fl = RtFlags::default();
                run_stream_tokio(id, &format!("f{j}."), &fresh, cfg, *hold, lines, &mut fl);
            }
        }
        Body::H(runs) => {
            for (j, r) in runs.iter().enumerate() {
                let prefix = format!("r{j}.");
                // between the runs the used graph value (never the fresh oracle graph) is walked by
                // one of the synchronous `&mut self` APIs with a closure that changes nothing
                sync_walk(&mut g, c.ops.len() + j);
                match r {
                    Run::Call(cfg, evs) => {
                        // `*<k>`: the run is first executed k times unobserved on the same graph value
                        let (reps, evs): (usize, &[CallEv]) = match evs.first() {
                            Some(CallEv { kind: CallEvKind::Repeat(k), .. }) => (*k, &evs[1..]),
                            _ => (0, &evs[..]),
                        };
                        for _ in 0..reps {
                            let mut scratch = Vec::new();
                            let mut fl = RtFlags::default();
                            let gref = if cfg.mutable {
                                GRef::Mut(&mut g)
                            } else {
                                GRef::Shared(&g)
                            };
                            run_call_events(id, &prefix, gref, cfg, evs, &mut scratch, &mut fl);
                        }
                        let gref = if cfg.mutable {
                            GRef::Mut(&mut g)
                        } else {
                            GRef::Shared(&g)
                        };
                        run_call_events(id, &prefix, gref, cfg, evs, lines, flags);
                    }
                    Run::Stream(cfg, evs) => {
                        run_stream_events(id, &prefix, &g, cfg, evs, lines, flags)
                    }
                }
            }
            // Oracle of C15: every later run once more, on a freshly built graph (`f<j>.` lines;
            // implementation against implementation, the model does not print them).
            // (run 0 too: it may have been preceded by unobserved repetitions)
            for (j, r) in runs.iter().enumerate() {
                let Some(mut fresh) = build_graph(&c.ops) else {
                    continue;
                };
                let prefix = format!("f{j}.");
                let mut fl = RtFlags::default();
                match r {
                    Run::Call(cfg, evs) => {
                        let evs: &[CallEv] = match evs.first() {
                            Some(CallEv { kind: CallEvKind::Repeat(_), .. }) => &evs[1..],
                            _ => &evs[..],
                        };
                        let gref = if cfg.mutable {
                            GRef::Mut(&mut fresh)
                        } else {
                            GRef::Shared(&fresh)
                        };
                        run_call_events(id, &prefix, gref, cfg, evs, lines, &mut fl);
                    }
                    Run::Stream(cfg, evs) => {
                        run_stream_events(id, &prefix, &fresh, cfg, evs, lines, &mut fl)
                    }
                }
            }
        }
        Body::Y(a, b, evs) => {
            // `!` finishes the side's current run and starts a fresh one (prefix `B2.`, `B3.`, ...)
            fn side_prefix(f: bool, b: bool, gen: usize) -> String {
                format!(
                    "{}{}{}.",
                    if f { "f" } else { "" },
                    if b { "B" } else { "A" },
                    if gen <= 1 { String::new() } else { gen.to_string() }
                )
            }
            let mut ra = CallRun::new(GRef::Shared(&g), a);
            let mut rb = CallRun::new(GRef::Shared(&g), b);
            let mut gens = [1usize, 1usize];
            for (is_b, ev) in evs {
                let side = *is_b as usize;
                let prefix = side_prefix(false, *is_b, gens[side]);
                let (run, cfg) = if *is_b { (&mut rb, b) } else { (&mut ra, a) };
                if ev.kind == CallEvKind::Restart {
                    finish_call(id, &prefix, run, lines, flags);
                    *run = CallRun::new(GRef::Shared(&g), cfg);
                    gens[side] += 1;
                    continue;
                }
                if run.ended() {
                    continue;
                }
                let body = run.apply(ev);
                lines.push(format!("OBS {id} {prefix}{body}"));
            }
            finish_call(id, &side_prefix(false, false, gens[0]), &mut ra, lines, flags);
            finish_call(id, &side_prefix(false, true, gens[1]), &mut rb, lines, flags);
            drop(ra);
            drop(rb);
            // Oracle of C20: every run alone, on its own freshly built graph, with its own events
            // (`fA.` / `fB.` / `fB2.` ... lines; the model does not print them).
            for (which, cfg) in [(false, a), (true, b)] {
                let mut gen = 1usize;
                let mut fl = RtFlags::default();
                let mut fresh = match build_graph(&c.ops) {
                    Some(f) => f,
                    None => continue,
                };
                let mut pending: Vec<&CallEv> = Vec::new();
                let mut segments: Vec<Vec<&CallEv>> = Vec::new();
                for (is_b, ev) in evs {
                    if *is_b != which {
                        continue;
                    }
                    if ev.kind == CallEvKind::Restart {
                        segments.push(std::mem::take(&mut pending));
                    } else {
                        pending.push(ev);
                    }
                }
                segments.push(pending);
                for seg in segments {
                    let pre = side_prefix(true, which, gen);
                    {
                        let mut run = CallRun::new(GRef::Shared(&fresh), cfg);
                        for ev in seg {
                            if run.ended() {
                                continue;
                            }
                            let body = run.apply(ev);
                            lines.push(format!("OBS {id} {pre}{body}"));
                        }
                        finish_call(id, &pre, &mut run, lines, &mut fl);
                    }
                    gen += 1;
                    if let Some(f) = build_graph(&c.ops) {
                        fresh = f;
                    }
                }
            }
        }
        Body::W(a, b, evs) => {
            let mut ra: Option<StreamRun> = None;
            let mut rb: Option<CallRun> = None;
            for e in evs {
                match e {
                    MixEv::A(ev) => {
                        let run = ra.get_or_insert_with(|| StreamRun::new(&g, a));
                        if run.stopped() {
                            continue;
                        }
                        let body = run.apply(ev);
                        lines.push(format!("OBS {id} A.{body}"));
                    }
                    MixEv::B(ev) => {
                        let run = rb.get_or_insert_with(|| CallRun::new(GRef::Shared(&g), b));
                        if run.ended() {
                            continue;
                        }
                        let body = run.apply(ev);
                        lines.push(format!("OBS {id} B.{body}"));
                    }
                }
            }
            {
                let mut run = ra.unwrap_or_else(|| StreamRun::new(&g, a));
                flags.panic |= run.stopped();
                let (z, t) = run.finish();
                flags.panic |= z == "Z X";
                lines.push(format!("OBS {id} A.{z}"));
                lines.push(format!("OBS {id} A.{t}"));
            }
            {
                let mut run = rb.unwrap_or_else(|| CallRun::new(GRef::Shared(&g), b));
                finish_call(id, "B.", &mut run, lines, flags);
            }
            // Oracle of C20: each alone on its own freshly built graph.
            if let Some(fresh) = build_graph(&c.ops) {
                let own: Vec<SEv> = evs
                    .iter()
                    .filter_map(|e| match e {
                        MixEv::A(e) => Some(e.clone()),
                        MixEv::B(_) => None,
                    })
                    .collect();
                let mut fl = RtFlags::default();
                run_stream_events(id, "fA.", &fresh, a, &own, lines, &mut fl);
            }
            if let Some(fresh) = build_graph(&c.ops) {
                let mut fl = RtFlags::default();
                let mut run = CallRun::new(GRef::Shared(&fresh), b);
                for e in evs {
                    if let MixEv::B(ev) = e {
                        if run.ended() {
                            continue;
                        }
                        let body = run.apply(ev);
                        lines.push(format!("OBS {id} fB.{body}"));
                    }
                }
                finish_call(id, "fB.", &mut run, lines, &mut fl);
            }
        }
        Body::Z(a, b, evs) if c.family.starts_with("tokio") => {
            // two streams on one graph value consumed side by side (`join!`) inside one tokio task
            let hold_of = |side: bool| {
                evs.iter()
                    .find_map(|(is_b, e)| match e {
                        SEv::Tokio(h) if *is_b == side => Some(*h),
                        _ => None,
                    })
                    .unwrap_or(0)
            };
            let specs = vec![
                ("A.".to_string(), a.clone(), hold_of(false)),
                ("B.".to_string(), b.clone(), hold_of(true)),
            ];
            run_streams_tokio_one_task(id, &g, &specs, true, lines, flags);
            for (pre, cfg, hold) in [("fA.", a, hold_of(false)), ("fB.", b, hold_of(true))] {
                let Some(fresh) = build_graph(&c.ops) else {
                    continue;
                };
                let mut fl = RtFlags::default();
                run_stream_tokio(id, pre, &fresh, cfg, hold, lines, &mut fl);
            }
        }
        Body::Z(a, b, evs) => {
            // Each stream is created at its first event (so one may be created while FnRefs of the
            // other, already exhausted one are still alive).
            let mut ra: Option<StreamRun> = None;
            let mut rb: Option<StreamRun> = None;
            for (is_b, ev) in evs {
                let (slot, cfg, prefix) = if *is_b {
                    (&mut rb, b, "B.")
                } else {
                    (&mut ra, a, "A.")
                };
                let run = slot.get_or_insert_with(|| StreamRun::new(&g, cfg));
                if run.stopped() {
                    continue;
                }
                let body = run.apply(ev);
                lines.push(format!("OBS {id} {prefix}{body}"));
            }
            for (slot, cfg, prefix) in [(ra, a, "A."), (rb, b, "B.")] {
                let mut run = slot.unwrap_or_else(|| StreamRun::new(&g, cfg));
                flags.panic |= run.stopped();
                let (z, t) = run.finish();
                flags.panic |= z == "Z X";
                lines.push(format!("OBS {id} {prefix}{z}"));
                lines.push(format!("OBS {id} {prefix}{t}"));
            }
            // Oracle of C20: each stream alone on its own freshly built graph (`fA.` / `fB.`).
            for (which, cfg, pre) in [(false, a, "fA."), (true, b, "fB.")] {
                let Some(fresh) = build_graph(&c.ops) else {
                    continue;
                };
                let own: Vec<SEv> = evs
                    .iter()
                    .filter(|(is_b, _)| *is_b == which)
                    .map(|(_, e)| e.clone())
                    .collect();
                let mut fl = RtFlags::default();
                run_stream_events(id, pre, &fresh, cfg, &own, lines, &mut fl);
            }
        }
    }
}

/// Executes one runtime case and returns its OBS lines.
pub fn run_rt_case(c: &RtCase) -> RtResult {
    let mut lines = Vec::new();
    let mut flags = RtFlags::default();
    let res = catch_unwind(AssertUnwindSafe(|| run_body(c, &mut lines, &mut flags)));
    if res.is_err() {
        flags.harness_panic = true;
        lines.push(format!("OBS {} PANIC", c.id));
    }
    RtResult { lines, flags }
}
