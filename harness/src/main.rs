//! Differential-testing harness for `fn_graph`.
//!
//! Subcommands:
//!
//! * `builder --tier <quick|thorough> --seed <u64> --out <path>`: generate builder cases, run them
//!   against the real `fn_graph`, write CASE / OBS lines (see FORMAT.md).
//! * `builder-replay --in <path> --out <path>`: re-run the `CASE B` / `CASE BP` lines of a file.
//! * `runtime --tier <quick|thorough> --seed <u64> --out <path>` and
//!   `runtime-replay --in <path> --out <path>`: see `runtime.rs`.

mod builder_case;
mod builder_gen;
mod payload;
mod rng;
// ---- `runtime` / `runtime-replay` subcommands (streaming APIs under a controlled executor) ----
#[cfg(feature = "interruptible")]
mod rt_case;
#[cfg(feature = "interruptible")]
mod rt_exec;
#[cfg(feature = "interruptible")]
mod rt_gen;
mod runtime;

use std::fs::File;
use std::io::{BufRead, BufReader, BufWriter, Write};
use std::time::Instant;

use builder_case::{fmt_case, parse_case_line, run_case, Case, CaseFlags};
use builder_gen::Tier;
use rng::Rng;

fn usage() -> i32 {
    eprintln!(
        "usage:\n  fg_harness builder --tier <quick|thorough> --seed <u64> --out <path>\n  \
         fg_harness builder-replay --in <path> --out <path>\n  \
         fg_harness runtime --tier <quick|thorough> --seed <u64> --out <path>\n  \
         fg_harness runtime-replay --in <path> --out <path>"
    );
    2
}

/// Value of `--name <value>` in `args`, if present.
fn opt<'a>(args: &'a [String], name: &str) -> Option<&'a str> {
    args.iter()
        .position(|a| a == name)
        .and_then(|i| args.get(i + 1))
        .map(|s| s.as_str())
}

/// Checks that `args` consists only of `--name value` pairs with names from `allowed`.
fn check_opts(args: &[String], allowed: &[&str]) -> bool {
    if args.len() % 2 != 0 {
        return false;
    }
    args.chunks(2).all(|c| allowed.contains(&c[0].as_str()))
}

#[derive(Default)]
struct FamilyStats {
    cases: u64,
    obs: u64,
    cyc: u64,
    op_panic: u64,
    build_panic: u64,
    harness_panic: u64,
    micros: u128,
}

/// Per-family counters, in order of first appearance. The family of a case is the part of its
/// family token before the first `-`.
#[derive(Default)]
struct Stats {
    families: Vec<(String, FamilyStats)>,
}

impl Stats {
    fn record(&mut self, family_token: &str, obs: usize, flags: CaseFlags, micros: u128) {
        let name = family_token.split('-').next().unwrap_or(family_token);
        let idx = match self.families.iter().position(|(n, _)| n == name) {
            Some(i) => i,
            None => {
                self.families
                    .push((name.to_string(), FamilyStats::default()));
                self.families.len() - 1
            }
        };
        let s = &mut self.families[idx].1;
        s.cases += 1;
        s.obs += obs as u64;
        s.cyc += flags.has_cyc as u64;
        s.op_panic += flags.op_panic as u64;
        s.build_panic += flags.build_panic as u64;
        s.harness_panic += flags.harness_panic as u64;
        s.micros += micros;
    }
}

/// Runs one case and writes its CASE line (`case_line`) and OBS lines.
fn run_and_write(
    out: &mut impl Write,
    stats: &mut Stats,
    case: &Case,
    case_line: &str,
) -> std::io::Result<()> {
    // The CASE line reaches the file before the case runs: if a library call never returns, the
    // last line of the file names the case.
    writeln!(out, "{case_line}")?;
    out.flush()?;
    let t0 = Instant::now();
    let res = run_case(case);
    let micros = t0.elapsed().as_micros();
    for l in &res.lines {
        writeln!(out, "{l}")?;
    }
    stats.record(case.family(), res.lines.len(), res.flags, micros);
    Ok(())
}

fn main_builder(args: &[String]) -> i32 {
    if !check_opts(args, &["--tier", "--seed", "--out"]) {
        return usage();
    }
    let tier = match opt(args, "--tier").and_then(Tier::parse) {
        Some(t) => t,
        None => return usage(),
    };
    let seed = match opt(args, "--seed").and_then(|s| s.parse::<u64>().ok()) {
        Some(s) => s,
        None => return usage(),
    };
    let path = match opt(args, "--out") {
        Some(p) => p,
        None => return usage(),
    };
    let file = match File::create(path) {
        Ok(f) => f,
        Err(e) => {
            eprintln!("cannot create {path}: {e}");
            return 1;
        }
    };
    let mut out = BufWriter::new(file);
    let mut stats = Stats::default();
    let mut io_err: Option<std::io::Error> = None;
    let t0 = Instant::now();

    // The one PRNG every random choice comes from.
    let mut rng = Rng::new(seed);
    builder_gen::generate(tier, &mut rng, &mut |case: Case| {
        if io_err.is_some() {
            return;
        }
        let line = fmt_case(&case);
        if let Err(e) = run_and_write(&mut out, &mut stats, &case, &line) {
            io_err = Some(e);
        }
    });

    let mut harness_panics = 0;
    for (name, s) in &stats.families {
        harness_panics += s.harness_panic;
        // No timings in the file: same seed => byte-identical output.
        let r = writeln!(
            out,
            "STATS builder family={} cases={} obs={} cyc_cases={} op_panic={} build_panic={} harness_panic={}",
            name, s.cases, s.obs, s.cyc, s.op_panic, s.build_panic, s.harness_panic
        );
        if let Err(e) = r {
            io_err.get_or_insert(e);
        }
        eprintln!(
            "builder family={} cases={} cyc_cases={} op_panic={} build_panic={} harness_panic={} ms={}",
            name,
            s.cases,
            s.cyc,
            s.op_panic,
            s.build_panic,
            s.harness_panic,
            s.micros / 1000
        );
    }
    if let Err(e) = out.flush() {
        io_err.get_or_insert(e);
    }
    eprintln!(
        "builder total cases={} ms={}",
        stats.families.iter().map(|(_, s)| s.cases).sum::<u64>(),
        t0.elapsed().as_millis()
    );
    if let Some(e) = io_err {
        eprintln!("write error on {path}: {e}");
        return 1;
    }
    if harness_panics > 0 {
        eprintln!("{harness_panics} case(s) panicked outside the places FORMAT.md accounts for (see `PANIC` lines)");
        return 3;
    }
    0
}

fn main_builder_replay(args: &[String]) -> i32 {
    if !check_opts(args, &["--in", "--out"]) {
        return usage();
    }
    let (inp, outp) = match (opt(args, "--in"), opt(args, "--out")) {
        (Some(i), Some(o)) => (i, o),
        _ => return usage(),
    };
    let reader = match File::open(inp) {
        Ok(f) => BufReader::new(f),
        Err(e) => {
            eprintln!("cannot open {inp}: {e}");
            return 1;
        }
    };
    let mut out = match File::create(outp) {
        Ok(f) => BufWriter::new(f),
        Err(e) => {
            eprintln!("cannot create {outp}: {e}");
            return 1;
        }
    };
    let mut stats = Stats::default();
    let mut bad_lines = 0u64;
    for (lineno, line) in reader.lines().enumerate() {
        let line = match line {
            Ok(l) => l,
            Err(e) => {
                eprintln!("read error on {inp}: {e}");
                return 1;
            }
        };
        match parse_case_line(&line) {
            Ok(None) => {}
            Ok(Some(case)) => {
                // The CASE line is copied verbatim.
                if let Err(e) = run_and_write(&mut out, &mut stats, &case, line.trim_end()) {
                    eprintln!("write error on {outp}: {e}");
                    return 1;
                }
            }
            Err(e) => {
                bad_lines += 1;
                eprintln!("{inp}:{}: skipped: {e}", lineno + 1);
            }
        }
    }
    if let Err(e) = out.flush() {
        eprintln!("write error on {outp}: {e}");
        return 1;
    }
    let mut harness_panics = 0;
    for (name, s) in &stats.families {
        harness_panics += s.harness_panic;
        eprintln!(
            "builder-replay family={} cases={} cyc_cases={} op_panic={} build_panic={} harness_panic={} ms={}",
            name,
            s.cases,
            s.cyc,
            s.op_panic,
            s.build_panic,
            s.harness_panic,
            s.micros / 1000
        );
    }
    if bad_lines > 0 {
        eprintln!("{bad_lines} malformed CASE line(s) skipped");
        return 1;
    }
    if harness_panics > 0 {
        return 3;
    }
    0
}

/// Set when a generator family panicked (its remaining cases are missing from the output).
pub static GEN_PANICKED: std::sync::atomic::AtomicBool = std::sync::atomic::AtomicBool::new(false);

fn main() {
    // Panics of the library under test are expected and caught; keep stderr clean.
    // FG_PANIC_VERBOSE=1 prints them (debugging the harness itself).
    if std::env::var_os("FG_PANIC_VERBOSE").is_none() {
        std::panic::set_hook(Box::new(|_| {}));
    }

    let args: Vec<String> = std::env::args().collect();
    let code = match args.get(1).map(|s| s.as_str()) {
        Some("builder") => main_builder(&args[2..]),
        Some("builder-replay") => main_builder_replay(&args[2..]),
        // ---- `runtime` subcommands: implemented in runtime.rs ----
        Some("runtime") => runtime::main_runtime(&args[2..]),
        Some("runtime-replay") => runtime::main_runtime_replay(&args[2..]),
        _ => usage(),
    };
    let code = if code == 0 && GEN_PANICKED.load(std::sync::atomic::Ordering::SeqCst) {
        4 // a generator family panicked: part of the cases is missing
    } else {
        code
    };
    std::process::exit(code);
}
