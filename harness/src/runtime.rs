//! `runtime` / `runtime-replay` subcommands: the streaming APIs of `fn_graph` under a controlled
//! single-task executor (FORMAT.md, "Runtime cases").
//!
//! * `runtime --tier <quick|thorough> --seed <u64> --out <path>`: generate cases (`rt_gen.rs`), run
//!   them against the real `fn_graph` (`rt_exec.rs`), write each `CASE` line followed by its `OBS`
//!   lines, then one `STATS runtime family=<name> cases=<k>` line per family.
//! * `runtime-replay --in <path> --out <path>`: re-run every `CASE X|S|H|Y` line of the input.
//!
//! Panics, hangs (call pending, nothing in flight, flag clear), stream stalls (a releasable
//! function that can no longer be yielded) and settle livelocks are counted per family and the
//! first few offending CASE lines are printed on stderr; the output file carries no such verdicts.

#[cfg(not(feature = "interruptible"))]
pub fn main_runtime(_args: &[String]) -> i32 {
    eprintln!("the runtime subcommands need the `interruptible` feature");
    2
}

#[cfg(not(feature = "interruptible"))]
pub fn main_runtime_replay(_args: &[String]) -> i32 {
    eprintln!("the runtime subcommands need the `interruptible` feature");
    2
}

#[cfg(feature = "interruptible")]
pub use imp::{main_runtime, main_runtime_replay};

#[cfg(feature = "interruptible")]
mod imp {
    use std::fs::File;
    use std::io::{BufRead, BufReader, BufWriter, Write};
    use std::time::Instant;

    use crate::builder_gen::Tier;
    use crate::rng::Rng;
    use crate::rt_case::{fmt_rt_case, parse_rt_case_line, RtCase};
    use crate::rt_exec::{run_rt_case, RtFlags};
    use crate::{check_opts, opt, usage};

    /// How many offending CASE lines are printed per family and anomaly kind.
    const ANOMALY_LINES: usize = 4;
    /// CASE lines longer than this are cut on stderr.
    const ANOMALY_LINE_MAX: usize = 600;

    #[derive(Default)]
    struct FamilyStats {
        cases: u64,
        kinds: [u64; 4],
        obs: u64,
        panic: u64,
        hang: u64,
        stall: u64,
        livelock: u64,
        build_failed: u64,
        harness_panic: u64,
        micros: u128,
    }

    #[derive(Default)]
    struct Stats {
        families: Vec<(String, FamilyStats)>,
    }

    impl Stats {
        fn entry(&mut self, family_token: &str) -> &mut FamilyStats {
            let name = family_token.split('-').next().unwrap_or(family_token);
            let idx = match self.families.iter().position(|(n, _)| n == name) {
                Some(i) => i,
                None => {
                    self.families
                        .push((name.to_string(), FamilyStats::default()));
                    self.families.len() - 1
                }
            };
            &mut self.families[idx].1
        }
    }

    fn report_anomaly(kind: &str, count: u64, case_line: &str) {
        if count as usize > ANOMALY_LINES {
            return;
        }
        let mut line = case_line.to_string();
        if line.len() > ANOMALY_LINE_MAX {
            let mut cut = ANOMALY_LINE_MAX;
            while !line.is_char_boundary(cut) {
                cut -= 1;
            }
            line.truncate(cut);
            line.push_str(" …");
        }
        eprintln!("ANOMALY {kind}: {line}");
    }

    fn run_and_write(
        out: &mut impl Write,
        stats: &mut Stats,
        case: &RtCase,
        case_line: &str,
    ) -> std::io::Result<()> {
        // The CASE line reaches the file before the case runs: if a library call never returns, the
        // last line of the file names the case.
        writeln!(out, "{case_line}")?;
        out.flush()?;
        let t0 = Instant::now();
        let res = run_rt_case(case);
        let micros = t0.elapsed().as_micros();
        for l in &res.lines {
            writeln!(out, "{l}")?;
        }
        let s = stats.entry(&case.family);
        s.cases += 1;
        s.kinds[match case.kind() {
            'X' => 0,
            'S' => 1,
            'H' => 2,
            _ => 3,
        }] += 1;
        s.obs += res.lines.len() as u64;
        s.micros += micros;
        let RtFlags {
            panic,
            hang,
            stall,
            livelock,
            build_failed,
            harness_panic,
        } = res.flags;
        if panic {
            s.panic += 1;
            report_anomaly("panic", s.panic, case_line);
        }
        if hang {
            s.hang += 1;
            report_anomaly("hang", s.hang, case_line);
        }
        if stall {
            s.stall += 1;
            report_anomaly("stream-stall", s.stall, case_line);
        }
        if livelock {
            s.livelock += 1;
            report_anomaly("livelock", s.livelock, case_line);
        }
        if build_failed {
            s.build_failed += 1;
            report_anomaly("build-failed", s.build_failed, case_line);
        }
        if harness_panic {
            s.harness_panic += 1;
            report_anomaly("harness-panic", s.harness_panic, case_line);
        }
        Ok(())
    }

    fn print_summary(cmd: &str, stats: &Stats, t0: Instant) -> u64 {
        let mut harness_panics = 0;
        for (name, s) in &stats.families {
            harness_panics += s.harness_panic + s.build_failed;
            eprintln!(
                "{cmd} family={} cases={} (X={} S={} H={} Y={}) obs={} panic={} hang={} stream_stall={} livelock={} build_failed={} harness_panic={} ms={}",
                name,
                s.cases,
                s.kinds[0],
                s.kinds[1],
                s.kinds[2],
                s.kinds[3],
                s.obs,
                s.panic,
                s.hang,
                s.stall,
                s.livelock,
                s.build_failed,
                s.harness_panic,
                s.micros / 1000
            );
        }
        eprintln!(
            "{cmd} total cases={} ms={}",
            stats.families.iter().map(|(_, s)| s.cases).sum::<u64>(),
            t0.elapsed().as_millis()
        );
        harness_panics
    }

    pub fn main_runtime(args: &[String]) -> i32 {
        if !check_opts(args, &["--tier", "--seed", "--out"]) {
            return usage();
        }
        let Some(tier) = opt(args, "--tier").and_then(Tier::parse) else {
            return usage();
        };
        let Some(seed) = opt(args, "--seed").and_then(|s| s.parse::<u64>().ok()) else {
            return usage();
        };
        let Some(path) = opt(args, "--out") else {
            return usage();
        };
        let file = match File::create(path) {
            Ok(f) => f,
            Err(e) => {
                eprintln!("cannot create {path}: {e}");
                return 1;
            }
        };
        let mut out = BufWriter::new(file);
        let mut stats = Stats::default();
        let mut io_err: Option<std::io::Error> = None;
        let t0 = Instant::now();

        // The one PRNG every random choice comes from.
        let mut rng = Rng::new(seed);
        crate::rt_gen::generate(tier, &mut rng, &mut |case: RtCase| {
            if io_err.is_some() {
                return;
            }
            let line = fmt_rt_case(&case);
            if let Err(e) = run_and_write(&mut out, &mut stats, &case, &line) {
                io_err = Some(e);
            }
        });

        for (name, s) in &stats.families {
            // No timings in the file: same tier and seed => byte-identical output.
            if let Err(e) = writeln!(out, "STATS runtime family={} cases={}", name, s.cases) {
                io_err.get_or_insert(e);
            }
        }
        if let Err(e) = out.flush() {
            io_err.get_or_insert(e);
        }
        let harness_panics = print_summary("runtime", &stats, t0);
        if let Some(e) = io_err {
            eprintln!("write error on {path}: {e}");
            return 1;
        }
        if harness_panics > 0 {
            eprintln!("{harness_panics} case(s) failed inside the harness (see `PANIC` / `B P` lines)");
            return 3;
        }
        0
    }

    pub fn main_runtime_replay(args: &[String]) -> i32 {
        if !check_opts(args, &["--in", "--out"]) {
            return usage();
        }
        let (Some(inp), Some(outp)) = (opt(args, "--in"), opt(args, "--out")) else {
            return usage();
        };
        let reader = match File::open(inp) {
            Ok(f) => BufReader::new(f),
            Err(e) => {
                eprintln!("cannot open {inp}: {e}");
                return 1;
            }
        };
        let mut out = match File::create(outp) {
            Ok(f) => BufWriter::new(f),
            Err(e) => {
                eprintln!("cannot create {outp}: {e}");
                return 1;
            }
        };
        let mut stats = Stats::default();
        let mut bad_lines = 0u64;
        let t0 = Instant::now();
        for (lineno, line) in reader.lines().enumerate() {
            let line = match line {
                Ok(l) => l,
                Err(e) => {
                    eprintln!("read error on {inp}: {e}");
                    return 1;
                }
            };
            match parse_rt_case_line(&line) {
                Ok(None) => {}
                Ok(Some(case)) => {
                    // The CASE line is copied verbatim.
                    if let Err(e) = run_and_write(&mut out, &mut stats, &case, line.trim_end()) {
                        eprintln!("write error on {outp}: {e}");
                        return 1;
                    }
                }
                Err(e) => {
                    bad_lines += 1;
                    eprintln!("{inp}:{}: skipped: {e}", lineno + 1);
                }
            }
        }
        if let Err(e) = out.flush() {
            eprintln!("write error on {outp}: {e}");
            return 1;
        }
        let harness_panics = print_summary("runtime-replay", &stats, t0);
        if bad_lines > 0 {
            eprintln!("{bad_lines} malformed CASE line(s) skipped");
            return 1;
        }
        if harness_panics > 0 {
            return 3;
        }
        0
    }
}
