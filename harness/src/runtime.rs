//! Placeholder for the `runtime` subcommand (to be implemented separately).

pub fn main_runtime(args: &[String]) -> i32 {
    let _ = args;
    eprintln!("not implemented");
    2
}
