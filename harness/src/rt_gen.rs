//! Generators for runtime cases. All randomness comes from the single `Rng` passed in. Schedules
//! are generated adaptively while driving the real implementation; what is written into the CASE
//! line are the event tokens actually applied, so replaying the line reproduces the run.

use std::collections::HashSet;

use fn_graph::FnGraph;

use crate::builder_case::Op;
use crate::builder_gen::Tier;
use crate::payload::Fun;
use crate::rng::Rng;
use crate::rt_case::{
    Api, Body, CallCfg, CallEv, CallEvKind, MixEv, RtCase, Run, SEv, Strat, StreamCfg,
};
use crate::rt_exec::{build_graph, CallRun, GRef, Status, StreamRun};

struct Gen<'a> {
    rng: &'a mut Rng,
    tier: Tier,
    next_id: u64,
    sink: &'a mut dyn FnMut(RtCase),
}

impl Gen<'_> {
    fn emit(&mut self, family: &str, ops: &[Op], body: Body) {
        let id = self.next_id;
        self.next_id += 1;
        (self.sink)(RtCase {
            id,
            family: family.to_string(),
            ops: ops.to_vec(),
            body,
        });
    }

    fn pick(&mut self, quick: usize, thorough: usize) -> usize {
        match self.tier {
            Tier::Quick => quick,
            Tier::Thorough => thorough,
        }
    }
}

/// Generates all runtime cases of the tier, in a fixed family order.
pub fn generate(tier: Tier, rng: &mut Rng, sink: &mut dyn FnMut(RtCase)) {
    let mut g = Gen {
        rng,
        tier,
        next_id: 1,
        sink,
    };
    // a panic while generating one family (the generators run the library to choose events)
    // must not lose the other families
    if std::panic::catch_unwind(std::panic::AssertUnwindSafe(|| gen_empty(&mut g))).is_err() {
        crate::GEN_PANICKED.store(true, std::sync::atomic::Ordering::SeqCst);
        eprintln!("generator family gen_empty panicked");
    }
    if std::panic::catch_unwind(std::panic::AssertUnwindSafe(|| gen_exh(&mut g))).is_err() {
        crate::GEN_PANICKED.store(true, std::sync::atomic::Ordering::SeqCst);
        eprintln!("generator family gen_exh panicked");
    }
    if std::panic::catch_unwind(std::panic::AssertUnwindSafe(|| gen_intm(&mut g))).is_err() {
        crate::GEN_PANICKED.store(true, std::sync::atomic::Ordering::SeqCst);
        eprintln!("generator family gen_intm panicked");
    }
    if std::panic::catch_unwind(std::panic::AssertUnwindSafe(|| gen_sinkfail(&mut g))).is_err() {
        crate::GEN_PANICKED.store(true, std::sync::atomic::Ordering::SeqCst);
        eprintln!("generator family gen_sinkfail panicked");
    }
    if std::panic::catch_unwind(std::panic::AssertUnwindSafe(|| gen_rand(&mut g))).is_err() {
        crate::GEN_PANICKED.store(true, std::sync::atomic::Ordering::SeqCst);
        eprintln!("generator family gen_rand panicked");
    }
    if std::panic::catch_unwind(std::panic::AssertUnwindSafe(|| gen_wide(&mut g))).is_err() {
        crate::GEN_PANICKED.store(true, std::sync::atomic::Ordering::SeqCst);
        eprintln!("generator family gen_wide panicked");
    }
    if std::panic::catch_unwind(std::panic::AssertUnwindSafe(|| gen_burst(&mut g))).is_err() {
        crate::GEN_PANICKED.store(true, std::sync::atomic::Ordering::SeqCst);
        eprintln!("generator family gen_burst panicked");
    }
    if std::panic::catch_unwind(std::panic::AssertUnwindSafe(|| gen_slow(&mut g))).is_err() {
        crate::GEN_PANICKED.store(true, std::sync::atomic::Ordering::SeqCst);
        eprintln!("generator family gen_slow panicked");
    }
    if std::panic::catch_unwind(std::panic::AssertUnwindSafe(|| gen_conflict(&mut g))).is_err() {
        crate::GEN_PANICKED.store(true, std::sync::atomic::Ordering::SeqCst);
        eprintln!("generator family gen_conflict panicked");
    }
    if std::panic::catch_unwind(std::panic::AssertUnwindSafe(|| gen_sexh(&mut g))).is_err() {
        crate::GEN_PANICKED.store(true, std::sync::atomic::Ordering::SeqCst);
        eprintln!("generator family gen_sexh panicked");
    }
    if std::panic::catch_unwind(std::panic::AssertUnwindSafe(|| gen_srand(&mut g))).is_err() {
        crate::GEN_PANICKED.store(true, std::sync::atomic::Ordering::SeqCst);
        eprintln!("generator family gen_srand panicked");
    }
    if std::panic::catch_unwind(std::panic::AssertUnwindSafe(|| gen_hist(&mut g))).is_err() {
        crate::GEN_PANICKED.store(true, std::sync::atomic::Ordering::SeqCst);
        eprintln!("generator family gen_hist panicked");
    }
    if std::panic::catch_unwind(std::panic::AssertUnwindSafe(|| gen_pair(&mut g))).is_err() {
        crate::GEN_PANICKED.store(true, std::sync::atomic::Ordering::SeqCst);
        eprintln!("generator family gen_pair panicked");
    }
    if std::panic::catch_unwind(std::panic::AssertUnwindSafe(|| gen_spair(&mut g))).is_err() {
        crate::GEN_PANICKED.store(true, std::sync::atomic::Ordering::SeqCst);
        eprintln!("generator family gen_spair panicked");
    }
    if std::panic::catch_unwind(std::panic::AssertUnwindSafe(|| gen_mpair(&mut g))).is_err() {
        crate::GEN_PANICKED.store(true, std::sync::atomic::Ordering::SeqCst);
        eprintln!("generator family gen_mpair panicked");
    }
    if std::panic::catch_unwind(std::panic::AssertUnwindSafe(|| gen_tokio(&mut g))).is_err() {
        crate::GEN_PANICKED.store(true, std::sync::atomic::Ordering::SeqCst);
        eprintln!("generator family gen_tokio panicked");
    }
    if std::panic::catch_unwind(std::panic::AssertUnwindSafe(|| gen_hugelimit(&mut g))).is_err() {
        crate::GEN_PANICKED.store(true, std::sync::atomic::Ordering::SeqCst);
        eprintln!("generator family gen_hugelimit panicked");
    }
    if std::panic::catch_unwind(std::panic::AssertUnwindSafe(|| gen_yield(&mut g))).is_err() {
        crate::GEN_PANICKED.store(true, std::sync::atomic::Ordering::SeqCst);
        eprintln!("generator family gen_yield panicked");
    }
    if std::panic::catch_unwind(std::panic::AssertUnwindSafe(|| gen_tokio_multi(&mut g))).is_err() {
        crate::GEN_PANICKED.store(true, std::sync::atomic::Ordering::SeqCst);
        eprintln!("generator family gen_tokio_multi panicked");
    }
    if std::panic::catch_unwind(std::panic::AssertUnwindSafe(|| gen_selfsig(&mut g))).is_err() {
        crate::GEN_PANICKED.store(true, std::sync::atomic::Ordering::SeqCst);
        eprintln!("generator family gen_selfsig panicked");
    }
    if std::panic::catch_unwind(std::panic::AssertUnwindSafe(|| gen_tokio_selfsig(&mut g))).is_err() {
        crate::GEN_PANICKED.store(true, std::sync::atomic::Ordering::SeqCst);
        eprintln!("generator family gen_tokio_selfsig panicked");
    }
    if std::panic::catch_unwind(std::panic::AssertUnwindSafe(|| gen_race(&mut g))).is_err() {
        crate::GEN_PANICKED.store(true, std::sync::atomic::Ordering::SeqCst);
        eprintln!("generator family gen_race panicked");
    }
    if std::panic::catch_unwind(std::panic::AssertUnwindSafe(|| gen_share(&mut g))).is_err() {
        crate::GEN_PANICKED.store(true, std::sync::atomic::Ordering::SeqCst);
        eprintln!("generator family gen_share panicked");
    }
}

// ---------------------------------------------------------------------------------------------
// Graphs
// ---------------------------------------------------------------------------------------------

fn f_op(idx: usize, rd: Vec<usize>, wr: Vec<usize>) -> Op {
    Op::F {
        fid: idx as u64,
        rd,
        wr,
    }
}

/// `n` functions without data accesses and the given Logic edges.
fn plain_ops(n: usize, edges: &[(usize, usize)]) -> Vec<Op> {
    let mut ops: Vec<Op> = (0..n).map(|i| f_op(i, Vec::new(), Vec::new())).collect();
    ops.extend(edges.iter().map(|&(a, b)| Op::L(a, b)));
    ops
}

fn is_acyclic(n: usize, edges: &[(usize, usize)]) -> bool {
    let mut indeg = vec![0usize; n];
    for &(_, b) in edges {
        indeg[b] += 1;
    }
    let mut stack: Vec<usize> = (0..n).filter(|&i| indeg[i] == 0).collect();
    let mut seen = 0;
    while let Some(v) = stack.pop() {
        seen += 1;
        for &(a, b) in edges {
            if a == v {
                indeg[b] -= 1;
                if indeg[b] == 0 {
                    stack.push(b);
                }
            }
        }
    }
    seen == n
}

/// Every labelled DAG on `n <= 3` nodes: 1 + 1 + 3 + 25 = 30 graphs.
fn small_dags(max_n: usize) -> Vec<(usize, Vec<(usize, usize)>)> {
    let mut out = Vec::new();
    for n in 0..=max_n {
        let mut pairs = Vec::new();
        for a in 0..n {
            for b in 0..n {
                if a != b {
                    pairs.push((a, b));
                }
            }
        }
        for mask in 0..(1usize << pairs.len()) {
            let edges: Vec<(usize, usize)> = pairs
                .iter()
                .enumerate()
                .filter(|(k, _)| mask & (1 << k) != 0)
                .map(|(_, p)| *p)
                .collect();
            if is_acyclic(n, &edges) {
                out.push((n, edges));
            }
        }
    }
    out
}

/// Random DAG: edges follow a random permutation, so every op is valid.
fn random_graph(rng: &mut Rng, n_lo: usize, n_hi: usize, accesses: bool) -> (Vec<Op>, usize) {
    let n = n_lo + rng.below(n_hi - n_lo + 1);
    let types = if accesses { rng.below(4) } else { 0 };
    let mut ops = Vec::new();
    for i in 0..n {
        let mut rd = Vec::new();
        let mut wr = Vec::new();
        for t in 0..types {
            match rng.below(10) {
                0..=4 => {}
                5..=6 => rd.push(t),
                _ => wr.push(t),
            }
        }
        // a declaration may list a type twice
        if !rd.is_empty() && rng.chance(1, 8) {
            let t = rd[rng.below(rd.len())];
            rd.push(t);
        }
        if !wr.is_empty() && rng.chance(1, 10) {
            let t = wr[rng.below(wr.len())];
            wr.push(t);
        }
        // declaration order must not matter
        rng.shuffle(&mut rd);
        rng.shuffle(&mut wr);
        ops.push(f_op(i, rd, wr));
    }
    let mut perm: Vec<usize> = (0..n).collect();
    rng.shuffle(&mut perm);
    let density = [15usize, 30, 50][rng.below(3)];
    for i in 0..n {
        for j in (i + 1)..n {
            if rng.chance(density, 100) {
                if rng.chance(1, 4) {
                    ops.push(Op::C(perm[i], perm[j]));
                } else {
                    ops.push(Op::L(perm[i], perm[j]));
                }
            }
        }
    }
    // legal but unusual call sequences: the same pair given again (same or other kind: the last kind
    // wins, still one edge), an edge call that is refused (reversed pair / self edge)
    let edge_ops: Vec<Op> = ops.iter().filter(|o| matches!(o, Op::L(..) | Op::C(..))).cloned().collect();
    if !edge_ops.is_empty() && rng.chance(1, 3) {
        for _ in 0..1 + rng.below(2) {
            match edge_ops[rng.below(edge_ops.len())].clone() {
                Op::L(a, b) | Op::C(a, b) => match rng.below(4) {
                    0 => ops.push(Op::L(a, b)),
                    1 => ops.push(Op::C(a, b)),
                    2 => ops.push(Op::L(b, a)), // would close a cycle: refused
                    _ => ops.push(Op::C(a, a)), // self edge: refused
                },
                _ => {}
            }
        }
    }
    (ops, n)
}

fn must_build(ops: &[Op]) -> FnGraph<Fun> {
    build_graph(ops).expect("harness: generated graph builds")
}

// ---------------------------------------------------------------------------------------------
// Configurations
// ---------------------------------------------------------------------------------------------

fn random_strat(rng: &mut Rng) -> Strat {
    match rng.below(10) {
        0..=2 => Strat::Non,
        3 => Strat::Ign,
        4..=6 => Strat::Fin,
        _ => Strat::Pn(rng.below(4) as u64),
    }
}

fn random_call_cfg(rng: &mut Rng, n: usize, allow_mut: bool, apis: &[Api]) -> CallCfg {
    let api = apis[rng.below(apis.len())];
    let mut cfg = CallCfg::plain(api);
    cfg.mutable = allow_mut && rng.chance(1, 2);
    cfg.ctl = api == Api::TryForEach && rng.chance(1, 2);
    cfg.with = !rng.chance(15, 100);
    if cfg.with {
        cfg.rev = rng.chance(1, 2);
        cfg.strat = random_strat(rng);
        cfg.incl = rng.chance(1, 2);
    }
    if api.has_limit() {
        // also limits at and above the number of functions
        cfg.lim = [0, 0, 0, 1, 2, 3, n.max(1), n + 1, 1000][rng.below(9)];
    }
    for i in 0..n {
        if rng.chance(15, 100) {
            let ok = !(api.is_try() && rng.chance(1, 5));
            cfg.imm.push((i, ok));
        }
    }
    cfg
}

fn random_stream_cfg(rng: &mut Rng) -> StreamCfg {
    let int = rng.chance(1, 2);
    StreamCfg {
        rev: rng.chance(1, 2),
        int,
        strat: random_strat(rng),
    }
}

// ---------------------------------------------------------------------------------------------
// Adaptive schedules: call APIs
// ---------------------------------------------------------------------------------------------

#[derive(Clone, Copy)]
struct Knobs {
    /// Probability (percent) that a completion of a try API is an error.
    err_pct: usize,
    batch: bool,
    spurious: bool,
    interrupts: bool,
    abort: bool,
}

const KNOBS_RAND: Knobs = Knobs {
    err_pct: 20,
    batch: true,
    spurious: true,
    interrupts: true,
    abort: true,
};

struct Sched {
    first: bool,
    signals: usize,
}

impl Sched {
    fn new() -> Sched {
        Sched {
            first: true,
            signals: 0,
        }
    }
}

fn ev(kind: CallEvKind) -> CallEv {
    CallEv::new(kind)
}

/// Chooses the next event(s) for `run`; `None` when the run is over (returned, aborted, panicked)
/// or dead (pending with nothing in flight and the flag clear).
fn step(
    rng: &mut Rng,
    run: &CallRun<'_>,
    cfg: &CallCfg,
    knobs: Knobs,
    st: &mut Sched,
) -> Option<Vec<CallEv>> {
    if run.ended() || run.status() != Status::Pending {
        return None;
    }
    let can_int = knobs.interrupts && cfg.strat != Strat::Non;
    if st.first {
        st.first = false;
        if can_int && rng.chance(1, 10) {
            st.signals += 1;
            return Some(vec![
                CallEv::nosettle(CallEvKind::Interrupt),
                ev(CallEvKind::Settle),
            ]);
        }
        return Some(vec![ev(CallEvKind::Settle)]);
    }
    let in_flight = run.in_flight();
    if in_flight.is_empty() {
        if run.flag() {
            return Some(vec![ev(CallEvKind::Settle)]);
        }
        return None;
    }
    let complete = |rng: &mut Rng, i: usize| {
        let ok = !(cfg.api.is_try() && rng.chance(knobs.err_pct, 100));
        CallEvKind::Complete(i, ok)
    };
    let r = rng.below(100);
    if knobs.abort && r < 2 {
        return Some(vec![ev(CallEvKind::Abort)]);
    }
    if knobs.spurious && (2..7).contains(&r) {
        return Some(vec![ev(CallEvKind::Poll)]);
    }
    if can_int && (7..12).contains(&r) && (st.signals == 0 || (st.signals < 3 && rng.chance(1, 4)))
    {
        st.signals += 1;
        return Some(vec![ev(CallEvKind::Interrupt)]);
    }
    if knobs.batch && (12..27).contains(&r) && in_flight.len() >= 2 {
        let k = std::cmp::min(2 + rng.below(2), in_flight.len());
        let mut pool = in_flight.clone();
        rng.shuffle(&mut pool);
        let mut evs = Vec::new();
        for (j, &i) in pool[..k].iter().enumerate() {
            let kind = complete(rng, i);
            if j + 1 < k {
                evs.push(CallEv::nosettle(kind));
            } else {
                evs.push(ev(kind));
            }
        }
        return Some(evs);
    }
    let i = in_flight[rng.below(in_flight.len())];
    let kind = complete(rng, i);
    if knobs.spurious && rng.chance(12, 100) {
        // a completion followed by single polls instead of a full settle, possibly with a signal
        // arriving between two polls of the self-woken task
        let mut evs = vec![CallEv::nosettle(kind)];
        for _ in 0..rng.below(3) {
            evs.push(CallEv::nosettle(CallEvKind::Poll));
        }
        if can_int && st.signals < 3 && rng.chance(1, 2) {
            st.signals += 1;
            evs.push(CallEv::nosettle(CallEvKind::Interrupt));
        }
        evs.push(ev(CallEvKind::Settle));
        return Some(evs);
    }
    Some(vec![ev(kind)])
}

fn gref<'g>(g: &'g mut FnGraph<Fun>, mutable: bool) -> GRef<'g> {
    if mutable {
        GRef::Mut(g)
    } else {
        GRef::Shared(g)
    }
}

/// Drives one call run on `g` with a random schedule; returns the events applied.
fn adaptive_call(
    rng: &mut Rng,
    g: &mut FnGraph<Fun>,
    cfg: &CallCfg,
    knobs: Knobs,
    max_events: usize,
) -> Vec<CallEv> {
    let mut run = CallRun::new(gref(g, cfg.mutable), cfg);
    let mut st = Sched::new();
    let mut evs = Vec::new();
    while evs.len() < max_events {
        let Some(batch) = step(rng, &run, cfg, knobs, &mut st) else {
            break;
        };
        for e in batch {
            run.apply(&e);
            evs.push(e);
        }
    }
    run.finish();
    evs
}

/// Runs `prefix` from scratch: status and in-flight functions afterwards.
fn explore_call(
    g: &mut FnGraph<Fun>,
    cfg: &CallCfg,
    prefix: &[CallEv],
) -> (Status, Vec<usize>, bool) {
    let mut run = CallRun::new(gref(g, cfg.mutable), cfg);
    for e in prefix {
        if run.ended() {
            break;
        }
        run.apply(e);
    }
    let res = (run.status(), run.in_flight(), run.flag());
    run.finish();
    res
}

/// Every completion order reachable by settling after each completion; functions in `fail`
/// complete with an error.
fn all_orders(g: &mut FnGraph<Fun>, cfg: &CallCfg, fail: &[usize]) -> Vec<Vec<CallEv>> {
    fn dfs(
        g: &mut FnGraph<Fun>,
        cfg: &CallCfg,
        fail: &[usize],
        prefix: &mut Vec<CallEv>,
        out: &mut Vec<Vec<CallEv>>,
    ) {
        let (status, in_flight, _) = explore_call(g, cfg, prefix);
        if status != Status::Pending || in_flight.is_empty() {
            out.push(prefix.clone());
            return;
        }
        for i in in_flight {
            prefix.push(ev(CallEvKind::Complete(i, !fail.contains(&i))));
            dfs(g, cfg, fail, prefix, out);
            prefix.pop();
        }
    }
    let mut out = Vec::new();
    let mut prefix = vec![ev(CallEvKind::Settle)];
    dfs(g, cfg, fail, &mut prefix, &mut out);
    out
}

/// Continues `evs` by the canonical rule (settle while the flag is set, else complete the first
/// in-flight function) or, with `rng`, by completing a random in-flight function. `n` = number of
/// functions (bounds the number of events added).
fn continue_run(
    mut rng: Option<&mut Rng>,
    g: &mut FnGraph<Fun>,
    n: usize,
    cfg: &CallCfg,
    fail: &[usize],
    evs: &mut Vec<CallEv>,
) {
    let mut run = CallRun::new(gref(g, cfg.mutable), cfg);
    for e in evs.iter() {
        if run.ended() {
            break;
        }
        run.apply(e);
    }
    let cap = evs.len() + 4 * n + 8;
    while evs.len() < cap && !run.ended() && run.status() == Status::Pending {
        let in_flight = run.in_flight();
        let e = if run.flag() {
            ev(CallEvKind::Settle)
        } else if in_flight.is_empty() {
            break;
        } else {
            let i = match rng.as_deref_mut() {
                Some(r) => in_flight[r.below(in_flight.len())],
                None => in_flight[0],
            };
            ev(CallEvKind::Complete(i, !fail.contains(&i)))
        };
        run.apply(&e);
        evs.push(e);
    }
    run.finish();
}

// ---------------------------------------------------------------------------------------------
// Adaptive schedules: streams
// ---------------------------------------------------------------------------------------------

#[derive(Clone, Copy)]
struct SKnobs {
    interrupts: bool,
    drop_stream: bool,
}

fn adaptive_stream(
    rng: &mut Rng,
    g: &FnGraph<Fun>,
    cfg: &StreamCfg,
    knobs: SKnobs,
    max_len: usize,
) -> Vec<SEv> {
    let mut run = StreamRun::new(g, cfg);
    let mut evs: Vec<SEv> = Vec::new();
    let apply = |run: &mut StreamRun<'_>, evs: &mut Vec<SEv>, e: SEv| {
        run.apply(&e);
        evs.push(e);
    };
    while evs.len() < max_len && !run.stopped() {
        let held = run.held_ids();
        if !run.alive() {
            // The stream is gone: maybe drop some of the remaining refs, then stop.
            if held.is_empty() || rng.chance(1, 3) {
                break;
            }
            let i = held[rng.below(held.len())];
            apply(&mut run, &mut evs, SEv::Drop(i));
            continue;
        }
        if run.finished() && held.is_empty() && rng.chance(4, 5) {
            break;
        }
        let r = rng.below(100);
        if knobs.drop_stream && r < 1 {
            apply(&mut run, &mut evs, SEv::DropStream);
        } else if knobs.interrupts && (1..6).contains(&r) {
            apply(&mut run, &mut evs, SEv::Interrupt);
        } else if !held.is_empty() && r < 52 {
            if held.len() >= 2 && rng.chance(3, 10) {
                // Several drops between two polls.
                let k = std::cmp::min(2 + rng.below(2), held.len());
                let mut pool = held.clone();
                rng.shuffle(&mut pool);
                for &i in &pool[..k] {
                    apply(&mut run, &mut evs, SEv::Drop(i));
                }
            } else {
                let i = held[rng.below(held.len())];
                // now and then the FnRef is dropped while a panic of the consumer unwinds
                if rng.chance(1, 8) {
                    apply(&mut run, &mut evs, SEv::DropUnwind(i));
                } else {
                    apply(&mut run, &mut evs, SEv::Drop(i));
                }
            }
        } else {
            apply(&mut run, &mut evs, SEv::Next);
        }
    }
    run.finish();
    evs
}

// ---------------------------------------------------------------------------------------------
// empty
// ---------------------------------------------------------------------------------------------

/// `(api, ctl)` for every family of entry points.
const API_CTL: [(Api, bool); 5] = [
    (Api::Fold, false),
    (Api::TryFold, false),
    (Api::ForEach, false),
    (Api::TryForEach, false),
    (Api::TryForEach, true),
];

fn gen_empty(g: &mut Gen) {
    let ops: Vec<Op> = Vec::new();
    for (api, ctl) in API_CTL {
        for mutable in [false, true] {
            let mut base = CallCfg::plain(api);
            base.ctl = ctl;
            base.mutable = mutable;
            g.emit(
                "empty",
                &ops,
                Body::X(base.clone(), vec![ev(CallEvKind::Settle)]),
            );
            for rev in [false, true] {
                for strat in [Strat::Non, Strat::Fin] {
                    for incl in [false, true] {
                        let mut c = base.clone();
                        c.with = true;
                        c.rev = rev;
                        c.strat = strat;
                        c.incl = incl;
                        g.emit("empty", &ops, Body::X(c, vec![ev(CallEvKind::Settle)]));
                    }
                }
            }
        }
    }
    for int in [false, true] {
        for rev in [false, true] {
            let c = StreamCfg {
                rev,
                int,
                strat: Strat::Non,
            };
            g.emit("empty-stream", &ops, Body::S(c, vec![SEv::Next, SEv::Next]));
        }
    }
}

// ---------------------------------------------------------------------------------------------
// exh
// ---------------------------------------------------------------------------------------------

fn subsets_nonempty(n: usize) -> Vec<Vec<usize>> {
    (1..(1usize << n))
        .map(|m| (0..n).filter(|i| m & (1 << i) != 0).collect())
        .collect()
}

fn gen_exh(g: &mut Gen) {
    // thorough: also every labelled DAG on 4 nodes (543), with a reduced set of configurations
    let max_n = match g.tier {
        Tier::Quick => 3,
        Tier::Thorough => 4,
    };
    for (n, edges) in small_dags(max_n) {
        let ops = plain_ops(n, &edges);
        let mut graph = must_build(&ops);
        let full = n <= 3;

        // (ord, with): `with=0` exists only for ord=f.
        let ord_with = [(false, false), (false, true), (true, true)];

        // All completion orders, all ok.
        for api in Api::ALL {
            if !full && !matches!(api, Api::ForEach | Api::Fold) {
                continue;
            }
            for mutable in [false, true] {
                if !full && mutable {
                    continue;
                }
                for (rev, with) in ord_with {
                    let mut cfg = CallCfg::plain(api);
                    cfg.mutable = mutable;
                    cfg.rev = rev;
                    cfg.with = with;
                    for evs in all_orders(&mut graph, &cfg, &[]) {
                        g.emit("exh-ok", &ops, Body::X(cfg.clone(), evs));
                    }
                }
            }
        }

        // Failing subsets for the try APIs.
        if n >= 1 && full {
            for (api, ctl) in [
                (Api::TryFold, false),
                (Api::TryForEach, false),
                (Api::TryForEach, true),
            ] {
                for mutable in [false, true] {
                    for rev in [false, true] {
                        let mut cfg = CallCfg::plain(api);
                        cfg.ctl = ctl;
                        cfg.mutable = mutable;
                        cfg.rev = rev;
                        cfg.with = rev;
                        // A failing function that never starts gives the same schedule as the
                        // subset without it: written once.
                        let mut seen: HashSet<Vec<CallEv>> = HashSet::new();
                        for fail in subsets_nonempty(n) {
                            if n <= 2 {
                                for evs in all_orders(&mut graph, &cfg, &fail) {
                                    if seen.insert(evs.clone()) {
                                        g.emit("exh-fail", &ops, Body::X(cfg.clone(), evs));
                                    }
                                }
                            } else {
                                let mut evs = vec![ev(CallEvKind::Settle)];
                                continue_run(Some(&mut *g.rng), &mut graph, n, &cfg, &fail, &mut evs);
                                if seen.insert(evs.clone()) {
                                    g.emit("exh-fail", &ops, Body::X(cfg.clone(), evs));
                                }
                            }
                        }
                    }
                }
            }
        }

        // One interrupt at every position of the canonical completion order.
        for api in [Api::ForEach, Api::TryForEach, Api::Fold] {
            if !full && api != Api::ForEach {
                continue;
            }
            for rev in [false, true] {
                for strat in [
                    Strat::Fin,
                    Strat::Pn(1),
                    Strat::Pn(2),
                    Strat::Pn(0),
                    Strat::Ign,
                ] {
                    if !full && !matches!(strat, Strat::Fin | Strat::Pn(1)) {
                        continue;
                    }
                    for incl in [false, true] {
                        let mut cfg = CallCfg::plain(api);
                        cfg.with = true;
                        cfg.rev = rev;
                        cfg.strat = strat;
                        cfg.incl = incl;
                        let mut canon = vec![ev(CallEvKind::Settle)];
                        continue_run(None, &mut graph, n, &cfg, &[], &mut canon);
                        for pos in 0..canon.len() {
                            let mut evs = canon[..pos].to_vec();
                            if pos == 0 {
                                evs.push(CallEv::nosettle(CallEvKind::Interrupt));
                            } else {
                                evs.push(ev(CallEvKind::Interrupt));
                            }
                            continue_run(None, &mut graph, n, &cfg, &[], &mut evs);
                            g.emit("exh-int", &ops, Body::X(cfg.clone(), evs));
                        }
                    }
                }
            }
        }

        // Limits.
        for lim in [1usize, 2] {
            for mutable in [false, true] {
                if !full && mutable {
                    continue;
                }
                for rev in [false, true] {
                    let mut cfg = CallCfg::plain(Api::ForEach);
                    cfg.mutable = mutable;
                    cfg.rev = rev;
                    cfg.with = rev;
                    cfg.lim = lim;
                    for evs in all_orders(&mut graph, &cfg, &[]) {
                        g.emit("exh-lim", &ops, Body::X(cfg.clone(), evs));
                    }
                }
            }
        }
    }
}

// ---------------------------------------------------------------------------------------------
// intm: one interrupt at every *micro* position of the canonical run: the settle after each
// completion is decomposed into single polls, so the signal also arrives between two polls of the
// self-woken task (e.g. after the poll in which a function finished and the ready queue was found
// empty, before the poll in which the queuer delivers its successor)
// ---------------------------------------------------------------------------------------------

/// Continues `evs` with single polls while the flag is set, else the completion (ok) of the first
/// in-flight function, without ever settling.
fn continue_micro(g: &mut FnGraph<Fun>, n: usize, cfg: &CallCfg, evs: &mut Vec<CallEv>) {
    let mut run = CallRun::new(gref(g, cfg.mutable), cfg);
    for e in evs.iter() {
        if run.ended() {
            break;
        }
        run.apply(e);
    }
    let cap = evs.len() + 8 * n + 16;
    while evs.len() < cap && !run.ended() && run.status() == Status::Pending {
        let in_flight = run.in_flight();
        let e = if run.flag() {
            CallEv::nosettle(CallEvKind::Poll)
        } else if in_flight.is_empty() {
            break;
        } else {
            CallEv::nosettle(CallEvKind::Complete(in_flight[0], true))
        };
        run.apply(&e);
        evs.push(e);
    }
    run.finish();
}

fn gen_intm(g: &mut Gen) {
    for (n, edges) in small_dags(3) {
        if n == 0 {
            continue;
        }
        let ops = plain_ops(n, &edges);
        let mut graph = must_build(&ops);
        for api in [Api::ForEach, Api::Fold, Api::TryForEach] {
            for rev in [false, true] {
                for strat in [Strat::Fin, Strat::Pn(0), Strat::Pn(1)] {
                    for incl in [false, true] {
                        let mut cfg = CallCfg::plain(api);
                        cfg.with = true;
                        cfg.rev = rev;
                        cfg.strat = strat;
                        cfg.incl = incl;
                        let mut canon = Vec::new();
                        continue_micro(&mut graph, n, &cfg, &mut canon);
                        for pos in 1..canon.len() {
                            // positions right after a completion or a poll, before the next poll
                            if !matches!(canon[pos].kind, CallEvKind::Poll) {
                                continue;
                            }
                            let mut evs = canon[..pos].to_vec();
                            evs.push(CallEv::nosettle(CallEvKind::Interrupt));
                            continue_micro(&mut graph, n, &cfg, &mut evs);
                            g.emit("intm", &ops, Body::X(cfg.clone(), evs));
                        }
                    }
                }
            }
        }
    }
}

// ---------------------------------------------------------------------------------------------
// sinkfail: every function without successors (in the stream direction) fails, everything else
// succeeds first: the largest number of failures a run can collect (more than the widest rank of
// the graph, more than a limit), on every labelled DAG with up to 4 functions
// ---------------------------------------------------------------------------------------------

fn gen_sinkfail(g: &mut Gen) {
    let mut k = 0usize;
    for (n, edges) in small_dags(4) {
        if n < 2 {
            continue;
        }
        let ops = plain_ops(n, &edges);
        let mut graph = must_build(&ops);
        for rev in [false, true] {
            let is_sink: Vec<bool> = (0..n)
                .map(|v| !edges.iter().any(|&(a, b)| if rev { b == v } else { a == v }))
                .collect();
            for lim in [0usize, 1, 2] {
                k += 1;
                if n == 4 && lim == 1 && k % 2 == 0 {
                    continue; // thin out the largest class
                }
                let mut cfg = CallCfg::plain(Api::TryForEach);
                cfg.rev = rev;
                cfg.with = rev;
                cfg.lim = lim;
                cfg.ctl = k % 3 == 0;
                cfg.mutable = k % 2 == 1;
                let mut evs = vec![ev(CallEvKind::Settle)];
                {
                    let mut run = CallRun::new(gref(&mut graph, cfg.mutable), &cfg);
                    run.apply(&evs[0]);
                    let cap = 6 * n + 10;
                    while evs.len() < cap && !run.ended() && run.status() == Status::Pending {
                        let in_flight = run.in_flight();
                        let e = if run.flag() {
                            ev(CallEvKind::Settle)
                        } else if in_flight.is_empty() {
                            break;
                        } else if let Some(&i) = in_flight.iter().find(|&&i| !is_sink[i]) {
                            ev(CallEvKind::Complete(i, true))
                        } else {
                            // only sinks are in flight: fail them all, the last one settles
                            let mut batch: Vec<CallEv> = in_flight
                                .iter()
                                .map(|&i| CallEv::nosettle(CallEvKind::Complete(i, false)))
                                .collect();
                            if let Some(last) = batch.last_mut() {
                                last.nosettle = false;
                            }
                            for e in &batch[..batch.len() - 1] {
                                run.apply(e);
                                evs.push(e.clone());
                            }
                            batch[batch.len() - 1].clone()
                        };
                        run.apply(&e);
                        evs.push(e);
                    }
                    run.finish();
                }
                g.emit("sinkfail", &ops, Body::X(cfg, evs));
            }
        }
    }
}

// ---------------------------------------------------------------------------------------------
// rand
// ---------------------------------------------------------------------------------------------

fn gen_rand(g: &mut Gen) {
    let count = g.pick(3000, 40000);
    for _ in 0..count {
        let (ops, n) = random_graph(g.rng, 1, 8, true);
        let mut graph = must_build(&ops);
        let cfg = random_call_cfg(g.rng, n, true, &Api::ALL);
        let evs = adaptive_call(g.rng, &mut graph, &cfg, KNOBS_RAND, 6 * n + 20);
        g.emit("rand", &ops, Body::X(cfg, evs));
    }
}

// ---------------------------------------------------------------------------------------------
// wide
// ---------------------------------------------------------------------------------------------

fn wide_graphs() -> Vec<(&'static str, usize, Vec<Op>)> {
    let mut out = Vec::new();
    for n in [17usize, 33, 65, 129, 300] {
        out.push(("wide-indep", n, plain_ops(n, &[])));
    }
    for n in [17usize, 65, 130, 257] {
        let fan_out: Vec<(usize, usize)> = (1..n).map(|i| (0, i)).collect();
        out.push(("wide-fanout", n, plain_ops(n, &fan_out)));
        let fan_in: Vec<(usize, usize)> = (0..n - 1).map(|i| (i, n - 1)).collect();
        out.push(("wide-fanin", n, plain_ops(n, &fan_in)));
    }
    out
}

fn gen_wide(g: &mut Gen) {
    for (family, n, ops) in wide_graphs() {
        let mut graph = must_build(&ops);
        // the model is slow on the largest fans: in the quick tier they get one call and the
        // stream direction in which the hub has all the predecessors
        let big = n >= 130 && family != "wide-indep";
        let reduced = big && matches!(g.tier, Tier::Quick);
        for api in [Api::ForEach, Api::TryForEach] {
            for mutable in [false, true] {
                for lim in [0usize, 4] {
                    if reduced && !(api == Api::ForEach && !mutable && lim == 0) {
                        continue;
                    }
                    let mut cfg = CallCfg::plain(api);
                    cfg.mutable = mutable;
                    cfg.lim = lim;
                    let mut evs = vec![ev(CallEvKind::Settle)];
                    continue_run(Some(&mut *g.rng), &mut graph, n, &cfg, &[], &mut evs);
                    g.emit(family, &ops, Body::X(cfg, evs));
                }
            }
        }
        // Stream: yield everything that is ready, then drop in random order interleaved with polls.
        for rev in [false, true] {
            if reduced && rev != (family == "wide-fanout") {
                continue;
            }
            let cfg = StreamCfg {
                rev,
                int: false,
                strat: Strat::Non,
            };
            let mut run = StreamRun::new(&graph, &cfg);
            let mut evs = Vec::new();
            let cap = 6 * n + 10;
            loop {
                run.apply(&SEv::Next);
                evs.push(SEv::Next);
                if run.last_pending() || run.finished() || run.stopped() || evs.len() >= cap {
                    break;
                }
            }
            while evs.len() < cap && !run.stopped() {
                let held = run.held_ids();
                if run.finished() && held.is_empty() {
                    break;
                }
                let e = if held.is_empty() {
                    SEv::Next
                } else if g.rng.chance(1, 2) {
                    SEv::Drop(held[g.rng.below(held.len())])
                } else {
                    SEv::Next
                };
                run.apply(&e);
                evs.push(e);
                if held.is_empty() && run.last_pending() && !run.flag() {
                    // Pending, nothing held, flag clear: nothing can happen any more.
                    break;
                }
            }
            run.finish();
            drop(run);
            g.emit(&format!("{family}-stream"), &ops, Body::S(cfg, evs));
        }
    }
}

// ---------------------------------------------------------------------------------------------
// burst: many FnRefs dropped between two polls (more than any constant channel size)
// ---------------------------------------------------------------------------------------------

fn burst_graphs() -> Vec<(&'static str, usize, Vec<Op>)> {
    let mut out = Vec::new();
    for n in [34usize, 41, 70, 131] {
        let fan_in: Vec<(usize, usize)> = (0..n - 1).map(|i| (i, n - 1)).collect();
        out.push(("burst-fanin", n, plain_ops(n, &fan_in)));
        let fan_out: Vec<(usize, usize)> = (1..n).map(|i| (0, i)).collect();
        out.push(("burst-fanout", n, plain_ops(n, &fan_out)));
        // two layers, each node of the first half points to one node of the second half
        let half = n / 2;
        let pairs: Vec<(usize, usize)> = (0..half).map(|i| (i, half + i)).collect();
        out.push(("burst-pairs", n, plain_ops(n, &pairs)));
    }
    // x -> z by a logic edge, y and z write the same type (Data edge y -> z), many unrelated roots:
    // z may be yielded only when both x and y were dropped
    for fillers in [33usize, 40, 70] {
        let n = fillers + 3;
        let mut ops = vec![f_op(0, vec![], vec![]), f_op(1, vec![], vec![0])];
        for i in 0..fillers {
            ops.push(f_op(2 + i, vec![], vec![]));
        }
        ops.push(f_op(n - 1, vec![], vec![0]));
        ops.push(Op::L(0, n - 1));
        out.push(("burst-conflict", n, ops));
    }
    out
}

fn gen_burst(g: &mut Gen) {
    for (family, n, ops) in burst_graphs() {
        let graph = must_build(&ops);
        for rev in [false, true] {
            for int in [false, true] {
                let cfg = StreamCfg {
                    rev,
                    int,
                    strat: Strat::Non,
                };
                let mut run = StreamRun::new(&graph, &cfg);
                let mut evs = Vec::new();
                let cap = 8 * n + 20;
                let mut rounds = 0;
                while evs.len() < cap && !run.stopped() && rounds < 6 {
                    rounds += 1;
                    // poll until Pending / None
                    loop {
                        run.apply(&SEv::Next);
                        evs.push(SEv::Next);
                        if run.last_pending() || run.finished() || run.stopped() || evs.len() >= cap {
                            break;
                        }
                    }
                    // drop everything that is held, in random order, without polling in between
                    // (`burst-conflict`: function 0 first, the conflicting writer 1 is kept for the
                    // round after)
                    let mut held = run.held_ids();
                    if held.is_empty() {
                        break;
                    }
                    g.rng.shuffle(&mut held);
                    if family == "burst-conflict" && held.len() > 2 {
                        held.retain(|&i| i != 1);
                        if let Some(p) = held.iter().position(|&i| i == 0) {
                            held.swap(0, p);
                        }
                    }
                    for i in held {
                        run.apply(&SEv::Drop(i));
                        evs.push(SEv::Drop(i));
                    }
                }
                // a last poll shows whether the stream ended
                if !run.stopped() && evs.len() < cap {
                    run.apply(&SEv::Next);
                    evs.push(SEv::Next);
                }
                run.finish();
                drop(run);
                let _ = n;
                g.emit(family, &ops, Body::S(cfg, evs));
            }
        }
    }
}

// ---------------------------------------------------------------------------------------------
// slow: one slow function holds back successors on several layers; when it finally returns (or,
// with a limit, while roots are still unpulled) more functions become ready at once than any
// layer of the graph is wide
// ---------------------------------------------------------------------------------------------

/// chain c0 -> .. -> c(k-1), slow node s = k, targets k+1 .. k+m each after s and after one chain
/// node, `b` extra independent roots; returns (n, edges, s).
fn slow_graph(k: usize, m: usize, b: usize, mirrored: bool) -> (usize, Vec<(usize, usize)>, usize) {
    let mut e = Vec::new();
    for i in 1..k {
        e.push((i - 1, i));
    }
    let s = k;
    for j in 0..m {
        let t = k + 1 + j;
        e.push((s, t));
        e.push((j % k, t));
    }
    let n = k + 1 + m + b;
    if mirrored {
        e = e.into_iter().map(|(a, c)| (c, a)).collect();
    }
    (n, e, s)
}

/// Like `continue_run` with a random choice, but never completes a function of `avoid` while
/// another one is in flight.
fn continue_run_avoid(
    rng: &mut Rng,
    g: &mut FnGraph<Fun>,
    n: usize,
    cfg: &CallCfg,
    avoid: &[usize],
    evs: &mut Vec<CallEv>,
) {
    let mut run = CallRun::new(gref(g, cfg.mutable), cfg);
    for e in evs.iter() {
        if run.ended() {
            break;
        }
        run.apply(e);
    }
    let cap = evs.len() + 4 * n + 8;
    while evs.len() < cap && !run.ended() && run.status() == Status::Pending {
        let in_flight = run.in_flight();
        let e = if run.flag() {
            ev(CallEvKind::Settle)
        } else if in_flight.is_empty() {
            break;
        } else {
            let pref: Vec<usize> = in_flight.iter().copied().filter(|i| !avoid.contains(i)).collect();
            let pool = if pref.is_empty() { &in_flight } else { &pref };
            ev(CallEvKind::Complete(pool[rng.below(pool.len())], true))
        };
        run.apply(&e);
        evs.push(e);
    }
    run.finish();
}

fn gen_slow(g: &mut Gen) {
    let shapes: &[(usize, usize, usize)] = match g.tier {
        Tier::Quick => &[(2, 3, 0), (3, 4, 1), (2, 3, 2), (4, 6, 0)],
        Tier::Thorough => &[(2, 3, 0), (3, 4, 1), (2, 3, 2), (4, 6, 0), (3, 7, 3), (5, 9, 2), (2, 12, 4)],
    };
    for &(k, m, b) in shapes {
        for mirrored in [false, true] {
            let (n, edges, s) = slow_graph(k, m, b, mirrored);
            let ops = plain_ops(n, &edges);
            let mut graph = must_build(&ops);
            // in the mirrored graph the targets are the roots: hold back the chain end instead
            let avoid: Vec<usize> = if mirrored { vec![s, 0] } else { vec![s] };
            for api in [Api::ForEach, Api::TryForEach, Api::Fold] {
                for lim in [0usize, 1, 2] {
                    if api == Api::Fold && lim != 0 {
                        continue;
                    }
                    for rev in [false, true] {
                        let mut cfg = CallCfg::plain(api);
                        cfg.lim = lim;
                        cfg.rev = rev;
                        cfg.with = rev;
                        cfg.mutable = g.rng.chance(1, 2);
                        let mut evs = vec![ev(CallEvKind::Settle)];
                        continue_run_avoid(&mut *g.rng, &mut graph, n, &cfg, &avoid, &mut evs);
                        g.emit("slow", &ops, Body::X(cfg, evs));
                    }
                }
            }
            // stream: keep the slow function's FnRef until nothing else is held
            for rev in [false, true] {
                let cfg = StreamCfg {
                    rev,
                    int: false,
                    strat: Strat::Non,
                };
                let mut run = StreamRun::new(&graph, &cfg);
                let mut evs = Vec::new();
                let cap = 8 * n + 20;
                while evs.len() < cap && !run.stopped() {
                    loop {
                        run.apply(&SEv::Next);
                        evs.push(SEv::Next);
                        if run.last_pending() || run.finished() || run.stopped() || evs.len() >= cap {
                            break;
                        }
                    }
                    let held = run.held_ids();
                    if held.is_empty() {
                        break;
                    }
                    let pref: Vec<usize> = held.iter().copied().filter(|i| !avoid.contains(i)).collect();
                    let pool = if pref.is_empty() { held.clone() } else { pref };
                    // drop all preferred ones without polling in between
                    for i in pool {
                        run.apply(&SEv::Drop(i));
                        evs.push(SEv::Drop(i));
                    }
                }
                run.finish();
                drop(run);
                g.emit("slow-stream", &ops, Body::S(cfg, evs));
            }
        }
    }
}

// ---------------------------------------------------------------------------------------------
// conflict
// ---------------------------------------------------------------------------------------------

fn conflict_graph(rng: &mut Rng) -> (Vec<Op>, usize, &'static str) {
    let n = 3 + rng.below(4);
    let (shape, edges): (&str, Vec<(usize, usize)>) = match rng.below(5) {
        0 => ("chain", (0..n - 1).map(|i| (i, i + 1)).collect()),
        1 => {
            // Diamond on the first four functions (a triangle for n = 3), the rest as a tail.
            let mut e = vec![(0, 1), (0, 2)];
            if n >= 4 {
                e.push((1, 3));
                e.push((2, 3));
                for i in 4..n {
                    e.push((i - 1, i));
                }
            } else {
                e.push((1, 2));
            }
            ("diamond", e)
        }
        2 => ("starout", (1..n).map(|i| (0, i)).collect()),
        3 => ("starin", (0..n - 1).map(|i| (i, n - 1)).collect()),
        _ => ("free", Vec::new()),
    };
    let types = 1 + rng.below(2);
    let pattern = rng.below(4);
    let mut ops = Vec::new();
    for i in 0..n {
        let mut rd = Vec::new();
        let mut wr = Vec::new();
        for t in 0..types {
            // 0: read-only sharing, 1: write-write, 2: alternating read / write, 3: random.
            let acc = match pattern {
                0 => 1,
                1 => 2,
                2 => 1 + (i + t) % 2,
                _ => rng.below(3),
            };
            match acc {
                1 => rd.push(t),
                2 => wr.push(t),
                _ => {}
            }
        }
        ops.push(f_op(i, rd, wr));
    }
    // Insertion order of the functions is fixed; the edge ops are shuffled.
    let mut edges = edges;
    rng.shuffle(&mut edges);
    ops.extend(edges.iter().map(|&(a, b)| Op::L(a, b)));
    (ops, n, shape)
}

fn gen_conflict(g: &mut Gen) {
    let count = g.pick(300, 3000);
    for _ in 0..count {
        let (ops, n, shape) = conflict_graph(g.rng);
        let mut graph = must_build(&ops);
        let family = format!("conflict-{shape}");
        if g.rng.chance(1, 3) {
            let cfg = random_stream_cfg(g.rng);
            let knobs = SKnobs {
                interrupts: cfg.strat != Strat::Non && g.rng.chance(1, 3),
                drop_stream: false,
            };
            let evs = adaptive_stream(g.rng, &graph, &cfg, knobs, 4 * n + 4);
            g.emit(&family, &ops, Body::S(cfg, evs));
        } else {
            let cfg = random_call_cfg(g.rng, n, true, &[Api::ForEach, Api::TryForEach]);
            let evs = adaptive_call(g.rng, &mut graph, &cfg, KNOBS_RAND, 6 * n + 20);
            g.emit(&family, &ops, Body::X(cfg, evs));
        }
    }
}

// ---------------------------------------------------------------------------------------------
// sexh
// ---------------------------------------------------------------------------------------------

/// Every sequence of `n` / `d<i>` (only for held refs) of length `len`.
fn all_stream_seqs(graph: &FnGraph<Fun>, cfg: &StreamCfg, len: usize) -> Vec<Vec<SEv>> {
    fn dfs(
        graph: &FnGraph<Fun>,
        cfg: &StreamCfg,
        len: usize,
        prefix: &mut Vec<SEv>,
        out: &mut Vec<Vec<SEv>>,
    ) {
        if prefix.len() == len {
            out.push(prefix.clone());
            return;
        }
        let held = {
            let mut run = StreamRun::new(graph, cfg);
            for e in prefix.iter() {
                run.apply(e);
            }
            let h = run.held_ids();
            run.finish();
            h
        };
        prefix.push(SEv::Next);
        dfs(graph, cfg, len, prefix, out);
        prefix.pop();
        for i in held {
            prefix.push(SEv::Drop(i));
            dfs(graph, cfg, len, prefix, out);
            prefix.pop();
        }
    }
    let mut out = Vec::new();
    dfs(graph, cfg, len, &mut Vec::new(), &mut out);
    out
}

fn gen_sexh(g: &mut Gen) {
    const QUICK_CAP: usize = 400;
    // (ops, cfg, sequence) candidates for the `x` insertion below: reservoir of 20.
    let mut reservoir: Vec<(Vec<Op>, StreamCfg, Vec<SEv>)> = Vec::new();
    let mut seen = 0usize;
    for (n, edges) in small_dags(3) {
        let ops = plain_ops(n, &edges);
        let graph = must_build(&ops);
        for rev in [false, true] {
            let cfg = StreamCfg {
                rev,
                int: false,
                strat: Strat::Non,
            };
            let mut seqs = all_stream_seqs(&graph, &cfg, 2 * n + 2);
            for s in &seqs {
                seen += 1;
                if reservoir.len() < 20 {
                    reservoir.push((ops.clone(), cfg.clone(), s.clone()));
                } else {
                    let j = g.rng.below(seen);
                    if j < 20 {
                        reservoir[j] = (ops.clone(), cfg.clone(), s.clone());
                    }
                }
            }
            let mut family = "sexh";
            if g.tier == Tier::Quick && seqs.len() > QUICK_CAP {
                // Random sample of QUICK_CAP sequences, kept in enumeration order.
                let mut idx: Vec<usize> = (0..seqs.len()).collect();
                g.rng.shuffle(&mut idx);
                idx.truncate(QUICK_CAP);
                idx.sort_unstable();
                seqs = idx.into_iter().map(|i| seqs[i].clone()).collect();
                family = "sexh-sampled";
            }
            for s in seqs {
                g.emit(family, &ops, Body::S(cfg.clone(), s));
            }
        }
    }
    for (ops, cfg, s) in reservoir {
        for pos in 0..=s.len() {
            let mut evs = s.clone();
            evs.insert(pos, SEv::DropStream);
            g.emit("sexh-x", &ops, Body::S(cfg.clone(), evs));
        }
    }
}

// ---------------------------------------------------------------------------------------------
// srand
// ---------------------------------------------------------------------------------------------

fn gen_srand(g: &mut Gen) {
    let count = g.pick(2000, 20000);
    for _ in 0..count {
        let (ops, n) = random_graph(g.rng, 1, 8, true);
        let graph = must_build(&ops);
        let cfg = random_stream_cfg(g.rng);
        let knobs = SKnobs {
            interrupts: g.rng.chance(1, 2),
            drop_stream: true,
        };
        let evs = adaptive_stream(g.rng, &graph, &cfg, knobs, 4 * n + 4);
        g.emit("srand", &ops, Body::S(cfg, evs));
    }
}

// ---------------------------------------------------------------------------------------------
// hist
// ---------------------------------------------------------------------------------------------

fn gen_hist(g: &mut Gen) {
    let count = g.pick(300, 3000);
    for _ in 0..count {
        let (ops, n) = random_graph(g.rng, 1, 6, true);
        let mut graph = must_build(&ops);
        let runs_n = 2 + g.rng.below(3);
        let mut runs = Vec::new();
        for _ in 0..runs_n {
            if g.rng.chance(35, 100) {
                let cfg = random_stream_cfg(g.rng);
                let knobs = SKnobs {
                    interrupts: g.rng.chance(1, 3),
                    drop_stream: true,
                };
                // Some runs stop midway.
                let max_len = if g.rng.chance(3, 10) {
                    1 + g.rng.below(n + 1)
                } else {
                    4 * n + 4
                };
                let evs = adaptive_stream(g.rng, &graph, &cfg, knobs, max_len);
                runs.push(Run::Stream(cfg, evs));
            } else {
                let cfg = random_call_cfg(g.rng, n, true, &Api::ALL);
                let mut knobs = KNOBS_RAND;
                knobs.abort = g.rng.chance(1, 4);
                knobs.err_pct = [0, 20, 50][g.rng.below(3)];
                let max_events = if g.rng.chance(1, 4) {
                    1 + g.rng.below(n + 1)
                } else {
                    6 * n + 20
                };
                let mut evs = adaptive_call(g.rng, &mut graph, &cfg, knobs, max_events);
                // every fifth run: cut short after some progress and abort (the future of the call is
                // dropped midway - in cases with an odd id while a panic unwinds)
                let completions = evs
                    .iter()
                    .filter(|e| matches!(e.kind, CallEvKind::Complete(..)))
                    .count();
                if completions >= 1 && g.rng.chance(1, 5) && !evs.iter().any(|e| e.kind == CallEvKind::Abort) {
                    let upto = 1 + g.rng.below(completions);
                    let mut seen = 0usize;
                    let mut cut = evs.len();
                    for (k, e) in evs.iter().enumerate() {
                        if matches!(e.kind, CallEvKind::Complete(..)) {
                            seen += 1;
                            if seen == upto {
                                cut = k + 1;
                                break;
                            }
                        }
                    }
                    evs.truncate(cut);
                    evs.push(ev(CallEvKind::Abort));
                }
                runs.push(Run::Call(cfg, evs));
            }
        }
        g.emit("hist", &ops, Body::H(runs));
    }
    // the same (incomplete) run repeated many times on one graph value before it is observed:
    // counts of runs that cross 2^8 and 2^16
    let ks: &[usize] = match g.tier {
        Tier::Quick => &[254, 255, 256, 65534, 65535, 65536],
        Tier::Thorough => &[253, 254, 255, 256, 257, 511, 512, 65533, 65534, 65535, 65536, 65537],
    };
    for (j, &k) in ks.iter().enumerate() {
        // a -> b, c alone; a fails: b is never processed
        let ops = plain_ops(3, &[(0, 1)]);
        let mut graph = must_build(&ops);
        let api = [Api::TryForEach, Api::TryFold][j % 2];
        let mut cfg = CallCfg::plain(api);
        cfg.mutable = j % 3 != 2;
        let mut evs = vec![ev(CallEvKind::Settle)];
        continue_run(None, &mut graph, 3, &cfg, &[0], &mut evs);
        let mut rep = vec![ev(CallEvKind::Repeat(k))];
        rep.extend(evs.iter().cloned());
        let mut cfg2 = CallCfg::plain(Api::ForEach);
        cfg2.mutable = true;
        let mut evs2 = vec![ev(CallEvKind::Settle)];
        continue_run(None, &mut graph, 3, &cfg2, &[], &mut evs2);
        g.emit(
            "hist-many",
            &ops,
            // the observed run is run number k + 1 on this graph value
            Body::H(vec![Run::Call(cfg, rep), Run::Call(cfg2, evs2)]),
        );
    }
}

// ---------------------------------------------------------------------------------------------
// pair
// ---------------------------------------------------------------------------------------------

fn gen_pair(g: &mut Gen) {
    let count = g.pick(300, 3000);
    for _ in 0..count {
        let (ops, n) = random_graph(g.rng, 1, 6, true);
        let graph = must_build(&ops);
        let a = random_call_cfg(g.rng, n, false, &Api::ALL);
        let b = random_call_cfg(g.rng, n, false, &Api::ALL);
        let mut evs: Vec<(bool, CallEv)> = Vec::new();
        {
            let mut ra = CallRun::new(GRef::Shared(&graph), &a);
            let mut rb = CallRun::new(GRef::Shared(&graph), &b);
            let mut sa = Sched::new();
            let mut sb = Sched::new();
            let mut live = [true, true];
            let mut restarts = [0usize, 0usize];
            let cap = 3 * (6 * n + 20);
            while (live[0] || live[1]) && evs.len() < cap {
                let is_b = if live[0] && live[1] {
                    g.rng.chance(1, 2)
                } else {
                    live[1]
                };
                let (run, cfg, st) = if is_b {
                    (&mut rb, &b, &mut sb)
                } else {
                    (&mut ra, &a, &mut sa)
                };
                match step(g.rng, run, cfg, KNOBS_RAND, st) {
                    None => {
                        // this side is over: sometimes start a third (fourth) run on the same graph
                        // while the other side is still in progress
                        let other_live = live[1 - is_b as usize];
                        if other_live && restarts[is_b as usize] < 2 && g.rng.chance(1, 2) {
                            restarts[is_b as usize] += 1;
                            run.finish();
                            *run = CallRun::new(GRef::Shared(&graph), cfg);
                            *st = Sched::new();
                            evs.push((is_b, ev(CallEvKind::Restart)));
                        } else {
                            live[is_b as usize] = false;
                        }
                    }
                    Some(batch) => {
                        for e in batch {
                            run.apply(&e);
                            evs.push((is_b, e));
                        }
                    }
                }
            }
            ra.finish();
            rb.finish();
        }
        g.emit("pair", &ops, Body::Y(a, b, evs));
    }
}

// ---------------------------------------------------------------------------------------------
// spair: two streams on one graph value, interleaved; the second may be created when the first
// has already handed out everything but its FnRefs are still held
// ---------------------------------------------------------------------------------------------

fn gen_spair(g: &mut Gen) {
    let count = g.pick(300, 3000);
    for k in 0..count {
        let (ops, n) = random_graph(g.rng, 1, 6, true);
        let graph = must_build(&ops);
        let a = random_stream_cfg(g.rng);
        let mut b = random_stream_cfg(g.rng);
        if k % 2 == 0 {
            b.rev = !a.rev; // opposite directions: the sinks of one are the roots of the other
        }
        let mut evs: Vec<(bool, SEv)> = Vec::new();
        {
            let mut runs: [Option<StreamRun>; 2] = [None, None];
            let cfgs = [&a, &b];
            let cap = 2 * (6 * n + 12);
            // three shapes: fully random interleaving; A first until it has yielded everything
            // (refs held), then B; alternate strictly
            let shape = g.rng.below(3);
            let mut a_exhausted = false;
            while evs.len() < cap {
                let side = match shape {
                    1 if !a_exhausted => 0,
                    2 => evs.len() % 2,
                    _ => g.rng.below(2),
                };
                let run = runs[side].get_or_insert_with(|| StreamRun::new(&graph, cfgs[side]));
                if run.stopped() {
                    break;
                }
                let held = run.held_ids();
                let e = if shape == 1 && side == 0 && !a_exhausted {
                    SEv::Next
                } else if !held.is_empty() && (run.finished() || run.last_pending() || g.rng.chance(1, 2)) {
                    SEv::Drop(held[g.rng.below(held.len())])
                } else if cfgs[side].int && g.rng.chance(1, 12) {
                    SEv::Interrupt
                } else {
                    SEv::Next
                };
                run.apply(&e);
                evs.push((side == 1, e));
                if shape == 1 && side == 0 && (run.finished() || run.last_pending()) {
                    a_exhausted = true;
                }
                let done = |r: &Option<StreamRun>| match r {
                    Some(r) => r.finished() && r.held_ids().is_empty(),
                    None => false,
                };
                if done(&runs[0]) && done(&runs[1]) {
                    break;
                }
            }
            for r in runs.iter_mut().flatten() {
                r.finish();
            }
        }
        g.emit("spair", &ops, Body::Z(a, b, evs));
    }
}

// ---------------------------------------------------------------------------------------------
// mpair: a stream and a call on one graph value, interleaved
// ---------------------------------------------------------------------------------------------

fn gen_mpair(g: &mut Gen) {
    let count = g.pick(300, 3000);
    for _ in 0..count {
        let (ops, n) = random_graph(g.rng, 1, 6, true);
        let graph = must_build(&ops);
        let a = random_stream_cfg(g.rng);
        let b = random_call_cfg(g.rng, n, false, &Api::ALL);
        let mut evs: Vec<MixEv> = Vec::new();
        {
            let mut ra: Option<StreamRun> = None;
            let mut rb: Option<CallRun> = None;
            let mut sb = Sched::new();
            let mut call_live = true;
            let mut stream_live = true;
            let cap = 2 * (6 * n + 20);
            // shapes: random interleaving; stream first until exhausted (refs held), then the call with
            // the stream's refs dropped in between; call first, stream created while it is in flight
            let shape = g.rng.below(3);
            let mut a_exhausted = false;
            while (call_live || stream_live) && evs.len() < cap {
                let stream_turn = match shape {
                    1 if !a_exhausted => true,
                    _ => {
                        if call_live && stream_live {
                            g.rng.chance(1, 2)
                        } else {
                            stream_live
                        }
                    }
                };
                if stream_turn {
                    let run = ra.get_or_insert_with(|| StreamRun::new(&graph, &a));
                    if run.stopped() {
                        stream_live = false;
                        continue;
                    }
                    let held = run.held_ids();
                    if run.finished() && held.is_empty() {
                        stream_live = false;
                        a_exhausted = true;
                        continue;
                    }
                    let e = if shape == 1 && !a_exhausted {
                        SEv::Next
                    } else if !held.is_empty() && (run.finished() || run.last_pending() || g.rng.chance(1, 2)) {
                        SEv::Drop(held[g.rng.below(held.len())])
                    } else if a.int && g.rng.chance(1, 12) {
                        SEv::Interrupt
                    } else {
                        SEv::Next
                    };
                    run.apply(&e);
                    evs.push(MixEv::A(e));
                    if run.finished() || run.last_pending() {
                        a_exhausted = true;
                    }
                    if held.is_empty() && run.last_pending() && !run.flag() {
                        stream_live = false; // nothing can happen to the stream any more
                    }
                } else {
                    let run = rb.get_or_insert_with(|| CallRun::new(GRef::Shared(&graph), &b));
                    match step(g.rng, run, &b, KNOBS_RAND, &mut sb) {
                        None => call_live = false,
                        Some(batch) => {
                            for e in batch {
                                run.apply(&e);
                                evs.push(MixEv::B(e));
                            }
                        }
                    }
                }
            }
            if let Some(r) = ra.as_mut() {
                r.finish();
            }
            if let Some(r) = rb.as_mut() {
                r.finish();
            }
        }
        g.emit("mpair", &ops, Body::W(a, b, evs));
    }
}

// ---------------------------------------------------------------------------------------------
// tokio: calls and streams driven inside a real tokio current-thread runtime, where the cooperative
// budget (128 operations per task poll) makes channel and lock operations return Pending although
// they could proceed; graphs large enough to exhaust it several times. Monitors only (the model has
// no budget): the implementation's traces and outcomes must satisfy the properties.
// ---------------------------------------------------------------------------------------------

/// selfsig: the interrupt signal is sent by a user future while the call is being polled
/// (`sig=<i>`): ids taken from the ready stream earlier in the same poll start afterwards.
/// Modelled by `SelfSignal.step_sig`.
fn gen_selfsig(g: &mut Gen) {
    let count = g.pick(700, 7000);
    for _ in 0..count {
        let (ops, n) = random_graph(g.rng, 2, 8, true);
        let mut graph = must_build(&ops);
        let mut cfg = random_call_cfg(g.rng, n, true, &Api::ALL);
        cfg.with = true;
        if cfg.strat == Strat::Non || cfg.strat == Strat::Ign || g.rng.chance(1, 2) {
            cfg.strat = if g.rng.chance(1, 2) { Strat::Fin } else { Strat::Pn(g.rng.below(4) as u64) };
        }
        cfg.sig = Some(g.rng.below(n));
        let evs = adaptive_call(g.rng, &mut graph, &cfg, KNOBS_RAND, 6 * n + 20);
        g.emit("selfsig", &ops, Body::X(cfg, evs));
    }
}

/// tokio-selfsig: wide graph inside a real tokio runtime; every user future first performs `bops`
/// budget-consuming tokio operations, the future of function `sig` sends the interrupt signal
/// (monitors only: the call must return, nothing may panic).
fn gen_tokio_selfsig(g: &mut Gen) {
    let n = 80usize;
    let ops = plain_ops(n, &[]);
    let sigs: Vec<usize> = match g.tier {
        Tier::Quick => (0..n).collect(),
        Tier::Thorough => (0..n).collect(),
    };
    for bops in 0..5usize {
        for &sig in &sigs {
            let mut cfg = CallCfg::plain(if sig % 2 == 0 { Api::ForEach } else { Api::TryForEach });
            cfg.with = true;
            cfg.mutable = (sig / 2) % 2 == 1;
            cfg.strat = if sig % 3 == 2 { Strat::Pn(2) } else { Strat::Fin };
            cfg.incl = sig % 5 != 4;
            cfg.imm = (0..n).map(|i| (i, true)).collect();
            cfg.sig = Some(sig);
            cfg.bops = bops;
            g.emit("tokio-selfsig", &ops, Body::X(cfg, vec![ev(CallEvKind::Tokio)]));
        }
    }
}

/// tokio-hist / tokio-spair: several streams on one graph value inside ONE tokio task (one
/// cooperative budget): back to back without yielding to the runtime (`H`), or two side by side
/// under `join!` (`Z`); monitors only (fresh-graph / alone oracles run in runtimes of their own).
fn gen_tokio_multi(g: &mut Gen) {
    let shapes: Vec<(usize, Vec<(usize, usize)>)> = vec![
        (30, (1..30).filter(|i| i % 10 != 0).map(|i| (i - 1, i)).collect()),
        (40, Vec::new()),
        (70, (1..70).map(|i| (0, i)).collect()),
        (200, (1..200).filter(|i| i % 50 != 0).map(|i| (i - 1, i)).collect()),
    ];
    for (n, edges) in &shapes {
        let ops = plain_ops(*n, edges);
        for rev in [false, true] {
            for runs in [2usize, 3, 5, 8] {
                let cfg = StreamCfg { rev, int: false, strat: Strat::Non };
                let body: Vec<Run> = (0..runs)
                    .map(|j| {
                        let mut c = cfg.clone();
                        c.rev = rev ^ (j % 3 == 2);
                        // hold 0 only: with FnRefs held, when the consumer drops them depends on
                        // spurious `Pending`s, i.e. on the budget, not on the library
                        Run::Stream(c, vec![SEv::Tokio(0)])
                    })
                    .collect();
                g.emit("tokio-hist", &ops, Body::H(body));
            }
            for (variant, (ha, hb)) in [(0usize, 0usize), (0, 0), (0, 0)].into_iter().enumerate() {
                let a = StreamCfg { rev, int: false, strat: Strat::Non };
                let b = StreamCfg { rev: !rev && variant == 1, int: variant == 2, strat: Strat::Non };
                g.emit(
                    "tokio-spair",
                    &ops,
                    Body::Z(a, b, vec![(false, SEv::Tokio(ha)), (true, SEv::Tokio(hb))]),
                );
            }
        }
    }
}

/// nm-yield: user futures that yield cooperatively (wake themselves and return `Pending` `yld`
/// times before they obey the schedule). `FuturesUnordered` ends its round early once two futures
/// have yielded, which the model does not describe: monitors only (`nm-` prefix).
fn gen_yield(g: &mut Gen) {
    // independent functions, every limit around n
    for n in [4usize, 6, 9] {
        let ops = plain_ops(n, &[]);
        for lim in 0..=n {
            for yld in [1usize, 2, 3] {
                for (api, mutable) in [(Api::ForEach, false), (Api::TryForEach, true), (Api::ForEach, true), (Api::Fold, false)] {
                    let mut cfg = CallCfg::plain(api);
                    cfg.mutable = mutable;
                    cfg.lim = if api.has_limit() { lim } else { 0 };
                    cfg.yld = yld;
                    cfg.imm = (0..n).map(|i| (i, true)).collect();
                    g.emit("nm-yield-indep", &ops, Body::X(cfg, vec![ev(CallEvKind::Settle)]));
                }
            }
        }
    }
    let count = g.pick(300, 3000);
    for _ in 0..count {
        let (ops, n) = random_graph(g.rng, 2, 8, true);
        let mut graph = must_build(&ops);
        let mut cfg = random_call_cfg(g.rng, n, true, &Api::ALL);
        cfg.yld = 1 + g.rng.below(3);
        let evs = adaptive_call(g.rng, &mut graph, &cfg, KNOBS_RAND, 6 * n + 20);
        g.emit("nm-yield-rand", &ops, Body::X(cfg, evs));
    }
}

/// nm-hugelimit: `limit = usize::MAX` ("unlimited" spelled as a number), with failures; the model
/// counts limits in unary, so these are monitors only (`nm-` prefix).
fn gen_hugelimit(g: &mut Gen) {
    let count = g.pick(200, 2000);
    for k in 0..count {
        let (ops, n) = random_graph(g.rng, 1, 6, true);
        let mut graph = must_build(&ops);
        let apis: &[Api] = if k % 4 == 0 { &[Api::ForEach] } else { &[Api::TryForEach] };
        let mut cfg = random_call_cfg(g.rng, n, true, apis);
        cfg.lim = if k % 5 == 4 { usize::MAX - 1 } else { usize::MAX };
        let evs = adaptive_call(g.rng, &mut graph, &cfg, KNOBS_RAND, 6 * n + 20);
        g.emit("nm-hugelimit", &ops, Body::X(cfg, evs));
    }
}

fn gen_tokio(g: &mut Gen) {
    // calls: k succeeding roots, one failing root F, a child C of F; F inserted first or last
    let ks: Vec<usize> = match g.tier {
        Tier::Quick => (60..=230).step_by(1).collect(),
        Tier::Thorough => (1..=400).collect(),
    };
    for &k in &ks {
        for failing_first in [false, true] {
            let n = k + 2;
            let f = if failing_first { 0 } else { k };
            let c = k + 1;
            let ops = plain_ops(n, &[(f, c)]);
            let mut cfg = CallCfg::plain(Api::TryForEach);
            cfg.mutable = k % 2 == 1;
            cfg.ctl = k % 5 == 0;
            cfg.imm = (0..n).map(|i| (i, i != f)).collect();
            g.emit("tokio-call", &ops, Body::X(cfg, vec![ev(CallEvKind::Tokio)]));
        }
    }
    // calls on wide / chain / fan graphs, all succeeding, all APIs
    let shapes: Vec<(usize, Vec<(usize, usize)>)> = {
        let mut v = Vec::new();
        for n in [65usize, 129, 200, 300] {
            v.push((n, Vec::new()));
            v.push((n, (1..n).map(|i| (i - 1, i)).collect()));
            v.push((n, (1..n).map(|i| (0, i)).collect()));
            v.push((n, (0..n - 1).map(|i| (i, n - 1)).collect()));
        }
        v
    };
    for (n, edges) in &shapes {
        let ops = plain_ops(*n, edges);
        for api in Api::ALL {
            for rev in [false, true] {
                let mut cfg = CallCfg::plain(api);
                cfg.rev = rev;
                cfg.with = rev;
                cfg.mutable = (*n + rev as usize) % 2 == 0;
                cfg.lim = if api.has_limit() { [0usize, 3, 200][(*n / 7) % 3] } else { 0 };
                cfg.imm = (0..*n).map(|i| (i, true)).collect();
                g.emit("tokio-call", &ops, Body::X(cfg, vec![ev(CallEvKind::Tokio)]));
            }
        }
        // streams: the consumer holds 0, 1 or 70 FnRefs
        for rev in [false, true] {
            for hold in [0usize, 1, 70] {
                let cfg = StreamCfg {
                    rev,
                    int: hold == 1,
                    strat: Strat::Non,
                };
                g.emit("tokio-stream", &ops, Body::S(cfg, vec![SEv::Tokio(hold)]));
            }
        }
    }
}

// ---------------------------------------------------------------------------------------------
// tokio-race: FnRefs dropped by a second OS thread while the consumer polls only when woken
// (family name starts with `tokio` = not modelled, monitors only)
// ---------------------------------------------------------------------------------------------

fn gen_race(g: &mut Gen) {
    let rounds = g.pick(4000, 40000);
    for k in [2usize, 3, 4, 6] {
        // fan-in: k predecessors of one function (forward), fan-out read in reverse
        let fan_in: Vec<(usize, usize)> = (0..k).map(|i| (i, k)).collect();
        let fan_out: Vec<(usize, usize)> = (1..=k).map(|i| (0, i)).collect();
        for (edges, rev) in [(fan_in, false), (fan_out, true)] {
            let ops = plain_ops(k + 1, &edges);
            let cfg = StreamCfg {
                rev,
                int: false,
                strat: Strat::Non,
            };
            g.emit("tokio-race", &ops, Body::S(cfg, vec![SEv::Race(rounds)]));
        }
    }
}

// ---------------------------------------------------------------------------------------------
// share: consecutive calls that share ONE InterruptibilityState through `reborrow()`; the first
// receives the signal, the later ones start on an already interrupted state (monitors only)
// ---------------------------------------------------------------------------------------------

fn gen_share(g: &mut Gen) {
    use interruptible::{Interruptibility, InterruptibilityState};
    let count = g.pick(300, 3000);
    for k in 0..count {
        // every third case: the empty graph
        let (ops, n) = if k % 3 == 2 {
            (Vec::new(), 0)
        } else {
            random_graph(g.rng, 1, 5, false)
        };
        let mut graph = must_build(&ops);
        let strat = [Strat::Fin, Strat::Pn(1), Strat::Pn(0), Strat::Pn(2)][g.rng.below(4)];
        let strategy = match crate::rt_exec::strategy_of_pub(strat) {
            Some(s) => s,
            None => continue,
        };
        let (tx, rx) = tokio::sync::mpsc::channel::<interruptible::InterruptSignal>(16);
        let mut state = InterruptibilityState::new(Interruptibility::new(rx.into(), strategy));
        let runs_n = 2 + g.rng.below(2);
        let mut runs = Vec::new();
        for j in 0..runs_n {
            let mut cfg = random_call_cfg(g.rng, n, true, &Api::ALL);
            cfg.with = true;
            cfg.strat = strat;
            cfg.imm.clear();
            // every third history: the signal is sent before the first call is polled at all
            let pre_sig = j == 0 && k % 3 == 1;
            let mut evs = if pre_sig {
                vec![CallEv::nosettle(CallEvKind::Interrupt), ev(CallEvKind::Settle)]
            } else {
                vec![ev(CallEvKind::Settle)]
            };
            {
                let mut run = CallRun::new_shared(gref(&mut graph, cfg.mutable), &cfg, tx.clone(), state.reborrow());
                for e in &evs {
                    run.apply(e);
                }
                let mut signalled = j > 0 || pre_sig;
                let cap = 6 * n + 12;
                while evs.len() < cap && !run.ended() && run.status() == Status::Pending {
                    let in_flight = run.in_flight();
                    let e = if run.flag() {
                        ev(CallEvKind::Settle)
                    } else if !signalled {
                        signalled = true;
                        ev(CallEvKind::Interrupt)
                    } else if in_flight.is_empty() {
                        break;
                    } else {
                        ev(CallEvKind::Complete(in_flight[g.rng.below(in_flight.len())], true))
                    };
                    run.apply(&e);
                    evs.push(e);
                }
                if !signalled {
                    // the run returned at once (empty graph): send the signal after it
                    let e = CallEv::nosettle(CallEvKind::Interrupt);
                    run.apply(&e);
                    evs.push(e);
                }
                run.finish();
            }
            runs.push(Run::Call(cfg, evs));
        }
        // every fourth history: all senders of the interrupt channel are dropped after the first call
        g.emit(if k % 4 == 3 { "share-closed" } else { "share" }, &ops, Body::H(runs));
    }
}
