//! splitmix64 PRNG. Every random choice of the harness comes from one instance of this struct, so a
//! seed replays a whole bundle exactly.

#[derive(Clone, Debug)]
pub struct Rng {
    state: u64,
}

impl Rng {
    pub fn new(seed: u64) -> Self {
        Rng { state: seed }
    }

    pub fn next_u64(&mut self) -> u64 {
        self.state = self.state.wrapping_add(0x9E37_79B9_7F4A_7C15);
        let mut z = self.state;
        z = (z ^ (z >> 30)).wrapping_mul(0xBF58_476D_1CE4_E5B9);
        z = (z ^ (z >> 27)).wrapping_mul(0x94D0_49BB_1331_11EB);
        z ^ (z >> 31)
    }

    /// Uniform-ish value in `0..n` (`n` must be non-zero; modulo bias is irrelevant here).
    pub fn below(&mut self, n: usize) -> usize {
        assert!(n > 0, "Rng::below(0)");
        (self.next_u64() % (n as u64)) as usize
    }

    /// True with probability `num / den`.
    pub fn chance(&mut self, num: usize, den: usize) -> bool {
        self.below(den) < num
    }

    /// Fisher-Yates shuffle.
    pub fn shuffle<T>(&mut self, v: &mut [T]) {
        let n = v.len();
        if n < 2 {
            return;
        }
        for i in (1..n).rev() {
            let j = self.below(i + 1);
            v.swap(i, j);
        }
    }
}
