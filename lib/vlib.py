"""Orchestration of one property check (see bin/check)."""
import os, sys, json, time, re, hashlib, subprocess, fcntl, shutil, glob, signal

# ROOT is where this file lives (/verif); REPO is /repo.  Both can be redirected only for the mutation-testing
# lab (bin/lab: a snapshot of /verif run against a scratch clone of /repo); registered checks never set these.
ROOT = os.environ.get('FG_VERIF_ROOT', '/verif')
REPO = os.environ.get('FG_REPO', '/repo')
CACHE = os.path.join(ROOT, '.cache')
COQ = os.path.join(ROOT, 'coq')
HARNESS = os.path.join(ROOT, 'harness')
FEATURES = 'interruptible,graph_info,verif_hooks'
EVID = os.path.join(ROOT, 'evidence')
REPLAYS = os.path.join(ROOT, 'replays')

sys.path.insert(0, os.path.join(ROOT, 'lib'))
import ref_builder as rb  # noqa: E402
import props  # noqa: E402

ENV = dict(os.environ, CARGO_NET_OFFLINE='true', CARGO_TARGET_DIR=os.path.join(CACHE, 'target'))

TRUSTED_BASE = [
    'Coq 8.16.1 kernel (coqc; vm_compute in Examples and refutation lemmas; no native_compute)',
    'axioms: none (Print Assumptions of every property theorem must say "Closed under the global context")',
    'extraction: Require Extraction + ExtrOcamlBasic only (bool, option, unit, list, prod, sumbool, sumor; nat stays Peano); OCaml 4.13.1; coq/driver/*.ml (parsing/printing, incl. the text of each Yaml.yline constructor: key words and decimal numerals); a sample of every bundle (60 builder, 60 call, 30 stream cases) is re-proved in the kernel by vm_compute (lib/kernel_sample.py)',
    'Rust harness /verif/harness (generators, controlled executor, canonicalisation), cargo/rustc',
    'lib/*.py: diff of projections, independent monitors',
    'modelled not verified (tied by correspondence only): serde_yaml_ng 0.10 emitter for GraphInfo<u64> (text compared byte for byte) and its reader (round trips + malformed-edge texts only), petgraph 0.8.3, daggy 0.9.0, tokio 1.53 mpsc/RwLock, futures-util 0.3.34, interruptible 0.2.4, slice::sort_by stability',
]


def log(msg):
    sys.stderr.write('[check] %s\n' % msg)
    sys.stderr.flush()


def sh(cmd, timeout, cwd=None, env=None):
    """Runs a command in its own process group so that a timeout kills the whole tree."""
    t0 = time.time()
    p = subprocess.Popen(cmd, shell=isinstance(cmd, str), cwd=cwd, env=env or ENV, stdout=subprocess.PIPE,
                         stderr=subprocess.STDOUT, start_new_session=True)
    try:
        out, _ = p.communicate(timeout=timeout)
        return p.returncode, out.decode('utf-8', 'replace'), time.time() - t0
    except subprocess.TimeoutExpired:
        try:
            os.killpg(p.pid, signal.SIGKILL)
        except OSError:
            pass
        out, _ = p.communicate()
        return 124, (out or b'').decode('utf-8', 'replace') + '\n[timeout after %ss]' % timeout, time.time() - t0


class Lock:
    def __init__(self, name):
        os.makedirs(CACHE, exist_ok=True)
        self.path = os.path.join(CACHE, name + '.lock')

    def __enter__(self):
        self.f = open(self.path, 'w')
        fcntl.flock(self.f, fcntl.LOCK_EX)
        return self

    def __exit__(self, *a):
        fcntl.flock(self.f, fcntl.LOCK_UN)
        self.f.close()


def hash_files(paths):
    h = hashlib.sha256()
    for p in sorted(paths):
        h.update(p.encode())
        try:
            with open(p, 'rb') as f:
                h.update(f.read())
        except OSError:
            h.update(b'<missing>')
    return h.hexdigest()


def tree_files(root, exts=None, skip=('target', '.git')):
    out = []
    for d, dirs, files in os.walk(root):
        dirs[:] = [x for x in dirs if x not in skip]
        for f in files:
            if exts is None or os.path.splitext(f)[1] in exts:
                out.append(os.path.join(d, f))
    return out


def repo_hash():
    files = tree_files(os.path.join(REPO, 'src')) + [os.path.join(REPO, 'Cargo.toml'), os.path.join(REPO, 'Cargo.lock')]
    return hash_files(files)


def harness_hash():
    return hash_files(tree_files(os.path.join(HARNESS, 'src')) + [os.path.join(HARNESS, 'Cargo.toml')])


MODEL_FILES = ['Dag.v', 'Builder.v', 'Chan.v', 'Interrupt.v', 'Sched.v']


def model_hash():
    files = [os.path.join(COQ, 'theories', f) for f in MODEL_FILES if os.path.exists(os.path.join(COQ, 'theories', f))]
    files += glob.glob(os.path.join(COQ, 'driver', '*.ml')) + [os.path.join(COQ, 'extract', 'Extract.v')]
    return hash_files(files)


# ----------------------------------------------------------------------------------------------
# Stage 1: Coq build, extraction, proof audit
# ----------------------------------------------------------------------------------------------

def coq_build(timeout=3000):
    """Full .vo build (never -vos). -k so that one broken proof does not hide the others."""
    with Lock('coq'):
        key = hash_files(tree_files(os.path.join(COQ, 'theories'), {'.v'}) + [os.path.join(COQ, '_CoqProject')])
        stamp = os.path.join(CACHE, 'coq_build.json')
        if os.path.exists(stamp):
            try:
                st = json.load(open(stamp))
                if st.get('key') == key:
                    return st
            except ValueError:
                pass
        rc, out, dt = sh('coq_makefile -f _CoqProject -o Makefile > /dev/null 2>&1 && make -k -j16 2>&1', timeout, cwd=COQ)
        with open(os.path.join(CACHE, 'coq_make.log'), 'w') as f:
            f.write(out)
        st = {'key': key, 'rc': rc, 'wall_s': round(dt, 1), 'tail': out[-3000:]}
        json.dump(st, open(stamp, 'w'))
        return st


def model_driver():
    """Extract the model and build the OCaml driver; returns path or raises."""
    with Lock('ml'):
        mdir = os.path.join(CACHE, 'ml')
        os.makedirs(mdir, exist_ok=True)
        key = model_hash()
        stamp = os.path.join(mdir, 'key')
        exe = os.path.join(mdir, 'model_driver')
        if os.path.exists(stamp) and open(stamp).read() == key and os.path.exists(exe):
            return exe
        for f in glob.glob(os.path.join(COQ, 'driver', '*.ml')):
            shutil.copy(f, mdir)
        rc, out, _ = sh('coqc -Q %s/theories FG %s/extract/Extract.v' % (COQ, COQ), 900, cwd=mdir)
        if rc != 0:
            raise RuntimeError('extraction failed:\n' + out[-2000:])
        rc, out, _ = sh('ocamlfind ocamlopt -O3 -w -a model.mli model.ml runtime_driver.ml driver.ml -o model_driver', 900, cwd=mdir)
        if rc != 0:
            raise RuntimeError('driver build failed:\n' + out[-2000:])
        open(stamp, 'w').write(key)
        return exe


def strip_comments(s):
    out, depth, i = [], 0, 0
    while i < len(s):
        if s.startswith('(*', i):
            depth += 1
            i += 2
        elif s.startswith('*)', i) and depth > 0:
            depth -= 1
            i += 2
        else:
            if depth == 0:
                out.append(s[i])
            elif s[i] == '\n':
                out.append('\n')
            i += 1
    return ''.join(out)


FORBIDDEN = re.compile(r'\b(Admitted|admit|Axiom|Axioms|Parameter|Parameters|Conjecture|Conjectures)\b|Admit Obligations|Unset\s+Guard|bypass_check|type-in-type|impredicative-set|Unset\s+Universe|Unset\s+Positivity')
SECTIONLESS = re.compile(r'^\s*(Variable|Variables|Hypothesis|Hypotheses|Context)\b')


def forbidden_scan():
    bad = []
    for p in tree_files(COQ, {'.v'}) + [os.path.join(COQ, '_CoqProject')]:
        try:
            src = strip_comments(open(p).read())
        except OSError:
            continue
        depth = 0
        for ln, line in enumerate(src.split('\n'), 1):
            if re.match(r'^\s*(Section|Module)\b', line) and ':=' not in line:
                depth += 1
            elif re.match(r'^\s*End\b', line):
                depth = max(0, depth - 1)
            m = FORBIDDEN.search(line)
            if m:
                bad.append('%s:%d: %s' % (p, ln, m.group(0)))
            if depth == 0 and SECTIONLESS.match(line):
                bad.append('%s:%d: %s outside a section' % (p, ln, line.strip()))
    return bad


def proof_audit(prop, tier):
    """Returns dict(ok, obligations, discharged, theorems, problems[], wall_s)."""
    t0 = time.time()
    problems = []
    st = coq_build()
    src = os.path.join(COQ, 'theories', 'Props', prop + '.v')
    vo = src + 'o'
    theorems, examples = [], []
    if not os.path.exists(src):
        problems.append('no theorem file for %s' % prop)
        return dict(ok=False, obligations=1, discharged=0, theorems=[], problems=problems, wall_s=time.time() - t0, build=st)
    text = strip_comments(open(src).read())
    theorems = re.findall(r'^\s*(?:Theorem|Corollary)\s+(\w+)', text, re.M)
    examples = re.findall(r'^\s*(?:Example|Lemma)\s+(\w+)', text, re.M)
    n_print = len(re.findall(r'^\s*Print Assumptions', text, re.M))
    compiled = os.path.exists(vo) and os.path.getmtime(vo) >= os.path.getmtime(src)
    closed = 0
    axioms = []
    if compiled:
        os.makedirs(os.path.join(CACHE, 'audit'), exist_ok=True)
        rc, out, _ = sh('coqc -Q theories FG -o %s theories/Props/%s.v' % (os.path.join(CACHE, 'audit', '%s.vo' % prop), prop), 900, cwd=COQ)
        if rc != 0:
            compiled = False
            problems.append('theorem file %s.v does not compile: %s' % (prop, out[-800:]))
        else:
            closed = out.count('Closed under the global context')
            for m in re.finditer(r'Axioms:\n((?:.+\n?)+?)(?=\n\S|\Z)', out):
                axioms.append(m.group(1).strip())
    else:
        problems.append('theorem file %s.v (or one of its dependencies) failed to build; see .cache/coq_make.log: %s'
                        % (prop, st.get('tail', '')[-800:]))
    if compiled and closed != n_print:
        problems.append('Print Assumptions: %d of %d theorems closed under the global context; axioms: %s'
                        % (closed, n_print, '; '.join(axioms)[:500]))
    if n_print < len(theorems):
        problems.append('only %d Print Assumptions for %d theorems' % (n_print, len(theorems)))
    pins_v = os.path.join(COQ, 'theories', 'Pins', prop + '.v')
    if os.path.exists(pins_v):
        pv = pins_v + 'o'
        if not (os.path.exists(pv) and os.path.getmtime(pv) >= os.path.getmtime(pins_v)
                and os.path.getmtime(pv) >= os.path.getmtime(src)):
            problems.append('Pins/%s.v (pinned theorem statements) does not compile against Props/%s.v' % (prop, prop))
        else:
            pins = strip_comments(open(pins_v).read())
            for t in theorems:
                if not re.search(r'Check \(%s :' % re.escape(t), pins):
                    problems.append('theorem %s is not pinned in Pins/%s.v' % (t, prop))
    else:
        problems.append('no pin file Pins/%s.v' % prop)
    bad = forbidden_scan()
    if bad:
        problems.append('forbidden constructs: ' + '; '.join(bad[:8]))
    chk = None
    if tier == 'thorough' and compiled and not problems:
        rc, out, dt = sh('coqchk -silent -o -Q theories FG FG.Props.%s' % prop, 3000, cwd=COQ)
        chk = {'rc': rc, 'wall_s': round(dt, 1), 'tail': out[-600:]}
        if rc != 0:
            problems.append('coqchk failed: ' + out[-500:])
        elif 'Axioms: <none>' not in out and re.search(r'Axioms:\s*\S', out):
            problems.append('coqchk reports axioms: ' + out[-500:])
    obligations = len(theorems) + len(examples)
    discharged = obligations if (compiled and not problems) else (0 if not compiled else max(0, obligations - len(problems)))
    return dict(ok=not problems, obligations=max(1, obligations), discharged=discharged, theorems=theorems,
                examples=examples, problems=problems, wall_s=round(time.time() - t0, 1), build=st, coqchk=chk)


# ----------------------------------------------------------------------------------------------
# Stage 2: bundles (harness run on /repo + model run)
# ----------------------------------------------------------------------------------------------

def build_harness():
    with Lock('cargo'):
        rc, out, dt = sh('cargo build --offline --features %s 2>&1' % FEATURES, 3000, cwd=HARNESS)
        if rc != 0:
            raise RuntimeError('harness build against /repo failed:\n' + out[-3000:])
        return os.path.join(CACHE, 'target', 'debug', 'fg_harness')


def bundle(kind, tier, seed):
    """Runs the harness (implementation) and the extracted model on the same generated cases.
    Returns (dir, meta). Cached by content of /repo, harness, model, tier, seed."""
    key = hashlib.sha256(('|'.join([repo_hash(), harness_hash(), model_hash(), hash_files(glob.glob(os.path.join(ROOT, 'corpus', '*.case'))), kind, tier, str(seed)])).encode()).hexdigest()[:20]
    bdir = os.path.join(CACHE, 'bundles', '%s-%s-%s' % (kind, tier, key))
    with Lock('bundle-' + kind):
        meta_p = os.path.join(bdir, 'meta.json')
        if os.path.exists(meta_p):
            return bdir, json.load(open(meta_p))
        prune_bundles()
        os.makedirs(bdir, exist_ok=True)
        t0 = time.time()
        exe = build_harness()
        drv = model_driver()
        impl = os.path.join(bdir, 'impl.txt')
        rc, out, dt_h = sh('%s %s --tier %s --seed %d --out %s' % (exe, kind, tier, seed, impl), int(os.environ.get('FG_HARNESS_TIMEOUT', '600' if tier == 'quick' else '2400')), cwd=bdir)
        meta = {'kind': kind, 'tier': tier, 'seed': seed, 'harness_rc': rc, 'harness_out': out[-2000:], 'harness_s': round(dt_h, 1)}
        if rc == 124 or rc < 0 or rc in (134, 139):
            try:
                last = [ln for ln in open(impl, errors='replace').read().split('\n') if ln.strip()][-1]
                if last.startswith('CASE '):
                    meta['hang_case'] = last
            except (OSError, IndexError):
                pass
            meta['error'] = ('the harness did not finish generating and running the cases within its time budget (a library call that never returns?)' if rc == 124
                             else 'the harness process died (signal / abort, rc %d: stack overflow in a library call?) while running a case' % rc)
        elif rc == 4:
            meta['error'] = 'a generator family of the harness panicked while running the library to choose events (part of the cases is missing): ' + ' '.join(l for l in out.split('\n') if 'generator family' in l)[:300]
        elif rc not in (0, 3):
            meta['error'] = 'harness exited with %d' % rc
        # corpus first in spirit: the committed witnesses are always part of the bundle
        corp = [p for p in sorted(glob.glob(os.path.join(ROOT, 'corpus', '*.case')))]
        want = {'builder': ('CASE B ', 'CASE BP '), 'runtime': ('CASE X ', 'CASE S ', 'CASE H ', 'CASE Y ', 'CASE Z ', 'CASE W ')}.get(kind, ())
        clines = [ln for p in corp for ln in open(p) if ln.startswith(want)]
        if clines:
            cin = os.path.join(bdir, 'corpus_in.txt')
            open(cin, 'w').write(''.join(clines))
            rc_c, out_c, _ = sh('%s %s-replay --in %s --out %s' % (exe, kind, cin, os.path.join(bdir, 'corpus_out.txt')), 3000, cwd=bdir)
            if rc_c in (0, 3) and os.path.exists(os.path.join(bdir, 'corpus_out.txt')):
                with open(impl, 'a') as f:
                    f.write(open(os.path.join(bdir, 'corpus_out.txt')).read())
            else:
                meta['error'] = 'corpus replay failed: %s' % out_c[-500:]
            meta['corpus_cases'] = len(clines)
        rc2, out2, dt_m = sh('%s %s > %s' % (drv, impl, os.path.join(bdir, 'model.txt')), 3000, cwd=bdir)
        meta['model_rc'] = rc2
        meta['model_s'] = round(dt_m, 1)
        if rc2 != 0:
            meta['error'] = 'model driver exited with %d: %s' % (rc2, out2[-500:])
        if rc2 == 0 and kind in ('builder', 'runtime'):
            try:
                meta['kernel_sample'] = kernel_sample_check(bdir, kind)
            except Exception as e:
                meta['error'] = 'kernel sample: ' + repr(e)[:600]
        if rc2 == 0:
            try:
                n_div = graph_overrides(bdir, drv)
                meta['graph_divergent_cases'] = n_div
            except Exception as e:       # the strict comparison still stands
                meta['graph_override_error'] = repr(e)[:300]
        meta['wall_s'] = round(time.time() - t0, 1)
        json.dump(meta, open(meta_p, 'w'))
        return bdir, meta


def kernel_sample_check(bdir, kind):
    """A sample of the observations the extracted model printed is re-proved inside Coq (vm_compute)."""
    import kernel_sample
    ic, _, order, _ = parse_bundle(os.path.join(bdir, 'impl.txt'))
    _, mobs, _, _ = parse_bundle(os.path.join(bdir, 'model.txt'))
    src, ids = kernel_sample.generate(ic, mobs, order, kind, want=60)
    if not ids:
        return 0
    f = os.path.join(bdir, 'KernelSample.v')
    open(f, 'w').write(src)
    rc, out, _ = sh('coqc -Q %s FG %s' % (os.path.join(COQ, 'theories'), f), 900, cwd=bdir)
    if rc != 0:
        raise RuntimeError('the kernel does not reproduce what the extracted model printed: ' + out[-400:])
    return len(ids)


def graph_overrides(bdir, drv, cap=20000):
    """Cases in which the implementation built another edge list than the model's build(): run the
    model again on the implementation's edge list (driver: FG_GRAPH_OVERRIDE) -> model_g.txt."""
    ic, iobs, order, _ = parse_bundle(os.path.join(bdir, 'impl.txt'))
    _, mobs, _, _ = parse_bundle(os.path.join(bdir, 'model.txt'))
    ov, cases = [], []
    for cid in order:
        kind = ic[cid]['kind']
        tag = 'E' if kind == 'B' else ('G' if kind in ('X', 'S', 'H', 'Y', 'Z', 'W') else None)
        if tag is None:
            continue
        a, b = iobs.get(cid, {}).get(tag), mobs.get(cid, {}).get(tag)
        if a is not None and b is not None and a != b and len(ov) < cap:
            ov.append('%s %s' % (cid, a))
            cases.append(ic[cid]['line'])
    if not ov:
        return 0
    open(os.path.join(bdir, 'override.txt'), 'w').write('\n'.join(ov) + '\n')
    open(os.path.join(bdir, 'cases_g.txt'), 'w').write('\n'.join(cases) + '\n')
    rc, out, _ = sh('FG_GRAPH_OVERRIDE=%s %s %s > %s' % (os.path.join(bdir, 'override.txt'), drv,
                    os.path.join(bdir, 'cases_g.txt'), os.path.join(bdir, 'model_g.txt')), 3000, cwd=bdir)
    if rc != 0:
        try:
            os.remove(os.path.join(bdir, 'model_g.txt'))
        except OSError:
            pass
        raise RuntimeError('override pass failed: ' + out[-300:])
    return len(ov)


def prune_bundles(keep=8):
    d = os.path.join(CACHE, 'bundles')
    if not os.path.isdir(d):
        return
    ents = sorted((os.path.getmtime(os.path.join(d, x)), x) for x in os.listdir(d))
    for _, x in ents[:-keep]:
        shutil.rmtree(os.path.join(d, x), ignore_errors=True)


def parse_bundle(path):
    """-> (cases: id -> dict(kind, family, head, parts, line), obs: id -> {tag: payload}, order, stats)"""
    cases, obs, order, stats = {}, {}, [], []
    with open(path) as f:
        for line in f:
            line = line.rstrip('\n')
            if line.startswith('OBS '):
                p = line.split(' ', 3)
                cid, tag = p[1], p[2]
                obs.setdefault(cid, {})[tag] = p[3] if len(p) > 3 else ''
            elif line.startswith('CASE '):
                parts = line.split('|')
                hd = parts[0].split()
                cid = hd[2]
                cases[cid] = dict(kind=hd[1], family=hd[3] if len(hd) > 3 else '', head=hd, parts=[x.strip() for x in parts[1:]], line=line)
                order.append(cid)
            elif line.startswith('STATS '):
                stats.append(line)
            elif line.startswith('ERR '):
                obs.setdefault('_ERR', {})[str(len(obs.get('_ERR', {})))] = line
    return cases, obs, order, stats


# ----------------------------------------------------------------------------------------------
# Known findings
# ----------------------------------------------------------------------------------------------

def known_findings():
    out = []
    p = os.path.join(ROOT, 'known_findings.txt')
    if os.path.exists(p):
        for line in open(p):
            line = line.strip()
            if line.startswith('known:'):
                m = re.match(r'known:\s*property=(\S+)\s+match=(\S+)\s+(.*)', line)
                if m:
                    out.append(dict(prop=m.group(1), match=m.group(2), text=m.group(3)))
    return out


# ----------------------------------------------------------------------------------------------
# The check
# ----------------------------------------------------------------------------------------------

def write_replay(prop, seed, tier, lines):
    os.makedirs(REPLAYS, exist_ok=True)
    p = os.path.join(REPLAYS, '%s-%s-seed%d.txt' % (prop, tier, seed))
    with open(p, 'w') as f:
        f.write('# replay for property %s (tier %s, seed %d, features %s)\n' % (prop, tier, seed, FEATURES))
        f.write('# re-run with: bin/check --replay %s\n' % p)
        for ln in lines:
            f.write(ln + '\n')
    return p


def run_check(prop, tier, seed):
    t0 = time.time()
    spec = props.PROPS.get(prop)
    if spec is None:
        print('unknown or unclaimed property %s' % prop)
        return 2
    os.makedirs(EVID, exist_ok=True)
    audit = proof_audit(prop, tier)
    log('proof audit: %s (%s)' % ('ok' if audit['ok'] else 'BROKEN', '; '.join(audit['problems'])[:300]))
    res = props.evaluate(prop, spec, tier, seed)   # correspondence + monitors
    violations = []      # (description, replay lines)
    known_lines = []
    kf = [k for k in known_findings() if k['prop'] == prop]
    # a listed finding covers a failing case only if the (faithful) model predicts exactly what the
    # implementation did on that case: any other deviation on it is still a violation
    mism_lines = set(m['case_line'] for m in res['mismatches'] if m)
    n_known_cases = 0
    for v in res['monitor_failures']:
        hit = [k for k in kf if k['match'] in v['case_line'] or k['match'] == v.get('key') or v['what'].startswith(k['match'] + ':')]
        if hit and v['case_line'] in mism_lines:
            hit = []
        if hit:
            n_known_cases += 1
            known_lines.append('KNOWN-FINDING: property=%s %s' % (prop, hit[0]['text']))
        else:
            violations.append(v)
    known_lines = sorted(set(known_lines))
    exit_code = 0
    out_lines = []
    replay_path = None
    if violations:
        v = violations[0]
        lines = ['# monitor verdict: ' + v['what'], v['case_line']] + v.get('obs_lines', [])
        for w in violations[1:5]:
            lines += ['# also: ' + w['what'], w['case_line']]
        replay_path = write_replay(prop, seed, tier, lines)
        out_lines.append('VIOLATION property=%s replay=%s' % (prop, replay_path))
        exit_code = 1
    elif (not audit['ok']) or res['mismatches'] or res.get('error'):
        # proof or correspondence broken, every monitor green: extended search for a failing input
        found = props.extended_search(prop, spec, tier, seed, kf)
        if found:
            lines = ['# monitor verdict (extended search): ' + found['what'], found['case_line']] + found.get('obs_lines', [])
            replay_path = write_replay(prop, seed, tier, lines)
            out_lines.append('VIOLATION property=%s replay=%s' % (prop, replay_path))
        else:
            lines = []
            if not audit['ok']:
                lines.append('# proof obligations that no longer check: ' + ' | '.join(audit['problems']))
                lines.append('# theorems: ' + ', '.join(audit['theorems']))
            if res.get('error'):
                lines.append('# correspondence could not be evaluated: ' + res['error'])
            if res.get('hang_case'):
                lines.append('# the harness was running this case when it ran out of time:')
                lines.append(res['hang_case'])
            for m in res['mismatches'][:10]:
                lines.append('# correspondence broken on tag %s: impl=%r model=%r' % (m['tag'], m['impl'], m['model']))
                lines.append(m['case_line'])
            replay_path = write_replay(prop, seed, tier, lines)
            out_lines.append('VIOLATION property=%s replay=%s no-failing-input-found' % (prop, replay_path))
        exit_code = 1
    wall = time.time() - t0
    cov = dict(
        obligations=audit['obligations'], discharged=audit['discharged'],
        checker_cmd='cd /verif/coq && coq_makefile -f _CoqProject -o Makefile && make -k -j16 && coqc -Q theories FG theories/Props/%s.v  (Print Assumptions; forbidden-construct scan%s)'
                    % (prop, '; coqchk -o' if tier == 'thorough' else ''),
        trusted_base=TRUSTED_BASE,
        theorems=audit['theorems'], examples=audit.get('examples', []), proof_problems=audit['problems'],
        evaluations=res['evaluations'], distinct_nontrivial=res['distinct_nontrivial'], rule=res['rule'],
        samples=res['samples'][:6], traces_validated_against_impl=res['compared_cases'],
        observations_compared=res['compared_obs'], correspondence_mismatches=len(res['mismatches']),
        monitor_failures=len(res['monitor_failures']) - n_known_cases, known_findings_hit=len(known_lines),
        cases_covered_by_known_findings=n_known_cases,
        families=res.get('families', {}), exhaustive=res.get('exhaustive', False),
        exhaustive_scope=res.get('exhaustive_scope', ''), bundle_wall_s=res.get('bundle_wall_s'),
        explanation=spec.get('explanation', ''),
        modular_cases=res.get('modular_cases', 0),
        kernel_reproved_sample=res.get('kernel_sample', 0),
    )
    ev = dict(property_id=prop, tier=tier, seed=seed, level='proof', coverage=cov,
              assumptions=spec.get('assumptions', []) + ['see DESIGN.md section 10 (trusted base)'],
              wall_s=round(wall, 2), violations=len(violations) + (1 if (exit_code and not violations) else 0))
    with open(os.path.join(EVID, prop + '.json'), 'w') as f:
        json.dump(ev, f, indent=1)
    for k in known_lines:
        print(k)
    for ln in out_lines:
        print(ln)
    print('%s %s: proof %s (%d/%d obligations), %d cases / %d observations compared, %d mismatches, %d monitor failures%s, %.1fs'
          % (prop, tier, 'ok' if audit['ok'] else 'BROKEN', audit['discharged'], audit['obligations'],
             res['compared_cases'], res['compared_obs'], len(res['mismatches']), len(res['monitor_failures']) - n_known_cases,
             (' (+ %d cases of the listed known finding)' % n_known_cases) if n_known_cases else '', wall))
    return exit_code


def replay(path):
    """Re-runs the CASE lines of a replay file on the implementation and the model; prints both
    and the monitor verdicts."""
    lines = [ln.rstrip('\n') for ln in open(path)]
    return props.replay(lines)
