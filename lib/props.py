"""Per-property projections, monitors and evaluation over bundles."""
import os, json
import re
import ref_builder as rb
import ref_runtime as rr

# tags compared (the projection of section 5.3 of DESIGN.md), monitor, non-triviality rule
PROPS = {
    'C11': dict(bundle='builder', tags=['B', 'E', 'R', 'TN'], kinds=['B'], monitor=rb.mon_c11,
                tagproj={'E': lambda v: ' '.join(sorted(v.split())),     # the property does not fix the order of the edge list
                         'R': lambda v: ' '.join(t for t in v.split() if t.startswith('f')) or '-'},   # ids returned by add_fn / add_fns
                nontrivial=lambda c: 'D' in c.obs.get('E', '') or c.obs.get('B') == 'P',
                rule='builder cases (exhaustive n<=3 x access patterns, all edge subsets n=4, random n<=12, wide, layered); non-trivial = the built graph contains at least one Data edge; distinct = distinct call sequence',
                exhaustive_scope='exh3: every subset of the 6 ordered pairs on 3 nodes x {none,R,W}^3 x 2 insertion orders; exh4: every subset of the 12 ordered pairs on 4 nodes x 2 orders (one access pattern each)',
                explanation='theorems: build() of any call sequence is total, keeps nodes and user edges, adds only Data edges between conflicting functions, result acyclic, every conflicting pair joined by a path'),
    'C12': dict(bundle='builder', tags=['E', 'Q', 'EQ', 'EQK'], kinds=['B', 'BP'], monitor=rb.mon_c12,
                tagproj={'E': lambda v: ' '.join(sorted(v.split()))},
                nontrivial=lambda c: 'D' in c.obs.get('E', '') or c.kind == 'BP',
                rule='builder cases + pair cases (one call changed); non-trivial = graph with a Data edge, or a pair case',
                exhaustive_scope='as C11',
                explanation='theorems: tie-break by (rank, insertion index), Data edges non-redundant, == iff nodes and raw edges equal'),
    'C13': dict(bundle='builder', tags=['K'], kinds=['B'], monitor=rb.mon_c13,
                nontrivial=lambda c: any(x not in ('0', '-') for x in c.obs.get('K', '-').split()),
                rule='builder cases; non-trivial = some function has rank > 0; distinct = distinct call sequence',
                exhaustive_scope='every edge subset on n<=4 nodes in two insertion orders',
                explanation='theorem: rank = length of the longest chain of user edges ending at the function'),
    'C14': dict(bundle='builder', tags=['TI', 'TS', 'TR', 'TM', 'FO', 'FE', 'TN', 'TNM', 'TNI', 'TF', 'TE', 'PM1', 'PM2', 'PM3', 'PM4', 'NI', 'NR', 'ZI', 'ZR', 'CLI', 'CLR', 'CFI', 'CFR', 'CGI', 'CGR', 'CEQ'], kinds=['B'], monitor=rb.mon_c14,
                nontrivial=lambda c: c.obs.get('E', '-') != '-',
                rule='builder cases; every sequential iterator walked; try_fold/try_for_each with each (n<=4) or two random failing positions; non-trivial = graph with at least one edge',
                exhaustive_scope='every edge subset on n<=4 nodes, every failing position',
                explanation='theorems: Topo visits a permutation of the nodes in which every edge goes forward (also for the reversed structure); try_* = prefix up to the first error'),
    'C16': dict(bundle='builder', tags=['R', 'X', 'E'], kinds=['B'], monitor=rb.mon_c16,
                # the property is about the edge calls: compare the accepted user edges, not what build() adds
                tagproj={'E': lambda v: ' '.join(t for t in v.split() if not t.endswith('D')) or '-'},
                nontrivial=lambda c: 'cyc' in c.obs.get('R', '') or ' ok' in c.obs.get('R', ''),
                rule='builder call sequences incl. repeats, reversed pairs, self edges, batches, out-of-range ids; non-trivial = at least one edge call; distinct = distinct call sequence',
                exhaustive_scope='exh2ops: every sequence of <=2 (quick) / <=3 (thorough) edge calls from {L,C} x 9 ordered pairs on 3 nodes',
                explanation='theorem: an edge call is refused iff a = b or a path b ~> a exists; refusal changes nothing; overwrite in place / append'),
    'C17': dict(bundle='builder', tags=['GP', 'GN', 'GE', 'GI', 'GR', 'GS', 'GSE', 'GSI', 'GS2', 'GY', 'GYB', 'GYG'], kinds=['B'], monitor=rb.mon_c17,
                nontrivial=lambda c: c.obs.get('GE', '-') != '-',
                rule='builder cases with feature graph_info: from_graph, iter, iter_rev, the YAML text, serde_yaml_ng round trips (string, Value, reader), two malformed-edge texts; non-trivial = at least one edge',
                exhaustive_scope='as C11',
                explanation='theorems: from_graph copies nodes (mapped) and raw edges and never panics; serialisation structure round-trips; the YAML text (Yaml.v, writer as lines) is read back to the same value by a reader with petgraph\'s endpoint check, the reader accepts only written texts, the writer is injective; iter/iter_rev topological. serde_yaml_ng\'s scanner is not modelled: partial',
                assumptions=['serde_yaml_ng: the text written for a GraphInfo<u64> is modelled line by line (Yaml.v) and compared byte for byte; its reader (scanner) is not modelled: tied to Yaml.gi_parse by the round trips and two malformed-edge texts per case only']),
    'C18': dict(bundle='builder', tags=['P', 'BT'], kinds=['B'], monitor=rb.mon_c18,
                # the property is an upper bound on work: the implementation may do less than the model
                # (whose work the theorem bounds), never more
                cmp={'P': lambda a, b: len(a.split()) == len(b.split()) and all(int(x) <= int(y) for x, y in zip(a.split(), b.split()))},
                nontrivial=lambda c: len(c.obs.get('E', '-').split()) >= 3,
                rule='builder cases incl. layered w x L families (exponentially many paths) and dense graphs; work counters from the verif_hooks feature must equal the model counts; non-trivial = at least 3 edges',
                exhaustive_scope='as C13',
                explanation='theorem: rank relaxation pops <= n*n; augmenter path queries = n(n-1)/2; cost model, not wall clock',
                assumptions=['cost is measured in queue pops and path queries (each O(n+e)); wall-clock time is not compared']),
}



# ---- projections for runtime tags -------------------------------------------------------------
def _e_sorted(v):
    t = v.split()
    if len(t) >= 2 and t[0] not in ('-',) and re.match(r'^[0-9.]+$', t[0]):
        t[0] = '.'.join(sorted(t[0].split('.'), key=int))
    return ' '.join(t)


def _e_status(v):
    t = v.split()
    return t[-1] if t else v


def _o_canon(v):
    if v.strip() == '-':
        return v
    parts = [x.strip() for x in v.split('|')]
    if len(parts) != 4:
        return v
    head = parts[0].split()
    srt = lambda xs: ' '.join(sorted([x for x in xs if x != '-'], key=int)) or '-'
    return '%s %s | %s | %s | %s' % (head[0], srt(head[1:]), parts[1], srt(parts[2].split()), parts[3])


def _o_kind(v):
    return v.split('|')[-1].strip() if '|' in v else v


def _g_set(v):
    return ' '.join(sorted(v.split()))


EXACT = lambda v: v
RT = dict(bundle='runtime')


def rt(kinds, proj, monitor, rule, nontrivial, explanation, relevant=None, assumptions=None, scope=''):
    d = dict(bundle='runtime', kinds=kinds, proj=proj, monitor=monitor, rule=rule, nontrivial=nontrivial,
             explanation=explanation, relevant=relevant, assumptions=assumptions or [], exhaustive_scope=scope, tags=None)
    return d


def _has_conflict(c):
    r = c.rcase()
    return any(rb.conflict(r.ref.nodes[i], r.ref.nodes[j]) for i in range(r.n) for j in range(i + 1, r.n))


def _cfg(c):
    return rr.kvs(c.parts[1].split()) if c.kind in ('X', 'S') else {}


RT_SCOPE = 'exh: all 30 labelled DAGs on n<=3 nodes x 4 APIs x mut x order x every completion order; every failing subset (n<=2 all orders); one interrupt at every position for 5 strategies x include flag; limits 1,2. sexh: every interleaving of poll_next / FnRef drop up to length 2n+2 on those DAGs, both orders. empty: the empty graph on every entry point'

PROPS.update({
    'C01': rt(['X', 'S'], {'G': _g_set, 'e': _e_sorted}, rr.mon_c01,
              'runtime cases (exhaustive n<=3 schedules, random n<=8 with R/W declarations, conflict families, wide); monitor: in-flight intervals of every conflicting pair; non-trivial = the graph has a conflicting pair',
              lambda c: _has_conflict(c), 'conflicting functions are joined by a path of the built graph (C11) and a function starts only after its predecessors ended',
              relevant=lambda c: c.kind == 'S' or _cfg(c).get('api') in ('foreach', 'tryforeach'), scope=RT_SCOPE),
    'C02': rt(['X', 'S'], {'e': _e_sorted}, rr.mon_c02_full,
              'runtime cases, all 8 internal paths + control, both orders; monitor: End(dependency) before Start on the implementation trace; non-trivial = graph with at least one user edge',
              lambda c: bool(c.rcase().ref.edges), 'start_after_preds invariant of the scheduler model + user edges kept by build()', scope=RT_SCOPE),
    'C03': rt(['X', 'S'], {'e': _e_sorted, 'O': _o_canon}, rr.mon_c03,
              'runtime cases incl. the wide family (17..300 independent functions, fan-in/out) against channel capacity; monitor: no duplicate Start, clean run = all n; non-trivial = n >= 2',
              lambda c: c.rcase().n >= 2, 'NoDup of starts; ready channel never full; clean runs start every function exactly once', scope=RT_SCOPE),
    'C04': rt(['X'], {'e': _e_status, 'O': _o_kind}, rr.mon_c04,
              'call-API cases incl. the empty graph on every entry point; monitor: panic, pending-with-nothing-in-flight at any settled point, return with futures in flight; non-trivial = any case',
              lambda c: True, 'no panic site reachable; no deadlock; returns only when all started futures completed', scope=RT_SCOPE),
    'C05': rt(['S'], {'e': EXACT, 'Z': EXACT}, rr.mon_c05,
              'stream cases: every interleaving of poll_next and FnRef drops (n<=3), random ones with several drops between polls, early stream drop; exact poll results and waker flag; non-trivial = at least one drop event',
              lambda c: any(t.startswith('d') for t in c.parts[2].split()), 'pending_justified / none_iff_all on the stream machine', scope=RT_SCOPE),
    'C06': rt(['X', 'S'], {'G': EXACT, 'e': _e_sorted}, rr.mon_c06_full,
              'runtime cases without limit/interrupt/failure; monitor: at every idle point each function whose built-graph predecessors returned is started; added edges join conflicting functions only',
              lambda c: c.rcase().n >= 2, 'no_idle_ready + added_edges_are_conflicts',
              relevant=lambda c: c.kind == 'S' or (_cfg(c).get('api') in ('foreach', 'tryforeach') and _cfg(c).get('lim', '0') == '0'), scope=RT_SCOPE),
    'C07': rt(['X'], {'e': _e_sorted, 'O': _o_canon}, rr.mon_c07,
              'try_* cases with every non-empty failing subset (n<=2 exhaustive orders, n=3 sampled, random n<=8); monitor: errors == failed set, dependents of a failed function never start, try_fold first error',
              lambda c: 'e ' in (c.obs.get('T', '') + ' ') and any(t.endswith('e') and t.startswith('e') for t in c.obs.get('T', '').split()),
              'errs_exact, dependents_never_start, tryfold_first_error',
              relevant=lambda c: _cfg(c).get('api') in ('tryforeach', 'tryfold'), scope=RT_SCOPE),
    'C08': rt(['X', 'S'], {'e': _e_sorted, 'O': _o_canon}, rr.mon_c08,
              'cases with an interrupt at every position (incl. before the first poll) x FinishCurrent/PollNextN 0,1,2/Ignore x include flag; monitor: number of functions started after the signal vs the bound',
              lambda c: 'i' in [t.lstrip('+') for t in c.parts[2].split()], 'interrupt_bound (credit argument on the wrapper model)',
              relevant=lambda c: 'i' in [t.lstrip('+') for t in c.parts[2].split()] or _cfg(c).get('strat', 'non') != 'non', scope=RT_SCOPE),
    'C09': rt(['X'], {'e': EXACT, 'O': EXACT, 'T': EXACT}, rr.mon_c09,
              'call-API cases, exact outcome incl. order; monitor: processed == start order, not_processed == complement, state, Continue/Break',
              lambda c: c.rcase().n >= 2, 'outcome_exact, control_iff', scope=RT_SCOPE),
    'C10': rt(['X'], {'e': _e_sorted}, rr.mon_c10,
              'call-API cases with limit in {0,1,2,3,4}; monitor: max simultaneous in-flight user futures',
              lambda c: _cfg(c).get('lim', '0') != '0' or _cfg(c).get('api') in ('fold', 'tryfold'), 'limit_respected, seq_one', scope=RT_SCOPE),
    'C15': rt(['H'], {'*': EXACT}, rr.mon_c15,
              'histories of 2-4 runs (all APIs, shared and mut, streams; completed, interrupted, failed, dropped midway) on ONE graph value; every run compared with the model run from a fresh initial state; monitor: every later run is repeated by the harness on a freshly built graph and must give identical observations (implementation against implementation)',
              lambda c: True, 'frame theorem: a run only reads the graph value (partial: decisive part is the differential history check)',
              assumptions=['the borrow checker (rustc) is trusted for the &self paths']),
    'C20': rt(['Y', 'Z', 'W'], {'*': EXACT}, rr.mon_c20,
              'pairs of call-API runs (Y) and pairs of streams (Z) and stream + call pairs (W; the second created at its first event, possibly while FnRefs of the exhausted first are still held) on one graph, interleaved in one task; each compared with the single-run model; monitor: each run is repeated alone on its own freshly built graph with its own events and must give identical observations',
              lambda c: True, 'independence theorem (partial, as C15)',
              assumptions=['interleaving in one task only; runs on different OS threads are not exercised']),
})


# Every single-run property is also monitored (and compared with the model) on the runs of the
# multi-run cases: histories (H), pairs (Y call+call, Z stream+stream, W stream+call).  A change that
# only bites when runs share a graph, a thread or an InterruptibilityState still breaks the single-run
# guarantee of the run it bites.
MULTI_RUN = {'C01': 'HYZW', 'C02': 'HYZW', 'C03': 'HYZW', 'C04': 'HYW', 'C05': 'HZW', 'C06': 'HYZW', 'C07': 'HYW',
             'C08': 'HYZW', 'C09': 'HYW', 'C10': 'HYW'}


def _single_only(f, default=True):
    return (lambda c: default if c.kind not in ('X', 'S') else f(c)) if f else None


for _p, _ks in MULTI_RUN.items():
    _spec = PROPS[_p]
    _spec['kinds'] = list(_spec['kinds']) + [k for k in _ks if k not in _spec['kinds']]
    _spec['relevant'] = _single_only(_spec.get('relevant'))
    _spec['nontrivial'] = _single_only(_spec.get('nontrivial'))


# properties whose theorem also rests on the builder layer: the builder bundle is evaluated too
_B_EDGES = dict(bundle='builder', tags=['B', 'E'], kinds=['B'], monitor=rb.mon_c11, rule='', tagproj={'E': lambda v: ' '.join(sorted(v.split()))}, nontrivial=lambda c: 'D' in c.obs.get('E', ''))
PROPS['C01']['also'] = [_B_EDGES]
PROPS['C06']['also'] = [_B_EDGES]


class Case:
    def __init__(self, cid, meta, obs):
        self.cid = cid
        self.kind = meta['kind']
        self.family = meta['family']
        self.parts = meta['parts']
        self.line = meta['line']
        self.obs = obs
        self._b = None
        self._r = None

    def rcase(self):
        if self._r is None:
            self._r = rr.RCase(self.cid, self.kind, self.family, self.parts, self.line, self.obs)
        return self._r

    def bcase(self):
        if self._b is None:
            tf = self.parts[1][3:] if len(self.parts) > 1 and self.parts[1].startswith('tf=') else ''
            self._b = rb.BCase(self.cid, self.family, self.parts[0], tf, self.obs)
        return self._b


def run_monitor(spec, c):
    if c.kind == 'B':
        return spec['monitor'](c.bcase())
    if c.kind == 'BP':
        if spec['monitor'] is rb.mon_c12:
            return rb.mon_pair(c.parts[0], c.parts[1], c.obs.get('EQ'), c.obs.get('EQK'))
        return None
    return spec['monitor'](c.rcase())


# Properties whose subject is not the construction of the edge list: for a case in which the
# implementation built another edge list than the model's build(), their correspondence runs the
# model on the implementation's edge list (Builder.with_edges; OverrideFacts.v shows the runtime
# theorems apply to it), so that a change to the builder does not break their tie.  C01, C06, C11,
# C12 (about the construction itself), C13, C16, C18 (independent of Data edges) stay strict.
MODULAR = ('C02', 'C03', 'C04', 'C05', 'C07', 'C08', 'C09', 'C10', 'C14', 'C15', 'C17', 'C20')
for _p in MODULAR:
    if _p in PROPS:
        PROPS[_p]['modular'] = True
# C01 / C06 are about which edges exist: strict on the edge *set*, but if the implementation lists the
# same edges in another order the model is run on that order (it decides who gets a slot under a limit)
for _p in ('C01', 'C06'):
    PROPS[_p]['modular'] = 'same-set'


def project(spec, tag, v):
    """-> canonical value to compare, or None if the tag is outside this property's projection"""
    if spec.get('tags') is not None:
        if tag not in spec['tags']:
            return None
        f = spec.get('tagproj', {}).get(tag)
        return f(v) if f else v
    if re.match(r'^f([0-9]+|[AB][0-9]*)\.', tag):
        return None      # oracle runs on a fresh graph (C15/C20 monitors), not printed by the model
    proj = spec['proj']
    base = re.sub(r'^(r[0-9]+\.|[AB][0-9]*\.)', '', tag)
    base = re.sub(r'^e[0-9]+$', 'e', base)
    f = proj.get(base) or proj.get('*')
    return f(v) if f else None


def _aggregate_polls(obs):
    out, started, last = {}, [], '-'
    ks = sorted((int(t[1:]) for t in obs if re.match(r'^e[0-9]+$', t)))
    for k in ks:
        toks = obs['e%d' % k].split()
        if toks and toks[0] != '-' and re.match(r'^[0-9.]+$', toks[0]):
            started += toks[0].split('.')
        if toks:
            last = toks[-1]
    for t, v in obs.items():
        if not re.match(r'^e[0-9]+$', t):
            out[t] = v
    out['e0'] = '%s %s' % ('.'.join(started) if started else '-', last)
    return out


def evaluate_bundle(prop, spec, bdir, meta):
    import vlib
    res = dict(mismatches=[], monitor_failures=[], evaluations=0, distinct_nontrivial=0, compared_cases=0,
               compared_obs=0, samples=[], families={}, rule=spec['rule'], error=meta.get('error'))
    ic, iobs, order, stats = vlib.parse_bundle(os.path.join(bdir, 'impl.txt'))
    mc, mobs, _, _ = vlib.parse_bundle(os.path.join(bdir, 'model.txt'))
    gobs = {}
    gpath = os.path.join(bdir, 'model_g.txt')
    if spec.get('modular') and os.path.exists(gpath):
        _, gobs, _, _ = vlib.parse_bundle(gpath)
    res['modular_cases'] = 0
    if '_ERR' in mobs:
        res['error'] = (res['error'] or '') + ' model driver errors: ' + '; '.join(list(mobs['_ERR'].values())[:3])
    seen = set()
    for cid in order:
        meta_c = ic[cid]
        if meta_c['kind'] not in spec['kinds']:
            continue
        c = Case(cid, meta_c, iobs.get(cid, {}))
        if spec.get('relevant') and not spec['relevant'](c):
            continue
        res['evaluations'] += 1
        fam = c.family.split('-')[0]
        res['families'][fam] = res['families'].get(fam, 0) + 1
        mo = mobs.get(cid)
        if c.family.startswith(('tokio', 'nm-')):
            mo = {}     # run inside a real tokio runtime: not modelled, monitors only
            res['tokio_cases'] = res.get('tokio_cases', 0) + 1
        if cid in gobs and 'GX' not in gobs[cid] and (
                spec.get('modular') is True or
                sorted(c.obs.get('G', '').split()) == sorted((mo or {}).get('G', '').split())):
            mo = gobs[cid]          # model run on the edge list the implementation built
            res['modular_cases'] += 1
        if mo is None:
            res['mismatches'].append(dict(tag='(case)', impl='present', model='missing', case_line=c.line))
        else:
            res['compared_cases'] += 1
            cobs = c.obs
            if c.family.startswith('intm'):
                # single-poll schedules: which poll of a self-woken task starts a function is not part of
                # any property; compare what starts over the whole run and how the run ends
                cobs, mo = _aggregate_polls(c.obs), _aggregate_polls(mo)
            for t in (sorted(set(cobs) | set(mo)) if not c.family.startswith(('tokio', 'nm-')) else []):
                a, b = cobs.get(t), mo.get(t)
                if t == 'P' and a is None:
                    continue   # hooks feature off
                pa = project(spec, t, a) if a is not None else None
                pb = project(spec, t, b) if b is not None else None
                if pa is None and pb is None:
                    continue
                res['compared_obs'] += 1
                cmpf = spec.get('cmp', {}).get(t)
                if (not cmpf(pa, pb)) if (cmpf and pa is not None and pb is not None) else (pa != pb):
                    if len(res['mismatches']) < 50:
                        res['mismatches'].append(dict(tag=t, impl=a, model=b, case_line=c.line))
                    else:
                        res['mismatches'].append(None)
        what = run_monitor(spec, c)
        if what:
            if len(res['monitor_failures']) < 200:
                res['monitor_failures'].append(dict(what=what, case_line=c.line, key=c.family,
                                                    obs_lines=['OBS %s %s %s' % (cid, t, v) for t, v in c.obs.items()]))
        body = c.line.split('|', 1)[1] if '|' in c.line else c.line
        if body not in seen:
            seen.add(body)
            try:
                nt = spec['nontrivial'](c)
            except Exception:
                nt = False
            if nt:
                res['distinct_nontrivial'] += 1
                if len(res['samples']) < 6 and (res['distinct_nontrivial'] % 997 == 1 or len(res['samples']) < 2):
                    res['samples'].append(dict(case=c.line, observations={t: c.obs.get(t) for t in list(c.obs)[:12]}))
    # a library call that never returned while the harness ran this case: a failing input for the
    # properties that promise termination / totality; named in the replay of the others
    hc = meta.get('hang_case')
    if hc:
        res['hang_case'] = hc
        kind = hc.split()[1] if len(hc.split()) > 1 else ''
        if (prop, kind) in (('C04', 'X'), ('C10', 'X'), ('C05', 'S'), ('C11', 'B'), ('C18', 'B'), ('C15', 'H'), ('C20', 'Y'), ('C20', 'Z'), ('C20', 'W')):
            res['monitor_failures'].append(dict(what=('a library call did not return within the harness time budget while running this case' if meta.get('harness_rc') == 124
                                                      else 'the harness process died (abort / stack overflow, rc %s) while the library was running this case' % meta.get('harness_rc')),
                                                case_line=hc, key='hang', obs_lines=[]))
    n_extra = sum(1 for m in res['mismatches'] if m is None)
    res['mismatches'] = [m for m in res['mismatches'] if m is not None]
    res['mismatches_total'] = len(res['mismatches']) + n_extra
    res['stats'] = stats
    return res


def merge_results(res, extra):
    for k in ('evaluations', 'distinct_nontrivial', 'compared_cases', 'compared_obs'):
        res[k] += extra[k]
    res['modular_cases'] = res.get('modular_cases', 0) + extra.get('modular_cases', 0)
    res['mismatches'] += extra['mismatches']
    res['monitor_failures'] += extra['monitor_failures']
    res['mismatches_total'] = res.get('mismatches_total', 0) + extra.get('mismatches_total', 0)
    for f, c in extra['families'].items():
        res['families']['builder:' + f] = c
    res['samples'] += extra['samples'][:2]
    if extra.get('error'):
        res['error'] = (res.get('error') or '') + ' ' + extra['error']
    return res


def evaluate(prop, spec, tier, seed):
    import vlib
    try:
        bdir, meta = vlib.bundle(spec['bundle'], tier, seed)
    except RuntimeError as e:
        return dict(mismatches=[], monitor_failures=[], evaluations=0, distinct_nontrivial=0, compared_cases=0,
                    compared_obs=0, samples=[], families={}, rule=spec['rule'], error=str(e))
    res = evaluate_bundle(prop, spec, bdir, meta)
    for sub in spec.get('also', []):
        try:
            bdir2, meta2 = vlib.bundle(sub['bundle'], tier, seed)
            res = merge_results(res, evaluate_bundle(prop, sub, bdir2, meta2))
        except RuntimeError as e:
            res['error'] = (res.get('error') or '') + ' ' + str(e)
    res['bundle_wall_s'] = meta.get('wall_s')
    res['kernel_sample'] = meta.get('kernel_sample', 0)
    res['exhaustive'] = any(f.startswith('exh') for f in res['families']) and not res.get('error')
    res['exhaustive_scope'] = spec.get('exhaustive_scope', '')
    return res


def extended_search(prop, spec, tier, seed, kf):
    """Proof or correspondence broken but monitors green: look harder for a failing input
    (thorough tier if we were quick, then three more seeds). Returns a monitor failure or None."""
    import vlib
    tries = []
    if tier == 'quick':
        tries.append(('thorough', seed))
    tries += [(tier, seed + 1), (tier, seed + 2), (tier, seed + 3)]
    for (t, s) in tries:
        try:
            bdir, meta = vlib.bundle(spec['bundle'], t, s)
        except RuntimeError:
            return None
        if meta.get('harness_rc') == 124:
            return None      # the harness itself hangs on this code: more seeds would only hang again
        res = evaluate_bundle(prop, spec, bdir, meta)
        for v in res['monitor_failures']:
            if not any(k['match'] in v['case_line'] or k['match'] == v.get('key') or v['what'].startswith(k['match'] + ':') for k in kf):
                return v
    return None


def replay(lines):
    import vlib, tempfile, subprocess
    cases = [ln for ln in lines if ln.startswith('CASE ')]
    if not cases:
        print('no CASE line in replay file (the file names the proof obligation / correspondence that no longer checks):')
        for ln in lines:
            print(ln)
        return 0
    exe = vlib.build_harness()
    drv = vlib.model_driver()
    d = os.path.join(vlib.CACHE, 'replay')
    os.makedirs(d, exist_ok=True)
    inp = os.path.join(d, 'in.txt')
    open(inp, 'w').write('\n'.join(cases) + '\n')
    kinds = set(c.split()[1] for c in cases)
    sub = 'builder-replay' if kinds <= {'B', 'BP'} else 'runtime-replay'
    rc, out, _ = vlib.sh('%s %s --in %s --out %s' % (exe, sub, inp, os.path.join(d, 'impl.txt')), 600)
    rc2, out2, _ = vlib.sh('%s %s > %s' % (drv, os.path.join(d, 'impl.txt'), os.path.join(d, 'model.txt')), 600)
    print('--- implementation ---')
    print(open(os.path.join(d, 'impl.txt')).read())
    print('--- model ---')
    print(open(os.path.join(d, 'model.txt')).read())
    ic, iobs, order, _ = vlib.parse_bundle(os.path.join(d, 'impl.txt'))
    bad = 0
    for cid in order:
        c = Case(cid, ic[cid], iobs.get(cid, {}))
        for prop, spec in PROPS.items():
            if c.kind in spec['kinds']:
                w = run_monitor(spec, c)
                if w:
                    print('MONITOR %s case %s: %s' % (prop, cid, w))
                    bad += 1
    print('monitors: %d failure(s)' % bad)
    return 1 if bad else 0
