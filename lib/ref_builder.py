"""Independent reference oracles for the builder-level properties (C11-C14, C16-C18).

These are *monitors*: they evaluate each property's predicate directly on what the implementation
printed, using nothing from the Coq model (own cycle check, own longest-chain DP, own closure).
They decide whether a broken correspondence is a real violation and provide the replay.
"""


def parse_list(s, sep):
    return [int(x) for x in s.split(sep) if x != ''] if s not in ('', '-') else []


def parse_ops(s):
    ops = []
    for tok in s.split():
        if tok == '-':
            continue
        p = tok.split(':')
        if p[0] == 'F':
            ops.append(('F', int(p[1]), parse_list(p[2], '.'), parse_list(p[3], '.')))
        elif p[0] in ('L', 'C'):
            ops.append((p[0], int(p[1]), int(p[2])))
        elif p[0] in ('LB', 'CB'):
            pairs = [tuple(int(x) for x in q.split('-')) for q in p[1].split(',') if q]
            ops.append((p[0], pairs))
        else:
            raise ValueError('bad op ' + tok)
    return ops


def parse_edges(s):
    if s.strip() in ('', '-'):
        return []
    out = []
    for tok in s.split():
        a, rest = tok.split('-')
        out.append((int(a), int(rest[:-1]), rest[-1]))
    return out


def reach_from(n, edges, a, skip=None):
    adj = {}
    for i, (x, y, _k) in enumerate(edges):
        if skip is not None and i == skip:
            continue
        adj.setdefault(x, []).append(y)
    seen = {a}
    st = [a]
    while st:
        x = st.pop()
        for y in adj.get(x, ()):
            if y not in seen:
                seen.add(y)
                st.append(y)
    return seen


class RefBuilder:
    def __init__(self):
        self.nodes = []   # (fid, rd, wr)
        self.edges = []   # [a, b, kind]
        self.panicked = False

    def edge(self, a, b, k):
        n = len(self.nodes)
        if a >= n or b >= n:
            self.panicked = True
            return 'P'
        for e in self.edges:
            if e[0] == a and e[1] == b:
                e[2] = k
                return 'ok'
        if a == b or a in reach_from(n, self.edges, b):
            return 'cyc'
        self.edges.append([a, b, k])
        return 'ok'

    def apply(self, op):
        if op[0] == 'F':
            self.nodes.append((op[1], tuple(op[2]), tuple(op[3])))
            return 'f%d' % (len(self.nodes) - 1)
        if op[0] in ('L', 'C'):
            return self.edge(op[1], op[2], op[0])
        k = op[0][0]
        for (a, b) in op[1]:
            r = self.edge(a, b, k)
            if r != 'ok':
                return r
        return 'ok'

    def run(self, ops):
        res = []
        for op in ops:
            r = self.apply(op)
            res.append(r)
            if r == 'P':
                break
        return res


def conflict(f, g):
    rf, wf = set(f[1]), set(f[2])
    rg, wg = set(g[1]), set(g[2])
    return bool((rf & wg) or (wf & rg) or (wf & wg))


def longest_chains(n, edges):
    """rank[v] = number of edges of the longest chain ending at v (edges must be acyclic)."""
    preds = {}
    for (a, b, _k) in edges:
        preds.setdefault(b, []).append(a)
    memo = {}

    def go(v):
        if v in memo:
            return memo[v]
        st = [(v, iter(preds.get(v, ())))]
        best = {v: 0}
        while st:
            x, it = st[-1]
            adv = False
            for p in it:
                if p in memo:
                    best[x] = max(best[x], memo[p] + 1)
                else:
                    st.append((p, iter(preds.get(p, ()))))
                    best[p] = 0
                    adv = True
                    break
            if not adv:
                memo[x] = best[x]
                st.pop()
                if st:
                    px = st[-1][0]
                    best[px] = max(best[px], memo[x] + 1)
        return memo[v]
    return [go(v) for v in range(n)]


def is_acyclic(n, edges):
    indeg = [0] * n
    adj = [[] for _ in range(n)]
    for (a, b, _k) in edges:
        adj[a].append(b)
        indeg[b] += 1
    st = [v for v in range(n) if indeg[v] == 0]
    seen = 0
    while st:
        x = st.pop()
        seen += 1
        for y in adj[x]:
            indeg[y] -= 1
            if indeg[y] == 0:
                st.append(y)
    return seen == n


def closure(n, edges):
    return [reach_from(n, edges, a) for a in range(n)]


def respects(order, n, edges):
    if sorted(order) != list(range(n)):
        return False
    pos = {v: i for i, v in enumerate(order)}
    return all(pos[a] < pos[b] for (a, b, _k) in edges)


class BCase:
    """A parsed `CASE B` with the implementation's observations."""
    def __init__(self, cid, family, ops_s, tf_s, obs):
        self.cid, self.family, self.ops_s, self.tf_s, self.obs = cid, family, ops_s, tf_s, obs
        self._ref = None

    def ref(self):
        if self._ref is None:
            rb = RefBuilder()
            res = rb.run(parse_ops(self.ops_s))
            self._ref = (rb, res)
        return self._ref


# Each monitor returns None when the property's predicate holds on this case's implementation
# observations, else a short string saying what fails.

def mon_c16(c):
    rb, res = c.ref()
    got = c.obs.get('R', '').split()
    if got == ['-']:
        got = []
    if got != res:
        return 'builder call results %s, reference (cycle <=> path back) says %s' % (got, res)
    if rb.panicked or 'E' not in c.obs:
        return None
    e = parse_edges(c.obs['E'])
    user = [tuple(x) for x in rb.edges]
    kept = [x for x in e if x[2] != 'D']
    if sorted(kept) != sorted(user):      # the order of the edge list is not part of the property
        return 'accepted edges not kept: built %s, accepted %s' % (sorted(kept), sorted(user))
    pairs = [(a, b) for (a, b, _k) in e]
    if len(set(pairs)) != len(pairs):
        return 'two edges on one ordered pair'
    return None


def mon_c13(c):
    rb, _ = c.ref()
    if rb.panicked or 'K' not in c.obs:
        return None
    want = longest_chains(len(rb.nodes), rb.edges)
    got = parse_list(c.obs['K'], ' ')
    if got != want:
        return 'ranks %s, longest chains %s' % (got, want)
    return None


def mon_c11(c):
    rb, _ = c.ref()
    if rb.panicked:
        return None
    if c.obs.get('B') != 'ok':
        return 'build() panicked'
    n = len(rb.nodes)
    ids = [t for t in c.obs.get('R', '').split() if t.startswith('f')]
    if ids != ['f%d' % i for i in range(n)]:
        return 'add_fn / add_fns returned ids %s for the %d functions added in this order' % (ids, n)
    if 'TN' in c.obs and parse_list(c.obs['TN'], ' ') != list(range(n)):
        return 'the function stored under FnId k is not the k-th function added: %s' % c.obs['TN']
    e = parse_edges(c.obs['E'])
    user = [tuple(x) for x in rb.edges]
    kept = [x for x in e if x[2] != 'D']
    if sorted(kept) != sorted(user):
        return 'user edges changed: built %s, accepted %s' % (sorted(kept), sorted(user))
    for (a, b, k) in e:
        if k == 'D' and not conflict(rb.nodes[a], rb.nodes[b]):
            return 'Data edge %d-%d between non-conflicting functions' % (a, b)
    if not is_acyclic(n, e):
        return 'built graph has a cycle'
    cl = closure(n, e)
    for i in range(n):
        for j in range(i + 1, n):
            if conflict(rb.nodes[i], rb.nodes[j]) and j not in cl[i] and i not in cl[j]:
                return 'conflicting functions %d and %d are not ordered' % (i, j)
    return None


def mon_c12(c):
    rb, _ = c.ref()
    if rb.panicked or 'E' not in c.obs:
        return None
    n = len(rb.nodes)
    e = parse_edges(c.obs['E'])
    user = [tuple(x) for x in rb.edges]
    ranks = longest_chains(n, user)
    ucl = closure(n, user)
    cl = closure(n, e)
    for i in range(n):
        for j in range(n):
            if i != j and conflict(rb.nodes[i], rb.nodes[j]) and j not in ucl[i] and i not in ucl[j]:
                if (ranks[i], i) < (ranks[j], j) and j not in cl[i]:
                    return 'conflicting %d (rank %d) should precede %d (rank %d)' % (i, ranks[i], j, ranks[j])
    for idx, (a, b, k) in enumerate(e):
        if k == 'D' and b in reach_from(n, e, a, skip=idx):
            return 'Data edge %d-%d repeats an ordering implied by other edges' % (a, b)
    if c.obs.get('Q') != '1 1':
        return 'building the same calls twice gave Q=%s' % c.obs.get('Q')
    return None


def mon_c14(c):
    rb, _ = c.ref()
    if rb.panicked or 'E' not in c.obs:
        return None
    n = len(rb.nodes)
    e = parse_edges(c.obs['E'])
    for tag in ('TI', 'TS', 'TM', 'FO', 'FE'):
        o = parse_list(c.obs.get(tag, '-'), ' ')
        if not respects(o, n, e):
            return '%s order %s is not a dependency order of the built graph' % (tag, o)
    for tag, rev in (('CLI', False), ('CLR', True), ('CFI', False), ('CFR', True), ('CGI', False), ('CGR', True)):
        if tag in c.obs:
            o = parse_list(c.obs[tag], ' ')
            ee = [(b, a, k) for (a, b, k) in e] if rev else e
            if not respects(o, n, ee):
                return 'iteration of a clone()/clone_from() copy (%s) visited %s: not every function once in %sdependency order' % (tag, o, 'reverse ' if rev else '')
    if c.obs.get('CEQ', '1') != '1':
        return 'a graph assigned with clone_from() does not compare equal to its source'
    for tag, rev in (('NI', False), ('NR', True), ('ZI', False), ('ZR', True)):
        if tag in c.obs:
            o = parse_list(c.obs[tag], ' ')
            if not respects(o, n, [(b, a, k) for (a, b, k) in e] if rev else e):
                return ('%s with another iterator of the same graph alive (%s) visited %s: not every function once in %sdependency order'
                        % ('iter_rev' if rev else 'iter', tag, o, 'reverse ' if rev else ''))
    for tag in ('PM1', 'PM2', 'PM3', 'PM4'):
        if tag in c.obs:
            o = parse_list(c.obs[tag], ' ')
            if not respects(o, n, e):
                return 'traversal after a partially consumed map()/iter() (%s) visited %s: not every function once in dependency order' % (tag, o)
    o = parse_list(c.obs.get('TR', '-'), ' ')
    if not respects(o, n, [(b, a, k) for (a, b, k) in e]):
        return 'iter_rev order %s is not a reverse dependency order' % o
    if parse_list(c.obs.get('TN', '-'), ' ') != list(range(n)):
        return 'iter_insertion order wrong'
    if 'TNM' in c.obs and parse_list(c.obs['TNM'], ' ') != list(range(n)):
        return 'iter_insertion_mut order wrong: %s' % c.obs['TNM']
    if 'TNI' in c.obs:
        want = ' '.join('%d:%d' % (i, i) for i in range(n)) or '-'
        if c.obs['TNI'].strip() != want:
            return 'iter_insertion_with_indices yields %s' % c.obs['TNI']
    tm = parse_list(c.obs.get('TM', '-'), ' ')
    for tag in ('TF', 'TE'):
        s = c.obs.get(tag, '-')
        if s == '-':
            continue
        for ent in s.split(';'):
            k, vis, res = ent.split(':')
            k = int(k)
            vis = parse_list(vis, '.')
            if k in tm:
                want = tm[:tm.index(k) + 1]
                if vis != want or res != 'e%d' % k:
                    return '%s failing at %d: visited %s result %s, expected prefix %s and the error' % (tag, k, vis, res, want)
            elif vis != tm or res != 'ok':
                return '%s without failing function: visited %s result %s' % (tag, vis, res)
    return None


def mon_c17(c):
    rb, _ = c.ref()
    if rb.panicked or 'E' not in c.obs:
        return None
    if 'GP' in c.obs:
        return 'GraphInfo::from_graph panicked'
    if 'GN' not in c.obs:
        return None
    n = len(rb.nodes)
    e = parse_edges(c.obs['E'])
    if parse_list(c.obs['GN'], ' ') != [f[0] for f in rb.nodes]:
        return 'GraphInfo nodes %s differ from mapped functions' % c.obs['GN']
    ge = parse_edges(c.obs['GE'])
    if ge != e:
        return 'GraphInfo edges %s differ from graph edges %s' % (ge, e)
    if 'GY' in c.obs:
        # the serialised text must denote exactly this value (independent writer; a text that loses or alters
        # information can still read back "equal" when reader and writer err alike)
        names = {'L': 'Logic', 'C': 'Contains', 'D': 'Data'}
        gn = parse_list(c.obs['GN'], ' ')
        want = ['graph:', '  nodes:' + ('' if gn else ' []')] + ['  - %d' % w for w in gn]
        want += ['  node_holes: []', '  edge_property: directed', '  edges:' + ('' if ge else ' []')]
        for (a, b, k) in ge:
            want += ['  - - %d' % a, '    - %d' % b, '    - %s' % names[k]]
        got = c.obs['GY'].split('|')
        if got and got[-1] == '':
            got = got[:-1]
        if got != want:
            d = next((i for i in range(min(len(got), len(want))) if got[i] != want[i]), min(len(got), len(want)))
            return 'serialised text does not denote the GraphInfo value: line %d is %r, expected %r' % (
                d + 1, got[d] if d < len(got) else None, want[d] if d < len(want) else None)
    if c.obs.get('GYB', 'E') != 'E':
        return 'a serialised GraphInfo with an edge to a function that does not exist was read back (GYB=%s)' % c.obs['GYB']
    if 'GYG' in c.obs and c.obs['GYG'] != 'ok %d' % (len(ge) + 1):
        return 'the text of an acyclic GraphInfo value (this one plus a Data edge from the first to the last function of iter()) was not read back with that edge (GYG=%s)' % c.obs['GYG']
    if c.obs.get('GS') != '1':
        return 'serialise/deserialise did not yield an equal value (GS=%s)' % c.obs.get('GS')
    if parse_edges(c.obs.get('GSE', '-')) != e:
        return 'edges after round trip differ'
    if not respects(parse_list(c.obs['GI'], ' '), n, e):
        return 'GraphInfo::iter not topological'
    if not respects(parse_list(c.obs['GR'], ' '), n, [(b, a, k) for (a, b, k) in e]):
        return 'GraphInfo::iter_rev not reverse topological'
    if c.obs.get('GSI') != c.obs.get('GI'):
        return 'iteration order changed by the round trip'
    if 'GS2' in c.obs and c.obs['GS2'].split() != ['1', '1']:
        return 'round trip through a serde Value / a reader did not yield an equal value (GS2=%s)' % c.obs['GS2']
    return None


def mon_c18(c):
    if c.obs.get('BT', 'ok') != 'ok':
        return 'build() of a %d-function graph exceeded the wall-clock budget: %s' % (len(c.ref()[0].nodes), c.obs.get('BT'))
    rb, _ = c.ref()
    if rb.panicked or 'P' not in c.obs:
        return None
    n = len(rb.nodes)
    pops, queries = [int(x) for x in c.obs['P'].split()]
    if pops > n * n:
        return 'rank computation popped %d times for %d functions (bound n*n = %d)' % (pops, n, n * n)
    if queries > n * n:
        return 'augmenter made %d path queries for %d functions' % (queries, n)
    return None


def mon_pair(a_ops, b_ops, eq, eqk):
    ra, rb_ = RefBuilder(), RefBuilder()
    ra.run(parse_ops(a_ops))
    rb_.run(parse_ops(b_ops))
    if ra.panicked or rb_.panicked:
        return None
    if eq == 'X':
        return 'build panicked on a pair case'
    same = (ra.nodes == rb_.nodes and ra.edges == rb_.edges)
    if same and eq != '1':
        return 'equal builder states built unequal graphs'
    if not same and eq != '0':
        return 'different builder states (function / endpoint / kind changed) built graphs comparing equal'
    if same and eqk != '1':
        return 'equal builder states gave different ranks'
    return None
