"""Independent monitors for the runtime properties (C01-C10, C15, C20).

They look only at what the implementation printed for a case (trace, per-event lines, outcome,
built edges `G`) and at the declared accesses / user edges recomputed by ref_builder from the
case's call sequence. Nothing here comes from the Coq model.
"""
import ref_builder as rb


def kvs(tokens):
    d = {}
    for t in tokens:
        if '=' in t:
            k, v = t.split('=', 1)
            d[k] = v
    return d


class Run:
    """One call-API or stream run inside a case."""
    def __init__(self, kind, cfg_tokens, events, obs, prefix, case):
        self.kind = kind            # 'call' | 'stream'
        self.cfg = kvs(cfg_tokens)
        events = [t for t in events if not t.startswith('*')]      # '*<k>': unobserved repetitions beforehand
        self.events = events
        self.prefix = prefix
        self.case = case
        if len(events) == 1 and events[0][0] in 'tr' and events[0][1:].isdigit() and (prefix + 'EV') in obs:
            # stream consumed inside a tokio runtime: the harness wrote what happened as events
            ev_s = obs[prefix + 'EV'].strip()
            self.events = events = [] if ev_s in ('-', '') else ev_s.split()
        self.ev = []                # per event: tokens of the e<k> line
        k = 0
        while (prefix + 'e%d' % k) in obs:
            self.ev.append(obs[prefix + 'e%d' % k].split())
            k += 1
        t = obs.get(prefix + 'T', '-')
        self.trace = [] if t.strip() in ('-', '') else t.split()
        # `!`: a user future (config token sig=<i>) sent the interrupt signal at this point of the trace
        self.sig_at = self.trace.index('!') if '!' in self.trace else None
        self.trace = [x for x in self.trace if x != '!']
        self.O = obs.get(prefix + 'O')
        self.Z = obs.get(prefix + 'Z')

    # trace helpers
    def starts(self):
        return [int(x[1:]) for x in self.trace if x[0] == 's']

    def ends(self):
        return [int(x[1:-1]) for x in self.trace if x[0] == 'e']

    def failed(self):
        return [int(x[1:-1]) for x in self.trace if x[0] == 'e' and x[-1] == 'e']

    def pos(self):
        ps, pe = {}, {}
        for i, x in enumerate(self.trace):
            if x[0] == 's':
                ps.setdefault(int(x[1:]), i)
            else:
                pe.setdefault(int(x[1:-1]), i)
        return ps, pe

    def imm(self):
        v = self.cfg.get('imm', '-')
        return {} if v in ('-', '') else {int(e.split(':')[0]): e.split(':')[1] for e in v.split(',')}

    def returned(self):
        return bool(self.ev) and self.ev[-1][-1] == 'R' if self.kind == 'call' else False

    def outcome(self):
        """-> dict(state, processed, not_processed, errs, kind) or None"""
        if not self.O or self.O.strip() == '-':
            return None
        parts = [p.strip() for p in self.O.split('|')]
        head = parts[0].split()
        state = head[0]
        lst = lambda s: [] if s.strip() in ('-', '') else [int(x) for x in s.split()]
        return dict(state=state, processed=lst(' '.join(head[1:])), not_processed=lst(parts[1]),
                    errs=lst(parts[2]), kind=parts[3])


class RCase:
    def __init__(self, cid, kind, family, parts, line, obs):
        self.cid, self.kind, self.family, self.parts, self.line, self.obs = cid, kind, family, parts, line, obs
        self.ref = rb.RefBuilder()
        self.ref.run(rb.parse_ops(parts[0]))
        self.n = len(self.ref.nodes)
        self.G = rb.parse_edges(obs.get('G', '-'))
        self.runs = []
        if kind == 'X':
            self.runs.append(Run('call', parts[1].split(), parts[2].split(), obs, '', self))
        elif kind == 'S':
            self.runs.append(Run('stream', parts[1].split(), parts[2].split(), obs, '', self))
        elif kind == 'H':
            for j, r in enumerate(parts[1:]):
                c, e = r.split(';')
                ct = c.split()
                self.runs.append(Run(ct[0], ct[1:], e.split(), obs, 'r%d.' % j, self))
        elif kind == 'Y':
            evs = parts[3].split()
            for side, cfg_s in (('A', parts[1]), ('B', parts[2])):
                seg, gen = [], 1
                for t in [t[2:] for t in evs if t.startswith(side + ':')] + ['!']:
                    if t == '!':     # the side's run is finished, a fresh run follows (prefix A2. / B2. ...)
                        self.runs.append(Run('call', cfg_s.split(), seg, obs, '%s%s.' % (side, '' if gen == 1 else gen), self))
                        seg, gen = [], gen + 1
                    else:
                        seg.append(t)
        elif kind == 'W':
            evs = parts[3].split()
            self.runs.append(Run('stream', parts[1].split(), [t[2:] for t in evs if t.startswith('A:')], obs, 'A.', self))
            self.runs.append(Run('call', parts[2].split(), [t[2:] for t in evs if t.startswith('B:')], obs, 'B.', self))
        elif kind == 'Z':
            evs = parts[3].split()
            self.runs.append(Run('stream', parts[1].split(), [t[2:] for t in evs if t.startswith('A:')], obs, 'A.', self))
            self.runs.append(Run('stream', parts[2].split(), [t[2:] for t in evs if t.startswith('B:')], obs, 'B.', self))
        self._ucl = None
        self._gcl = None

    def user_closure(self):
        if self._ucl is None:
            self._ucl = rb.closure(self.n, [tuple(e) for e in self.ref.edges])
        return self._ucl

    def g_closure(self):
        if self._gcl is None:
            self._gcl = rb.closure(self.n, self.G)
        return self._gcl

    def preds(self, run):
        """direct predecessors in the structure walked by this run (built graph, maybe reversed)"""
        rev = run.cfg.get('ord', 'f') == 'r'
        p = {}
        for (a, b, _k) in self.G:
            if rev:
                p.setdefault(a, []).append(b)
            else:
                p.setdefault(b, []).append(a)
        return p


def each_run(f):
    def g(c):
        for r in c.runs:
            w = f(c, r)
            if w:
                return (r.prefix + ' ' if r.prefix else '') + w
        return None
    return g


@each_run
def mon_c01(c, r):
    if r.kind == 'call' and r.cfg.get('api') in ('fold', 'tryfold'):
        return None
    ps, pe = r.pos()
    ids = list(ps)
    for x in ids:
        for y in ids:
            if x < y and rb.conflict(c.ref.nodes[x], c.ref.nodes[y]):
                # overlap unless one ended before the other started
                ex, ey = pe.get(x), pe.get(y)
                ok = (ex is not None and ex < ps[y]) or (ey is not None and ey < ps[x])
                if not ok:
                    return 'conflicting functions %d and %d in flight together (trace %s)' % (x, y, ' '.join(r.trace))
    return None


@each_run
def mon_c02(c, r):
    ps, pe = r.pos()
    ucl = c.user_closure()
    rev = r.cfg.get('ord', 'f') == 'r'
    for i in ps:
        for j in range(c.n):
            if j == i:
                continue
            dep = (i in ucl[j]) if not rev else (j in ucl[i])   # forward: j ~> i ; reverse: i ~> j
            if dep:
                if j not in pe or pe[j] > ps[i]:
                    return 'function %d handed out before %d returned (%s order, trace %s)' % (
                        i, j, 'reverse' if rev else 'forward', ' '.join(r.trace))
    return None


def clean(r):
    if r.case.family.startswith('share') and r.prefix != 'r0.':
        return False      # the run starts on an InterruptibilityState that was already interrupted
    if r.kind == 'call':
        return (r.cfg.get('strat', 'non') in ('non', 'ign')
                or ('i' not in [e.lstrip('+') for e in r.events] and r.cfg.get('sig') is None)) and not r.failed()
    return r.cfg.get('int', '0') == '0' or 'i' not in r.events


@each_run
def mon_c03(c, r):
    st = r.starts()
    if len(set(st)) != len(st):
        return 'a function was handed out twice: %s' % st
    if r.kind == 'call' and r.returned() and clean(r) and 'a' not in r.events:
        if sorted(st) != list(range(c.n)):
            return 'clean run returned having run %s of %d functions' % (sorted(st), c.n)
    if r.kind == 'stream':
        nones = [k for k, e in enumerate(r.ev) if e and e[0] == 'N']
        if nones and clean(r) and 'x' not in r.events:
            # at the first None every function must have been yielded
            k0 = nones[0]
            yielded = [e[0] for e in r.ev[:k0] if e and e[0][0] in 'YI' and e[0] not in ('I-',)]
            if len(yielded) != c.n:
                return 'stream ended after yielding %d of %d functions' % (len(yielded), c.n)
    return None


def _c04_run(c, r):
    if r.kind != 'call':
        return None
    imm = r.imm()
    started, ended = set(), set()
    for k, e in enumerate(r.ev):
        if not e:
            continue
        status = e[-1]
        tok = r.events[k] if k < len(r.events) else ''
        nosettle = tok.startswith('+')
        t = tok.lstrip('+')
        if t.startswith('c') and len(t) >= 3:
            i = int(t[1:-1])
            if i in started:
                ended.add(i)
        if e[0] != '-':
            for x in e[0].split('.'):
                started.add(int(x))
                if int(x) in imm:
                    ended.add(int(x))
        if status == 'X':
            return 'a poll panicked at event %d (%s)' % (k, tok)
        if status == 'A':
            return None
        if status == 'P' and not nosettle and not (started - ended):
            return 'call is pending with no wake-up outstanding and nothing in flight after event %d (%s): it can never return' % (k, tok)
        if status == 'R' and (started - ended):
            return 'call returned while functions %s were still in flight' % sorted(started - ended)
    return None


mon_c04 = each_run(_c04_run)


@each_run
def mon_c05(c, r):
    if r.kind != 'stream':
        return None
    if r.Z and r.Z.strip() != 'ok':
        return 'dropping FnRefs / the stream panicked'
    preds = c.preds(r)
    yielded, dropped = [], set()
    alive = True
    signalled = False
    seen_none = False
    parked = False
    for k, e in enumerate(r.ev):
        tok = r.events[k]
        if tok == 'x':
            alive = False
        elif tok == 'i':
            signalled = True
        elif tok[0] in 'du' and tok[1:].isdigit():
            i = int(tok[1:])
            if i in yielded:
                dropped.add(i)
            if alive and parked and not signalled and e and e[-1] == 'W0':
                for v in range(c.n):
                    if v not in yielded and all(p in dropped for p in preds.get(v, ())):
                        return ('dropping the FnRef of %d made function %d releasable while the consumer was parked (last poll Pending), '
                                'but no wake-up of the waker of that poll was signalled' % (i, v))
        elif tok == 'n' and alive and e:
            res = e[0]
            parked = (res == 'P')
            if res == 'X':
                return 'poll_next panicked at event %d' % k
            if seen_none and res != 'N' and not signalled:
                return 'stream yielded %s after None' % res
            if res[0] in 'YI' and res != 'I-':
                yielded.append(int(res[1:]))
            elif res == 'N':
                seen_none = True
                if not signalled and len(yielded) != c.n:
                    return 'stream ended (None) after %d of %d functions' % (len(yielded), c.n)
            elif res == 'P':
                if not signalled and len(yielded) == c.n:
                    return 'all functions yielded but the stream returned Pending instead of None'
                if e[-1] == 'W0' and not signalled:
                    for v in range(c.n):
                        if v not in yielded and all(p in dropped for p in preds.get(v, ())):
                            return ('poll %d returned Pending with no wake-up signalled although function %d is releasable '
                                    '(all its predecessors were yielded and dropped)' % (k, v))
    return None


@each_run
def mon_c06(c, r):
    """idle (settled pending) => every function whose built-graph predecessors ended is started.
    Only without limit / interrupt / failure."""
    if r.kind != 'call':
        return None     # streams: C05's monitor covers the stall
    if r.cfg.get('api') in ('fold', 'tryfold') or r.cfg.get('lim', '0') != '0' or not clean(r):
        return None
    if any(e.lstrip('+') == 'i' for e in r.events) or r.cfg.get('sig') is not None:
        return None
    preds = c.preds(r)
    imm = r.imm()
    started, ended = set(), set()
    for k, e in enumerate(r.ev):
        tok = r.events[k]
        t = tok.lstrip('+')
        if t.startswith('c') and len(t) >= 3 and int(t[1:-1]) in started:
            ended.add(int(t[1:-1]))
        if e and e[0] != '-':
            for x in e[0].split('.'):
                started.add(int(x))
                if int(x) in imm:
                    ended.add(int(x))
        if not e or e[-1] != 'P' or tok.startswith('+'):
            continue
        for v in range(c.n):
            if v not in started and all(p in ended for p in preds.get(v, ())):
                return 'idle after event %d but function %d (all predecessors returned) was not started' % (k, v)
    return None


def mon_c06_edges(c):
    user = sorted(tuple(e) for e in c.ref.edges)
    kept = sorted(x for x in c.G if x[2] != 'D')
    if kept != user:       # the order of the edge list is not part of the property
        return 'user edges changed in the built graph'
    for (a, b, k) in c.G:
        if k == 'D' and not rb.conflict(c.ref.nodes[a], c.ref.nodes[b]):
            return 'built graph has an extra edge %d-%d%s not joining conflicting functions' % (a, b, k)
    return None


@each_run
def mon_c07(c, r):
    if r.kind != 'call' or r.cfg.get('api') not in ('tryforeach', 'tryfold'):
        return None
    o = r.outcome()
    failed = r.failed()
    ps, pe = r.pos()
    gcl = c.g_closure()
    rev = r.cfg.get('ord', 'f') == 'r'
    for f in failed:
        for s_ in ps:
            after = (s_ in gcl[f]) if not rev else (f in gcl[s_])
            if s_ != f and after:
                return 'function %d was started although it is ordered after the failed function %d' % (s_, f)
    if failed and not r.returned() and 'a' not in [e.lstrip('+') for e in r.events] and r.ev and r.ev[-1][-1] == 'P':
        ps2, pe2 = r.pos()
        if all(x in pe2 for x in ps2) and not r.events[-1].startswith('+'):
            return ('functions %s failed and every started function completed, but the call never returned its errors '
                    '(pending, no wake-up outstanding)' % failed)
    if not r.returned() or o is None:
        return None
    if r.cfg['api'] == 'tryforeach':
        if sorted(o['errs']) != sorted(failed):
            return 'errors reported %s, functions that failed %s' % (o['errs'], failed)
        if failed and o['kind'] not in ('err', 'break'):
            return 'functions failed but the call returned %s' % o['kind']
        if not failed and o['kind'] == 'err':
            return 'no function failed but the call returned Err'
    else:
        if failed:
            if o['kind'] != 'folderr:%d' % failed[0]:
                return 'try_fold returned %s, first failure was %d' % (o['kind'], failed[0])
            last_start = max(ps.values())
            if last_start > pe[failed[0]]:
                return 'try_fold invoked a function after the first error'
        elif o['kind'].startswith('folderr'):
            return 'try_fold returned an error nobody produced'
    return None


def int_bound(strat, incl):
    if strat == 'fin':
        return 1 if incl else 0
    if strat.startswith('pn:'):
        n = int(strat[3:])
        return (1 if incl else 0) if n == 0 else n
    return None


SELF_SIGNAL_KEY = 'signal-sent-inside-a-poll'


@each_run
def mon_c08(c, r):
    evs = [e.lstrip('+') for e in r.events]
    if r.kind == 'call' and r.sig_at is not None:
        # the signal was sent by a user future while the call was being polled: everything after the
        # mark started after the signal had been sent
        strat = r.cfg.get('strat', 'non')
        b = int_bound(strat, r.cfg.get('incl', '1') == '1')
        after = [int(x[1:]) for x in r.trace[r.sig_at:] if x[0] == 's']
        if b is not None and len(after) > b:
            return ('%s: %d functions (%s) started after the interrupt signal was sent by the user future of function %s '
                    'during a poll of the call (strategy %s, include=%s, bound %d)'
                    % (SELF_SIGNAL_KEY, len(after), ' '.join(map(str, after)), r.cfg.get('sig'), strat, r.cfg.get('incl', '1') == '1', b))
    if r.kind == 'call' and r.case.family.startswith('share') and r.prefix not in ('', 'r0.') \
            and r.cfg.get('strat') in ('fin', 'pn:0') and r.starts():
        # the InterruptibilityState the call runs on was interrupted during the first call of the history
        return ('functions %s started by a call on an InterruptibilityState that had already been interrupted (strategy %s)'
                % (r.starts(), r.cfg.get('strat')))
    if r.kind == 'call' and r.case.family.startswith('share') and r.prefix not in ('', 'r0.') \
            and r.cfg.get('strat', '').startswith('pn:') and int(r.cfg['strat'][3:]) >= 1 \
            and len(r.starts()) > int(r.cfg['strat'][3:]):
        return ('%d functions started by a call on an InterruptibilityState whose signal was received by an earlier call (strategy %s: at most %s)'
                % (len(r.starts()), r.cfg['strat'], r.cfg['strat'][3:]))
    if r.kind == 'call' and ('i' in evs or r.sig_at is not None):
        # "functions already started are always completed ... and the call returns"
        stuck = _c04_run(c, r)
        if stuck:
            return 'after an interrupt signal: ' + stuck
    if 'i' not in evs:
        return None
    k0 = evs.index('i')
    if r.kind == 'call':
        strat = r.cfg.get('strat', 'non')
        incl = r.cfg.get('incl', '1') == '1'
        b = int_bound(strat, incl)
        after = []
        for k in range(k0, len(r.ev)):
            if r.ev[k] and r.ev[k][0] != '-':
                after += r.ev[k][0].split('.')
        polled_before = any(not r.events[k].startswith('+') or evs[k] == 'p' for k in range(k0)) and k0 > 0
        if b is not None:
            if not polled_before and strat == 'fin':
                b = 0
            if not polled_before and strat.startswith('pn:'):
                b = int(strat[3:]) if int(strat[3:]) > 0 else 0
            if len(after) > b:
                return '%d functions started after the interrupt signal (strategy %s, include=%s, bound %d)' % (len(after), strat, incl, b)
        o = r.outcome()
        if r.returned() and o and not o['kind'].startswith('folderr'):
            if o['processed'] != r.starts():
                return 'processed %s differs from the functions started %s after an interruption' % (o['processed'], r.starts())
    else:
        if r.cfg.get('int', '0') != '1':
            return None
        strat = r.cfg.get('strat', 'non')
        b = int_bound(strat, True)
        if b is None:
            return None
        n_before = any(evs[k] == 'n' for k in range(k0))
        if not n_before and strat == 'fin':
            b = 0
        if not n_before and strat.startswith('pn:'):
            b = int(strat[3:])
        cnt = 0
        interrupted_seen = False
        for k in range(k0, len(r.ev)):
            if evs[k] != 'n' or not r.ev[k]:
                continue
            res = r.ev[k][0]
            if interrupted_seen and res not in ('N', 'P'):
                return 'stream yielded %s after the Interrupted item' % res
            if res[0] in 'YI' and res != 'I-':
                cnt += 1
            if res[0] == 'I':
                interrupted_seen = True
        if cnt > b:
            return '%d items yielded after the interrupt signal (strategy %s, bound %d)' % (cnt, strat, b)
    return None


@each_run
def mon_c09(c, r):
    if r.kind != 'call' or not r.returned():
        return None
    o = r.outcome()
    if o is None:
        return 'call returned without an outcome line'
    if o['kind'].startswith('folderr'):
        return None
    st = r.starts()
    if o['processed'] != st:
        return 'fn_ids_processed %s, functions handed out (in start order) %s' % (o['processed'], st)
    want_np = [i for i in range(c.n) if i not in st]
    if o['not_processed'] != want_np:
        return 'fn_ids_not_processed %s, expected %s' % (o['not_processed'], want_np)
    fin = len(st) == c.n
    if o['state'] != ('F' if fin else 'I'):     # never NotStarted for a call that returned
        return 'state %s although %d of %d functions were processed' % (o['state'], len(st), c.n)
    if r.cfg.get('ctl', '0') == '1':
        want = 'cont' if (fin and not r.failed()) else 'break'
        if o['kind'] != want:
            return 'control variant returned %s, expected %s' % (o['kind'], want)
    return None


@each_run
def mon_c10(c, r):
    if r.kind != 'call':
        return None
    api = r.cfg.get('api')
    lim = 1 if api in ('fold', 'tryfold') else int(r.cfg.get('lim', '0'))
    if lim == 0:
        return None
    cur = mx = 0
    for x in r.trace:
        if x[0] == 's':
            cur += 1
            mx = max(mx, cur)
        else:
            cur -= 1
    if mx > lim:
        return '%d user futures in flight with limit %d' % (mx, lim)
    w = _c04_run(c, r)      # "any limit >= 1 still lets every graph run to completion"
    if w and 'never return' in w:
        return 'with limit %d: %s' % (lim, w)
    return None


SINGLE = [mon_c01, mon_c02, mon_c03, mon_c04, mon_c05, mon_c07, mon_c08, mon_c09, mon_c10]


def mon_all_single(c):
    for m in SINGLE:
        w = m(c)
        if w:
            return w
    return None


def mon_c02_edges(c):
    """every accepted logic/contains edge is an edge of the graph the runs walked (obs G)"""
    if 'G' not in c.obs:
        return None
    have = set((a, b) for (a, b, _k) in c.G)
    for e in c.ref.edges:
        if (e[0], e[1]) not in have:
            return 'the built graph lacks the accepted %s edge %d -> %d' % ('logic' if e[2] == 'L' else 'contains', e[0], e[1])
    return None


def mon_c02_full(c):
    return mon_c02_edges(c) or mon_c02(c)


def _same_as_fresh(c, p, f, what):
    a = {t[len(p):]: v for t, v in c.obs.items() if t.startswith(p)}
    b = {t[len(f):]: v for t, v in c.obs.items() if t.startswith(f)}
    if not b:
        return None
    for t in sorted(set(a) | set(b), key=lambda x: (len(x), x)):
        if a.get(t) != b.get(t):
            return '%s differs from the same run on a freshly built graph at %s: %r, fresh: %r' % (what, t, a.get(t), b.get(t))
    return None


def mon_c15(c):
    if c.family.startswith('share'):
        return None      # runs share one InterruptibilityState on purpose: no fresh-graph oracle
    """A later run on the reused graph value = the same run on a fresh graph (harness oracle runs f<j>.)"""
    for j in range(0, len(c.runs)):
        w = _same_as_fresh(c, 'r%d.' % j, 'f%d.' % j, 'run %d on the reused graph' % j)
        if w:
            return w
    return None


def mon_c20(c):
    """Each of two interleaved runs = the same run alone on its own graph (harness oracle runs fA./fB.)"""
    import re as _re
    pres = sorted(set(m.group(1) for m in (_re.match(r'^([AB][0-9]*\.)T$', t) for t in c.obs) if m))
    for p in pres or ['A.', 'B.']:
        w = _same_as_fresh(c, p, 'f' + p, 'run %s interleaved with the other runs' % p[:-1])
        if w:
            return w
    return None


def mon_c06_stream(c):
    """stream half of C06: an idle stream (Pending, no wake-up) with a releasable function = the C05 stall test"""
    w = mon_c05(c)
    return w if (w and 'releasable' in w) else None


def mon_c06_full(c):
    return mon_c06(c) or mon_c06_stream(c) or mon_c06_edges(c)
