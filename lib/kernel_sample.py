"""Ties the extracted OCaml model back to the kernel: a deterministic sample of every bundle's cases is
translated to Coq terms and the observations the extracted model printed for them are re-proved inside
Coq by `vm_compute` (one `Example` per case, compiled with coqc against the same .vo files).
A disagreement means extraction or the OCaml driver (parsing / printing) misrepresents the model."""
import os, re

MAXNUM = 999


def _nat_list(xs):
    return '[' + '; '.join(str(x) for x in xs) + ']'


def _ints(s, sep):
    return [int(x) for x in s.split(sep) if x not in ('', '-')]


def ops_term(ops_s):
    out = []
    for tok in ops_s.split():
        if tok == '-':
            continue
        p = tok.split(':')
        if p[0] == 'F':
            out.append('AddFn (mkFn %d %s %s)' % (int(p[1]), _nat_list(_ints(p[2], '.')), _nat_list(_ints(p[3], '.'))))
        elif p[0] in ('L', 'C'):
            out.append('%s %d %d' % ('AddLogic' if p[0] == 'L' else 'AddContains', int(p[1]), int(p[2])))
        elif p[0] in ('LB', 'CB'):
            pairs = [q.split('-') for q in p[1].split(',') if q]
            out.append('%s [%s]' % ('AddLogicBatch' if p[0] == 'LB' else 'AddContainsBatch',
                                    '; '.join('(%d, %d)' % (int(a), int(b)) for a, b in pairs)))
        else:
            raise ValueError(tok)
    return '[' + '; '.join(out) + ']'


def edges_term(s):
    out = []
    for tok in s.split():
        if tok == '-':
            continue
        a, rest = tok.split('-')
        k = {'L': 'Logic', 'C': 'Contains', 'D': 'Data'}[rest[-1]]
        out.append('(%d, %d, %s)' % (int(a), int(rest[:-1]), k))
    return '[' + '; '.join(out) + ']'


def yaml_term(text):
    """the model's GY observation (one line, newline written '|') -> a Coq term of type list Yaml.yline"""
    fixed = {'graph:': 'YGraph', '  nodes:': 'YNodes false', '  nodes: []': 'YNodes true', '  node_holes: []': 'YHoles',
             '  edge_property: directed': 'YProp', '  edges:': 'YEdges false', '  edges: []': 'YEdges true',
             '    - Logic': 'YKind Logic', '    - Contains': 'YKind Contains', '    - Data': 'YKind Data'}
    out = []
    lines = text.split('|')
    assert lines[-1] == ''
    for ln in lines[:-1]:
        if ln in fixed:
            out.append(fixed[ln])
            continue
        m = re.match(r'^(  - - |    - |  - )(\d+)$', ln)
        if not m:
            raise ValueError(ln)
        out.append('%s %d' % ({'  - - ': 'YSrc', '    - ': 'YDst', '  - ': 'YNode'}[m.group(1)], int(m.group(2))))
    return '[' + '; '.join(out) + ']'


def kv(tokens, key, default):
    for t in tokens:
        if t.startswith(key + '='):
            return t[len(key) + 1:]
    return default


def strat_term(s):
    if s.startswith('pn:'):
        return '(SPollN %d)' % int(s[3:])
    return {'non': 'SNonInt', 'ign': 'SIgnore', 'fin': 'SFinish'}[s]


def cfg_term(tokens):
    api = {'fold': 'AFold', 'tryfold': 'ATryFold', 'foreach': 'AForEach', 'tryforeach': 'ATryForEach'}[kv(tokens, 'api', 'foreach')]
    b = lambda k, d='0': 'true' if kv(tokens, k, d) == '1' else 'false'
    imm_s = kv(tokens, 'imm', '-')
    imm = [] if imm_s in ('-', '') else [e.split(':') for e in imm_s.split(',')]
    imm_t = '[' + '; '.join('(%d, %s)' % (int(i), 'true' if r == 'o' else 'false') for i, r in imm) + ']'
    return 'mk_cfg G %s %s %s %s %d %s %s %s true' % (
        'true' if kv(tokens, 'ord', 'f') == 'r' else 'false', api, b('mut'), b('ctl'),
        int(kv(tokens, 'lim', '0')), strat_term(kv(tokens, 'strat', 'non')), b('incl', '1'), imm_t)


def events_term(evs):
    """mirrors coq/driver/runtime_driver.ml call_event"""
    out = []
    for tok in evs:
        nosettle = tok.startswith('+')
        t = tok[1:] if nosettle else tok
        if t == 'a':
            break
        if t == 's':
            pass
        elif t == 'i':
            out.append('EInt')
        elif t == 'p':
            out.append('EPoll')
        elif t[0] == 'c' and len(t) >= 3:
            out.append('ECmp %d %s' % (int(t[1:-1]), 'true' if t[-1] == 'o' else 'false'))
        else:
            raise ValueError(tok)
        if not nosettle:
            out.append('ESettle')
    return '[' + '; '.join(out) + ']'


def trace_term(s):
    out = []
    for tok in s.split():
        if tok == '-':
            continue
        if tok[0] == 's':
            out.append('Start %d' % int(tok[1:]))
        else:
            out.append('End %d %s' % (int(tok[1:-1]), 'true' if tok[-1] == 'o' else 'false'))
    return '[' + '; '.join(out) + ']'


def outcome_term(s):
    s = s.strip()
    if s == '-':
        return 'None'
    parts = [x.strip() for x in s.split('|')]
    head = parts[0].split()
    kind = parts[3]
    if kind.startswith('folderr:'):
        return 'Some (mkOut (KFoldErr %d) false [] [] [])' % int(kind.split(':')[1])
    k = {'ok': 'KOk', 'err': 'KErr', 'cont': 'KContinue', 'break': 'KBreak'}[kind]
    fin = 'true' if head[0] == 'F' else 'false'
    return 'Some (mkOut %s %s %s %s %s)' % (k, fin, _nat_list(_ints(' '.join(head[1:]), ' ')),
                                            _nat_list(_ints(parts[1], ' ')), _nat_list(_ints(parts[2], ' ')))


def scfg_term(tokens):
    return 'mk_scfg G %s %s %s true' % ('true' if kv(tokens, 'ord', 'f') == 'r' else 'false',
                                        strat_term(kv(tokens, 'strat', 'non')),
                                        'true' if kv(tokens, 'int', '0') == '1' else 'false')


def sevents_term(evs):
    """mirrors coq/driver/runtime_driver.ml stream_event"""
    out = []
    for t in evs:
        if t == 'n':
            out.append('SNext')
        elif t == 'i':
            out.append('SInt')
        elif t == 'x':
            out.append('SDropStream')
        elif t[0] in 'du' and t[1:].isdigit():
            out.append('SDrop %d' % int(t[1:]))
        else:
            raise ValueError(t)
    return '[' + '; '.join(out) + ']'


def spolls_term(evs, o):
    """the poll results the extracted model printed for the `n` events, as witem terms"""
    out = []
    for k, t in enumerate(evs):
        if t != 'n':
            continue
        v = o['e%d' % k].split()[0]
        if v == 'P':
            out.append('WPending')
        elif v == 'N':
            out.append('WNone')
        elif v[0] == 'Y':
            out.append('WItem %d' % int(v[1:]))
        elif v == 'I-':
            out.append('WInt None')
        elif v[0] == 'I':
            out.append('WInt (Some %d)' % int(v[1:]))
        else:
            raise ValueError(v)
    return '[' + '; '.join(out) + ']'


S_PRELUDE = '''Definition spolls (sc : scfg) (evs : list sevent) : list witem * list tev :=
  let '(s, rs) := fold_left (fun (a : state * list witem) e =>
                    let '(s', r) := sstep sc (fst a) e in
                    (s', match e with SNext => snd a ++ [r] | _ => snd a end)) evs (sinit sc, []) in
  (rs, trace s).'''


def _small(line):
    return all(int(x) <= MAXNUM for x in re.findall(r'\d+', line.split('|', 1)[1] if '|' in line else line))


def generate(cases, mobs, order, kind, want=40):
    """-> (coq source, ids)"""
    cand, scand = [], []
    for cid in order:
        c = cases[cid]
        o = mobs.get(cid, {})
        if not _small(c['line']) or 'GX' in o or ' sig=' in c['line'] or ' bops=' in c['line'] or ' yld=' in c['line']:
            continue
        if kind == 'builder' and c['kind'] == 'B' and o.get('B') == 'ok' and not c['family'].startswith(('timed', 'wide', 'layered', 'bigconf')):
            if len(c['parts'][0].split()) <= 30:
                cand.append(cid)
        elif kind == 'runtime' and c['kind'] == 'X' and 'T' in o and 'O' in o and len(c['parts'][2].split()) <= 40 \
                and len(c['parts'][0].split()) <= 30:
            if not any(v.endswith(' X') for t, v in o.items() if re.match(r'^e\d+$', t)):
                cand.append(cid)
        elif kind == 'runtime' and c['kind'] == 'S' and 'T' in o and o.get('Z') == 'ok' \
                and len(c['parts'][2].split()) <= 40 and len(c['parts'][0].split()) <= 30 \
                and all(re.match(r'^(n|i|x|[du]\d+)$', t) for t in c['parts'][2].split()):
            scand.append(cid)
    if not cand and not scand:
        return None, []
    step = max(1, len(cand) // want)
    ids = cand[::step][:want]
    if scand:
        sw = max(1, want // 2)
        ids = ids + scand[::max(1, len(scand) // sw)][:sw]
    src = ['(* generated by lib/kernel_sample.py: observations printed by the extracted model, re-proved in the kernel *)',
           'From FG Require Import Dag Builder Sched Yaml.', 'Import ListNotations.']
    if kind == 'runtime':
        src.append(S_PRELUDE)
    for cid in ids:
        c, o = cases[cid], mobs[cid]
        if c['kind'] == 'S':
            evs = c['parts'][2].split()
            src.append('Example s_%s : match build (builder_run %s) with BOk G _ _ => spolls (%s) %s = (%s, %s) | _ => False end.\nProof. vm_compute. reflexivity. Qed.'
                       % (cid, ops_term(c['parts'][0]), scfg_term(c['parts'][1].split()), sevents_term(evs),
                          spolls_term(evs, o), trace_term(o['T'])))
        elif kind == 'builder':
            if 'GY' in o and len(o['GY']) < 4000:
                src.append('Example y_%s : match build (builder_run %s) with BOk G _ _ => option_map gi_yaml (gi_from_graph G fid) = Some %s | _ => False end.\nProof. vm_compute. reflexivity. Qed.'
                           % (cid, ops_term(c['parts'][0]), yaml_term(o['GY'])))
            src.append('Example b_%s : match build (builder_run %s) with BOk G _ _ => (fg_edges G, fg_ranks G) = (%s, %s) | _ => False end.\nProof. vm_compute. reflexivity. Qed.'
                       % (cid, ops_term(c['parts'][0]), edges_term(o.get('E', '-')), _nat_list(_ints(o.get('K', '-'), ' '))))
        else:
            src.append('Example x_%s : match build (builder_run %s) with BOk G _ _ => let s := run (%s) %s in (trace s, result s) = (%s, %s) | _ => False end.\nProof. vm_compute. reflexivity. Qed.'
                       % (cid, ops_term(c['parts'][0]), cfg_term(c['parts'][1].split()), events_term(c['parts'][2].split()),
                          trace_term(o['T']), outcome_term(o['O'])))
    return '\n'.join(src) + '\n', ids
