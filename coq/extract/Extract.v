(** Extraction of the executable model to OCaml. Only [ExtrOcamlBasic] is used
    (bool, option, unit, list, prod, sumbool, sumor mapped to OCaml's; [nat] stays Peano). *)
From Coq Require Extraction.
From Coq Require Import ExtrOcamlBasic.
From FG Require Import Dag Builder Sched Opts SelfSignal Yaml.
Extraction "model.ml"
  run_ops build fngraph_eq iter_order iter_rev_order map_order iter_insertion_order try_visit
  gi_from_graph gi_iter gi_iter_rev gi_ser gi_de gi_eqb gi_yaml gi_parse fid empty_dag
  mk_cfg init step poll settle run starts sinit sstep mk_scfg is_none with_edges init_carry opts_build mk_cfg_opts mk_scfg_opts step_sig.
