(** * IntCredit.v — C08: once an interrupt signal is present the wrapper delivers boundedly many items

    A potential ("credit") argument on the wrapper state: every poll of the wrapped stream keeps
    [delivered + pcredit] from growing, so the number of items delivered (ids recorded in
    [processed]) after the signal became present is bounded by the credit at that moment. *)
From FG Require Import Dag Builder Sched SchedInv SI_Queuer SI_Wrapper.
From RecordUpdate Require Import RecordSet.
Import RecordSetNotations.

Definition signal_present (s : state) : Prop := ipend s >= 1 \/ w_recv (w s) = true.

(** ids that may still be recorded in [processed] once a signal is present *)
Definition pcredit (st : strat) (incl : bool) (w : wrap) : nat :=
  if w_ian w then 0 else
  match st with
  | SNonInt | SIgnore => 0
  | SFinish | SPollN 0 => if incl && w_hp w then 1 else 0
  | SPollN (S k') =>
      if negb (w_recv w) then S k'
      else if w_sig w then (if incl && w_hp w then 1 else 0)
      else (if w_hp w then 1 else 0) + (k' - w_cnt w)
  end.

(** consistency of wrapper states at poll boundaries *)
Definition wrap_ok (st : strat) (w : wrap) : Prop :=
  (w_ipc w = true -> w_hp w = true /\ w_recv w = true) /\
  (w_sig w = true -> w_recv w = true) /\
  (w_recv w = false -> w_cnt w = 0) /\
  (w_ian w = true -> w_sig w = true /\ w_hp w = false) /\
  match st with
  | SNonInt => w_recv w = false
  | SIgnore => w_sig w = false
  | SFinish => w_recv w = true -> w_sig w = true
  | SPollN k => w_recv w = true -> w_sig w = (k <=? w_cnt w)
  end.

Lemma wrap_ok_init st : wrap_ok st wrap0.
Proof.
  unfold wrap_ok, wrap0. simpl. repeat split; try discriminate; destruct st; try reflexivity; discriminate.
Qed.

Definition delivered (r : witem) : nat := match r with WItem _ | WInt (Some _) => 1 | _ => 0 end.

(** what [tracked_poll] records for a result of the wrapper *)
Definition recorded (incl : bool) (r : witem) : nat :=
  match r with WItem _ => 1 | WInt (Some _) => if incl then 1 else 0 | _ => 0 end.

(** ** The wrapper as a pure function of its state, [ipend] and the inner stream's answer *)

Definition wnot (w : wrap) : wrap := w <| w_ian := true |> <| w_hp := false |> <| w_ipc := false |>.
Definition wres (w : wrap) : wrap := w <| w_hp := false |> <| w_ipc := false |>.

Definition wpost (st : strat) (w : wrap) (ip : nat) (ri : rres) : wrap * nat * witem :=
  if w_ian w then (w, ip, WNone) else
  let '(w1, ip1) := interrupt_check st w ip in
  if w_hp w1 then
    match ri with
    | RPending => (w1, ip1, WPending)
    | RSome x => if w_sig w1 then (wnot w1, ip1, WInt (Some x)) else (wres w1, ip1, WItem x)
    | RNone => if w_sig w1 then (wnot w1, ip1, WInt None) else (wres w1, ip1, WNone)
    end
  else if w_sig w1 then (wnot w1, ip1, WInt None)
  else
    match ri with
    | RPending => (w1 <| w_hp := true |>, ip1, WPending)
    | RSome x => (wres w1, ip1, WItem x)
    | RNone => (wres w1, ip1, WNone)
    end.

(** ** Sanity checks (computed) *)

(** Run the pure wrapper over a list of inner answers, an interrupt being sent before poll [at];
    returns the number of items delivered after the signal was sent, and the credit at that time. *)
Fixpoint wrun (st : strat) (incl : bool) (w : wrap) (ip : nat) (at_ : nat) (rs : list rres)
         (sent : bool) (cred : nat) (dl : nat) : nat * nat :=
  match rs with
  | [] => (dl, cred)
  | ri :: rs' =>
    let now := (at_ =? 0) && negb sent in
    let ip := if now then S ip else ip in
    let cred := if now then pcredit st incl w else cred in
    let sent' := sent || now in
    let '(w', ip', r) := wpost st w ip ri in
    wrun st incl w' ip' (pred at_) rs' sent' cred (if sent' then dl + recorded incl r else dl)
  end.

Definition items (n : nat) : list rres := map RSome (seq 0 n).

(* PollNextN 1, signal before the first poll: exactly one more item *)
Example ex_poll1_start : wrun (SPollN 1) true wrap0 0 0 (items 5) false 0 0 = (1, 1).
Proof. vm_compute. reflexivity. Qed.
(* PollNextN 2, signal while an item is pending *)
Example ex_poll2_pending : wrun (SPollN 2) true wrap0 0 1 (RPending :: RPending :: items 5) false 0 0 = (2, 2).
Proof. vm_compute. reflexivity. Qed.
(* PollNextN 3 with pendings in between *)
Example ex_poll3_mixed :
  wrun (SPollN 3) false wrap0 0 2 (RSome 0 :: RPending :: RSome 1 :: RPending :: RPending :: RSome 2 :: RPending :: RSome 3 :: items 5) false 0 0 = (3, 3).
Proof. vm_compute. reflexivity. Qed.
(* PollNextN 0 = FinishCurrent *)
Example ex_poll0_pending : wrun (SPollN 0) true wrap0 0 1 (RPending :: RPending :: items 5) false 0 0 = (1, 1).
Proof. vm_compute. reflexivity. Qed.
Example ex_poll0_start : wrun (SPollN 0) true wrap0 0 1 (RSome 7 :: items 5) false 0 0 = (0, 0).
Proof. vm_compute. reflexivity. Qed.
Example ex_finish_pending : wrun SFinish true wrap0 0 1 (RPending :: RPending :: items 5) false 0 0 = (1, 1).
Proof. vm_compute. reflexivity. Qed.
Example ex_finish_pending_noincl : wrun SFinish false wrap0 0 1 (RPending :: RPending :: items 5) false 0 0 = (0, 0).
Proof. vm_compute. reflexivity. Qed.
Example ex_finish_start : wrun SFinish true wrap0 0 2 (items 5) false 0 0 = (0, 0).
Proof. vm_compute. reflexivity. Qed.

(** Exhaustive check of the credit inequality on small wrapper states. *)
Definition wrap_okb (st : strat) (w : wrap) : bool :=
  (implb (w_ipc w) (w_hp w && w_recv w)) &&
  (implb (w_sig w) (w_recv w)) &&
  (implb (negb (w_recv w)) (w_cnt w =? 0)) &&
  (implb (w_ian w) (w_sig w && negb (w_hp w))) &&
  match st with
  | SNonInt => negb (w_recv w)
  | SIgnore => negb (w_sig w)
  | SFinish => implb (w_recv w) (w_sig w)
  | SPollN k => implb (w_recv w) (Bool.eqb (w_sig w) (k <=? w_cnt w))
  end.

Definition bools := [true; false].
Definition all_wraps (maxc : nat) : list wrap :=
  flat_map (fun a => flat_map (fun b => flat_map (fun c => flat_map (fun d => flat_map (fun e =>
    map (fun n => mkWrap a b c d e n) (seq 0 (S maxc))) bools) bools) bools) bools) bools.

Definition check_one (st : strat) (incl : bool) (w : wrap) (ip : nat) (ri : rres) : bool :=
  if wrap_okb st w && ((1 <=? ip) || w_recv w) then
    let '(w', ip', r) := wpost st w ip ri in
    wrap_okb st w' && ((1 <=? ip') || w_recv w') &&
    (recorded incl r + pcredit st incl w' <=? pcredit st incl w)
  else true.

Definition check_all : bool :=
  forallb (fun st => forallb (fun incl => forallb (fun w => forallb (fun ip => forallb (fun ri =>
    check_one st incl w ip ri) [RPending; RNone; RSome 0]) [0; 1; 2]) (all_wraps 4)) bools)
    [SFinish; SPollN 0; SPollN 1; SPollN 2; SPollN 3].

Example ex_check_all : check_all = true.
Proof. vm_compute. reflexivity. Qed.

(** ** The pure wrapper: invariant and credit *)

Ltac leb_cases :=
  repeat match goal with
         | |- context [?a <=? ?b] => destruct (Nat.leb_spec a b)
         | H : context [?a <=? ?b] |- _ => destruct (Nat.leb_spec a b)
         end.

Ltac spec_refl :=
  repeat match goal with
         | H : ?x = ?x -> _ |- _ => specialize (H eq_refl)
         | H : true = false -> _ |- _ => clear H
         | H : false = true -> _ |- _ => clear H
         | H : _ /\ _ |- _ => destruct H
         end.

Ltac wfin := cbn -[Nat.leb Nat.sub] in *; spec_refl; try discriminate; try lia; repeat split; intros; try discriminate; try congruence; try lia.

Lemma wpost_ok st w0 ip ri w' ip' r :
  wrap_ok st w0 -> wpost st w0 ip ri = (w', ip', r) -> wrap_ok st w'.
Proof.
  unfold wrap_ok, wpost, interrupt_check, wnot, wres.
  destruct w0 as [ian hp sig ipc recv cnt].
  intros H E.
  destruct ian, hp, sig, ipc, recv; cbn -[Nat.leb Nat.sub] in H; spec_refl; try discriminate;
    destruct st as [| | |k]; cbn -[Nat.leb Nat.sub] in E; spec_refl; try discriminate;
    try (destruct ip as [|ip0]); cbn -[Nat.leb Nat.sub] in E;
    leb_cases; cbn -[Nat.leb Nat.sub] in E;
    try (destruct ri as [| |x]); inversion E; subst; clear E;
    cbn -[Nat.leb Nat.sub]; leb_cases; wfin.
Qed.

Lemma wpost_credit st incl w0 ip ri w' ip' r :
  st <> SNonInt -> st <> SIgnore ->
  wrap_ok st w0 -> (ip >= 1 \/ w_recv w0 = true) -> wpost st w0 ip ri = (w', ip', r) ->
  (ip' >= 1 \/ w_recv w' = true) /\
  recorded incl r + pcredit st incl w' <= pcredit st incl w0.
Proof.
  unfold wrap_ok, wpost, interrupt_check, wnot, wres, pcredit, recorded.
  destruct w0 as [ian hp sig ipc recv cnt].
  intros N1 N2 H S E.
  destruct st as [| | |k]; [congruence | congruence | |]; clear N1 N2.
  - destruct ian, hp, sig, ipc, recv; cbn -[Nat.leb Nat.sub] in H, S; spec_refl; try discriminate;
      cbn -[Nat.leb Nat.sub] in E;
      try (destruct ip as [|ip0]); cbn -[Nat.leb Nat.sub] in E;
      try (destruct ri as [| |x]); inversion E; subst; clear E;
      destruct incl; cbn -[Nat.leb Nat.sub];
      (split; [first [right; reflexivity | left; lia | destruct S; [lia | discriminate]] | lia]).
  - destruct ian, hp, sig, ipc, recv; cbn -[Nat.leb Nat.sub] in H, S; spec_refl; try discriminate;
      cbn -[Nat.leb Nat.sub] in E;
      try (destruct ip as [|ip0]); cbn -[Nat.leb Nat.sub] in E;
      leb_cases; cbn -[Nat.leb Nat.sub] in E;
      try (destruct ri as [| |x]); inversion E; subst; clear E;
      destruct incl; destruct k as [|k']; cbn -[Nat.leb Nat.sub] in *; try lia;
      (split; [first [right; reflexivity | left; lia | destruct S; [lia | discriminate]] | try lia]).
Qed.

Lemma wpost_transparent st w0 ip ri w' ip' r :
  (st = SNonInt \/ st = SIgnore) -> w_ian w0 = false -> w_sig w0 = false ->
  wpost st w0 ip ri = (w', ip', r) ->
  w_ian w' = false /\ w_sig w' = false /\ (forall o, r <> WInt o).
Proof.
  unfold wpost, interrupt_check, wnot, wres.
  destruct w0 as [ian hp sig ipc recv cnt]. intros Hst Hi Hs E. cbn in Hi, Hs. subst ian sig.
  destruct Hst as [-> | ->]; destruct hp, ipc, recv; cbn in E;
    try (destruct ip as [|ip0]); cbn in E;
    try (destruct ri as [| |x]); inversion E; subst; clear E; cbn;
    (split; [reflexivity | split; [reflexivity | intros o; discriminate]]).
Qed.

(** ** The generic wrapper is the pure wrapper *)

Lemma wrapper_gen_shape st inner s s' r :
  (forall t t' x, inner t = (t', x) -> w t' = w t /\ ipend t' = ipend t) ->
  wrapper_poll_gen st inner s = (s', r) ->
  exists ri, wpost st (w s) (ipend s) ri = (w s', ipend s', r).
Proof.
  intros Hin E. unfold wrapper_poll_gen in E. unfold wpost.
  destruct (w_ian (w s)).
  { inversion E; subst. exists RPending. reflexivity. }
  destruct (interrupt_check st (w s) (ipend s)) as [w1 ip1].
  destruct (w_hp w1).
  - destruct (inner (s <| w := w1 |> <| ipend := ip1 |>)) as [s1 r1] eqn:Hi.
    apply Hin in Hi. cbn in Hi. destruct Hi as [Hw Hp]. exists r1.
    destruct r1 as [| |x]; [| |]; try destruct (w_sig w1); inversion E; subst; clear E;
      unfold w_notify, w_reset, wnot, wres; cbn; rewrite ?Hw, ?Hp; reflexivity.
  - destruct (w_sig w1).
    + inversion E; subst; clear E. exists RPending.
      unfold w_notify, wnot; cbn. reflexivity.
    + destruct (inner (s <| w := w1 |> <| ipend := ip1 |>)) as [s1 r1] eqn:Hi.
      apply Hin in Hi. cbn in Hi. destruct Hi as [Hw Hp]. exists r1.
      destruct r1 as [| |x]; inversion E; subst; clear E;
        unfold w_reset, wres; cbn; rewrite ?Hw, ?Hp; reflexivity.
Qed.

Lemma inner_poll_frame t t' x :
  inner_poll t = (t', x) -> w t' = w t /\ ipend t' = ipend t.
Proof.
  unfold inner_poll. destruct (poll_recv (ready t)) as [c r0].
  destruct r0; intros E; inversion E; subst; clear E; cbn; split; reflexivity.
Qed.

Lemma inner_poll_processed t t' x : inner_poll t = (t', x) -> processed t' = processed t.
Proof.
  unfold inner_poll. destruct (poll_recv (ready t)) as [c r0].
  destruct r0; intros E; inversion E; subst; clear E; reflexivity.
Qed.

Lemma wrapper_poll_is_gen cf s : wrapper_poll cf s = wrapper_poll_gen (c_strat cf) inner_poll s.
Proof. reflexivity. Qed.

Lemma wrapper_poll_processed cf s s' r : wrapper_poll cf s = (s', r) -> processed s' = processed s.
Proof.
  unfold wrapper_poll.
  destruct (w_ian (w s)); [intros E; inversion E; reflexivity|].
  destruct (interrupt_check (c_strat cf) (w s) (ipend s)) as [w1 ip1].
  destruct (w_hp w1).
  - destruct (inner_poll (s <| w := w1 |> <| ipend := ip1 |>)) as [s1 r1] eqn:Hi.
    apply inner_poll_processed in Hi. cbn in Hi.
    destruct r1 as [| |x]; [| |]; try destruct (w_sig w1); intros E; inversion E; subst; clear E;
      unfold w_notify, w_reset; cbn; exact Hi.
  - destruct (w_sig w1).
    + intros E; inversion E; subst; clear E. reflexivity.
    + destruct (inner_poll (s <| w := w1 |> <| ipend := ip1 |>)) as [s1 r1] eqn:Hi.
      apply inner_poll_processed in Hi. cbn in Hi.
      destruct r1 as [| |x]; intros E; inversion E; subst; clear E;
        unfold w_reset; cbn; exact Hi.
Qed.

(** The tracked poll in terms of the wrapper poll: the wrapper state and [ipend] are those of the
    wrapper poll, and [processed] grows by what is [recorded]. *)
Lemma tracked_poll_shape cf s s' r :
  tracked_poll cf s = (s', r) ->
  exists s1 r1, wrapper_poll cf s = (s1, r1) /\ w s' = w s1 /\ ipend s' = ipend s1 /\
                length (processed s') = length (processed s) + recorded (c_incl cf) r1 /\
                ((forall o, r1 <> WInt o) -> forall o, r <> WInt o).
Proof.
  unfold tracked_poll. destruct (wrapper_poll cf s) as [s1 r1] eqn:Hwp.
  pose proof (wrapper_poll_processed _ _ _ _ Hwp) as Hpr.
  intros E. exists s1, r1. split; [reflexivity|].
  destruct r1 as [| |x|[x|]]; cbn.
  - inversion E; subst. rewrite Hpr. repeat split; try lia. intros _ o; discriminate.
  - inversion E; subst. rewrite Hpr. repeat split; try lia. intros _ o; discriminate.
  - inversion E; subst. cbn. rewrite app_length, Hpr. cbn. repeat split; try lia. intros _ o; discriminate.
  - destruct (c_incl cf); inversion E; subst; cbn.
    + rewrite app_length, Hpr. cbn. repeat split; try lia. intros Hn. exfalso. apply (Hn (Some x)). reflexivity.
    + rewrite Hpr. repeat split; try lia. intros Hn. exfalso. apply (Hn (Some x)). reflexivity.
  - inversion E; subst. rewrite Hpr. repeat split; try lia. intros Hn. exfalso. apply (Hn None). reflexivity.
Qed.

(** ** The statements *)

Lemma tracked_poll_credit cf s s' r :
  c_strat cf <> SNonInt -> c_strat cf <> SIgnore ->
  wrap_ok (c_strat cf) (w s) -> signal_present s -> tracked_poll cf s = (s', r) ->
  wrap_ok (c_strat cf) (w s') /\ signal_present s' /\
  length (processed s') + pcredit (c_strat cf) (c_incl cf) (w s') <= length (processed s) + pcredit (c_strat cf) (c_incl cf) (w s).
Proof.
  intros N1 N2 Hok Hsig Htp.
  destruct (tracked_poll_shape _ _ _ _ Htp) as (s1 & r1 & Hwp & Hw & Hp & Hlen & _).
  rewrite wrapper_poll_is_gen in Hwp.
  destruct (wrapper_gen_shape _ _ _ _ _ inner_poll_frame Hwp) as [ri Hpost].
  pose proof (wpost_ok _ _ _ _ _ _ _ Hok Hpost) as Hok'.
  destruct (wpost_credit _ (c_incl cf) _ _ _ _ _ _ N1 N2 Hok Hsig Hpost) as [Hs' Hc].
  unfold signal_present. rewrite Hw, Hp, Hlen. split; [exact Hok'|]. split; [exact Hs'|]. lia.
Qed.

Lemma tracked_poll_wrap_ok cf s s' r :
  wrap_ok (c_strat cf) (w s) -> tracked_poll cf s = (s', r) -> wrap_ok (c_strat cf) (w s').
Proof.
  intros Hok Htp.
  destruct (tracked_poll_shape _ _ _ _ Htp) as (s1 & r1 & Hwp & Hw & _).
  rewrite wrapper_poll_is_gen in Hwp.
  destruct (wrapper_gen_shape _ _ _ _ _ inner_poll_frame Hwp) as [ri Hpost].
  rewrite Hw. exact (wpost_ok _ _ _ _ _ _ _ Hok Hpost).
Qed.

Lemma wrapper_gen_wrap_ok st inner s s' r :
  (forall t t' x, inner t = (t', x) -> w t' = w t /\ ipend t' = ipend t) ->
  wrap_ok st (w s) -> wrapper_poll_gen st inner s = (s', r) -> wrap_ok st (w s').
Proof.
  intros Hin Hok Hwp.
  destruct (wrapper_gen_shape _ _ _ _ _ Hin Hwp) as [ri Hpost].
  exact (wpost_ok _ _ _ _ _ _ _ Hok Hpost).
Qed.

Lemma recorded_true r : recorded true r = delivered r.
Proof. destruct r as [| |x|[x|]]; reflexivity. Qed.

Lemma wrapper_gen_credit st inner s s' r :
  st <> SNonInt -> st <> SIgnore ->
  (forall t t' x, inner t = (t', x) -> w t' = w t /\ ipend t' = ipend t) ->
  wrap_ok st (w s) -> signal_present s -> wrapper_poll_gen st inner s = (s', r) ->
  wrap_ok st (w s') /\ signal_present s' /\
  delivered r + pcredit st true (w s') <= pcredit st true (w s).
Proof.
  intros N1 N2 Hin Hok Hsig Hwp.
  destruct (wrapper_gen_shape _ _ _ _ _ Hin Hwp) as [ri Hpost].
  pose proof (wpost_ok _ _ _ _ _ _ _ Hok Hpost) as Hok'.
  destruct (wpost_credit _ true _ _ _ _ _ _ N1 N2 Hok Hsig Hpost) as [Hs' Hc].
  rewrite recorded_true in Hc. split; [exact Hok'|]. split; [exact Hs' | exact Hc].
Qed.

Lemma wrapper_transparent cf s s' r :
  (c_strat cf = SNonInt \/ c_strat cf = SIgnore) -> w_ian (w s) = false -> w_sig (w s) = false ->
  tracked_poll cf s = (s', r) ->
  w_ian (w s') = false /\ w_sig (w s') = false /\ (forall o, r <> WInt o).
Proof.
  intros Hst Hian Hsg Htp.
  destruct (tracked_poll_shape _ _ _ _ Htp) as (s1 & r1 & Hwp & Hw & _ & _ & Hr).
  rewrite wrapper_poll_is_gen in Hwp.
  destruct (wrapper_gen_shape _ _ _ _ _ inner_poll_frame Hwp) as [ri Hpost].
  destruct (wpost_transparent _ _ _ _ _ _ _ Hst Hian Hsg Hpost) as (A & B & C).
  rewrite Hw. split; [exact A|]. split; [exact B | exact (Hr C)].
Qed.

(** The same for the generic wrapper. *)
Lemma wrapper_gen_transparent st inner s s' r :
  (st = SNonInt \/ st = SIgnore) ->
  (forall t t' x, inner t = (t', x) -> w t' = w t /\ ipend t' = ipend t) ->
  w_ian (w s) = false -> w_sig (w s) = false -> wrapper_poll_gen st inner s = (s', r) ->
  w_ian (w s') = false /\ w_sig (w s') = false /\ (forall o, r <> WInt o).
Proof.
  intros Hst Hin Hian Hsg Hwp.
  destruct (wrapper_gen_shape _ _ _ _ _ Hin Hwp) as [ri Hpost].
  exact (wpost_transparent _ _ _ _ _ _ _ Hst Hian Hsg Hpost).
Qed.

(** The bounds of C08 at the moment the signal becomes present. *)
Lemma pcredit_bound st incl w0 :
  pcredit st incl w0 <=
  match st with
  | SNonInt | SIgnore => 0
  | SFinish | SPollN 0 => if incl && w_hp w0 then 1 else 0
  | SPollN (S k') => S k'
  end.
Proof.
  unfold pcredit. destruct (w_ian w0); [lia|].
  destruct st as [| | |[|k']]; try lia.
  destruct (w_recv w0), (w_sig w0), incl, (w_hp w0); cbn; lia.
Qed.

Print Assumptions wrap_ok_init.
Print Assumptions tracked_poll_credit.
Print Assumptions tracked_poll_wrap_ok.
Print Assumptions wrapper_gen_credit.
Print Assumptions wrapper_transparent.
