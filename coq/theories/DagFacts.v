(** * DagFacts.v — facts about the graph layer: reachability, acyclicity, heights, add/update edge *)

From FG Require Import Dag.

(** ** Basic vocabulary *)

Definition Edge (es : list edge) (a b : nat) : Prop := exists k, In (a, b, k) es.

Inductive Path (es : list edge) : nat -> nat -> Prop :=
| Path_refl a : Path es a a
| Path_step a b c : Edge es a b -> Path es b c -> Path es a c.

Definition wf_edges (n : nat) (es : list edge) : Prop :=
  forall e, In e es -> esrc e < n /\ edst e < n.

(** No edge closes a cycle (equivalently: no non-empty path from a node to itself). *)
Definition acyclic (es : list edge) : Prop :=
  forall a b, Edge es a b -> ~ Path es b a.

(** At most one edge per ordered pair. *)
Definition pairs (es : list edge) : list (nat * nat) := map fst es.
Definition uniq_pairs (es : list edge) : Prop := NoDup (pairs es).

Lemma mem_spec x l : mem x l = true <-> In x l.
Proof.
  unfold mem. rewrite existsb_exists. split.
  - intros [y [Hy He]]. apply Nat.eqb_eq in He. subst. exact Hy.
  - intros H. exists x. split; [exact H | apply Nat.eqb_refl].
Qed.

Lemma mem_false x l : mem x l = false <-> ~ In x l.
Proof.
  rewrite <- mem_spec. destruct (mem x l); split; intros H; congruence.
Qed.

Lemma edge_eta (e : edge) : e = (esrc e, edst e, ekind e).
Proof. destruct e as [[a b] k]. reflexivity. Qed.

Lemma children_spec es a b : In b (children es a) <-> Edge es a b.
Proof.
  unfold children, Edge. rewrite <- in_rev, in_map_iff. split.
  - intros [e [Hd He]]. apply filter_In in He. destruct He as [He Hs].
    apply Nat.eqb_eq in Hs. exists (ekind e). rewrite <- Hd, <- Hs, <- edge_eta. exact He.
  - intros [k Hk]. exists (a, b, k). split; [reflexivity|].
    apply filter_In. split; [exact Hk | apply Nat.eqb_refl].
Qed.

Lemma parents_spec es a b : In a (parents es b) <-> Edge es a b.
Proof.
  unfold parents, Edge. rewrite <- in_rev, in_map_iff. split.
  - intros [e [Hd He]]. apply filter_In in He. destruct He as [He Hs].
    apply Nat.eqb_eq in Hs. exists (ekind e). rewrite <- Hd, <- Hs, <- edge_eta. exact He.
  - intros [k Hk]. exists (a, b, k). split; [reflexivity|].
    apply filter_In. split; [exact Hk | apply Nat.eqb_refl].
Qed.

Lemma has_edge_spec es a b : has_edge es a b = true <-> Edge es a b.
Proof.
  unfold has_edge, Edge. rewrite existsb_exists. split.
  - intros [e [He Hc]]. apply andb_true_iff in Hc. destruct Hc as [H1 H2].
    apply Nat.eqb_eq in H1. apply Nat.eqb_eq in H2. exists (ekind e).
    rewrite <- H1, <- H2, <- edge_eta. exact He.
  - intros [k Hk]. exists (a, b, k). split; [exact Hk|].
    unfold esrc, edst. simpl. rewrite !Nat.eqb_refl. reflexivity.
Qed.

Lemma is_nil_false {A} (l : list A) : is_nil l = false <-> exists x, In x l.
Proof.
  destruct l as [|x l]; simpl; split; intros H; try congruence.
  - destruct H as [x []].
  - exists x. left. reflexivity.
Qed.

Lemma Edge_wf n es a b : wf_edges n es -> Edge es a b -> a < n /\ b < n.
Proof. intros Hwf [k Hk]. apply (Hwf _ Hk). Qed.

Lemma Path_trans es a b c : Path es a b -> Path es b c -> Path es a c.
Proof. induction 1 as [|a b d He Hp IH]; intros H; [exact H|]. eapply Path_step; eauto. Qed.

Lemma Path_snoc es a b c : Path es a b -> Edge es b c -> Path es a c.
Proof. intros H He. eapply Path_trans; [exact H|]. eapply Path_step; [exact He | apply Path_refl]. Qed.

Lemma Path_edge es a b : Edge es a b -> Path es a b.
Proof. intros H. eapply Path_step; [exact H | apply Path_refl]. Qed.

Lemma Path_inv_last es a c : Path es a c -> a = c \/ exists b, Path es a b /\ Edge es b c.
Proof.
  induction 1 as [a|a b c He Hp IH]; [left; reflexivity|]. right.
  destruct IH as [->|[d [Hbd Hdc]]].
  - exists a. split; [apply Path_refl | exact He].
  - exists d. split; [eapply Path_step; eauto | exact Hdc].
Qed.

Lemma Path_ext es es' a b :
  (forall x y, Edge es x y -> Edge es' x y) -> Path es a b -> Path es' a b.
Proof. intros H. induction 1 as [|a b c He Hp IH]; [apply Path_refl|]. eapply Path_step; eauto. Qed.

Lemma Path_wf n es a b : wf_edges n es -> a < n -> Path es a b -> b < n.
Proof.
  intros Hwf Ha Hp. induction Hp as [|a b c He Hp IH]; [exact Ha|].
  apply IH. apply (Edge_wf _ _ _ _ Hwf He).
Qed.

Lemma acyclic_irrefl es a : acyclic es -> ~ Edge es a a.
Proof. intros Hac He. apply (Hac _ _ He). apply Path_refl. Qed.

(** ** [add_new] *)

Lemma add_new_In xs seen acc x :
  In x (add_new xs seen acc) <-> In x acc \/ (In x xs /\ ~ In x seen).
Proof.
  revert acc. induction xs as [|y xs IH]; intros acc; simpl.
  - rewrite <- in_rev. tauto.
  - destruct (mem y seen) eqn:Hs; simpl.
    + rewrite IH. apply mem_spec in Hs. split.
      * intros [H|[H1 H2]]; [left; exact H | right; tauto].
      * intros [H|[[H1|H1] H2]]; [left; exact H | subst; tauto | right; tauto].
    + apply mem_false in Hs. destruct (mem y acc) eqn:Ha.
      * rewrite IH. apply mem_spec in Ha. split.
        -- intros [H|[H1 H2]]; [left; exact H | right; tauto].
        -- intros [H|[[H1|H1] H2]]; [left; exact H | subst; left; exact Ha | right; tauto].
      * rewrite IH. simpl. split.
        -- intros [[H|H]|[H1 H2]]; [subst; right; tauto | left; exact H | right; tauto].
        -- intros [H|[[H1|H1] H2]]; [left; right; exact H | subst; left; left; reflexivity | right; tauto].
Qed.

Lemma add_new_NoDup xs seen acc : NoDup acc -> NoDup (add_new xs seen acc).
Proof.
  revert acc. induction xs as [|y xs IH]; intros acc Hnd; simpl.
  - apply NoDup_rev. exact Hnd.
  - destruct (mem y seen); simpl; [apply IH; exact Hnd|].
    destruct (mem y acc) eqn:Ha; [apply IH; exact Hnd|].
    apply IH. constructor; [apply mem_false; exact Ha | exact Hnd].
Qed.

(** ** Reachability: soundness and completeness of [bfs] *)

Lemma bfs_sound es a fuel : forall frontier visited,
  (forall x, In x visited -> Path es a x) ->
  incl frontier visited ->
  forall x, In x (bfs fuel es frontier visited) -> Path es a x.
Proof.
  induction fuel as [|f IH]; intros frontier visited Hv Hf x Hx.
  - destruct frontier; simpl in Hx; apply Hv; exact Hx.
  - destruct frontier as [|y fr]; simpl in Hx; [apply Hv; exact Hx|].
    set (fresh := add_new (flat_map (children es) (y :: fr)) visited []) in *.
    assert (Hfresh : forall z, In z fresh -> Path es a z).
    { intros z Hz. apply add_new_In in Hz. destruct Hz as [[]|[Hz _]].
      apply in_flat_map in Hz. destruct Hz as [w [Hw Hz]].
      apply children_spec in Hz. eapply Path_snoc; [|exact Hz]. apply Hv, Hf, Hw. }
    eapply IH; [| |exact Hx].
    + intros z Hz. apply in_app_or in Hz. destruct Hz as [Hz|Hz]; [apply Hv; exact Hz | apply Hfresh; exact Hz].
    + intros z Hz. apply in_or_app. right. exact Hz.
Qed.

Definition closed_except (es : list edge) (frontier visited : list nat) : Prop :=
  forall x, In x visited -> ~ In x frontier -> forall y, Edge es x y -> In y visited.

Lemma closed_Path es visited :
  closed_except es [] visited -> forall x y, In x visited -> Path es x y -> In y visited.
Proof.
  intros Hc x y Hx Hp. induction Hp as [|a b c He Hp IH]; [exact Hx|].
  apply IH. eapply Hc; [exact Hx | intros [] | exact He].
Qed.

Lemma NoDup_app_intro {A} (a b : list A) :
  NoDup a -> NoDup b -> (forall x, In x a -> ~ In x b) -> NoDup (a ++ b).
Proof.
  induction a as [|x a IH]; intros Ha Hb Hd; simpl; [exact Hb|].
  inversion Ha as [|x' a' Hx Ha']; subst. constructor.
  - intros Hin. apply in_app_or in Hin. destruct Hin as [Hin|Hin]; [exact (Hx Hin)|].
    apply (Hd x); [left; reflexivity | exact Hin].
  - apply IH; [exact Ha' | exact Hb |]. intros y Hy. apply Hd. right. exact Hy.
Qed.

Lemma bfs_complete n es fuel : wf_edges n es -> forall frontier visited,
  NoDup visited -> (forall x, In x visited -> x < n) ->
  incl frontier visited ->
  closed_except es frontier visited ->
  (frontier <> [] -> n < fuel + length visited) ->
  incl visited (bfs fuel es frontier visited) /\
  closed_except es [] (bfs fuel es frontier visited).
Proof.
  intros Hwf. induction fuel as [|f IH]; intros frontier visited Hnd Hlt Hf Hc Hfuel.
  - destruct frontier as [|y fr]; simpl.
    + split; [apply incl_refl | exact Hc].
    + exfalso. assert (Hn : n < 0 + length visited) by (apply Hfuel; discriminate).
      assert (Hle : length visited <= length (seq 0 n)).
      { apply NoDup_incl_length; [exact Hnd|]. intros z Hz. apply in_seq. specialize (Hlt z Hz). lia. }
      rewrite seq_length in Hle. lia.
  - destruct frontier as [|y fr]; [simpl; split; [apply incl_refl | exact Hc]|].
    assert (Hn : n < S f + length visited) by (apply Hfuel; discriminate).
    change (bfs (S f) es (y :: fr) visited) with
      (bfs f es (add_new (flat_map (children es) (y :: fr)) visited [])
           (visited ++ add_new (flat_map (children es) (y :: fr)) visited [])).
    set (fresh := add_new (flat_map (children es) (y :: fr)) visited []).
    assert (HfreshIn : forall z, In z fresh <->
              (exists w, In w (y :: fr) /\ Edge es w z) /\ ~ In z visited).
    { intros z. unfold fresh. rewrite add_new_In, in_flat_map. split.
      - intros [H|[[w [Hw Hz]] Hnz]]; [destruct H|]. split; [|exact Hnz].
        exists w. split; [exact Hw|]. apply children_spec. exact Hz.
      - intros [[w [Hw Hz]] Hnz]. right. split; [|exact Hnz].
        exists w. split; [exact Hw|]. apply children_spec. exact Hz. }
    assert (Hrec : incl (visited ++ fresh) (bfs f es fresh (visited ++ fresh)) /\
                   closed_except es [] (bfs f es fresh (visited ++ fresh))).
    { apply IH.
      - apply NoDup_app_intro; [exact Hnd | apply add_new_NoDup; constructor |].
        intros x Hx Hx'. apply HfreshIn in Hx'. tauto.
      - intros x Hx. apply in_app_or in Hx. destruct Hx as [Hx|Hx]; [apply Hlt; exact Hx|].
        apply HfreshIn in Hx. destruct Hx as [[w [Hw He]] _].
        apply (Edge_wf _ _ _ _ Hwf He).
      - intros x Hx. apply in_or_app. right. exact Hx.
      - intros x Hx Hnf z He. apply in_app_or in Hx. destruct Hx as [Hx|Hx]; [|contradiction].
        destruct (mem z visited) eqn:Hz; [apply mem_spec in Hz; apply in_or_app; left; exact Hz|].
        apply mem_false in Hz.
        destruct (mem x (y :: fr)) eqn:Hxf.
        + apply mem_spec in Hxf. apply in_or_app. right. apply HfreshIn. split; [|exact Hz].
          exists x. split; [exact Hxf | exact He].
        + apply mem_false in Hxf. exfalso. apply Hz. apply (Hc x Hx Hxf z He).
      - intros Hne. rewrite app_length. destruct fresh as [|z fresh']; [congruence|]. simpl. lia. }
    destruct Hrec as [H1 H2]. split; [|exact H2].
    intros x Hx. apply H1. apply in_or_app. left. exact Hx.
Qed.

Theorem reach_spec n es a b :
  wf_edges n es -> a < n -> (reach n es a b = true <-> Path es a b).
Proof.
  intros Hwf Ha. unfold reach, reach_set. rewrite mem_spec. split.
  - apply bfs_sound.
    + intros x [<-|[]]. apply Path_refl.
    + apply incl_refl.
  - intros Hp.
    destruct (bfs_complete n es (S n) Hwf [a] [a]) as [H1 H2].
    + constructor; [intros [] | constructor].
    + intros x [<-|[]]. exact Ha.
    + apply incl_refl.
    + intros x Hx Hnx. exfalso. apply Hnx. exact Hx.
    + intros _. simpl. lia.
    + eapply closed_Path; [exact H2 | apply H1; left; reflexivity | exact Hp].
Qed.

Lemma reach_sound n es a b : reach n es a b = true -> Path es a b.
Proof.
  unfold reach, reach_set. rewrite mem_spec. apply bfs_sound.
  - intros x [<-|[]]. apply Path_refl.
  - apply incl_refl.
Qed.

Lemma reach_false n es a b :
  wf_edges n es -> a < n -> (reach n es a b = false <-> ~ Path es a b).
Proof.
  intros Hwf Ha. rewrite <- (reach_spec n es a b Hwf Ha).
  destruct (reach n es a b); split; congruence.
Qed.

(** ** Heights: number of proper ancestors; strictly increasing along edges of an acyclic graph.
    This is the well-founded measure used wherever a "minimal node" is needed. *)

Definition anc (n : nat) (es : list edge) (v : nat) : list nat :=
  filter (fun u => reach n es u v && negb (u =? v)) (seq 0 n).
Definition height (n : nat) (es : list edge) (v : nat) : nat := length (anc n es v).

Lemma filter_length_le {A} (f g : A -> bool) (l : list A) :
  (forall x, In x l -> f x = true -> g x = true) ->
  length (filter f l) <= length (filter g l).
Proof.
  induction l as [|z l IH]; intros Hfg; simpl; [lia|].
  assert (Hz : f z = true -> g z = true) by (apply Hfg; left; reflexivity).
  assert (IH' : length (filter f l) <= length (filter g l)).
  { apply IH. intros w Hw. apply Hfg. right. exact Hw. }
  destruct (f z) eqn:Ef; destruct (g z) eqn:Eg; simpl;
    first [lia | specialize (Hz eq_refl); discriminate].
Qed.

Lemma filter_length_lt {A} (f g : A -> bool) (l : list A) (y : A) :
  (forall x, In x l -> f x = true -> g x = true) ->
  In y l -> f y = false -> g y = true ->
  length (filter f l) < length (filter g l).
Proof.
  induction l as [|x l IH]; intros Hfg Hy Hfy Hgy; [destruct Hy|].
  assert (Hle : length (filter f l) <= length (filter g l)).
  { apply filter_length_le. intros w Hw. apply Hfg. right. exact Hw. }
  simpl. destruct Hy as [->|Hy].
  - rewrite Hfy, Hgy. simpl. lia.
  - assert (IH' : length (filter f l) < length (filter g l)).
    { apply IH; [|exact Hy|exact Hfy|exact Hgy]. intros w Hw. apply Hfg. right. exact Hw. }
    assert (Hx : f x = true -> g x = true) by (apply Hfg; left; reflexivity).
    destruct (f x) eqn:Ef; destruct (g x) eqn:Eg; simpl;
      first [lia | specialize (Hx eq_refl); discriminate].
Qed.

Lemma height_edge n es a b :
  wf_edges n es -> acyclic es -> Edge es a b -> height n es a < height n es b.
Proof.
  intros Hwf Hac He. unfold height, anc.
  destruct (Edge_wf _ _ _ _ Hwf He) as [Ha Hb].
  apply filter_length_lt with (y := a).
  - intros u Hu Hf. apply in_seq in Hu. apply andb_true_iff in Hf. destruct Hf as [Hr Hne].
    apply (reach_spec n es u a Hwf) in Hr; [|lia].
    apply andb_true_iff. split.
    + apply (reach_spec n es u b Hwf); [lia|]. eapply Path_snoc; eauto.
    + apply negb_true_iff. apply Nat.eqb_neq. intros ->. apply (Hac _ _ He). exact Hr.
  - apply in_seq. lia.
  - rewrite Nat.eqb_refl. simpl. apply andb_false_r.
  - apply andb_true_iff. split.
    + apply (reach_spec n es a b Hwf Ha). apply Path_edge. exact He.
    + apply negb_true_iff. apply Nat.eqb_neq. intros ->. apply (acyclic_irrefl _ _ Hac He).
Qed.

Lemma height_lt_n n es v : v < n -> height n es v < n.
Proof.
  intros Hv. unfold height, anc.
  assert (H : length (filter (fun u => reach n es u v && negb (u =? v)) (seq 0 n))
              < length (filter (fun _ => true) (seq 0 n))).
  { apply filter_length_lt with (y := v).
    - intros. reflexivity.
    - apply in_seq. lia.
    - rewrite Nat.eqb_refl. apply andb_false_r.
    - reflexivity. }
  assert (Hid : forall l : list nat, filter (fun _ => true) l = l).
  { induction l as [|x l IH]; simpl; [reflexivity | rewrite IH; reflexivity]. }
  rewrite Hid, seq_length in H. exact H.
Qed.
