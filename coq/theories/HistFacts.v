(** * HistFacts.v — runs on one graph value: histories (C15) and pairs of simultaneous runs (C20).
    In the model a run only *reads* the built graph ([init] clones the counts), so these theorems
    are short; what ties them to the code is the history / pair correspondence (DESIGN.md 6, C15/C20). *)
From FG Require Import Dag Builder Sched.

Record runp := mkRunp {
  rp_rev : bool; rp_api : api; rp_mut : bool; rp_ctl : bool; rp_lim : nat; rp_strat : strat; rp_incl : bool;
  rp_imm : list (nat * bool)
}.

Definition cfg_of (G : fngraph) (p : runp) : cfg :=
  mk_cfg G (rp_rev p) (rp_api p) (rp_mut p) (rp_ctl p) (rp_lim p) (rp_strat p) (rp_incl p) (rp_imm p) true.

(** A run borrows the graph value and hands it back together with the run's final state. *)
Definition run_on (G : fngraph) (r : runp * list event) : fngraph * state :=
  (G, run (cfg_of G (fst r)) (snd r)).

(** A history: the runs are executed one after the other on the value the previous one returned
    (each run may have completed, been interrupted, failed, or simply stop where its events end –
    the future dropped midway). *)
Fixpoint run_history (G : fngraph) (h : list (runp * list event)) : fngraph * list state :=
  match h with
  | [] => (G, [])
  | r :: h' => let '(G1, s) := run_on G r in
               let '(G2, ss) := run_history G1 h' in (G2, s :: ss)
  end.

Theorem frame : forall G r, fst (run_on G r) = G.
Proof. reflexivity. Qed.

Theorem history_frame : forall h G, fst (run_history G h) = G.
Proof.
  induction h as [|r h IH]; intros G; [reflexivity|]. simpl.
  specialize (IH G). destruct (run_history G h) as [G2 ss]. exact IH.
Qed.

(** After any history, the k-th run behaves exactly like the same run on the fresh graph. *)
Theorem reuse : forall h G, snd (run_history G h) = map (fun r => run (cfg_of G (fst r)) (snd r)) h.
Proof.
  induction h as [|r h IH]; intros G; [reflexivity|]. simpl.
  specialize (IH G). destruct (run_history G h) as [G2 ss]. simpl in *. rewrite IH. reflexivity.
Qed.

(** Two runs on one graph, their events interleaved arbitrarily ([true] = first run). *)
Definition step2 (cfA cfB : cfg) (st : state * state) (e : bool * event) : state * state :=
  if fst e then (step cfA (fst st) (snd e), snd st) else (fst st, step cfB (snd st) (snd e)).

Definition run2 (cfA cfB : cfg) (evs : list (bool * event)) : state * state :=
  fold_left (step2 cfA cfB) evs (init cfA, init cfB).

Definition proj_events (which : bool) (evs : list (bool * event)) : list event :=
  map snd (filter (fun e => Bool.eqb (fst e) which) evs).

Theorem independent : forall cfA cfB evs,
  fst (run2 cfA cfB evs) = run cfA (proj_events true evs) /\
  snd (run2 cfA cfB evs) = run cfB (proj_events false evs).
Proof.
  intros cfA cfB evs. unfold run2, run.
  assert (H : forall sa sb,
            fst (fold_left (step2 cfA cfB) evs (sa, sb)) = fold_left (step cfA) (proj_events true evs) sa /\
            snd (fold_left (step2 cfA cfB) evs (sa, sb)) = fold_left (step cfB) (proj_events false evs) sb).
  { induction evs as [|[b e] evs IH]; intros sa sb; [split; reflexivity|].
    cbn [fold_left]. unfold step2 at 2 4. simpl fst. simpl snd. destruct b; simpl.
    - destruct (IH (step cfA sa e) sb) as [A B]. split; [exact A | exact B].
    - destruct (IH sa (step cfB sb e)) as [A B]. split; [exact A | exact B]. }
  apply H.
Qed.

(** Two streams on one graph (each possibly created late: [sinit] is pure, so creation time is
    irrelevant in the model), their events interleaved arbitrarily ([true] = first stream). *)
Definition sstep2 (scA scB : scfg) (st : state * state) (e : bool * sevent) : state * state :=
  if fst e then (fst (sstep scA (fst st) (snd e)), snd st) else (fst st, fst (sstep scB (snd st) (snd e))).

Definition srun2 (scA scB : scfg) (evs : list (bool * sevent)) : state * state :=
  fold_left (sstep2 scA scB) evs (sinit scA, sinit scB).

Definition proj_sevents (which : bool) (evs : list (bool * sevent)) : list sevent :=
  map snd (filter (fun e => Bool.eqb (fst e) which) evs).

Theorem sindependent : forall scA scB evs,
  fst (srun2 scA scB evs) = srun scA (proj_sevents true evs) /\
  snd (srun2 scA scB evs) = srun scB (proj_sevents false evs).
Proof.
  intros scA scB evs. unfold srun2, srun.
  assert (H : forall sa sb,
            fst (fold_left (sstep2 scA scB) evs (sa, sb)) =
              fold_left (fun s e => fst (sstep scA s e)) (proj_sevents true evs) sa /\
            snd (fold_left (sstep2 scA scB) evs (sa, sb)) =
              fold_left (fun s e => fst (sstep scB s e)) (proj_sevents false evs) sb).
  { induction evs as [|[b e] evs IH]; intros sa sb; [split; reflexivity|].
    cbn [fold_left]. unfold sstep2 at 2 4. simpl fst. simpl snd. destruct b; simpl.
    - destruct (IH (fst (sstep scA sa e)) sb) as [A B]. split; [exact A | exact B].
    - destruct (IH sa (fst (sstep scB sb e))) as [A B]. split; [exact A | exact B]. }
  apply H.
Qed.

(** The general fact behind [independent] and [sindependent]: two machines that share no state,
    driven by an arbitrary interleaving of their events, each compute what they compute alone.
    Instantiated below for a stream next to a call. *)
Section Product.
Variables (SA SB EA EB : Type) (fa : SA -> EA -> SA) (fb : SB -> EB -> SB).

Definition pstep (st : SA * SB) (e : EA + EB) : SA * SB :=
  match e with
  | inl a => (fa (fst st) a, snd st)
  | inr b => (fst st, fb (snd st) b)
  end.

Fixpoint lefts (evs : list (EA + EB)) : list EA :=
  match evs with [] => [] | inl a :: r => a :: lefts r | inr _ :: r => lefts r end.
Fixpoint rights (evs : list (EA + EB)) : list EB :=
  match evs with [] => [] | inl _ :: r => rights r | inr b :: r => b :: rights r end.

Theorem product_independent : forall evs sa sb,
  fst (fold_left pstep evs (sa, sb)) = fold_left fa (lefts evs) sa /\
  snd (fold_left pstep evs (sa, sb)) = fold_left fb (rights evs) sb.
Proof.
  induction evs as [|[a|b] evs IH]; intros sa sb; [split; reflexivity| |]; cbn [fold_left lefts rights pstep fst snd]; apply IH.
Qed.
End Product.

(** A stream and a call on one graph, interleaved arbitrarily. *)
Definition mixrun (sc : scfg) (cf : cfg) (evs : list (sevent + event)) : state * state :=
  fold_left (pstep _ _ _ _ (fun s e => fst (sstep sc s e)) (step cf)) evs (sinit sc, init cf).

Theorem mixed_independent : forall sc cf evs,
  fst (mixrun sc cf evs) = srun sc (lefts _ _ evs) /\
  snd (mixrun sc cf evs) = run cf (rights _ _ evs).
Proof. intros sc cf evs. unfold mixrun, srun, run. apply product_independent. Qed.
