(** * SI_Wrapper.v — the stream side of the scheduler preserves the invariant

    [tracked_poll] (the wrapped, tracked ready stream), [push_member], [drop_ready_rx] and
    [sched_finish]. *)
From FG Require Import Dag Builder Sched DagFacts EdgeFacts RankFacts BuilderFacts TopoFacts SchedInv SI_Queuer.
From RecordUpdate Require Import RecordSet.
Import RecordSetNotations.

(** ** What a poll of the ready stream leaves alone *)

(** Everything the invariant (and the callers of [tracked_poll]) look at, except the buffer of the
    ready channel, [g_received], the wrapper state, [ipend] and [processed]. *)
Definition wframe (s s' : state) : Prop :=
  panic s' = panic s /\ cap (ready s') = cap (ready s) /\ rx_open (ready s') = rx_open (ready s) /\
  done s' = done s /\ g_ready_sent s' = g_ready_sent s /\ g_done_sent s' = g_done_sent s /\
  g_qproc s' = g_qproc s /\ g_finished s' = g_finished s /\ counts s' = counts s /\
  members s' = members s /\ trace s' = trace s /\ completed s' = completed s /\
  s_err s' = s_err s /\ s_rem s' = s_rem s /\ q_rem s' = q_rem s /\ errs s' = errs s /\
  s_alive s' = s_alive s /\ runq s' = runq s /\ s_fin s' = s_fin s.

(** One id left the ready channel / none did. *)
Definition popped (s s' : state) (x : nat) : Prop :=
  buf (ready s) = x :: buf (ready s') /\ g_received s' = g_received s ++ [x].
Definition unpopped (s s' : state) : Prop :=
  buf (ready s') = buf (ready s) /\ g_received s' = g_received s.

Lemma Inv_wframe cf s s' :
  wframe s s' -> Inv cf s ->
  (exists rest, g_ready_sent s' = g_received s' ++ rest /\
                (rx_open (ready s') = true -> rest = buf (ready s'))) ->
  incl (g_received s) (g_received s') ->
  (w_ian (w s) = true -> w_ian (w s') = true) ->
  Inv cf s'.
Proof.
  intros (E1 & E2 & E3 & E4 & E5 & E6 & E7 & E8 & E9 & E10 & E11 & E12 & E13 & E14 & E15 & E16 & E17 & E18 & E19)
         Hinv Hready Hincl Hian.
  assert (Hle : (if w_ian (w s) then 1 else 0) <= (if w_ian (w s') then 1 else 0)).
  { destruct (w_ian (w s)) eqn:Hw; [rewrite (Hian eq_refl); lia | destruct (w_ian (w s')); lia]. }
  destruct Hinv. constructor.
  all: try (rewrite ?E17, ?E1, ?E2, ?E3, ?E4, ?E5, ?E6, ?E7, ?E8, ?E9, ?E10, ?E11, ?E12, ?E13, ?E14, ?E15, ?E16;
            assumption).
  - (* v_ready *) exact Hready.
  - (* v_recv *) intros x Hx. apply Hincl. apply v_recv. rewrite E11, E10 in Hx. exact Hx.
  - (* v_none *) rewrite E10. eapply Nat.le_trans; [exact v_none | exact Hle].
Qed.

Lemma Inv_unpopped cf s s' :
  Inv cf s -> wframe s s' -> unpopped s s' -> (w_ian (w s) = true -> w_ian (w s') = true) ->
  Inv cf s' /\ length (buf (ready s')) = length (buf (ready s)).
Proof.
  intros Hinv F [Hb Hg] Hian. split; [|rewrite Hb; reflexivity].
  pose proof F as (_ & _ & E3 & _ & E5 & _).
  apply (Inv_wframe cf s s' F Hinv); [| |exact Hian].
  - destruct (v_ready _ _ Hinv) as [rest [Hrs Hrest]]. exists rest. rewrite E5, Hg, E3, Hb. split; assumption.
  - rewrite Hg. apply incl_refl.
Qed.

Lemma Inv_popped cf s s' x :
  Inv cf s -> s_alive s = true -> wframe s s' -> popped s s' x ->
  (w_ian (w s) = true -> w_ian (w s') = true) ->
  Inv cf s' /\ In x (g_received s') /\ ~ In x (g_received s) /\
  S (length (buf (ready s'))) = length (buf (ready s)).
Proof.
  intros Hinv Hal F [Hb Hg] Hian.
  assert (Hopen : rx_open (ready s) = true) by (rewrite <- (v_alive _ _ Hinv); exact Hal).
  destruct (v_ready _ _ Hinv) as [rest [Hrs Hrest]]. specialize (Hrest Hopen). subst rest. rewrite Hb in Hrs.
  pose proof F as (_ & _ & _ & _ & E5 & _).
  split; [|split; [|split]].
  - apply (Inv_wframe cf s s' F Hinv); [| |exact Hian].
    + exists (buf (ready s')). split; [|intros _; reflexivity].
      rewrite E5, Hrs, Hg, <- app_assoc. reflexivity.
    + intros y Hy. rewrite Hg. apply in_or_app. left. exact Hy.
  - rewrite Hg. apply in_or_app. right. left. reflexivity.
  - pose proof (v_rs_nodup _ _ Hinv) as Hnd. rewrite Hrs in Hnd. apply NoDup_remove_2 in Hnd.
    intros Hin. apply Hnd. apply in_or_app. left. exact Hin.
  - rewrite Hb. reflexivity.
Qed.

(** ** Structure of the polls *)

Lemma interrupt_check_ian st w0 ip : w_ian (fst (interrupt_check st w0 ip)) = w_ian w0.
Proof.
  unfold interrupt_check. destruct (w_sig w0 || w_ipc w0); [reflexivity|].
  destruct st; try reflexivity; destruct (w_recv w0); try reflexivity; destruct ip; reflexivity.
Qed.

Lemma inner_poll_spec s s' r :
  inner_poll s = (s', r) ->
  wframe s s' /\ w s' = w s /\
  match r with RSome x => popped s s' x | _ => unpopped s s' end.
Proof.
  unfold inner_poll. destruct (poll_recv (ready s)) as [c r0] eqn:Hpr.
  destruct r0 as [| |x]; intros H; inversion H; subst; clear H.
  - destruct (poll_recv_other _ _ _ Hpr ltac:(discriminate)) as [Hb [Hb' [Hcap [Ho Hs]]]].
    unfold wframe, unpopped. simpl. repeat split; congruence.
  - destruct (poll_recv_other _ _ _ Hpr ltac:(discriminate)) as [Hb [Hb' [Hcap [Ho Hs]]]].
    unfold wframe, unpopped. simpl. repeat split; congruence.
  - destruct (poll_recv_some _ _ _ Hpr) as [Hb [Hcap [Ho Hs]]].
    unfold wframe, popped. simpl. repeat split; congruence.
Qed.

Lemma wrapper_poll_spec cf s s' r :
  wrapper_poll cf s = (s', r) ->
  wframe s s' /\
  match r with
  | WItem x => popped s s' x /\ w_ian (w s') = w_ian (w s)
  | WInt (Some x) => popped s s' x /\ w_ian (w s') = true /\ w_ian (w s) = false
  | WInt None => unpopped s s' /\ w_ian (w s') = true /\ w_ian (w s) = false
  | WNone | WPending => unpopped s s' /\ w_ian (w s') = w_ian (w s)
  end.
Proof.
  unfold wrapper_poll. destruct (w_ian (w s)) eqn:Hian.
  - intros H; inversion H; subst. unfold wframe, unpopped. repeat split; congruence.
  - destruct (interrupt_check (c_strat cf) (w s) (ipend s)) as [w1 ip] eqn:Hic.
    assert (Hw1 : w_ian w1 = false).
    { pose proof (interrupt_check_ian (c_strat cf) (w s) (ipend s)) as Hi. rewrite Hic in Hi. simpl in Hi. congruence. }
    assert (Hip : wframe s (fst (inner_poll (s <| w := w1 |> <| ipend := ip |>))) /\
                  w_ian (w (fst (inner_poll (s <| w := w1 |> <| ipend := ip |>)))) = false /\
                  match snd (inner_poll (s <| w := w1 |> <| ipend := ip |>)) with
                  | RSome x => popped s (fst (inner_poll (s <| w := w1 |> <| ipend := ip |>))) x
                  | _ => unpopped s (fst (inner_poll (s <| w := w1 |> <| ipend := ip |>)))
                  end).
    { destruct (inner_poll (s <| w := w1 |> <| ipend := ip |>)) as [s1 r1] eqn:H.
      apply inner_poll_spec in H. destruct H as (F & Hw & Hm).
      unfold wframe, popped, unpopped in *. simpl in *.
      split; [exact F|]. split; [rewrite Hw; exact Hw1|]. exact Hm. }
    revert Hip. destruct (w_hp w1).
    + destruct (inner_poll (s <| w := w1 |> <| ipend := ip |>)) as [s1 r1]. simpl fst. simpl snd.
      intros (F & Hw & Hm).
      destruct F as (E1 & E2 & E3 & E4 & E5 & E6 & E7 & E8 & E9 & E10 & E11 & E12 & E13 & E14 & E15 & E16 & E17 & E18 & E19).
      destruct r1 as [| |x]; [| |]; try destruct (w_sig w1); intros H; inversion H; subst; clear H;
        unfold w_notify, w_reset, wframe, popped, unpopped in *; simpl; repeat split; try congruence; try tauto.
    + destruct (w_sig w1).
      * intros _ H; inversion H; subst; clear H.
        unfold w_notify, wframe, unpopped. simpl. repeat split; congruence.
      * destruct (inner_poll (s <| w := w1 |> <| ipend := ip |>)) as [s1 r1]. simpl fst. simpl snd.
        intros (F & Hw & Hm).
        destruct F as (E1 & E2 & E3 & E4 & E5 & E6 & E7 & E8 & E9 & E10 & E11 & E12 & E13 & E14 & E15 & E16 & E17 & E18 & E19).
        destruct r1 as [| |x]; intros H; inversion H; subst; clear H;
          unfold w_reset, wframe, popped, unpopped in *; simpl; repeat split; try congruence; try tauto.
Qed.

Lemma tracked_poll_spec cf s s' r :
  tracked_poll cf s = (s', r) ->
  wframe s s' /\
  match r with
  | WItem x => popped s s' x /\ w_ian (w s') = w_ian (w s)
  | WInt (Some x) => popped s s' x /\ w_ian (w s') = true /\ w_ian (w s) = false
  | WInt None => ((exists x, popped s s' x) \/ unpopped s s') /\ w_ian (w s') = true /\ w_ian (w s) = false
  | WNone | WPending => unpopped s s' /\ w_ian (w s') = w_ian (w s)
  end.
Proof.
  unfold tracked_poll. destruct (wrapper_poll cf s) as [s1 r1] eqn:Hwp.
  apply wrapper_poll_spec in Hwp. destruct Hwp as (F & Hm).
  destruct r1 as [| |x|[x|]].
  - intros H; inversion H; subst. split; assumption.
  - intros H; inversion H; subst. split; assumption.
  - intros H; inversion H; subst; clear H. destruct Hm as [[Hb Hg] Hi].
    unfold wframe, popped in *. simpl. split; [exact F|]. split; [split; assumption | exact Hi].
  - destruct Hm as [[Hb Hg] [Hi1 Hi2]]. destruct (c_incl cf); intros H; inversion H; subst; clear H.
    + unfold wframe, popped in *. simpl. split; [exact F|]. split; [split; assumption|]. split; assumption.
    + split; [exact F|]. split; [|split; assumption]. left. exists x. split; assumption.
  - intros H; inversion H; subst; clear H. destruct Hm as [U [Hi1 Hi2]].
    split; [exact F|]. split; [right; exact U|]. split; assumption.
Qed.

(** ** (1) One poll of the tracked ready stream *)

Lemma inv_tracked_poll cf s s' r :
  Inv cf s -> s_alive s = true -> tracked_poll cf s = (s', r) ->
  Inv cf s' /\ members s' = members s /\ trace s' = trace s /\ runq s' = runq s /\ s_alive s' = s_alive s /\
  completed s' = completed s /\ s_fin s' = s_fin s /\ panic s' = panic s /\ s_err s' = s_err s /\
  length (buf (ready s')) <= length (buf (ready s)) /\
  match r with
  | WItem x => In x (g_received s') /\ ~ In x (g_received s) /\ S (length (buf (ready s'))) = length (buf (ready s)) /\ w_ian (w s') = w_ian (w s)
  | WInt (Some x) => In x (g_received s') /\ ~ In x (g_received s) /\ S (length (buf (ready s'))) = length (buf (ready s)) /\ w_ian (w s') = true /\ w_ian (w s) = false
  | WInt None => w_ian (w s') = true /\ w_ian (w s) = false
  | WNone | WPending => w_ian (w s') = w_ian (w s)
  end.
Proof.
  intros Hinv Hal Htp. apply tracked_poll_spec in Htp. destruct Htp as [F Hm].
  pose proof F as (E1 & E2 & E3 & E4 & E5 & E6 & E7 & E8 & E9 & E10 & E11 & E12 & E13 & E14 & E15 & E16 & E17 & E18 & E19).
  cut (Inv cf s' /\ length (buf (ready s')) <= length (buf (ready s)) /\
       match r with
       | WItem x => In x (g_received s') /\ ~ In x (g_received s) /\ S (length (buf (ready s'))) = length (buf (ready s)) /\ w_ian (w s') = w_ian (w s)
       | WInt (Some x) => In x (g_received s') /\ ~ In x (g_received s) /\ S (length (buf (ready s'))) = length (buf (ready s)) /\ w_ian (w s') = true /\ w_ian (w s) = false
       | WInt None => w_ian (w s') = true /\ w_ian (w s) = false
       | WNone | WPending => w_ian (w s') = w_ian (w s)
       end).
  { intros (A & B & C). split; [exact A|]. split; [exact E10|]. split; [exact E11|]. split; [exact E18|].
    split; [exact E17|]. split; [exact E12|]. split; [exact E19|]. split; [exact E1|]. split; [exact E13|]. split; [exact B | exact C]. }
  destruct r as [| |x|[x|]].
  - destruct Hm as [U Hi].
    destruct (Inv_unpopped cf s s' Hinv F U) as [A B]; [intros Ht; rewrite Hi; exact Ht|].
    split; [exact A|]. split; [lia | exact Hi].
  - destruct Hm as [U Hi].
    destruct (Inv_unpopped cf s s' Hinv F U) as [A B]; [intros Ht; rewrite Hi; exact Ht|].
    split; [exact A|]. split; [lia | exact Hi].
  - destruct Hm as [P Hi].
    destruct (Inv_popped cf s s' x Hinv Hal F P) as (A & B & C & D); [intros Ht; rewrite Hi; exact Ht|].
    split; [exact A|]. split; [lia|]. repeat (split; [assumption|]). exact Hi.
  - destruct Hm as [P [Hi1 Hi2]].
    destruct (Inv_popped cf s s' x Hinv Hal F P) as (A & B & C & D); [intros _; exact Hi1|].
    split; [exact A|]. split; [lia|]. repeat (split; [assumption|]). exact Hi2.
  - destruct Hm as [[[x P]|U] [Hi1 Hi2]].
    + destruct (Inv_popped cf s s' x Hinv Hal F P) as (A & B & C & D); [intros _; exact Hi1|].
      split; [exact A|]. split; [lia|]. split; assumption.
    + destruct (Inv_unpopped cf s s' Hinv F U) as [A B]; [intros _; exact Hi1|].
      split; [exact A|]. split; [lia|]. split; assumption.
Qed.

(** ** (2), (3) A new block enters the set *)

Lemma inv_push_some cf s x it :
  Inv cf s -> In x (g_received s) -> ~ In x (starts (trace s)) -> ~ In x (new_ids (members s)) ->
  limit_ok cf s = true -> s_err s = None ->
  Inv cf (push_member s (mkMem x (Some x) it MNew)).
Proof.
  intros Hinv Hrecv Hns Hnn Hlim Herr.
  assert (Hnw : ~ In x (wait_ids (members s))).
  { intros Hin. apply Hns. apply (v_started _ _ Hinv). right. exact Hin. }
  set (m := mkMem x (Some x) it MNew).
  assert (Hw : wait_ids (members s ++ [m]) = wait_ids (members s)).
  { rewrite wait_ids_app. simpl. apply app_nil_r. }
  assert (Hn : new_ids (members s ++ [m]) = new_ids (members s) ++ [x]).
  { rewrite new_ids_app. reflexivity. }
  assert (Hf : filter (fun m0 => is_none (m_id m0)) (members s ++ [m]) = filter (fun m0 => is_none (m_id m0)) (members s)).
  { rewrite filter_app. simpl. apply app_nil_r. }
  unfold push_member. destruct Hinv. constructor; simpl; rewrite ?Hw, ?Hn, ?Hf.
  all: try assumption.
  - (* v_keys *) intros m0 Hm0. apply in_app_or in Hm0. destruct Hm0 as [Hm0|[<-|[]]]; [apply v_keys; exact Hm0 | reflexivity].
  - (* v_mem_nodup *) rewrite app_assoc. apply NoDup_app_intro; [assumption | constructor; [intros [] | constructor] |].
    intros y Hy [<-|[]]. apply in_app_or in Hy. destruct Hy as [Hy|Hy]; contradiction.
  - (* v_new_fresh *) intros y Hy. apply in_app_or in Hy. destruct Hy as [Hy|[<-|[]]]; [apply v_new_fresh; exact Hy | exact Hns].
  - (* v_recv *) intros y [Hy|Hy]; [apply v_recv; left; exact Hy|].
    apply in_app_or in Hy. destruct Hy as [Hy|[<-|[]]]; [apply v_recv; right; exact Hy | exact Hrecv].
  - (* v_limit *) intros Hl. rewrite app_length. simpl. unfold limit_ok in Hlim.
    destruct (eff_limit cf) as [|l]; [congruence|]. apply Nat.ltb_lt in Hlim. lia.
  - (* v_serr *) intros Hne. contradiction.
Qed.

Lemma inv_push_none cf s :
  Inv cf s -> filter (fun m => is_none (m_id m)) (members s) = [] -> w_ian (w s) = true ->
  limit_ok cf s = true -> s_err s = None ->
  Inv cf (push_member s (mkMem (c_n cf) None true MNew)).
Proof.
  intros Hinv Hnone Hian Hlim Herr.
  set (m := mkMem (c_n cf) None true MNew).
  assert (Hw : wait_ids (members s ++ [m]) = wait_ids (members s)).
  { rewrite wait_ids_app. simpl. apply app_nil_r. }
  assert (Hn : new_ids (members s ++ [m]) = new_ids (members s)).
  { rewrite new_ids_app. simpl. apply app_nil_r. }
  assert (Hf : filter (fun m0 => is_none (m_id m0)) (members s ++ [m]) = [m]).
  { rewrite filter_app, Hnone. reflexivity. }
  unfold push_member. destruct Hinv. constructor; simpl; rewrite ?Hw, ?Hn, ?Hf.
  all: try assumption.
  - (* v_keys *) intros m0 Hm0. apply in_app_or in Hm0. destruct Hm0 as [Hm0|[<-|[]]]; [apply v_keys; exact Hm0 | reflexivity].
  - (* v_limit *) intros Hl. rewrite app_length. simpl. unfold limit_ok in Hlim.
    destruct (eff_limit cf) as [|l]; [congruence|]. apply Nat.ltb_lt in Hlim. lia.
  - (* v_none *) rewrite Hian. simpl. lia.
  - (* v_serr *) intros Hne. contradiction.
Qed.

(** ** (4), (5) The scheduler lets go of the ready stream / completes *)

Lemma inv_drop_ready_rx cf s : Inv cf s -> Inv cf (drop_ready_rx s).
Proof.
  intros Hinv. unfold drop_ready_rx, drop_rx. destruct Hinv. constructor; simpl.
  all: try assumption.
  - (* v_ready *) destruct v_ready as [rest [Hrs _]]. exists rest. split; [exact Hrs | discriminate].
  - (* v_alive *) reflexivity.
  - (* v_serr *) intros Hne. split; [apply (v_serr Hne) | reflexivity].
Qed.

Lemma inv_sched_finish cf s : Inv cf s -> Inv cf (sched_finish cf s).
Proof.
  intros Hinv. unfold sched_finish.
  assert (H1 : Inv cf (s <| s_fin := true |>)).
  { eapply Inv_core_eq; [|exact Hinv]. unfold core_eq. simpl. repeat split. }
  destruct (is_seq (c_api cf)); [|exact H1].
  eapply Inv_core_eq; [apply core_eq_take_s_tx | exact H1].
Qed.

Print Assumptions inv_tracked_poll.
Print Assumptions inv_push_some.
Print Assumptions inv_push_none.
Print Assumptions inv_drop_ready_rx.
Print Assumptions inv_sched_finish.
