(** * BuilderFacts.v — every builder call sequence yields a well-formed graph; exact result of
    each edge call (C16). *)

From FG Require Import Dag Builder DagFacts EdgeFacts.

Definition wf_dag (g : dag) : Prop := wfg (ncount g) (edges g).

Lemma wfg_mono n m es : n <= m -> wfg n es -> wfg m es.
Proof.
  intros Hle [Hwf [Hac Hu]]. split; [|split]; [|exact Hac|exact Hu].
  intros e He. destruct (Hwf e He). lia.
Qed.

Lemma has_edge_valid n es a b : wf_edges n es -> has_edge es a b = true -> a < n /\ b < n.
Proof. intros Hwf H. apply has_edge_spec in H. apply (Edge_wf _ _ _ _ Hwf H). Qed.

(** With an id that `add_fn` never returned the underlying petgraph panics and nothing changes. *)
Lemma update_edge_invalid n es a b k :
  wf_edges n es -> ~ (a < n /\ b < n) -> update_edge n es a b k = (es, EPanic).
Proof.
  intros Hwf Hinv. unfold update_edge.
  destruct (has_edge es a b) eqn:Hh; [exfalso; apply Hinv; eapply has_edge_valid; eauto|].
  unfold add_edge. destruct (a <? n) eqn:Ha; destruct (b <? n) eqn:Hb; simpl; try reflexivity.
  exfalso. apply Hinv. apply Nat.ltb_lt in Ha. apply Nat.ltb_lt in Hb. split; assumption.
Qed.

Lemma apply_edge_wf g a b k : wf_dag g -> wf_dag (fst (apply_edge g a b k)).
Proof.
  intros Hw. unfold apply_edge.
  destruct (update_edge (ncount g) (edges g) a b k) as [es r] eqn:Hupd. simpl. unfold wf_dag, ncount. simpl.
  destruct (Nat.lt_ge_cases a (ncount g)) as [Ha|Ha]; [destruct (Nat.lt_ge_cases b (ncount g)) as [Hb|Hb]|].
  - destruct (update_edge_spec (ncount g) (edges g) a b k Hw Ha Hb) as [_ Hw']. rewrite Hupd in Hw'. exact Hw'.
  - rewrite update_edge_invalid in Hupd by (try apply Hw; lia). inversion Hupd; subst. exact Hw.
  - rewrite update_edge_invalid in Hupd by (try apply Hw; lia). inversion Hupd; subst. exact Hw.
Qed.

Lemma apply_edge_nodes g a b k : nodes (fst (apply_edge g a b k)) = nodes g.
Proof. unfold apply_edge. destruct (update_edge (ncount g) (edges g) a b k). reflexivity. Qed.

Lemma apply_batch_wf l : forall g k, wf_dag g -> wf_dag (fst (apply_batch g l k)).
Proof.
  induction l as [|[a b] l IH]; intros g k Hw; simpl; [exact Hw|].
  pose proof (apply_edge_wf g a b k Hw) as Hw'.
  destruct (apply_edge g a b k) as [g' r]. simpl in Hw'.
  destruct r; simpl; try exact Hw'. apply IH. exact Hw'.
Qed.

Lemma apply_op_wf g o : wf_dag g -> wf_dag (fst (apply_op g o)).
Proof.
  intros Hw. destruct o as [f|a b|a b|l|l]; simpl.
  - unfold wf_dag, ncount. simpl. rewrite app_length. simpl. eapply wfg_mono; [|exact Hw]. unfold ncount. lia.
  - pose proof (apply_edge_wf g a b Logic Hw). destruct (apply_edge g a b Logic). exact H.
  - pose proof (apply_edge_wf g a b Contains Hw). destruct (apply_edge g a b Contains). exact H.
  - pose proof (apply_batch_wf l g Logic Hw). destruct (apply_batch g l Logic). exact H.
  - pose proof (apply_batch_wf l g Contains Hw). destruct (apply_batch g l Contains). exact H.
Qed.

Lemma run_ops_wf ops : forall g, wf_dag g -> wf_dag (fst (run_ops g ops)).
Proof.
  induction ops as [|o ops IH]; intros g Hw; simpl; [exact Hw|].
  pose proof (apply_op_wf g o Hw) as Hw'. destruct (apply_op g o) as [g' r]. simpl in Hw'.
  destruct (is_rpanic r); simpl; [exact Hw'|].
  specialize (IH g' Hw'). destruct (run_ops g' ops) as [g'' rs]. exact IH.
Qed.

Theorem builder_wf ops : wf_dag (builder_run ops).
Proof. unfold builder_run. apply run_ops_wf. apply wfg_nil. Qed.

(** ** C16: one edge call on a builder state, valid ids *)

Theorem apply_edge_spec g a b k :
  wf_dag g -> a < ncount g -> b < ncount g ->
  let '(g', r) := apply_edge g a b k in
  nodes g' = nodes g /\ wf_dag g' /\
  ((r = ECycle /\ edges g' = edges g /\ (a = b \/ Path (edges g) b a)) \/
   (r = EOk /\ Edge (edges g) a b /\ edges g' = set_kind (edges g) a b k /\ ~ (a = b \/ Path (edges g) b a)) \/
   (r = EOk /\ ~ Edge (edges g) a b /\ edges g' = edges g ++ [(a, b, k)] /\ ~ (a = b \/ Path (edges g) b a))).
Proof.
  intros Hw Ha Hb.
  pose proof (apply_edge_wf g a b k Hw) as Hw'. pose proof (apply_edge_nodes g a b k) as Hn.
  unfold apply_edge in *.
  destruct (update_edge_spec (ncount g) (edges g) a b k Hw Ha Hb) as [Hr _].
  destruct (update_edge (ncount g) (edges g) a b k) as [es r]. simpl in *.
  split; [exact Hn|]. split; [exact Hw'|].
  destruct Hw as [Hwf [Hac Hu]].
  inversion Hr as [Hc|He|Hab Hnp Hne]; subst.
  - left. auto.
  - right. left. split; [reflexivity|]. split; [exact He|]. split; [reflexivity|].
    intros [->|Hp]; [exact (acyclic_irrefl _ _ Hac He) | exact (Hac _ _ He Hp)].
  - right. right. split; [reflexivity|]. split; [exact Hne|]. split; [reflexivity|].
    intros [->|Hp]; [apply Hab; reflexivity | exact (Hnp Hp)].
Qed.

(** Batch forms: the calls are applied left to right and stop at the first rejection, keeping
    the edges accepted before it. *)
Lemma apply_batch_cons g a b l k :
  apply_batch g ((a, b) :: l) k =
  match apply_edge g a b k with
  | (g', EOk) => apply_batch g' l k
  | (g', r) => (g', r)
  end.
Proof. reflexivity. Qed.

(** ** Builder edges are never of kind Data *)

Definition no_data (es : list edge) : Prop := forall e, In e es -> ekind e <> Data.

Lemma set_kind_no_data es a b k : k <> Data -> no_data es -> no_data (set_kind es a b k).
Proof.
  intros Hk. induction es as [|e es IH]; intros Hn; simpl; [exact Hn|].
  destruct ((esrc e =? a) && (edst e =? b)).
  - intros e' [<-|He']; [exact Hk | apply Hn; right; exact He'].
  - intros e' [<-|He']; [apply Hn; left; reflexivity|]. apply IH; [|exact He']. intros x Hx. apply Hn. right. exact Hx.
Qed.

Lemma apply_edge_no_data g a b k : k <> Data -> no_data (edges g) -> no_data (edges (fst (apply_edge g a b k))).
Proof.
  intros Hk Hn. unfold apply_edge, update_edge, add_edge.
  destruct (has_edge (edges g) a b); simpl; [apply set_kind_no_data; assumption|].
  destruct ((a <? ncount g) && (b <? ncount g)); simpl; [|exact Hn].
  destruct (must_check (edges g) a b && reach (ncount g) (edges g) b a); simpl; [exact Hn|].
  intros e He. apply in_app_or in He. destruct He as [He|[<-|[]]]; [apply Hn; exact He | exact Hk].
Qed.

Lemma apply_batch_no_data l : forall g k, k <> Data -> no_data (edges g) -> no_data (edges (fst (apply_batch g l k))).
Proof.
  induction l as [|[a b] l IH]; intros g k Hk Hn; simpl; [exact Hn|].
  pose proof (apply_edge_no_data g a b k Hk Hn) as H. destruct (apply_edge g a b k) as [g' r]. simpl in H.
  destruct r; simpl; try exact H. apply IH; assumption.
Qed.

Lemma run_ops_no_data ops : forall g, no_data (edges g) -> no_data (edges (fst (run_ops g ops))).
Proof.
  induction ops as [|o ops IH]; intros g Hn; simpl; [exact Hn|].
  assert (H : no_data (edges (fst (apply_op g o)))).
  { destruct o as [f|a b|a b|l|l]; simpl.
    - exact Hn.
    - pose proof (apply_edge_no_data g a b Logic ltac:(discriminate) Hn). destruct (apply_edge g a b Logic); assumption.
    - pose proof (apply_edge_no_data g a b Contains ltac:(discriminate) Hn). destruct (apply_edge g a b Contains); assumption.
    - pose proof (apply_batch_no_data l g Logic ltac:(discriminate) Hn). destruct (apply_batch g l Logic); assumption.
    - pose proof (apply_batch_no_data l g Contains ltac:(discriminate) Hn). destruct (apply_batch g l Contains); assumption. }
  destruct (apply_op g o) as [g' r]. simpl in H. destruct (is_rpanic r); simpl; [exact H|].
  specialize (IH g' H). destruct (run_ops g' ops). exact IH.
Qed.

Theorem builder_no_data ops : no_data (edges (builder_run ops)).
Proof. unfold builder_run. apply run_ops_no_data. intros e []. Qed.

