(** * CfgFacts.v — a configuration made from a built graph is well-formed *)
From FG Require Import Dag Builder Sched DagFacts EdgeFacts RankFacts BuilderFacts TopoFacts AugFacts BuildFacts SchedInv.

Lemma count_where_flip es v : count_where edst (flip_edges es) v = count_where esrc es v.
Proof.
  unfold count_where, flip_edges. induction es as [|e es IH]; [reflexivity|].
  simpl. unfold edst at 1. simpl. destruct (esrc e =? v); simpl; rewrite IH; reflexivity.
Qed.

Lemma outgoing_is_incoming_flip n es : outgoing_counts n es = incoming_counts n (flip_edges es).
Proof.
  unfold outgoing_counts, incoming_counts. apply map_ext. intros v. symmetry. apply count_where_flip.
Qed.

Theorem cfg_ok_mk B G pops queries rev a mt ctl lim st incl imm er :
  build_ok B G pops queries -> cfg_ok (mk_cfg G rev a mt ctl lim st incl imm er).
Proof.
  intros Hok. unfold cfg_ok, mk_cfg. simpl.
  assert (Hn : fg_n G = ncount B) by (unfold fg_n; rewrite (bo_nodes _ _ _ _ Hok); reflexivity).
  rewrite Hn. destruct rev.
  - rewrite (bo_struct_rev _ _ _ _ Hok), (bo_outgoing _ _ _ _ Hok). split.
    + apply wfg_flip. apply (bo_wf _ _ _ _ Hok).
    + apply outgoing_is_incoming_flip.
  - rewrite (bo_struct _ _ _ _ Hok), (bo_incoming _ _ _ _ Hok). split; [apply (bo_wf _ _ _ _ Hok) | reflexivity].
Qed.

Lemma user_path_in_built B G pops queries a b :
  build_ok B G pops queries -> Path (edges B) a b -> Path (fg_edges G) a b.
Proof.
  intros Hok. destruct (bo_edges _ _ _ _ Hok) as [D [HD _]]. apply Path_ext.
  intros x y [k Hk]. exists k. rewrite HD. apply in_or_app. left. exact Hk.
Qed.

(** The structure walked by a configuration. *)
Lemma mk_cfg_es B G pops queries rev a mt ctl lim st incl imm er :
  build_ok B G pops queries ->
  c_es (mk_cfg G rev a mt ctl lim st incl imm er) = if rev then flip_edges (fg_edges G) else fg_edges G.
Proof.
  intros Hok. unfold mk_cfg. simpl. destruct rev; [apply (bo_struct_rev _ _ _ _ Hok) | apply (bo_struct _ _ _ _ Hok)].
Qed.

Lemma build_ok_intro ops G p q :
  build (builder_run ops) = BOk G p q -> build_ok (builder_run ops) G p q.
Proof.
  intros Hb. destruct (build_total_spec _ (builder_wf ops)) as [G' [p' [q' [Hb' Hok]]]].
  rewrite Hb in Hb'. inversion Hb'; subst. exact Hok.
Qed.
