(** * IntRun.v — C08 over whole runs: the interrupt credit bounds the ids recorded in [processed]

    Only [tracked_poll] touches the wrapper state [w], the pending-signal count [ipend] and the
    [processed] list.  Every other scheduler action leaves the three alone ([wi]), so the one-poll
    credit lemma of IntCredit.v ([tracked_poll_credit]) lifts to [stream_step], [conc_loop],
    [poll], [settle], [step] and whole event lists. *)
From FG Require Import Dag Builder Sched SchedInv SI_Queuer SI_Wrapper IntCredit LiveFacts.
From RecordUpdate Require Import RecordSet.
Import RecordSetNotations.

(** ** Actions that do not touch the wrapper, the pending-signal count and the processed list *)

Definition wi (s s' : state) : Prop := w s' = w s /\ ipend s' = ipend s /\ processed s' = processed s.

Lemma wi_refl s : wi s s.
Proof. unfold wi. repeat split; reflexivity. Qed.

Lemma wi_trans s1 s2 s3 : wi s1 s2 -> wi s2 s3 -> wi s1 s3.
Proof.
  intros (A1 & A2 & A3) (B1 & B2 & B3). unfold wi.
  rewrite B1, B2, B3, A1, A2, A3. repeat split; reflexivity.
Qed.

Lemma wi_same s s' : w s' = w s -> ipend s' = ipend s -> processed s' = processed s -> wi s s'.
Proof. intros A B C. unfold wi. repeat split; assumption. Qed.

Ltac wi_now := apply wi_same; reflexivity.

Lemma wi_set_panic p s : wi s (set_panic p s).
Proof. unfold set_panic. destruct (panic s); wi_now. Qed.

Lemma wi_drop_ready_tx s : wi s (drop_ready_tx s).
Proof.
  unfold drop_ready_tx. destruct (q_tx s); [|wi_now].
  destruct (drop_sender (ready s)) as [c wk]. wi_now.
Qed.

Lemma wi_q_child s c : wi s (q_child s c).
Proof.
  unfold q_child. destruct (nth c (counts s) 0) as [|k]; [apply wi_set_panic|].
  cbv zeta. set (s0 := s <| counts := set_nth c k (counts s) |>).
  assert (H0 : wi s s0) by wi_now.
  destruct ((k =? 0) && q_tx s0); [|exact H0].
  destruct (try_send (ready s0) c) as [[ch r] wk].
  destruct r; apply (wi_trans _ _ _ H0); wi_now.
Qed.

Lemma wi_fold_q_child l : forall s, wi s (fold_left q_child l s).
Proof.
  induction l as [|c l IH]; intros s; simpl; [apply wi_refl|].
  eapply wi_trans; [apply wi_q_child | apply IH].
Qed.

Lemma wi_q_step cf s : wi s (fst (q_step cf s)).
Proof.
  unfold q_step. destruct (poll_recv (done s)) as [c r]. destruct r as [| |id]; cbv zeta; simpl fst.
  - wi_now.
  - eapply wi_trans; [|apply wi_drop_ready_tx]. wi_now.
  - set (s0 := s <| done := c |> <| g_qproc := g_qproc s ++ [id] |>).
    assert (H0 : wi s s0) by wi_now.
    set (s1 := match q_rem s0 with 0 => set_panic PQRem s0 | S r => s0 <| q_rem := r |> end).
    assert (H1 : wi s s1).
    { unfold s1. destruct (q_rem s0); apply (wi_trans _ _ _ H0); [apply wi_set_panic | wi_now]. }
    set (s2 := if q_rem s1 =? 0 then drop_ready_tx s1 else s1).
    assert (H2 : wi s s2).
    { unfold s2. destruct (q_rem s1 =? 0); [|exact H1]. apply (wi_trans _ _ _ H1), wi_drop_ready_tx. }
    apply (wi_trans _ _ _ H2), wi_fold_q_child.
Qed.

Lemma wi_q_loop cf : forall fuel s, wi s (q_loop fuel cf s).
Proof.
  induction fuel as [|f IH]; intros s; simpl; [apply wi_set_panic|].
  pose proof (wi_q_step cf s) as H. destruct (q_step cf s) as [s' cont]. simpl in H.
  destruct cont; [|exact H]. apply (wi_trans _ _ _ H), IH.
Qed.

Lemma wi_take_s_tx s : wi s (take_s_tx s).
Proof.
  unfold take_s_tx. destruct (s_tx s); [|wi_now].
  destruct (drop_sender (done s)) as [c wk]. wi_now.
Qed.

Lemma wi_done_send s id : wi s (done_send s id).
Proof.
  unfold done_send. destruct (try_send (done s) id) as [[c r] wk]. destruct r.
  - wi_now.
  - apply wi_set_panic.
  - apply wi_refl.
Qed.

Lemma wi_remove_member s k : wi s (remove_member s k).
Proof. wi_now. Qed.

Lemma wi_set_member_wait s k : wi s (set_member_wait s k).
Proof. wi_now. Qed.

Lemma wi_drop_ready_rx s : wi s (drop_ready_rx s).
Proof. wi_now. Qed.

Lemma wi_push_member s m : wi s (push_member s m).
Proof. wi_now. Qed.

Lemma wi_complete s i ok : wi s (complete s i ok).
Proof. wi_now. Qed.

Lemma wi_start_block cf s m id : wi s (start_block cf s m id).
Proof.
  unfold start_block. cbv zeta.
  set (s0 := if c_mut cf && is_waiting_b s id then set_panic PTryWrite s else s).
  assert (H0 : wi s s0) by (unfold s0; destruct (c_mut cf && is_waiting_b s id); [apply wi_set_panic | apply wi_refl]).
  apply (wi_trans _ _ _ H0). wi_now.
Qed.

Lemma wi_finish_block cf s m id ok : wi s (finish_block cf s m id ok).
Proof.
  unfold finish_block. cbv zeta.
  pose proof (wi_remove_member s (m_key m)) as H0. set (s0 := remove_member s (m_key m)) in *.
  destruct (negb ok && match c_api cf with ATryFold => true | _ => false end).
  - apply (wi_trans _ _ _ H0).
    apply (wi_trans _ (drop_ready_rx (take_s_tx s0))); [|wi_now].
    eapply wi_trans; [apply wi_take_s_tx | apply wi_drop_ready_rx].
  - set (s1 := if negb ok && match c_api cf with ATryForEach => true | _ => false end
               then take_s_tx (if Nat.max 1 (c_n cf) <=? length (errs s0) then set_panic PResult s0
                               else s0 <| errs := errs s0 ++ [id] |>)
               else s0).
    assert (H1 : wi s s1).
    { unfold s1. destruct (negb ok && match c_api cf with ATryForEach => true | _ => false end); [|exact H0].
      eapply wi_trans; [|apply wi_take_s_tx]. apply (wi_trans _ _ _ H0).
      destruct (Nat.max 1 (c_n cf) <=? length (errs s0)); [apply wi_set_panic | wi_now]. }
    set (s2 := if s_tx s1 then done_send s1 id else s1).
    assert (H2 : wi s s2).
    { unfold s2. destruct (s_tx s1); [|exact H1]. apply (wi_trans _ _ _ H1), wi_done_send. }
    set (s3 := match s_rem s2 with 0 => set_panic PSRem s2 | S r => s2 <| s_rem := r |> end).
    assert (H3 : wi s s3).
    { unfold s3. destruct (s_rem s2); apply (wi_trans _ _ _ H2); [apply wi_set_panic | wi_now]. }
    set (s4 := if s_rem s3 =? 0 then take_s_tx s3 else s3).
    assert (H4 : wi s s4).
    { unfold s4. destruct (s_rem s3 =? 0); [|exact H3]. apply (wi_trans _ _ _ H3), wi_take_s_tx. }
    set (s5 := if m_int m then take_s_tx s4 else s4).
    assert (H5 : wi s s5).
    { unfold s5. destruct (m_int m); [|exact H4]. apply (wi_trans _ _ _ H4), wi_take_s_tx. }
    apply (wi_trans _ _ _ H5). wi_now.
Qed.

Lemma wi_resume_block cf s m id : wi s (fst (resume_block cf s m id)).
Proof.
  unfold resume_block. destruct (lookup id (completed s)); [|apply wi_refl].
  simpl. eapply wi_trans; [|apply wi_finish_block]. wi_now.
Qed.

Lemma wi_block_poll cf s m : wi s (fst (block_poll cf s m)).
Proof.
  unfold block_poll. destruct (m_st m); destruct (m_id m) as [id|]; cbv zeta.
  - destruct (lookup id (c_imm cf)).
    + eapply wi_trans; [|apply wi_resume_block].
      eapply wi_trans; [apply wi_start_block | apply wi_complete].
    + simpl. apply wi_start_block.
  - simpl. eapply wi_trans; [|apply wi_remove_member].
    destruct (m_int m); [apply wi_take_s_tx | apply wi_refl].
  - apply wi_resume_block.
  - apply wi_refl.
Qed.

Lemma wi_runq_loop cf : forall fuel s, wi s (fst (runq_loop fuel cf s)).
Proof.
  induction fuel as [|f IH]; intros s; simpl; [apply wi_set_panic|].
  destruct (runq s) as [|k rest]; [apply wi_refl|].
  set (s0 := s <| runq := rest |>). assert (H0 : wi s s0) by wi_now.
  destruct (find_member s0 k) as [m|]; [|apply (wi_trans _ _ _ H0), IH].
  pose proof (wi_block_poll cf s0 m) as H1. destruct (block_poll cf s0 m) as [s1 rdy]. simpl in H1.
  destruct rdy; simpl; apply (wi_trans _ _ _ H0); [exact H1 | apply (wi_trans _ _ _ H1), IH].
Qed.

Lemma wi_sched_finish cf s : wi s (sched_finish cf s).
Proof.
  unfold sched_finish. cbv zeta. set (s0 := s <| s_fin := true |>).
  assert (H0 : wi s s0) by wi_now.
  destruct (is_seq (c_api cf)); [|exact H0]. apply (wi_trans _ _ _ H0), wi_take_s_tx.
Qed.

(** ** Lifting a relation that holds across [tracked_poll] to whole runs

    Any reflexive, transitive relation on states that contains [wi], one [tracked_poll] and the
    arrival of a signal holds between a state and every state reachable from it. *)
Section Lift.
  Variable cf : cfg.
  Variable R : state -> state -> Prop.
  Hypothesis R_refl : forall s, R s s.
  Hypothesis R_trans : forall a b c, R a b -> R b c -> R a c.
  Hypothesis R_wi : forall s s', wi s s' -> R s s'.
  Hypothesis R_tp : forall s, R s (fst (tracked_poll cf s)).
  Hypothesis R_int : forall s, R s (s <| ipend := S (ipend s) |>).

  Lemma R_stream_step s : R s (fst (stream_step cf s)).
  Proof.
    unfold stream_step. destruct (limit_ok cf s && s_alive s); [|apply R_refl].
    pose proof (R_tp s) as H1. destruct (tracked_poll cf s) as [s1 r]. simpl in H1.
    destruct r as [| |x|[x|]]; simpl; try exact H1;
      apply (R_trans _ _ _ H1), R_wi; first [apply wi_push_member | apply wi_drop_ready_rx].
  Qed.

  Lemma R_conc_loop : forall fuel s, R s (conc_loop fuel cf s).
  Proof.
    induction fuel as [|f IH]; intros s; cbn [conc_loop]; [apply R_wi, wi_set_panic|].
    pose proof (R_stream_step s) as H1. destruct (stream_step cf s) as [s1 prog]. simpl in H1.
    pose proof (wi_runq_loop cf (length (runq s1) + 1) s1) as H2.
    destruct (runq_loop (length (runq s1) + 1) cf s1) as [s2 fr]. simpl in H2.
    assert (H3 : R s s2) by (apply (R_trans _ _ _ H1), R_wi, H2).
    destruct (s_fin s2); [exact H3|]. destruct fr.
    - apply (R_trans _ _ _ H3), IH.
    - destruct prog; [apply (R_trans _ _ _ H3), IH | exact H3].
    - destruct (negb (s_alive s2)); [apply (R_trans _ _ _ H3), R_wi, wi_sched_finish|].
      destruct prog; [apply (R_trans _ _ _ H3), IH | exact H3].
  Qed.

  Lemma R_poll s : R s (poll cf s).
  Proof.
    unfold poll. destruct (result s); [apply R_refl|]. cbv zeta.
    set (s0 := s <| woken := false |>). assert (H0 : R s s0) by (apply R_wi; wi_now).
    set (s1 := if q_fin s0 then s0 else q_loop (poll_fuel cf) cf s0).
    assert (H1 : R s s1).
    { unfold s1. destruct (q_fin s0); [exact H0|]. apply (R_trans _ _ _ H0), R_wi, wi_q_loop. }
    set (s2 := if s_fin s1 then s1 else conc_loop (poll_fuel cf) cf s1).
    assert (H2 : R s s2).
    { unfold s2. destruct (s_fin s1); [exact H1|]. apply (R_trans _ _ _ H1), R_conc_loop. }
    destruct (q_fin s2 && s_fin s2); [|exact H2]. apply (R_trans _ _ _ H2), R_wi. wi_now.
  Qed.

  Lemma R_settle : forall fuel s, R s (settle fuel cf s).
  Proof.
    induction fuel as [|f IH]; intros s; simpl; [apply R_refl|].
    destruct (woken s && is_none (result s) && is_none (panic s)); [|apply R_refl].
    eapply R_trans; [apply R_poll | apply IH].
  Qed.

  Lemma R_step s e : R s (step cf s e).
  Proof.
    destruct e as [i ok| | |]; simpl.
    - destruct (is_waiting s i && is_none (lookup i (completed s))); [|apply R_refl].
      apply R_wi. wi_now.
    - apply R_int.
    - apply R_poll.
    - apply R_settle.
  Qed.

  Lemma R_steps : forall evs s, R s (fold_left (step cf) evs s).
  Proof.
    induction evs as [|e evs IH]; intros s; simpl; [apply R_refl|].
    eapply R_trans; [apply R_step | apply IH].
  Qed.
End Lift.

(** ** The credit relation *)

Definition K (cf : cfg) (s : state) : nat := length (processed s) + pcredit (c_strat cf) (c_incl cf) (w s).

Definition CR (cf : cfg) (s s' : state) : Prop :=
  wrap_ok (c_strat cf) (w s) -> signal_present s ->
  wrap_ok (c_strat cf) (w s') /\ signal_present s' /\ K cf s' <= K cf s.

Lemma CR_refl cf s : CR cf s s.
Proof. intros A B. split; [exact A|]. split; [exact B | apply Nat.le_refl]. Qed.

Lemma CR_trans cf a b c : CR cf a b -> CR cf b c -> CR cf a c.
Proof.
  intros H1 H2 A B. destruct (H1 A B) as (A1 & B1 & C1). destruct (H2 A1 B1) as (A2 & B2 & C2).
  split; [exact A2|]. split; [exact B2 | lia].
Qed.

Lemma CR_wi cf s s' : wi s s' -> CR cf s s'.
Proof.
  intros (Hw & Hi & Hp) A B. unfold signal_present, K in *. rewrite Hw, Hi, Hp.
  split; [exact A|]. split; [exact B | apply Nat.le_refl].
Qed.

Lemma CR_int cf s : CR cf s (s <| ipend := S (ipend s) |>).
Proof.
  intros A B. split; [exact A|]. split; [left; simpl; lia | apply Nat.le_refl].
Qed.

Lemma CR_tp cf :
  c_strat cf <> SNonInt -> c_strat cf <> SIgnore -> forall s, CR cf s (fst (tracked_poll cf s)).
Proof.
  intros N1 N2 s A B. destruct (tracked_poll cf s) as [s' r] eqn:E. simpl.
  exact (tracked_poll_credit cf s s' r N1 N2 A B E).
Qed.

Section Credit.
  Variable cf : cfg.
  Hypothesis N1 : c_strat cf <> SNonInt.
  Hypothesis N2 : c_strat cf <> SIgnore.

  Lemma credit_stream_step s :
    wrap_ok (c_strat cf) (w s) -> signal_present s ->
    wrap_ok (c_strat cf) (w (fst (stream_step cf s))) /\ signal_present (fst (stream_step cf s)) /\
    K cf (fst (stream_step cf s)) <= K cf s.
  Proof.
    exact (R_stream_step cf (CR cf) (CR_refl cf) (CR_trans cf) (CR_wi cf) (CR_tp cf N1 N2) s).
  Qed.

  Lemma credit_conc_loop fuel s :
    wrap_ok (c_strat cf) (w s) -> signal_present s ->
    wrap_ok (c_strat cf) (w (conc_loop fuel cf s)) /\ signal_present (conc_loop fuel cf s) /\
    K cf (conc_loop fuel cf s) <= K cf s.
  Proof.
    exact (R_conc_loop cf (CR cf) (CR_refl cf) (CR_trans cf) (CR_wi cf) (CR_tp cf N1 N2) fuel s).
  Qed.

  Lemma credit_poll s :
    wrap_ok (c_strat cf) (w s) -> signal_present s ->
    wrap_ok (c_strat cf) (w (poll cf s)) /\ signal_present (poll cf s) /\ K cf (poll cf s) <= K cf s.
  Proof.
    exact (R_poll cf (CR cf) (CR_refl cf) (CR_trans cf) (CR_wi cf) (CR_tp cf N1 N2) s).
  Qed.

  Lemma credit_settle fuel s :
    wrap_ok (c_strat cf) (w s) -> signal_present s ->
    wrap_ok (c_strat cf) (w (settle fuel cf s)) /\ signal_present (settle fuel cf s) /\
    K cf (settle fuel cf s) <= K cf s.
  Proof.
    exact (R_settle cf (CR cf) (CR_refl cf) (CR_trans cf) (CR_wi cf) (CR_tp cf N1 N2) fuel s).
  Qed.

  Lemma credit_step s e :
    wrap_ok (c_strat cf) (w s) -> signal_present s ->
    wrap_ok (c_strat cf) (w (step cf s e)) /\ signal_present (step cf s e) /\ K cf (step cf s e) <= K cf s.
  Proof.
    exact (R_step cf (CR cf) (CR_refl cf) (CR_trans cf) (CR_wi cf) (CR_tp cf N1 N2) (CR_int cf) s e).
  Qed.

  Lemma credit_steps s evs :
    wrap_ok (c_strat cf) (w s) -> signal_present s ->
    wrap_ok (c_strat cf) (w (fold_left (step cf) evs s)) /\ signal_present (fold_left (step cf) evs s) /\
    K cf (fold_left (step cf) evs s) <= K cf s.
  Proof.
    exact (R_steps cf (CR cf) (CR_refl cf) (CR_trans cf) (CR_wi cf) (CR_tp cf N1 N2) (CR_int cf) evs s).
  Qed.
End Credit.

Theorem credit_run cf s evs :
  c_strat cf <> SNonInt -> c_strat cf <> SIgnore ->
  wrap_ok (c_strat cf) (w s) -> signal_present s ->
  K cf (fold_left (step cf) evs s) <= K cf s.
Proof.
  intros N1 N2 A B. exact (proj2 (proj2 (credit_steps cf N1 N2 s evs A B))).
Qed.

(** ** [wrap_ok] in every reachable state, whatever the strategy, signal or not *)

Definition WO (cf : cfg) (s s' : state) : Prop := wrap_ok (c_strat cf) (w s) -> wrap_ok (c_strat cf) (w s').

Lemma WO_wi cf s s' : wi s s' -> WO cf s s'.
Proof. intros (Hw & _ & _) A. rewrite Hw. exact A. Qed.

Lemma WO_tp cf s : WO cf s (fst (tracked_poll cf s)).
Proof.
  intros A. destruct (tracked_poll cf s) as [s' r] eqn:E. simpl.
  exact (tracked_poll_wrap_ok cf s s' r A E).
Qed.

Lemma wrap_ok_steps cf s evs :
  wrap_ok (c_strat cf) (w s) -> wrap_ok (c_strat cf) (w (fold_left (step cf) evs s)).
Proof.
  apply (R_steps cf (WO cf)).
  - intros s0 A. exact A.
  - intros a b c H1 H2 A. exact (H2 (H1 A)).
  - apply WO_wi.
  - apply WO_tp.
  - intros s0 A. exact A.
Qed.

Lemma w_init cf : w (init cf) = wrap0.
Proof.
  unfold init. cbv zeta.
  destruct (fold_left preload_one (preload_ids cf) (mkChan [] (Nat.max 1 (c_n cf)) 1 true false, [], false))
    as [[rc sent] bad].
  destruct bad; [|reflexivity].
  match goal with |- w (set_panic _ ?x) = _ => destruct (wi_set_panic PPreload x) as (Hw & _ & _); rewrite Hw end.
  reflexivity.
Qed.

Theorem wrap_ok_run cf evs : wrap_ok (c_strat cf) (w (run cf evs)).
Proof.
  unfold run. apply wrap_ok_steps. rewrite w_init. apply wrap_ok_init.
Qed.

(** ** The statement used for property C08

    After the first signal at most `bound` further ids are recorded.  The hypotheses [ipend s = 0]
    and [w_recv (w s) = false] say that the [EInt] is the first signal; the bound itself holds
    without them ([processed_after_signal_gen]), because [pcredit] never exceeds it. *)
Theorem processed_after_signal_gen cf s evs :
  c_strat cf <> SNonInt -> c_strat cf <> SIgnore ->
  wrap_ok (c_strat cf) (w s) ->
  length (processed (fold_left (step cf) (EInt :: evs) s)) <=
  length (processed s) +
  match c_strat cf with
  | SFinish | SPollN 0 => if c_incl cf && w_hp (w s) then 1 else 0
  | SPollN (S k') => S k'
  | _ => 0
  end.
Proof.
  intros N1 N2 A. simpl fold_left.
  set (s1 := s <| ipend := S (ipend s) |>).
  assert (A1 : wrap_ok (c_strat cf) (w s1)) by exact A.
  assert (B1 : signal_present s1) by (left; simpl; lia).
  pose proof (credit_run cf s1 evs N1 N2 A1 B1) as H.
  pose proof (pcredit_bound (c_strat cf) (c_incl cf) (w s)) as Hb.
  unfold K in H. change (w s1) with (w s) in H. change (processed s1) with (processed s) in H.
  destruct (c_strat cf) as [| | |[|k']]; lia.
Qed.

Theorem processed_after_signal cf s evs :
  c_strat cf <> SNonInt -> c_strat cf <> SIgnore ->
  wrap_ok (c_strat cf) (w s) -> ipend s = 0 -> w_recv (w s) = false ->
  length (processed (fold_left (step cf) (EInt :: evs) s)) <=
  length (processed s) +
  match c_strat cf with
  | SFinish | SPollN 0 => if c_incl cf && w_hp (w s) then 1 else 0
  | SPollN (S k') => S k'
  | _ => 0
  end.
Proof.
  intros N1 N2 A _ _. exact (processed_after_signal_gen cf s evs N1 N2 A).
Qed.

(** When the [EInt] really is the first signal the credit at [s] equals the bound, so the bound is
    exactly the potential the argument starts from. *)
Lemma pcredit_first_signal cf s :
  c_strat cf <> SNonInt -> c_strat cf <> SIgnore ->
  wrap_ok (c_strat cf) (w s) -> w_recv (w s) = false ->
  pcredit (c_strat cf) (c_incl cf) (w s) =
  match c_strat cf with
  | SFinish | SPollN 0 => if c_incl cf && w_hp (w s) then 1 else 0
  | SPollN (S k') => S k'
  | _ => 0
  end.
Proof.
  intros N1 N2 (_ & Hsig & _ & Hian & _) Hr. unfold pcredit.
  destruct (w_ian (w s)) eqn:Ei.
  { destruct (Hian eq_refl) as [Hs _]. specialize (Hsig Hs). congruence. }
  rewrite Hr. simpl. destruct (c_strat cf) as [| | |[|k']]; congruence.
Qed.

Print Assumptions credit_run.
Print Assumptions wrap_ok_run.
Print Assumptions processed_after_signal.
