(** * The YAML text of a [GraphInfo] (serde derive + daggy/petgraph `serde-1` + serde_yaml_ng), line by line.

    `serde_yaml_ng::to_string(&GraphInfo<u64>)` writes

<<
graph:
  nodes:            |   nodes: []        (no nodes)
  - 7               one line per node weight, index order
  node_holes: []
  edge_property: directed
  edges:            |   edges: []        (no edges)
  - - 0             source     } one triple per edge,
    - 2             target     } `raw_edges()` order
    - Logic         weight     }
>>

    A line is a constructor below; the OCaml driver prints each constructor as its text (decimal numerals
    and the fixed key words are the only glue), and the check compares that text with the implementation's
    byte for byte (`GY` observation).  [gi_parse] is the reader: it accepts exactly this layout and, like
    petgraph's `from_deserialized`, refuses an edge whose endpoint is not a node (`invalid_node_err`); like
    daggy's `Deserialize` it does **not** test for cycles.  Executable, no proofs here. *)
From Coq Require Import List Arith Bool.
Import ListNotations.
From FG Require Import Dag Builder.

Inductive yline :=
| YGraph                      (* "graph:" *)
| YNodes (empty : bool)       (* "  nodes:" | "  nodes: []" *)
| YNode (w : nat)             (* "  - <w>" *)
| YHoles                      (* "  node_holes: []" *)
| YProp                       (* "  edge_property: directed" *)
| YEdges (empty : bool)       (* "  edges:" | "  edges: []" *)
| YSrc (a : nat)              (* "  - - <a>" *)
| YDst (b : nat)              (* "    - <b>" *)
| YKind (k : kind).           (* "    - Logic" | "    - Contains" | "    - Data" *)

Definition is_nil {A} (l : list A) : bool := match l with [] => true | _ => false end.

Definition yaml_edge (e : edge) : list yline := [YSrc (esrc e); YDst (edst e); YKind (ekind e)].

Definition gi_yaml (i : ginfo) : list yline :=
  YGraph :: YNodes (is_nil (gi_nodes i)) :: map YNode (gi_nodes i)
  ++ YHoles :: YProp :: YEdges (is_nil (gi_edges i)) :: flat_map yaml_edge (gi_edges i).

(** Reader. *)
Fixpoint parse_nodes (l : list yline) : list nat * list yline :=
  match l with
  | YNode w :: l' => let '(ws, rest) := parse_nodes l' in (w :: ws, rest)
  | _ => ([], l)
  end.

Fixpoint parse_edges (n : nat) (l : list yline) : option (list edge) :=
  match l with
  | [] => Some []
  | YSrc a :: YDst b :: YKind k :: l' =>
    if (a <? n) && (b <? n) then
      match parse_edges n l' with Some es => Some ((a, b, k) :: es) | None => None end
    else None                                     (* petgraph: invalid_node_err *)
  | _ => None
  end.

Definition gi_parse (l : list yline) : option ginfo :=
  match l with
  | YGraph :: YNodes emp :: l1 =>
    let '(ws, l2) := parse_nodes l1 in
    if negb (Bool.eqb emp (is_nil ws)) then None else
    match l2 with
    | YHoles :: YProp :: YEdges emp2 :: l3 =>
      match parse_edges (length ws) l3 with
      | Some es => if Bool.eqb emp2 (is_nil es) then Some (mkGI ws es) else None
      | None => None
      end
    | _ => None
    end
  | _ => None
  end.

(** Endpoints of every edge are nodes (what the reader demands). *)
Definition gi_in_range (i : ginfo) : bool :=
  forallb (fun e => (esrc e <? length (gi_nodes i)) && (edst e <? length (gi_nodes i))) (gi_edges i).
