(** * SafetyInv.v — consequences of [Inv] at the level of the properties *)
From FG Require Import Dag Builder Sched DagFacts EdgeFacts SchedInv SI_Queuer SafetyFacts.

(** Every predecessor (in the structure walked) of a started function has been announced on the
    done channel – hence finished, hence started itself and, for the try APIs, not failed. *)
Lemma started_pred_done cf s x p :
  Inv cf s -> In x (starts (trace s)) -> Edge (c_es cf) p x -> In p (g_done_sent s).
Proof.
  intros H Hx He.
  assert (Hrs : In x (g_ready_sent s)).
  { apply (Inv_recv_sub _ _ H). apply (v_recv _ _ H). left. exact Hx. }
  pose proof (v_sent _ _ H x Hrs) as Hu. rewrite unproc_nil in Hu.
  rewrite (v_done _ _ H). apply in_or_app. left. apply Hu. exact He.
Qed.

Lemma done_started cf s x : Inv cf s -> In x (g_done_sent s) -> In x (starts (trace s)).
Proof. intros H Hx. apply (v_started _ _ H). left. apply (v_ds_fin _ _ H). exact Hx. Qed.

Lemma started_anc_done cf s x y :
  Inv cf s -> In x (starts (trace s)) -> Path (c_es cf) y x -> y <> x -> In y (g_done_sent s).
Proof.
  intros H Hx Hp. revert Hx. induction Hp as [a|a b c He Hp IH]; intros Hs Hne; [congruence|].
  destruct (Nat.eq_dec b c) as [<-|Hbc].
  - apply (started_pred_done cf s b a H Hs He).
  - assert (Hb : In b (g_done_sent s)) by (apply IH; assumption).
    apply (started_pred_done cf s b a H (done_started cf s b H Hb) He).
Qed.

(** A function ordered after a failed one is never started (try APIs). *)
Theorem failed_blocks_dependents cf s f x :
  Inv cf s -> is_try (c_api cf) = true -> In f (failed (trace s)) ->
  Path (c_es cf) f x -> f <> x -> ~ In x (starts (trace s)).
Proof.
  intros H Ht Hf Hp Hne Hx.
  apply (v_ds_ok _ _ H Ht f); [|exact Hf]. apply (started_anc_done cf s x f H Hx Hp Hne).
Qed.
