(** * SI_Stream.v — the stream machine ([Sched.sinit], [Sched.sstep]) preserves [StreamInv.SInv] *)
From FG Require Import Dag Builder Sched DagFacts EdgeFacts RankFacts BuilderFacts TopoFacts SchedInv SI_Init SI_Queuer StreamInv.
From RecordUpdate Require Import RecordSet.
Import RecordSetNotations.

(** ** States that agree on everything [SInv] looks at

    ([w], [ipend], [woken], [runq], [result], the receiver wakers, ... are not looked at). *)
Definition score (s s' : state) : Prop :=
  panic s' = panic s /\
  cap (ready s') = cap (ready s) /\ buf (ready s') = buf (ready s) /\
  senders (ready s') = senders (ready s) /\ rx_open (ready s') = rx_open (ready s) /\
  cap (done s') = cap (done s) /\ buf (done s') = buf (done s) /\
  senders (done s') = senders (done s) /\ rx_open (done s') = rx_open (done s) /\
  g_ready_sent s' = g_ready_sent s /\ g_received s' = g_received s /\ g_done_sent s' = g_done_sent s /\
  g_qproc s' = g_qproc s /\ counts s' = counts s /\ members s' = members s /\ trace s' = trace s /\
  processed s' = processed s /\ s_rem s' = s_rem s /\ s_alive s' = s_alive s /\ s_tx s' = s_tx s /\
  q_tx s' = q_tx s.

Lemma SInv_score sc s s' : score s s' -> SInv sc s -> SInv sc s'.
Proof.
  intros (E1 & E2 & E3 & E4 & E5 & E6 & E7 & E8 & E9 & E10 & E11 & E12 & E13 & E14 & E15 & E16 & E17 & E18 & E19 & E20 & E21) H.
  destruct H. constructor;
    rewrite ?E21, ?E20, ?E19, ?E1, ?E2, ?E3, ?E4, ?E5, ?E6, ?E7, ?E8, ?E9, ?E10, ?E11, ?E12, ?E13, ?E14, ?E15, ?E16, ?E17, ?E18;
    assumption.
Qed.

Lemma score_refl s : score s s.
Proof. repeat split. Qed.

Lemma score_trans a b c : score a b -> score b c -> score a c.
Proof.
  intros (E1 & E2 & E3 & E4 & E5 & E6 & E7 & E8 & E9 & E10 & E11 & E12 & E13 & E14 & E15 & E16 & E17 & E18 & E19 & E20 & E21)
         (F1 & F2 & F3 & F4 & F5 & F6 & F7 & F8 & F9 & F10 & F11 & F12 & F13 & F14 & F15 & F16 & F17 & F18 & F19 & F20 & F21).
  unfold score. repeat split; congruence.
Qed.

Lemma SInv_w sc s w' : SInv sc s -> SInv sc (s <| w := w' |>).
Proof. apply SInv_score. unfold score. simpl. repeat split. Qed.
Lemma SInv_ipend sc s ip : SInv sc s -> SInv sc (s <| ipend := ip |>).
Proof. apply SInv_score. unfold score. simpl. repeat split. Qed.
Lemma SInv_woken sc s b : SInv sc s -> SInv sc (s <| woken := b |>).
Proof. apply SInv_score. unfold score. simpl. repeat split. Qed.
Lemma SInv_runq sc s q : SInv sc s -> SInv sc (s <| runq := q |>).
Proof. apply SInv_score. unfold score. simpl. repeat split. Qed.
Lemma SInv_result sc s r : SInv sc s -> SInv sc (s <| result := r |>).
Proof. apply SInv_score. unfold score. simpl. repeat split. Qed.

(** ** The initial state *)

Theorem sinv_init sc : scfg_ok sc -> SInv sc (sinit sc).
Proof.
  intros [Hw Hcounts]. unfold sinit, init.
  set (cf := scfg_cfg sc).
  assert (Hn : c_n cf = sc_n sc) by reflexivity.
  assert (He : c_es cf = sc_es sc) by reflexivity.
  assert (Hc : c_counts cf = sc_counts sc) by reflexivity.
  assert (Hr : c_empty_release cf = true) by reflexivity.
  assert (Hpl_nodup : NoDup (preload_ids cf)).
  { apply NoDup_filter. rewrite Hn, He. apply topo_NoDup. exact Hw. }
  assert (Hpl_lt : forall x, In x (preload_ids cf) -> x < sc_n sc).
  { intros x Hx. apply filter_In in Hx. rewrite Hn, He in Hx. apply (topo_incl _ _ Hw). tauto. }
  assert (Hpl_len : length (preload_ids cf) <= Nat.max 1 (c_n cf)).
  { rewrite Hn. pose proof (NoDup_bounded_length _ _ Hpl_nodup Hpl_lt). lia. }
  rewrite (preload_fold (preload_ids cf) (mkChan [] (Nat.max 1 (c_n cf)) 1 true false) []); [|reflexivity|exact Hpl_len].
  simpl app. rewrite Hr, Hn, Hc, andb_true_r.
  assert (Hroot : forall c, In c (preload_ids cf) -> parents (sc_es sc) c = []).
  { intros c Hc'. pose proof (Hpl_lt c Hc') as Hlt. apply filter_In in Hc'. destruct Hc' as [_ H0]. apply Nat.eqb_eq in H0.
    rewrite Hc, Hcounts in H0. unfold incoming_counts in H0. rewrite nth_map_seq in H0 by exact Hlt.
    rewrite count_parents in H0. destruct (parents (sc_es sc) c); [reflexivity | discriminate]. }
  assert (Hall : forall c, c < sc_n sc -> parents (sc_es sc) c = [] -> In c (preload_ids cf)).
  { intros c Hlt Hp. apply filter_In. rewrite Hn, He, Hc. split; [apply topo_complete; assumption|].
    apply Nat.eqb_eq. rewrite Hcounts. unfold incoming_counts. rewrite nth_map_seq by exact Hlt.
    rewrite count_parents, Hp. reflexivity. }
  assert (Hcnt : forall c, c < sc_n sc -> nth c (sc_counts sc) 0 = length (unproc (sc_es sc) [] c)).
  { intros c Hc'. rewrite Hcounts. unfold incoming_counts. rewrite nth_map_seq by exact Hc'.
    rewrite count_parents. unfold unproc. rewrite filter_not_mem_nil. reflexivity. }
  destruct (sc_n sc =? 0) eqn:Hn0;
    (constructor; simpl; try reflexivity; try (intros; contradiction); try constructor; try discriminate; try tauto);
    try solve [ eexists; split; [reflexivity | intros _; reflexivity]
              | rewrite Hcounts; unfold incoming_counts; rewrite map_length, seq_length; reflexivity
              | intros T1 ? ? H; destruct T1; discriminate
              | intros T1 ? ? ? H; destruct T1; discriminate
              | lia
              | exact Hcnt
              | rewrite Hn0; reflexivity
              | intros c Hc'; unfold unproc; rewrite (Hroot c Hc'); reflexivity ].
  intros _ c Hlt Hu. apply Hall; [exact Hlt|]. unfold unproc in Hu. rewrite filter_not_mem_nil in Hu. exact Hu.
Qed.

(** ** More about the fold of [q_child] (on top of [SI_Queuer.q_children]) *)

Lemma q_child_x s c :
  q_tx (q_child s c) = q_tx s /\ s_tx (q_child s c) = s_tx s /\ processed (q_child s c) = processed s /\
  senders (ready (q_child s c)) = senders (ready s).
Proof.
  unfold q_child. destruct (nth c (counts s) 0) as [|k].
  - unfold set_panic. destruct (panic s); simpl; auto.
  - destruct ((k =? 0) && q_tx (s <| counts := set_nth c k (counts s) |>)); [|simpl; auto].
    destruct (try_send (ready (s <| counts := set_nth c k (counts s) |>)) c) as [[ch r] wk] eqn:H.
    destruct r; simpl; auto.
    apply try_send_ok in H. simpl in H. repeat split; tauto.
Qed.

Lemma q_children_x cs : forall s,
  q_tx (fold_left q_child cs s) = q_tx s /\ s_tx (fold_left q_child cs s) = s_tx s /\
  processed (fold_left q_child cs s) = processed s /\
  senders (ready (fold_left q_child cs s)) = senders (ready s).
Proof.
  induction cs as [|c cs IH]; intros s; simpl; [auto|].
  destruct (IH (q_child s c)) as (A1 & A2 & A3 & A4). destruct (q_child_x s c) as (B1 & B2 & B3 & B4).
  repeat split; congruence.
Qed.

Lemma q_child_rs_mono s c x : In x (g_ready_sent s) -> In x (g_ready_sent (q_child s c)).
Proof.
  intros Hx. unfold q_child. destruct (nth c (counts s) 0) as [|k].
  - unfold set_panic. destruct (panic s); simpl; exact Hx.
  - destruct ((k =? 0) && q_tx (s <| counts := set_nth c k (counts s) |>)); [|simpl; exact Hx].
    destruct (try_send (ready (s <| counts := set_nth c k (counts s) |>)) c) as [[ch r] wk].
    destruct r; simpl; try exact Hx. apply in_or_app. left. exact Hx.
Qed.

Lemma q_children_rs_mono cs : forall s x, In x (g_ready_sent s) -> In x (g_ready_sent (fold_left q_child cs s)).
Proof.
  induction cs as [|c cs IH]; intros s x Hx; simpl; [exact Hx|]. apply IH. apply q_child_rs_mono. exact Hx.
Qed.

Lemma q_child_one s c k :
  nth c (counts s) 0 = S k ->
  counts (q_child s c) = set_nth c k (counts s) /\ cap (ready (q_child s c)) = cap (ready s) /\
  rx_open (ready (q_child s c)) = rx_open (ready s) /\
  length (buf (ready (q_child s c))) <= length (buf (ready s)) + (if k =? 0 then 1 else 0) /\
  (k = 0 -> q_tx s = true -> rx_open (ready s) = true -> length (buf (ready s)) < cap (ready s) ->
   In c (g_ready_sent (q_child s c))).
Proof.
  intros Hk. unfold q_child. rewrite Hk.
  destruct ((k =? 0) && q_tx (s <| counts := set_nth c k (counts s) |>)) eqn:Hcond.
  - apply andb_true_iff in Hcond. destruct Hcond as [Hk0 Hq]. rewrite Hk0.
    destruct (try_send (ready (s <| counts := set_nth c k (counts s) |>)) c) as [[ch r] wk] eqn:Hts.
    simpl ready in Hts. destruct r.
    + destruct (try_send_ok _ _ _ _ Hts) as (Hb & Hc & Ho1 & Ho2 & Hs & Hl). simpl.
      repeat split; try congruence.
      * rewrite Hb, app_length. simpl. lia.
      * intros. apply in_or_app. right. left. reflexivity.
    + simpl. repeat split; try lia. intros _ _ Ho Hl.
      destruct (try_send_succeeds (ready s) c Ho Hl) as [c' [wk' H']]. congruence.
    + simpl. repeat split; try lia. intros _ _ Ho Hl.
      destruct (try_send_succeeds (ready s) c Ho Hl) as [c' [wk' H']]. congruence.
  - simpl. repeat split; try lia. intros -> Hq _ _. simpl in Hcond. congruence.
Qed.

(** With the ready sender held, the receiver open and room in the channel, every child whose
    count drops to zero is queued. *)
Lemma q_children_all cs : forall s,
  NoDup cs -> (forall c, In c cs -> c < length (counts s)) -> (forall c, In c cs -> 1 <= nth c (counts s) 0) ->
  q_tx s = true -> rx_open (ready s) = true ->
  length (buf (ready s)) + length (filter (fun c => nth c (counts s) 0 =? 1) cs) <= cap (ready s) ->
  forall c, In c cs -> nth c (counts s) 0 = 1 -> In c (g_ready_sent (fold_left q_child cs s)).
Proof.
  induction cs as [|c cs IH]; intros s Hnd Hlen Hpos Hq Ho Hroom x Hx Hone; [destruct Hx|].
  inversion Hnd as [|c' cs' Hnin Hnd']; subst. cbn [fold_left].
  assert (Hc : c < length (counts s)) by (apply Hlen; left; reflexivity).
  assert (Hp : 1 <= nth c (counts s) 0) by (apply Hpos; left; reflexivity).
  destruct (nth c (counts s) 0) as [|k] eqn:Hk; [lia|].
  destruct (q_child_one s c k Hk) as (Hc1 & Hcap1 & Ho1 & Hb1 & Hsend).
  destruct (q_child_x s c) as (Hq1 & _).
  assert (Hnth1 : forall v, nth v (counts (q_child s c)) 0 = if v =? c then k else nth v (counts s) 0).
  { intros v. rewrite Hc1. apply nth_set_nth. exact Hc. }
  assert (Hsame : forall v, In v cs -> nth v (counts (q_child s c)) 0 = nth v (counts s) 0).
  { intros v Hv. rewrite Hnth1. destruct (v =? c) eqn:Hvc; [|reflexivity]. apply Nat.eqb_eq in Hvc. subst. contradiction. }
  cbn [filter] in Hroom. rewrite Hk in Hroom. change (S k =? 1) with (k =? 0) in Hroom.
  assert (Hfil : filter (fun v => nth v (counts (q_child s c)) 0 =? 1) cs = filter (fun v => nth v (counts s) 0 =? 1) cs).
  { apply filter_ext_in. intros v Hv. rewrite (Hsame v Hv). reflexivity. }
  destruct Hx as [<-|Hx].
  - apply q_children_rs_mono. rewrite Hk in Hone. injection Hone as Hk0. apply Hsend; try assumption.
    subst k. simpl in Hroom. lia.
  - apply IH; try assumption.
    + intros v Hv. rewrite Hc1, set_nth_length. apply Hlen. right. exact Hv.
    + intros v Hv. rewrite (Hsame v Hv). apply Hpos. right. exact Hv.
    + congruence.
    + congruence.
    + rewrite Hfil, Hcap1. destruct (k =? 0); simpl in Hroom; lia.
    + rewrite (Hsame x Hx). exact Hone.
Qed.

(** ** Consequences of the invariant used everywhere *)

Lemma SInv_recv_sub sc s : SInv sc s -> incl (g_received s) (g_ready_sent s).
Proof. intros H x Hx. destruct (sv_ready _ _ H) as [rest [Heq _]]. rewrite Heq. apply in_or_app. left. exact Hx. Qed.

Lemma SInv_starts_lt sc s : SInv sc s -> forall x, In x (starts (trace s)) -> x < sc_n sc.
Proof. intros H x Hx. apply (sv_rs_lt _ _ H). apply (SInv_recv_sub _ _ H). rewrite <- (sv_started _ _ H). exact Hx. Qed.

Lemma SInv_ends_started sc s : SInv sc s -> forall x, In x (ends (trace s)) -> In x (starts (trace s)).
Proof. intros H x Hx. apply (sv_split _ _ H). left. exact Hx. Qed.

Lemma SInv_wait_started sc s : SInv sc s -> forall x, In x (wait_ids (members s)) -> In x (starts (trace s)).
Proof. intros H x Hx. apply (sv_split _ _ H). right. exact Hx. Qed.

Lemma SInv_ds_lt sc s : SInv sc s -> forall x, In x (g_done_sent s) -> x < sc_n sc.
Proof.
  intros H x Hx. apply (SInv_starts_lt _ _ H). apply (SInv_ends_started _ _ H). apply (sv_ds_ended _ _ H). exact Hx.
Qed.

Lemma SInv_ds_len sc s : SInv sc s -> length (g_done_sent s) <= sc_n sc.
Proof. intros H. apply NoDup_bounded_length; [apply (sv_ds_nodup _ _ H) | apply (SInv_ds_lt _ _ H)]. Qed.

Lemma SInv_done_buf_len sc s : SInv sc s -> s_alive s = true -> length (buf (done s)) <= sc_n sc.
Proof.
  intros H Hal. pose proof (SInv_ds_len _ _ H) as Hl.
  destruct (sv_done _ _ H) as [rest [Heq Hrest]]. rewrite (sv_alive_d _ _ H) in Hrest. rewrite <- (Hrest Hal).
  rewrite Heq, app_length in Hl. lia.
Qed.

(** ** Draining the done channel *)

(** What the drain leaves alone. *)
Definition dframe (s s' : state) : Prop :=
  s_alive s' = s_alive s /\ s_tx s' = s_tx s /\ q_tx s' = q_tx s /\ s_rem s' = s_rem s /\
  trace s' = trace s /\ members s' = members s /\ processed s' = processed s /\
  senders (done s') = senders (done s) /\ g_received s' = g_received s /\ g_done_sent s' = g_done_sent s.

Lemma dframe_refl s : dframe s s.
Proof. repeat split. Qed.
Lemma dframe_trans a b c : dframe a b -> dframe b c -> dframe a c.
Proof.
  intros (E1 & E2 & E3 & E4 & E5 & E6 & E7 & E8 & E9 & E10) (F1 & F2 & F3 & F4 & F5 & F6 & F7 & F8 & F9 & F10).
  unfold dframe. repeat split; congruence.
Qed.

Definition drain_one_post (sc : scfg) (s : state) (p : state * bool) : Prop :=
  SInv sc (fst p) /\ dframe s (fst p) /\
  (snd p = true -> S (length (buf (done (fst p)))) = length (buf (done s))) /\
  (snd p = false -> buf (done (fst p)) = [] /\ (senders (done s) <> 0 -> rx_waker (done (fst p)) = true)).

Lemma sinv_drain_one sc s :
  scfg_ok sc -> SInv sc s -> s_alive s = true -> drain_one_post sc s (st_drain_one sc s).
Proof.
  intros [Hw Hcounts] Hinv Hal. pose proof Hw as [Hwf [Hac Hu]].
  assert (Hod : rx_open (done s) = true) by (rewrite (sv_alive_d _ _ Hinv); exact Hal).
  assert (Hor : rx_open (ready s) = true) by (rewrite (sv_alive_r _ _ Hinv); exact Hal).
  unfold st_drain_one. destruct (poll_recv (done s)) as [c r] eqn:Hrecv.
  assert (Hother : (forall x, r <> RSome x) -> drain_one_post sc s (s <| done := c |>, false)).
  { intros Hr. destruct (poll_recv_other _ _ _ Hrecv Hr) as [Hb [Hb' [Hcap [Ho Hs]]]].
    unfold drain_one_post. simpl. split; [|split; [|split]].
    - eapply SInv_score; [|exact Hinv]. unfold score. simpl. repeat split; congruence.
    - unfold dframe. simpl. repeat split; congruence.
    - discriminate.
    - intros _. split; [exact Hb'|]. intros Hne. unfold poll_recv in Hrecv. rewrite Hb in Hrecv.
      destruct (senders (done s) =? 0) eqn:E; [apply Nat.eqb_eq in E; contradiction|].
      inversion Hrecv; subst. reflexivity. }
  destruct r as [| |id]; [apply Hother; discriminate | apply Hother; discriminate|]. clear Hother.
  destruct (poll_recv_some _ _ _ Hrecv) as [Hb [Hcap [Ho Hs]]].
  destruct (sv_done _ _ Hinv) as [rest [Hdone Hrest]]. specialize (Hrest Hod). subst rest. rewrite Hb in Hdone.
  pose proof (sv_ds_nodup _ _ Hinv) as Hdsnd. rewrite Hdone in Hdsnd.
  assert (HidP : ~ In id (g_qproc s)).
  { intros Hin. apply NoDup_remove_2 in Hdsnd. apply Hdsnd. apply in_or_app. left. exact Hin. }
  assert (Hidlt : id < sc_n sc).
  { apply (SInv_ds_lt _ _ Hinv). rewrite Hdone. apply in_or_app. right. left. reflexivity. }
  set (cs := children (sc_es sc) id).
  assert (Hcs : forall x, In x cs <-> Edge (sc_es sc) id x) by (intros x; apply children_spec).
  assert (Hcslt : forall x, In x cs -> x < sc_n sc).
  { intros x Hx. apply Hcs in Hx. apply (Edge_wf _ _ _ _ Hwf Hx). }
  assert (Hun : forall x, In x cs -> In id (unproc (sc_es sc) (g_qproc s) x)).
  { intros x Hx. apply unproc_In. split; [apply Hcs; exact Hx | exact HidP]. }
  assert (Hcsnd : NoDup cs) by (apply children_NoDup; exact Hu).
  assert (Hcpos : forall x, In x cs -> 1 <= nth x (counts s) 0).
  { intros x Hx. rewrite (sv_counts _ _ Hinv x (Hcslt x Hx)).
    pose proof (Hun x Hx) as Hin. destruct (unproc (sc_es sc) (g_qproc s) x); [destruct Hin | simpl; lia]. }
  assert (Hclen : forall x, In x cs -> x < length (counts s)).
  { intros x Hx. rewrite (sv_counts_len _ _ Hinv). apply Hcslt. exact Hx. }
  set (s1 := s <| done := c |> <| g_qproc := g_qproc s ++ [id] |>).
  destruct (q_children cs s1) as [sent [Hp' [Hl' [Hn' [Hr' [Hb'' [Hsent [Hsnd Hfr]]]]]]]];
    [exact Hcsnd | exact Hclen | exact Hcpos | apply (sv_nopanic _ _ Hinv) |].
  destruct (q_children_x cs s1) as (X1 & X2 & X3 & X4).
  unfold drain_one_post. simpl fst. simpl snd. fold cs. fold s1. set (s' := fold_left q_child cs s1) in *.
  change (counts s1) with (counts s) in *. change (g_ready_sent s1) with (g_ready_sent s) in *.
  change (ready s1) with (ready s) in *. change (q_tx s1) with (q_tx s) in *. change (s_tx s1) with (s_tx s) in *.
  change (processed s1) with (processed s) in *.
  assert (Hfr' : cap (ready s') = cap (ready s) /\ rx_open (ready s') = rx_open (ready s) /\ done s' = c /\
                 g_received s' = g_received s /\ g_done_sent s' = g_done_sent s /\ g_qproc s' = g_qproc s ++ [id] /\
                 members s' = members s /\ trace s' = trace s /\ s_rem s' = s_rem s /\ s_alive s' = s_alive s).
  { destruct Hfr as (F1 & F2 & F3 & F4 & F5 & F6 & F7 & F8 & F9 & F10 & F11 & F12 & F13 & F14 & F15 & F16).
    repeat split; assumption. }
  clear Hfr. destruct Hfr' as (F1 & F2 & F3 & F4 & F5 & F6 & F8 & F9 & F12 & F15).
  assert (Hcount' : forall x, x < sc_n sc ->
            nth x (counts s') 0 = length (unproc (sc_es sc) (g_qproc s ++ [id]) x)).
  { intros x Hx. rewrite Hn'. rewrite (sv_counts _ _ Hinv x Hx), unproc_snoc.
    rewrite filter_remove_len by (apply unproc_NoDup; exact Hu).
    destruct (mem x cs) eqn:Hm.
    - apply mem_spec in Hm. pose proof (Hun x Hm) as Hin. apply mem_spec in Hin. rewrite Hin. reflexivity.
    - destruct (mem id (unproc (sc_es sc) (g_qproc s) x)) eqn:Hm2; [|reflexivity].
      apply mem_spec in Hm2. apply unproc_In in Hm2. destruct Hm2 as [He _]. apply Hcs in He.
      apply mem_spec in He. congruence. }
  assert (Hone_new : forall x, In x cs -> nth x (counts s) 0 = 1 -> ~ In x (g_ready_sent s)).
  { intros x Hxc Hone Hin.
    rewrite (sv_counts _ _ Hinv x (Hcslt x Hxc)), (sv_sent _ _ Hinv x Hin) in Hone. discriminate. }
  assert (Hsent_new : forall x, In x sent -> ~ In x (g_ready_sent s)).
  { intros x Hx. destruct (Hsent x Hx) as [Hxc Hone]. apply Hone_new; assumption. }
  split; [|split; [|split]].
  2:{ unfold dframe. rewrite F3. repeat split; try assumption. }
  2:{ intros _. rewrite F3, Hb. reflexivity. }
  2:{ discriminate. }
  destruct Hinv. constructor.
  - exact Hp'.
  - rewrite F1. assumption.
  - rewrite F3, Hcap. assumption.
  - destruct sv_ready as [rest [Hrs Hopen]]. exists (rest ++ sent). rewrite Hr', F4. split.
    + rewrite Hrs, app_assoc. reflexivity.
    + intros Hro. rewrite Hb''. rewrite (Hopen Hor). reflexivity.
  - exists (buf c). rewrite F5, F6, Hdone, <- app_assoc. split; [reflexivity|]. intros _. rewrite F3. reflexivity.
  - rewrite Hr'. apply NoDup_app_intro; [assumption | exact Hsnd |].
    intros x Hx Hx'. exact (Hsent_new x Hx' Hx).
  - intros x Hx. rewrite Hr' in Hx. apply in_app_or in Hx. destruct Hx as [Hx|Hx].
    + apply sv_rs_lt. exact Hx.
    + apply Hcslt. apply (Hsent x Hx).
  - rewrite F5. assumption.
  - rewrite F5, F9. assumption.
  - rewrite Hl'. assumption.
  - intros x Hx. rewrite F6. apply Hcount'. exact Hx.
  - intros x Hx. rewrite F6. rewrite Hr' in Hx. apply in_app_or in Hx. destruct Hx as [Hx|Hx].
    + rewrite unproc_snoc, (sv_sent x Hx). reflexivity.
    + destruct (Hsent x Hx) as [Hxc Hone].
      pose proof (Hcount' x (Hcslt x Hxc)) as Hc'. rewrite Hn' in Hc'.
      apply mem_spec in Hxc. rewrite Hxc, Hone in Hc'. simpl in Hc'.
      destruct (unproc (sc_es sc) (g_qproc s ++ [id]) x); [reflexivity | discriminate].
  - rewrite F8. assumption.
  - rewrite F8. assumption.
  - rewrite F9, F4. assumption.
  - rewrite X3, F9. assumption.
  - intros x. rewrite F9, F8. apply sv_split.
  - intros x. rewrite F9, F8. apply sv_disj.
  - rewrite F9. assumption.
  - rewrite F12, F9. assumption.
  - rewrite F2, F15. assumption.
  - rewrite F3, Ho, F15. assumption.
  - rewrite X2, F15, F12. assumption.
  - rewrite X1, X2. assumption.
  - rewrite F3, Hs, X2, F8. assumption.
  - rewrite X4, X1. assumption.
  - (* sv_sent_all *)
    rewrite X1, F6. intros Hq x Hx Hnil.
    destruct (unproc (sc_es sc) (g_qproc s) x) as [|p l] eqn:Hux.
    + rewrite Hr'. apply in_or_app. left. apply sv_sent_all; assumption.
    + assert (Hnd : NoDup (unproc (sc_es sc) (g_qproc s) x)) by (apply unproc_NoDup; exact Hu).
      pose proof (filter_remove_len _ id Hnd) as Hlen. rewrite <- unproc_snoc, Hnil in Hlen. simpl in Hlen.
      destruct (mem id (unproc (sc_es sc) (g_qproc s) x)) eqn:Hm; [|rewrite Hux in Hlen; discriminate].
      apply mem_spec in Hm. apply unproc_In in Hm. destruct Hm as [He _]. apply Hcs in He.
      assert (Hone : nth x (counts s) 0 = 1).
      { rewrite (sv_counts x Hx). rewrite Hux in *. simpl in *. lia. }
      apply (q_children_all cs s1); try assumption.
      change (ready s1) with (ready s). change (counts s1) with (counts s).
      set (Fl := filter (fun c0 => nth c0 (counts s) 0 =? 1) cs).
      assert (HF : length (g_ready_sent s ++ Fl) <= sc_n sc).
      { apply NoDup_bounded_length.
        - apply NoDup_app_intro; [assumption | apply NoDup_filter; exact Hcsnd |].
          intros y Hy Hy'. apply filter_In in Hy'. destruct Hy' as [Hyc Hy1]. apply Nat.eqb_eq in Hy1.
          exact (Hone_new y Hyc Hy1 Hy).
        - intros y Hy. apply in_app_or in Hy. destruct Hy as [Hy|Hy]; [apply sv_rs_lt; exact Hy|].
          apply filter_In in Hy. apply Hcslt. tauto. }
      destruct sv_ready as [rest [Hrs Hopen]]. rewrite <- (Hopen Hor).
      rewrite Hrs, !app_length in HF. rewrite sv_cap_r. lia.
  - rewrite F15, F9, F5. assumption.
Qed.

Lemma sinv_drain sc : scfg_ok sc -> forall fuel s,
  SInv sc s -> s_alive s = true -> length (buf (done s)) < fuel ->
  SInv sc (st_drain fuel sc s) /\ dframe s (st_drain fuel sc s) /\ buf (done (st_drain fuel sc s)) = [] /\
  (s_tx s = true -> rx_waker (done (st_drain fuel sc s)) = true).
Proof.
  intros Hok. induction fuel as [|f IH]; intros s Hinv Hal Hlen; [lia|].
  simpl. destruct (sinv_drain_one sc s Hok Hinv Hal) as (A & B & C & D).
  destruct (st_drain_one sc s) as [s' cont]. simpl in *. destruct cont.
  - pose proof B as (B1 & B2 & _).
    destruct (IH s' A) as (A' & B' & C' & D'); [congruence | specialize (C eq_refl); lia |].
    split; [exact A'|]. split; [eapply dframe_trans; eassumption|]. split; [exact C'|].
    intros Ht. apply D'. congruence.
  - destruct (D eq_refl) as [D1 D2]. split; [exact A|]. split; [exact B|]. split; [exact D1|].
    intros Ht. apply D2. rewrite (sv_senders_d _ _ Hinv), Ht. simpl. lia.
Qed.

(** The first half of [st_inner]. *)
Definition st_pre (sc : scfg) (s : state) : state :=
  if sc_drain sc then st_drain (sc_n sc + 2) sc s else fst (st_drain_one sc s).

Lemma sinv_pre sc s :
  scfg_ok sc -> SInv sc s -> s_alive s = true ->
  SInv sc (st_pre sc s) /\ dframe s (st_pre sc s) /\
  (sc_drain sc = true -> buf (done (st_pre sc s)) = [] /\ (s_tx s = true -> rx_waker (done (st_pre sc s)) = true)).
Proof.
  intros Hok Hinv Hal. unfold st_pre. destruct (sc_drain sc).
  - destruct (sinv_drain sc Hok (sc_n sc + 2) s Hinv Hal) as (A & B & C & D).
    { pose proof (SInv_done_buf_len _ _ Hinv Hal). lia. }
    split; [exact A|]. split; [exact B|]. intros _. split; assumption.
  - destruct (sinv_drain_one sc s Hok Hinv Hal) as (A & B & _). split; [exact A|]. split; [exact B|]. discriminate.
Qed.

(** ** The stream lets go of its senders *)

Definition rframe (s s' : state) : Prop :=
  panic s' = panic s /\ cap (ready s') = cap (ready s) /\ buf (ready s') = buf (ready s) /\
  rx_open (ready s') = rx_open (ready s) /\
  cap (done s') = cap (done s) /\ buf (done s') = buf (done s) /\ rx_open (done s') = rx_open (done s) /\
  g_ready_sent s' = g_ready_sent s /\ g_received s' = g_received s /\ g_done_sent s' = g_done_sent s /\
  g_qproc s' = g_qproc s /\ counts s' = counts s /\ members s' = members s /\ trace s' = trace s /\
  processed s' = processed s /\ s_rem s' = s_rem s /\ s_alive s' = s_alive s.

Lemma rframe_refl s : rframe s s.
Proof. repeat split. Qed.

Lemma drop_sender_senders c : senders (fst (drop_sender c)) = senders c - 1.
Proof. unfold drop_sender. destruct (senders c) as [|[|k]] eqn:E; simpl; lia. Qed.

Lemma take_s_tx_spec s :
  rframe s (take_s_tx s) /\ s_tx (take_s_tx s) = false /\ q_tx (take_s_tx s) = q_tx s /\
  ready (take_s_tx s) = ready s /\
  senders (done (take_s_tx s)) = senders (done s) - (if s_tx s then 1 else 0).
Proof.
  unfold take_s_tx. destruct (s_tx s) eqn:Ht.
  - pose proof (drop_sender_buf (done s)). pose proof (drop_sender_cap (done s)).
    pose proof (drop_sender_rx_open (done s)). pose proof (drop_sender_senders (done s)).
    destruct (drop_sender (done s)) as [c wk]. unfold rframe. simpl in *. repeat split; assumption.
  - unfold rframe. repeat split; try assumption. lia.
Qed.

Lemma drop_ready_tx_spec s :
  rframe s (drop_ready_tx s) /\ q_tx (drop_ready_tx s) = false /\ s_tx (drop_ready_tx s) = s_tx s /\
  done (drop_ready_tx s) = done s /\
  senders (ready (drop_ready_tx s)) = senders (ready s) - (if q_tx s then 1 else 0).
Proof.
  unfold drop_ready_tx. destruct (q_tx s) eqn:Ht.
  - pose proof (drop_sender_buf (ready s)). pose proof (drop_sender_cap (ready s)).
    pose proof (drop_sender_rx_open (ready s)). pose proof (drop_sender_senders (ready s)).
    destruct (drop_sender (ready s)) as [c wk]. unfold rframe. simpl in *. repeat split; assumption.
  - unfold rframe. repeat split; try assumption. lia.
Qed.

Lemma release_spec s :
  rframe s (drop_ready_tx (take_s_tx s)) /\
  s_tx (drop_ready_tx (take_s_tx s)) = false /\ q_tx (drop_ready_tx (take_s_tx s)) = false /\
  senders (done (drop_ready_tx (take_s_tx s))) = senders (done s) - (if s_tx s then 1 else 0) /\
  senders (ready (drop_ready_tx (take_s_tx s))) = senders (ready s) - (if q_tx s then 1 else 0).
Proof.
  destruct (take_s_tx_spec s) as (A & A1 & A2 & A3 & A4).
  destruct (drop_ready_tx_spec (take_s_tx s)) as (B & B1 & B2 & B3 & B4).
  destruct A as (E1 & E2 & E3 & E4 & E5 & E6 & E7 & E8 & E9 & E10 & E11 & E12 & E13 & E14 & E15 & E16 & E17).
  destruct B as (F1 & F2 & F3 & F4 & F5 & F6 & F7 & F8 & F9 & F10 & F11 & F12 & F13 & F14 & F15 & F16 & F17).
  unfold rframe. repeat split; try congruence.
  rewrite B4, A3, A2. reflexivity.
Qed.

(** ** Yielding a function *)

Definition st_yield (s : state) (id : nat) : state :=
  let s := clone_done_tx s in
  let s := s <| members := members s ++ [mkMem id (Some id) false MWait] |>
             <| trace := trace s ++ [Start id] |> <| processed := processed s ++ [id] |> in
  let s := match s_rem s with 0 => set_panic PSRem s | S r => s <| s_rem := r |> end in
  if s_rem s =? 0 then drop_ready_tx (take_s_tx s) else s.

(** The second half of [st_inner]. *)
Definition st_tail (s : state) : state * rres :=
  if s_tx s then
    let '(s, r) := inner_poll s in
    match r with
    | RSome id => (st_yield s id, r)
    | _ => (s, r)
    end
  else (s, RNone).

Lemma st_inner_eq sc s : st_inner sc s = st_tail (st_pre sc s).
Proof. reflexivity. Qed.

Lemma sinv_yield sc s c id :
  scfg_ok sc -> SInv sc s -> s_alive s = true -> s_tx s = true -> poll_recv (ready s) = (c, RSome id) ->
  SInv sc (st_yield (s <| ready := c |> <| g_received := g_received s ++ [id] |>) id).
Proof.
  intros [Hw Hcounts] Hinv Hal Htx Hpr.
  destruct (poll_recv_some _ _ _ Hpr) as [Hb [Hcap [Ho Hs]]].
  assert (Hor : rx_open (ready s) = true) by (rewrite (sv_alive_r _ _ Hinv); exact Hal).
  pose proof (sv_stx _ _ Hinv) as Hstx. rewrite Htx, Hal in Hstx. simpl in Hstx.
  destruct (s_rem s) as [|r] eqn:Hrem; [discriminate|].
  unfold st_yield, clone_done_tx. simpl. rewrite Hrem. simpl.
  match goal with |- SInv _ (if _ then drop_ready_tx (take_s_tx ?x) else _) => set (s2 := x) end.
  set (s3 := if r =? 0 then drop_ready_tx (take_s_tx s2) else s2).
  assert (M : members s2 = members s ++ [mkMem id (Some id) false MWait]) by reflexivity.
  assert (Hwi : wait_ids (members s2) = wait_ids (members s) ++ [id]) by (rewrite M, wait_ids_app; reflexivity).
  assert (HT : trace s2 = trace s ++ [Start id]) by reflexivity.
  assert (HP : processed s2 = processed s ++ [id]) by reflexivity.
  assert (HR : g_received s2 = g_received s ++ [id]) by reflexivity.
  assert (Hqtx : q_tx s = true) by (rewrite (sv_qtx _ _ Hinv); exact Htx).
  assert (Hfacts : rframe s2 s3 /\ s_tx s3 = negb (r =? 0) /\ q_tx s3 = negb (r =? 0) /\
                   senders (done s3) = (if negb (r =? 0) then 1 else 0) + S (length (wait_ids (members s))) /\
                   senders (ready s3) = (if negb (r =? 0) then 1 else 0)).
  { pose proof (sv_senders_d _ _ Hinv) as Hsd. rewrite Htx in Hsd.
    pose proof (sv_senders_r _ _ Hinv) as Hsr. rewrite Hqtx in Hsr.
    unfold s3. destruct (r =? 0).
    - destruct (release_spec s2) as (A & A1 & A2 & A3 & A4). split; [exact A|].
      change (senders (done s2)) with (S (senders (done s))) in A3. change (s_tx s2) with (s_tx s) in A3.
      change (senders (ready s2)) with (senders c) in A4. change (q_tx s2) with (q_tx s) in A4.
      rewrite Htx in A3. rewrite Hqtx, Hs in A4. simpl. repeat split; try assumption; lia.
    - split; [apply rframe_refl|]. simpl. repeat split; try assumption. lia. congruence. }
  destruct Hfacts as (R & T3 & Q3 & D3 & Rd3).
  destruct R as (E1 & E2 & E3 & E4 & E5 & E6 & E7 & E8 & E9 & E10 & E11 & E12 & E13 & E14 & E15 & E16 & E17).
  change (panic s2) with (panic s) in E1. change (cap (ready s2)) with (cap c) in E2.
  change (buf (ready s2)) with (buf c) in E3. change (rx_open (ready s2)) with (rx_open c) in E4.
  change (cap (done s2)) with (cap (done s)) in E5. change (buf (done s2)) with (buf (done s)) in E6.
  change (rx_open (done s2)) with (rx_open (done s)) in E7. change (g_ready_sent s2) with (g_ready_sent s) in E8.
  change (g_done_sent s2) with (g_done_sent s) in E10. change (g_qproc s2) with (g_qproc s) in E11.
  change (counts s2) with (counts s) in E12. change (s_rem s2) with r in E16. change (s_alive s2) with (s_alive s) in E17.
  rewrite HR in E9. rewrite M in E13. rewrite HT in E14. rewrite HP in E15.
  assert (Hwi3 : wait_ids (members s3) = wait_ids (members s) ++ [id]) by (rewrite E13, wait_ids_app; reflexivity).
  clearbody s3. clear s2 M Hwi HT HP HR.
  destruct (sv_ready _ _ Hinv) as [rest [Hrs Hrest]]. specialize (Hrest Hor). subst rest. rewrite Hb in Hrs.
  assert (Hfresh : ~ In id (g_received s)).
  { pose proof (sv_rs_nodup _ _ Hinv) as Hnd. rewrite Hrs in Hnd. apply NoDup_remove_2 in Hnd.
    intros Hin. apply Hnd. apply in_or_app. left. exact Hin. }
  assert (Hfresh_s : ~ In id (starts (trace s))) by (rewrite (sv_started _ _ Hinv); exact Hfresh).
  assert (Hidrs : In id (g_ready_sent s)) by (rewrite Hrs; apply in_or_app; right; left; reflexivity).
  destruct Hinv. constructor.
  - rewrite E1. assumption.
  - rewrite E2, Hcap. assumption.
  - rewrite E5. assumption.
  - exists (buf c). rewrite E8, E9, Hrs, <- app_assoc. split; [reflexivity|]. intros _. rewrite E3. reflexivity.
  - rewrite E10, E11, E7, E6. assumption.
  - rewrite E8. assumption.
  - rewrite E8. assumption.
  - rewrite E10. assumption.
  - rewrite E10, E14, ends_snoc_start. assumption.
  - rewrite E12. assumption.
  - rewrite E12, E11. assumption.
  - rewrite E8, E11. assumption.
  - intros m Hm. rewrite E13 in Hm. apply in_app_or in Hm. destruct Hm as [Hm|[<-|[]]]; [apply sv_members; exact Hm|].
    split; reflexivity.
  - rewrite Hwi3. apply NoDup_app_intro; [assumption | constructor; [intros [] | constructor] |].
    intros x Hx [<-|[]]. apply Hfresh_s. apply sv_split. right. exact Hx.
  - rewrite E14, E9, starts_snoc_start, sv_started. reflexivity.
  - rewrite E15, E14, starts_snoc_start, sv_processed. reflexivity.
  - intros x. rewrite E14, Hwi3, starts_snoc_start, ends_snoc_start. rewrite !in_app_iff, sv_split. tauto.
  - intros x. rewrite E14, Hwi3, ends_snoc_start. intros Hx Hin. apply in_app_or in Hin. destruct Hin as [Hin|[<-|[]]].
    + exact (sv_disj x Hx Hin).
    + apply Hfresh_s. apply sv_split. left. exact Hx.
  - rewrite E14. apply trace_ok_snoc_start; [assumption | | exact Hfresh_s].
    intros p Hp. apply sv_ds_ended. destruct sv_done as [rest [Hds _]]. rewrite Hds. apply in_or_app. left.
    pose proof (sv_sent id Hidrs) as Hnil. rewrite unproc_nil in Hnil. apply Hnil. exact Hp.
  - rewrite E16, E14, starts_snoc_start, app_length. simpl. lia.
  - rewrite E4, E17, Ho. assumption.
  - rewrite E7, E17. assumption.
  - rewrite T3, E17, E16, Hal. reflexivity.
  - rewrite Q3, T3. reflexivity.
  - rewrite D3, T3, Hwi3, app_length. simpl. lia.
  - rewrite Rd3, Q3. reflexivity.
  - rewrite Q3, E11, E8. intros Hq. apply sv_sent_all. exact Hqtx.
  - rewrite E17, E14, E10, ends_snoc_start. assumption.
Qed.

Lemma sinv_tail sc s :
  scfg_ok sc -> SInv sc s -> s_alive s = true -> SInv sc (fst (st_tail s)).
Proof.
  intros Hok Hinv Hal. unfold st_tail. destruct (s_tx s) eqn:Htx; [|exact Hinv].
  unfold inner_poll. destruct (poll_recv (ready s)) as [c r] eqn:Hpr. destruct r as [| |id].
  - destruct (poll_recv_other _ _ _ Hpr ltac:(discriminate)) as [Hb [Hb' [Hcap [Ho Hs]]]].
    simpl. eapply SInv_score; [|exact Hinv]. unfold score. simpl. repeat split; congruence.
  - destruct (poll_recv_other _ _ _ Hpr ltac:(discriminate)) as [Hb [Hb' [Hcap [Ho Hs]]]].
    simpl. eapply SInv_score; [|exact Hinv]. unfold score. simpl. repeat split; congruence.
  - simpl fst. eapply sinv_yield; eassumption.
Qed.

Lemma st_tail_none sc s : SInv sc s -> (snd (st_tail s) = RNone <-> s_tx s = false).
Proof.
  intros Hinv. unfold st_tail. destruct (s_tx s) eqn:Htx; [|simpl; tauto].
  unfold inner_poll. destruct (poll_recv (ready s)) as [c r] eqn:Hpr. destruct r as [| |id]; simpl.
  - split; discriminate.
  - exfalso. unfold poll_recv in Hpr. destruct (buf (ready s)); [|discriminate].
    rewrite (sv_senders_r _ _ Hinv), (sv_qtx _ _ Hinv), Htx in Hpr. simpl in Hpr. discriminate.
  - split; discriminate.
Qed.

Lemma st_tail_pending s :
  snd (st_tail s) = RPending ->
  buf (ready (fst (st_tail s))) = [] /\ done (fst (st_tail s)) = done s /\ s_tx (fst (st_tail s)) = true /\ s_tx s = true.
Proof.
  unfold st_tail. destruct (s_tx s) eqn:Htx; [|discriminate].
  unfold inner_poll. destruct (poll_recv (ready s)) as [c r] eqn:Hpr. destruct r as [| |id]; simpl; try discriminate.
  intros _. destruct (poll_recv_other _ _ _ Hpr ltac:(discriminate)) as [Hb [Hb' _]]. repeat split; assumption.
Qed.

Lemma sinv_inner sc s :
  scfg_ok sc -> SInv sc s -> s_alive s = true -> SInv sc (fst (st_inner sc s)).
Proof.
  intros Hok Hinv Hal. rewrite st_inner_eq. destruct (sinv_pre sc s Hok Hinv Hal) as (A & B & _).
  apply sinv_tail; [exact Hok | exact A|]. destruct B as (B1 & _). congruence.
Qed.

(** ** The interruptible wrapper only touches [w] and [ipend] around at most one inner poll *)

Lemma wrapper_gen_pres (P Q : state -> Prop) st inner s :
  (forall s w', P s -> P (s <| w := w' |>)) -> (forall s ip, P s -> P (s <| ipend := ip |>)) ->
  (forall s w', Q s -> Q (s <| w := w' |>)) ->
  (forall s, P s -> Q s) -> (forall s, P s -> Q (fst (inner s))) ->
  P s -> Q (fst (wrapper_poll_gen st inner s)).
Proof.
  intros Pw Pi Qw PQ Hin HP. unfold wrapper_poll_gen.
  destruct (w_ian (w s)); [apply PQ; exact HP|].
  destruct (interrupt_check st (w s) (ipend s)) as [w1 ip].
  assert (HP1 : P (s <| w := w1 |> <| ipend := ip |>)) by (apply Pi, Pw, HP).
  pose proof (Hin _ HP1) as HQ.
  destruct (w_hp w1).
  - destruct (inner (s <| w := w1 |> <| ipend := ip |>)) as [s1 r]. simpl in HQ.
    destruct r; try destruct (w_sig w1); simpl; unfold w_notify, w_reset; try apply Qw; exact HQ.
  - destruct (w_sig w1).
    + simpl. unfold w_notify. apply Qw. apply PQ. exact HP1.
    + destruct (inner (s <| w := w1 |> <| ipend := ip |>)) as [s1 r]. simpl in HQ.
      destruct r; simpl; unfold w_reset; try apply Qw; exact HQ.
Qed.

(** ** Dropping a FnRef *)

Lemma wait_ids_keys ms :
  (forall m, In m ms -> m_st m = MWait /\ m_id m = Some (m_key m)) ->
  forall k, wait_ids (filter (fun m => negb (m_key m =? k)) ms) = filter (fun x => negb (x =? k)) (wait_ids ms).
Proof.
  induction ms as [|m ms IH]; intros H k; [reflexivity|].
  destruct (H m (or_introl eq_refl)) as [Hst Hid].
  assert (Hw : forall l, wait_ids (m :: l) = m_key m :: wait_ids l).
  { intros l. unfold wait_ids. simpl. rewrite Hst, Hid. reflexivity. }
  rewrite Hw. cbn [filter]. destruct (negb (m_key m =? k)).
  - rewrite Hw. f_equal. apply IH. intros m' Hm'. apply H. right. exact Hm'.
  - apply IH. intros m' Hm'. apply H. right. exact Hm'.
Qed.

Lemma filter_neq_In (l : list nat) k x : In x (filter (fun y => negb (y =? k)) l) <-> In x l /\ x <> k.
Proof.
  rewrite filter_In, negb_true_iff, Nat.eqb_neq. tauto.
Qed.

Definition st_drop (s : state) (i : nat) : state :=
  let s := remove_member s i in
  let s := s <| trace := trace s ++ [End i true] |> in
  let s := match try_send (done s) i with
           | (c, SOk, wk) => s <| done := c |> <| woken := woken s || wk |> <| g_done_sent := g_done_sent s ++ [i] |>
           | _ => s
           end in
  let '(c, wk) := drop_sender (done s) in
  s <| done := c |> <| woken := woken s || wk |>.

Lemma SInv_held_fresh sc s i : SInv sc s -> In i (wait_ids (members s)) -> ~ In i (g_done_sent s).
Proof. intros H Hi Hin. apply (sv_disj _ _ H i); [apply (sv_ds_ended _ _ H); exact Hin | exact Hi]. Qed.

Lemma SInv_held_lt sc s i : SInv sc s -> In i (wait_ids (members s)) -> i < sc_n sc.
Proof. intros H Hi. apply (SInv_starts_lt _ _ H). apply (SInv_wait_started _ _ H). exact Hi. Qed.

Lemma SInv_ds_snoc sc s i :
  SInv sc s -> In i (wait_ids (members s)) -> NoDup (g_done_sent s ++ [i]) /\ length (g_done_sent s ++ [i]) <= sc_n sc.
Proof.
  intros H Hi.
  assert (Hnd : NoDup (g_done_sent s ++ [i])).
  { apply NoDup_app_intro; [apply (sv_ds_nodup _ _ H) | constructor; [intros [] | constructor] |].
    intros x Hx [<-|[]]. exact (SInv_held_fresh _ _ _ H Hi Hx). }
  split; [exact Hnd|]. apply NoDup_bounded_length; [exact Hnd|].
  intros x Hx. apply in_app_or in Hx. destruct Hx as [Hx|[<-|[]]]; [apply (SInv_ds_lt _ _ H); exact Hx | apply (SInv_held_lt _ _ _ H Hi)].
Qed.

(** The done channel has room for the notification of a FnRef that is still held. *)
Lemma SInv_done_room sc s i :
  SInv sc s -> s_alive s = true -> In i (wait_ids (members s)) -> length (buf (done s)) < cap (done s).
Proof.
  intros H Hal Hi. destruct (SInv_ds_snoc _ _ _ H Hi) as [_ Hl]. rewrite app_length in Hl. simpl in Hl.
  destruct (sv_done _ _ H) as [rest [Heq Hrest]]. rewrite (sv_alive_d _ _ H) in Hrest. rewrite <- (Hrest Hal).
  rewrite Heq, app_length in Hl. rewrite (sv_cap_d _ _ H). lia.
Qed.

Lemma st_drop_spec sc s i :
  SInv sc s -> In i (wait_ids (members s)) ->
  panic (st_drop s i) = panic s /\ ready (st_drop s i) = ready s /\ g_ready_sent (st_drop s i) = g_ready_sent s /\
  g_received (st_drop s i) = g_received s /\ g_qproc (st_drop s i) = g_qproc s /\ counts (st_drop s i) = counts s /\
  processed (st_drop s i) = processed s /\ s_rem (st_drop s i) = s_rem s /\ s_alive (st_drop s i) = s_alive s /\
  s_tx (st_drop s i) = s_tx s /\ q_tx (st_drop s i) = q_tx s /\
  members (st_drop s i) = filter (fun m => negb (m_key m =? i)) (members s) /\
  trace (st_drop s i) = trace s ++ [End i true] /\
  cap (done (st_drop s i)) = cap (done s) /\ rx_open (done (st_drop s i)) = rx_open (done s) /\
  senders (done (st_drop s i)) = senders (done s) - 1 /\
  ((s_alive s = true /\ g_done_sent (st_drop s i) = g_done_sent s ++ [i] /\ buf (done (st_drop s i)) = buf (done s) ++ [i] /\
    woken (st_drop s i) = woken s || rx_waker (done s) || snd (drop_sender (fst (fst (try_send (done s) i))))) \/
   (s_alive s = false /\ g_done_sent (st_drop s i) = g_done_sent s /\ buf (done (st_drop s i)) = buf (done s))).
Proof.
  intros Hinv Hi. unfold st_drop, remove_member. simpl.
  destruct (try_send (done s) i) as [[c r] wk] eqn:Hts.
  assert (Hcase : r = SOk \/ r <> SOk) by (destruct r; [left; reflexivity | right; discriminate | right; discriminate]).
  destruct Hcase as [->|Hne].
  - destruct (try_send_ok _ _ _ _ Hts) as (Hb & Hc & Ho1 & Ho2 & Hs & Hl). simpl.
    assert (Hal : s_alive s = true) by (rewrite <- (sv_alive_d _ _ Hinv); exact Ho2).
    assert (Hwk : wk = rx_waker (done s)).
    { unfold try_send in Hts. rewrite Ho2 in Hts. simpl in Hts. destruct (cap (done s) <=? length (buf (done s))); [discriminate|].
      inversion Hts. reflexivity. }
    pose proof (drop_sender_buf c). pose proof (drop_sender_cap c). pose proof (drop_sender_rx_open c).
    pose proof (drop_sender_senders c).
    destruct (drop_sender c) as [c0 wk0]. simpl in *.
    repeat split; try congruence. left. repeat split; try congruence.
  - pose proof (try_send_not_ok _ _ _ _ _ Hts Hne) as ->.
    assert (Hal : s_alive s = false).
    { destruct (s_alive s) eqn:Hal; [|reflexivity]. exfalso.
      destruct (try_send_succeeds (done s) i) as [c' [wk' H']];
        [rewrite (sv_alive_d _ _ Hinv); exact Hal | apply (SInv_done_room _ _ _ Hinv Hal Hi) |]. congruence. }
    destruct r; [contradiction| |];
      (pose proof (drop_sender_buf (done s)); pose proof (drop_sender_cap (done s)); pose proof (drop_sender_rx_open (done s));
       pose proof (drop_sender_senders (done s));
       simpl; destruct (drop_sender (done s)) as [c0 wk0]; simpl in *;
       repeat split; try congruence; right; repeat split; congruence).
Qed.

Lemma sinv_drop sc s i :
  scfg_ok sc -> SInv sc s -> In i (wait_ids (members s)) -> SInv sc (st_drop s i).
Proof.
  intros Hok Hinv Hi.
  destruct (st_drop_spec sc s i Hinv Hi) as
    (E1 & E2 & E3 & E4 & E5 & E6 & E7 & E8 & E9 & E10 & E11 & M & T & D1 & D2 & D3 & Hcase).
  set (s' := st_drop s i) in *. clearbody s'.
  assert (Hw' : wait_ids (members s') = filter (fun x => negb (x =? i)) (wait_ids (members s))).
  { rewrite M. apply wait_ids_keys. apply (sv_members _ _ Hinv). }
  assert (Hwlen : length (wait_ids (members s')) = length (wait_ids (members s)) - 1 /\ 1 <= length (wait_ids (members s))).
  { rewrite Hw', filter_remove_len by apply (sv_wait_nodup _ _ Hinv).
    pose proof Hi as Hm. apply mem_spec in Hm. rewrite Hm. split; [reflexivity|].
    destruct (wait_ids (members s)); [destruct Hi | simpl; lia]. }
  destruct (SInv_ds_snoc _ _ _ Hinv Hi) as [Hnd _].
  pose proof (SInv_held_fresh _ _ _ Hinv Hi) as Hfresh.
  assert (Hds_sub : forall x, In x (g_done_sent s') -> In x (g_done_sent s ++ [i])).
  { intros x Hx. destruct Hcase as [(_ & G & _)|(_ & G & _)]; rewrite G in Hx; [exact Hx | apply in_or_app; left; exact Hx]. }
  destruct Hinv. constructor.
  - rewrite E1. assumption.
  - rewrite E2. assumption.
  - rewrite D1. assumption.
  - rewrite E2, E3, E4. assumption.
  - destruct sv_done as [rest [Hds Hrest]].
    destruct Hcase as [(Hal & G & B & _)|(Hal & G & B)].
    + exists (rest ++ [i]). rewrite G, E5, Hds, app_assoc. split; [reflexivity|]. intros Ho. rewrite D2 in Ho.
      rewrite B, (Hrest Ho). reflexivity.
    + exists rest. rewrite G, E5, D2, B. split; assumption.
  - rewrite E3. assumption.
  - rewrite E3. assumption.
  - destruct Hcase as [(_ & G & _)|(_ & G & _)]; rewrite G; assumption.
  - intros x Hx. rewrite T, ends_snoc_end. apply Hds_sub in Hx. apply in_app_or in Hx. apply in_or_app.
    destruct Hx as [Hx|Hx]; [left; apply sv_ds_ended; exact Hx | right; exact Hx].
  - rewrite E6. assumption.
  - rewrite E6, E5. assumption.
  - rewrite E3, E5. assumption.
  - intros m Hm. rewrite M in Hm. apply filter_In in Hm. apply sv_members. tauto.
  - rewrite Hw'. apply NoDup_filter. assumption.
  - rewrite T, starts_snoc_end, E4. assumption.
  - rewrite E7, T, starts_snoc_end. assumption.
  - intros x. rewrite T, starts_snoc_end, ends_snoc_end, Hw', in_app_iff, filter_neq_In, sv_split. simpl.
    destruct (Nat.eq_dec x i) as [->|Hne]; [|intuition congruence].
    split; [intros _; left; right; left; reflexivity|]. intros _. right. exact Hi.
  - intros x. rewrite T, ends_snoc_end, Hw', filter_neq_In. intros Hx [Hin Hne]. apply in_app_or in Hx.
    destruct Hx as [Hx|[Hx|[]]]; [exact (sv_disj x Hx Hin) | congruence].
  - rewrite T. apply trace_ok_snoc_end; [assumption | apply sv_split; right; exact Hi |].
    intros Hx. exact (sv_disj i Hx Hi).
  - rewrite E8, T, starts_snoc_end. assumption.
  - rewrite E2, E9. assumption.
  - rewrite D2, E9. assumption.
  - rewrite E10, E9, E8. assumption.
  - rewrite E11, E10. assumption.
  - rewrite D3, E10, sv_senders_d. destruct Hwlen as [-> Hge]. destruct (s_tx s); simpl; lia.
  - rewrite E2, E11. assumption.
  - rewrite E11, E5, E3. assumption.
  - rewrite E9, T, ends_snoc_end. intros Hal x Hx.
    destruct Hcase as [(_ & G & _)|(Hal' & _)]; [|congruence]. rewrite G. apply in_app_or in Hx. apply in_or_app.
    destruct Hx as [Hx|Hx]; [left; apply sv_ends_sent; assumption | right; exact Hx].
Qed.

(** ** Dropping the stream *)

Definition st_drop_stream (s : state) : state :=
  let s := drop_ready_tx (take_s_tx s) in
  s <| ready := drop_rx (ready s) |> <| done := drop_rx (done s) |> <| s_alive := false |>.

Lemma sinv_drop_stream sc s : SInv sc s -> SInv sc (st_drop_stream s).
Proof.
  intros Hinv. unfold st_drop_stream.
  destruct (release_spec s) as (R & T & Q & D & Rd).
  set (s1 := drop_ready_tx (take_s_tx s)) in *. clearbody s1.
  destruct R as (E1 & E2 & E3 & E4 & E5 & E6 & E7 & E8 & E9 & E10 & E11 & E12 & E13 & E14 & E15 & E16 & E17).
  unfold drop_rx. destruct Hinv. constructor; simpl.
  - rewrite E1. assumption.
  - rewrite E2. assumption.
  - rewrite E5. assumption.
  - destruct sv_ready as [rest [Hrs _]]. exists rest. rewrite E8, E9. split; [exact Hrs | discriminate].
  - destruct sv_done as [rest [Hds _]]. exists rest. rewrite E10, E11. split; [exact Hds | discriminate].
  - rewrite E8. assumption.
  - rewrite E8. assumption.
  - rewrite E10. assumption.
  - rewrite E10, E14. assumption.
  - rewrite E12. assumption.
  - rewrite E12, E11. assumption.
  - rewrite E8, E11. assumption.
  - rewrite E13. assumption.
  - rewrite E13. assumption.
  - rewrite E14, E9. assumption.
  - rewrite E15, E14. assumption.
  - rewrite E14, E13. assumption.
  - rewrite E14, E13. assumption.
  - rewrite E14. assumption.
  - rewrite E16, E14. assumption.
  - reflexivity.
  - reflexivity.
  - exact T.
  - rewrite Q, T. reflexivity.
  - rewrite D, T, E13, sv_senders_d. destruct (s_tx s); simpl; lia.
  - rewrite Rd, Q, sv_senders_r. destruct (q_tx s); reflexivity.
  - rewrite Q. discriminate.
  - discriminate.
Qed.

(** ** One event, a run *)

Lemma sstep_drop_eq sc s i : fst (sstep sc s (SDrop i)) = if is_held s i then st_drop s i else s.
Proof.
  unfold sstep, st_drop. destruct (is_held s i); [|reflexivity]. cbv zeta.
  match goal with |- fst (let '(c, wk) := ?d in _) = _ => destruct d as [c wk] end. reflexivity.
Qed.

Theorem sinv_step sc s e : scfg_ok sc -> SInv sc s -> SInv sc (fst (sstep sc s e)).
Proof.
  intros Hok Hinv. destruct e as [|i| |].
  - (* SNext *)
    unfold sstep. destruct (s_alive s) eqn:Hal; simpl negb; cbv iota; [|exact Hinv].
    assert (H0 : SInv sc (s <| woken := false |>) /\ s_alive (s <| woken := false |>) = true).
    { split; [apply SInv_woken; exact Hinv | exact Hal]. }
    destruct (sc_interruptible sc).
    + apply (wrapper_gen_pres (fun s => SInv sc s /\ s_alive s = true) (SInv sc)); try exact H0.
      * intros s0 w' [A B]. split; [apply SInv_w; exact A | exact B].
      * intros s0 ip [A B]. split; [apply SInv_ipend; exact A | exact B].
      * intros s0 w' A. apply SInv_w. exact A.
      * intros s0 [A _]. exact A.
      * intros s0 [A B]. apply sinv_inner; assumption.
    + destruct H0 as [A B]. pose proof (sinv_inner sc _ Hok A B) as H.
      destruct (st_inner sc (s <| woken := false |>)) as [s1 r]. exact H.
  - (* SDrop *)
    rewrite sstep_drop_eq. destruct (is_held s i) eqn:Hh; [|exact Hinv].
    apply is_waiting_spec in Hh. apply sinv_drop; assumption.
  - (* SInt *) simpl. apply SInv_ipend. exact Hinv.
  - (* SDropStream *)
    unfold sstep. destruct (s_alive s); [|exact Hinv]. apply (sinv_drop_stream sc s Hinv).
Qed.

Lemma srun_snoc sc evs e : srun sc (evs ++ [e]) = fst (sstep sc (srun sc evs) e).
Proof. unfold srun. rewrite fold_left_app. reflexivity. Qed.

Theorem sinv_run sc evs : scfg_ok sc -> SInv sc (srun sc evs).
Proof.
  intros Hok. induction evs as [|e evs IH] using rev_ind.
  - apply sinv_init. exact Hok.
  - rewrite srun_snoc. apply sinv_step; assumption.
Qed.

Print Assumptions sinv_init.
Print Assumptions sinv_step.
Print Assumptions sinv_run.

(** ** Consequences *)

(** A poll that returns Pending on a live, non-interruptible stream leaves both channels empty and
    the done waker registered. *)
Lemma next_pending_quiet sc s s' :
  scfg_ok sc -> SInv sc s -> sc_interruptible sc = false -> sc_drain sc = true -> s_alive s = true ->
  sstep sc s SNext = (s', WPending) ->
  buf (done s') = [] /\ buf (ready s') = [] /\ rx_waker (done s') = true /\ s_tx s' = true.
Proof.
  intros Hok Hinv Hni Hdr Hal H. unfold sstep in H. rewrite Hal, Hni in H. simpl negb in H. cbv iota in H.
  rewrite st_inner_eq in H. set (s0 := s <| woken := false |>) in *.
  destruct (sinv_pre sc s0 Hok (SInv_woken _ _ _ Hinv) Hal) as (A & B & C).
  destruct (C Hdr) as [C1 C2]. destruct B as (_ & B2 & _).
  pose proof (st_tail_pending (st_pre sc s0)) as Hp.
  destruct (st_tail (st_pre sc s0)) as [s1 r]. simpl in Hp.
  destruct r; inversion H; subst. destruct (Hp eq_refl) as (P1 & P2 & P3 & P4).
  rewrite P2. split; [exact C1|]. split; [exact P1|]. split; [|exact P3]. apply C2. congruence.
Qed.

(** None is returned exactly when every function has been yielded. *)
Lemma next_none_iff sc s s' r :
  scfg_ok sc -> SInv sc s -> sc_interruptible sc = false -> s_alive s = true ->
  sstep sc s SNext = (s', r) -> (r = WNone <-> length (starts (trace s)) = sc_n sc).
Proof.
  intros Hok Hinv Hni Hal H. unfold sstep in H. rewrite Hal, Hni in H. simpl negb in H. cbv iota in H.
  rewrite st_inner_eq in H. set (s0 := s <| woken := false |>) in *.
  destruct (sinv_pre sc s0 Hok (SInv_woken _ _ _ Hinv) Hal) as (A & B & _).
  destruct B as (_ & B2 & _). change (s_tx s0) with (s_tx s) in B2.
  pose proof (st_tail_none sc (st_pre sc s0) A) as Hn. rewrite B2 in Hn.
  destruct (st_tail (st_pre sc s0)) as [s1 r1]. simpl in Hn. inversion H; subst. clear H.
  assert (Hr : match r1 with RPending => WPending | RNone => WNone | RSome x => WItem x end = WNone <-> r1 = RNone).
  { destruct r1; split; try discriminate; reflexivity. }
  rewrite Hr, Hn, (sv_stx _ _ Hinv), Hal. pose proof (sv_srem _ _ Hinv) as Hs. simpl.
  destruct (s_rem s) as [|k]; simpl; split; intros; try discriminate; try reflexivity; lia.
Qed.

(** A FnRef dropped while the done waker is registered signals a wake-up. *)
Lemma drop_wakes sc s i :
  scfg_ok sc -> SInv sc s -> s_alive s = true -> rx_waker (done s) = true -> In i (wait_ids (members s)) ->
  woken (fst (sstep sc s (SDrop i))) = true.
Proof.
  intros Hok Hinv Hal Hwk Hi. rewrite sstep_drop_eq.
  pose proof Hi as Hh. apply is_waiting_spec in Hh. unfold is_held. rewrite Hh.
  destruct (st_drop_spec sc s i Hinv Hi) as (_ & _ & _ & _ & _ & _ & _ & _ & _ & _ & _ & _ & _ & _ & _ & _ & Hcase).
  destruct Hcase as [(_ & _ & _ & W)|(Hal' & _)]; [|congruence].
  rewrite W, Hwk, orb_true_r. reflexivity.
Qed.

Print Assumptions next_pending_quiet.
Print Assumptions next_none_iff.
Print Assumptions drop_wakes.
