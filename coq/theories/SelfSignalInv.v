(** * SelfSignalInv.v — the first invariant of the call machine also holds when a user future sends
    the interrupt signal inside a poll ([SelfSignal.run_sig], any signalling function): the signal
    only touches the pending-signal counter, which the invariant does not read.  Hence the safety
    properties that rest on it (no overlap of conflicting functions, dependency order, at most
    once, no panic site / no fuel exhaustion) are not affected by finding F4. *)
From FG Require Import Dag Builder Sched DagFacts EdgeFacts RankFacts BuilderFacts TopoFacts
     SchedInv SI_Queuer SI_Wrapper SI_Block SI_Init SI_Step SelfSignal.
From RecordUpdate Require Import RecordSet.
Import RecordSetNotations.
From Coq Require Import List Arith Lia Bool.
Import ListNotations.

Definition bump (b : bool) (s : state) : state := if b then s <| ipend := S (ipend s) |> else s.

Lemma Inv_bump cf b s : Inv cf s -> Inv cf (bump b s).
Proof. destruct b; [apply Inv_set_ipend | exact (fun H => H)]. Qed.

Lemma send_sig_bump sg id s mk : exists b mk', send_sig sg id (s, mk) = (bump b s, mk').
Proof.
  unfold send_sig. destruct sg as [j|]; [|exists false, mk; reflexivity].
  destruct (j =? id); [exists true, (Some (length (trace s))) | exists false, mk]; reflexivity.
Qed.

Lemma resume_block_sig_bump sg cf s mk m id : exists b mk',
  resume_block_sig sg cf (s, mk) m id = ((bump b (fst (resume_block cf s m id)), mk'), snd (resume_block cf s m id)).
Proof.
  unfold resume_block_sig. cbn [fst snd]. destruct (resume_block cf s m id) as [s' r]. cbn [fst snd].
  destruct r.
  - destruct (send_sig_bump sg id s' mk) as [b [mk' H]]. exists b, mk'. rewrite H. reflexivity.
  - exists false, mk. reflexivity.
Qed.

Lemma block_poll_sig_bump sg cf s mk m : exists b mk',
  block_poll_sig sg cf (s, mk) m = ((bump b (fst (block_poll cf s m)), mk'), snd (block_poll cf s m)).
Proof.
  unfold block_poll_sig, block_poll.
  destruct (m_st m), (m_id m) as [id|]; try (exists false, mk; reflexivity).
  - destruct (lookup id (c_imm cf)); [|exists false, mk; reflexivity]. apply resume_block_sig_bump.
  - apply resume_block_sig_bump.
Qed.

(** [bump] leaves alone everything the frame conditions of [inv_block_poll] and the potential read. *)
Lemma bump_runq b s : runq (bump b s) = runq s. Proof. destruct b; reflexivity. Qed.
Lemma bump_w b s : w (bump b s) = w s. Proof. destruct b; reflexivity. Qed.
Lemma bump_members b s : members (bump b s) = members s. Proof. destruct b; reflexivity. Qed.
Lemma bump_ready b s : ready (bump b s) = ready s. Proof. destruct b; reflexivity. Qed.
Lemma bump_s_fin b s : s_fin (bump b s) = s_fin s. Proof. destruct b; reflexivity. Qed.
Lemma bump_phi b s : phi (bump b s) = phi s. Proof. destruct b; reflexivity. Qed.

Lemma inv_runq_loop_sig sg cf : cfg_ok cf -> forall fuel s mk,
  Inv cf s -> length (runq s) < fuel ->
  Inv cf (fst (fst (runq_loop_sig sg fuel cf (s, mk)))) /\
  phi (fst (fst (runq_loop_sig sg fuel cf (s, mk)))) <= phi s /\
  (snd (runq_loop_sig sg fuel cf (s, mk)) = FReady -> phi (fst (fst (runq_loop_sig sg fuel cf (s, mk)))) < phi s).
Proof.
  intros Hok. induction fuel as [|f IH]; intros s mk Hinv Hlen; [lia|].
  cbn [runq_loop_sig fst snd]. destruct (runq s) as [|k rest] eqn:Hrq.
  - cbn [fst snd]. split; [exact Hinv|]. split; [lia|].
    destruct (is_nil (members s)); intros Hd; discriminate Hd.
  - set (s0 := s <| runq := rest |>).
    assert (Hinv0 : Inv cf s0) by (apply Inv_set_runq; exact Hinv).
    assert (Hphi0 : phi s0 = phi s) by reflexivity.
    assert (Hrd0 : ready s0 = ready s) by reflexivity.
    assert (Hmem0 : members s0 = members s) by reflexivity.
    assert (Hw0 : w s0 = w s) by reflexivity.
    destruct (find_member s0 k) as [m|] eqn:Hfm.
    + pose proof (inv_block_poll cf s0 m Hok Hinv0 (find_member_In _ _ _ Hfm)) as Hbp.
      destruct (block_poll_sig_bump sg cf s0 mk m) as [b [mk' Heq]]. rewrite Heq.
      destruct (block_poll cf s0 m) as [s1 rdy] eqn:Hbpe. cbn [fst snd] in *.
      destruct Hbp as (Hinv1 & Hrq1 & Hw1 & Hm1 & Hm1' & Hb1 & Hfin1 & Hrx1 & Hse1).
      rewrite ?Hrd0, ?Hmem0, ?Hw0 in *.
      assert (Hbufr : bufr s1 <= bufr s).
      { unfold bufr. destruct Hrx1 as [Hrx1|Hrx1]; rewrite Hrx1; [destruct (rx_open (ready s)); lia | lia]. }
      assert (Hphi1 : phi s1 <= phi s) by (unfold phi; rewrite Hw1; lia).
      destruct rdy.
      * cbn [fst snd]. split; [apply Inv_bump; exact Hinv1|]. rewrite bump_phi. split; [lia|].
        intros _. specialize (Hm1' eq_refl). unfold phi. rewrite Hw1. lia.
      * destruct (IH (bump b s1) mk' (Inv_bump cf b s1 Hinv1)) as (A1 & A2 & A3).
        { rewrite bump_runq, Hrq1. simpl. simpl in Hlen. lia. }
        rewrite bump_phi in A2, A3.
        split; [exact A1|]. split; [lia|]. intros Hr; specialize (A3 Hr); lia.
    + destruct (IH s0 mk Hinv0) as (A1 & A2 & A3).
      { simpl. simpl in Hlen. lia. }
      split; [exact A1|]. split; [lia|]. intros Hr; specialize (A3 Hr); lia.
Qed.

Lemma inv_conc_loop_sig sg cf : cfg_ok cf -> forall fuel s mk,
  Inv cf s -> phi s < fuel -> Inv cf (fst (conc_loop_sig sg fuel cf (s, mk))).
Proof.
  intros Hok. induction fuel as [|f IH]; intros s mk Hinv Hphi; [lia|].
  cbn [conc_loop_sig fst snd].
  destruct (inv_stream_step cf s Hinv) as (Hinv1 & Hfin1 & Hle1 & Hlt1).
  destruct (stream_step cf s) as [s1 prog]. cbn [fst snd] in *.
  destruct (inv_runq_loop_sig sg cf Hok (length (runq s1) + 1) s1 mk Hinv1 ltac:(lia)) as (Hinv2 & Hle2 & Hlt2).
  destruct (runq_loop_sig sg (length (runq s1) + 1) cf (s1, mk)) as [[s2 mk2] fr]. cbn [fst snd] in *.
  destruct (s_fin s2); [exact Hinv2|].
  destruct fr.
  - apply IH; [exact Hinv2|]. specialize (Hlt2 eq_refl). lia.
  - destruct prog; [|exact Hinv2]. apply IH; [exact Hinv2|]. specialize (Hlt1 eq_refl). lia.
  - destruct (negb (s_alive s2)); [apply inv_sched_finish; exact Hinv2|].
    destruct prog; [|exact Hinv2]. apply IH; [exact Hinv2|]. specialize (Hlt1 eq_refl). lia.
Qed.

Lemma inv_poll_sig sg cf s mk : cfg_ok cf -> Inv cf s -> Inv cf (fst (poll_sig sg cf (s, mk))).
Proof.
  intros Hok Hinv. unfold poll_sig. destruct (result s); [exact Hinv|].
  set (s0 := s <| woken := false |>).
  assert (H0 : Inv cf s0) by (apply Inv_set_woken; exact Hinv).
  set (s1 := if q_fin s0 then s0 else q_loop (poll_fuel cf) cf s0).
  assert (H1 : Inv cf s1).
  { unfold s1. destruct (q_fin s0); [exact H0|]. apply inv_q_loop; [exact Hok | exact H0|].
    pose proof (Inv_done_buf_len _ _ H0). unfold poll_fuel. lia. }
  assert (H2 : Inv cf (fst (if s_fin s1 then (s1, mk) else conc_loop_sig sg (poll_fuel cf) cf (s1, mk)))).
  { destruct (s_fin s1); [exact H1|]. apply inv_conc_loop_sig; [exact Hok | exact H1|].
    pose proof (phi_bound _ _ H1). unfold poll_fuel. lia. }
  destruct (if s_fin s1 then (s1, mk) else conc_loop_sig sg (poll_fuel cf) cf (s1, mk)) as [s2 mk2].
  cbn [fst] in *. destruct (q_fin s2 && s_fin s2); [apply Inv_set_result; exact H2 | exact H2].
Qed.

Lemma inv_settle_sig sg cf : cfg_ok cf -> forall fuel s mk,
  Inv cf s -> Inv cf (fst (settle_sig sg fuel cf (s, mk))).
Proof.
  intros Hok. induction fuel as [|f IH]; intros s mk Hinv; [exact Hinv|].
  cbn [settle_sig fst]. destruct (woken s && is_none (result s) && is_none (panic s)); [|exact Hinv].
  pose proof (inv_poll_sig sg cf s mk Hok Hinv) as Hp.
  destruct (poll_sig sg cf (s, mk)) as [s' mk']. apply IH. exact Hp.
Qed.

Theorem inv_step_sig sg cf s mk e : cfg_ok cf -> Inv cf s -> Inv cf (fst (step_sig sg cf (s, mk) e)).
Proof.
  intros Hok Hinv. destruct e as [i ok| | |]; cbn [step_sig fst snd].
  - apply (inv_step cf s (ECmp i ok) Hok Hinv).
  - apply (inv_step cf s EInt Hok Hinv).
  - apply inv_poll_sig; assumption.
  - apply inv_settle_sig; assumption.
Qed.

Theorem inv_run_sig sg cf evs : cfg_ok cf -> Inv cf (fst (run_sig sg cf evs)).
Proof.
  intros Hok. unfold run_sig.
  assert (H : forall sm, Inv cf (fst sm) -> Inv cf (fst (fold_left (step_sig sg cf) evs sm))).
  { induction evs as [|e evs IH]; intros [s mk] Hs; [exact Hs|]. cbn [fold_left]. apply IH.
    apply inv_step_sig; assumption. }
  apply (H (init cf, None)). apply inv_init. exact Hok.
Qed.
