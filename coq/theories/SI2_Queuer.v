(** * SI2_Queuer.v — the second invariant [Inv2] holds initially and is preserved by the queuer *)
From FG Require Import Dag Builder Sched DagFacts EdgeFacts RankFacts BuilderFacts TopoFacts SchedInv SchedInv2 SI_Init SI_Queuer SI_Stream.
From RecordUpdate Require Import RecordSet.
Import RecordSetNotations.

(** ** The initial state *)

Theorem inv2_init cf : cfg_ok cf -> cfg_ok2 cf -> Inv2 cf (init cf).
Proof.
  intros [Hw Hcounts] Hrel. unfold cfg_ok2 in Hrel. unfold init.
  assert (Hpl_len : length (preload_ids cf) <= Nat.max 1 (c_n cf)).
  { unfold preload_ids. pose proof (filter_NoDup_len (fun i => nth i (c_counts cf) 0 =? 0) (topo (c_n cf) (c_es cf)) (c_n cf)
      (topo_NoDup _ _ Hw) (topo_incl _ _ Hw)). lia. }
  rewrite (preload_fold (preload_ids cf) (mkChan [] (Nat.max 1 (c_n cf)) 1 true false) []); [|reflexivity|exact Hpl_len].
  simpl app. rewrite Hrel, andb_true_r.
  assert (Hall : forall c, c < c_n cf -> parents (c_es cf) c = [] -> In c (preload_ids cf)).
  { intros c Hlt Hp. apply filter_In. split; [apply topo_complete; assumption|].
    apply Nat.eqb_eq. rewrite Hcounts. unfold incoming_counts. rewrite nth_map_seq by exact Hlt.
    rewrite count_parents, Hp. reflexivity. }
  destruct (c_n cf =? 0) eqn:Hn0;
    (constructor; simpl; try reflexivity; try (intros; contradiction); try constructor; try discriminate; try tauto).
  all: try solve [ intros _ T0 T1 H; destruct T0; [simpl; lia | discriminate] ].
  all: try solve [ apply Nat.eqb_eq in Hn0; auto ].
  all: try solve [ intros H; apply Nat.eqb_neq in Hn0; contradiction ].
  - intros _ x [].
  - intros _ _ c Hlt Hu. apply Hall; [exact Hlt|]. unfold unproc in Hu. rewrite filter_not_mem_nil in Hu. exact Hu.
Qed.

(** ** What the queuer never touches *)

Definition fr2 (s s' : state) : Prop :=
  runq s' = runq s /\ members s' = members s /\ trace s' = trace s /\ completed s' = completed s /\
  processed s' = processed s /\ errs s' = errs s /\ s_fin s' = s_fin s /\ s_err s' = s_err s /\
  result s' = result s /\ w s' = w s /\ s_tx s' = s_tx s /\ s_rem s' = s_rem s /\ s_alive s' = s_alive s /\
  g_finished s' = g_finished s /\ g_done_sent s' = g_done_sent s /\ senders (done s') = senders (done s).

Lemma fr2_refl s : fr2 s s.
Proof. repeat split. Qed.

Lemma fr2_trans a b c : fr2 a b -> fr2 b c -> fr2 a c.
Proof.
  intros (E1 & E2 & E3 & E4 & E5 & E6 & E7 & E8 & E9 & E10 & E11 & E12 & E13 & E14 & E15 & E16)
         (F1 & F2 & F3 & F4 & F5 & F6 & F7 & F8 & F9 & F10 & F11 & F12 & F13 & F14 & F15 & F16).
  unfold fr2. repeat split; congruence.
Qed.

(** The clauses of [Inv2] that only look at framed fields carry over; the remaining ones are the
    obligations. *)
Lemma Inv2_fr2 cf s s' :
  fr2 s s' -> Inv2 cf s -> q_fin s = false ->
  senders (ready s') = (if q_tx s' then 1 else 0) ->
  rx_open (done s') = negb (q_fin s') ->
  (q_tx s' = false -> q_rem s' = 0 \/ q_fin s' = true) ->
  (q_fin s' = true -> s_tx s = false) ->
  (q_tx s' = false \/ q_tx s' = q_tx s) ->
  (q_tx s' = true -> rx_open (ready s') = true ->
     forall v, v < c_n cf -> unproc (c_es cf) (g_qproc s') v = [] -> In v (g_ready_sent s')) ->
  Inv2 cf s'.
Proof.
  intros (E1 & E2 & E3 & E4 & E5 & E6 & E7 & E8 & E9 & E10 & E11 & E12 & E13 & E14 & E15 & E16) H Hqf A1 A2 A3 A4 A5 A6.
  assert (Hres : result s = None).
  { destruct (result s) as [o|] eqn:R; [|reflexivity]. destruct (x_result _ _ H _ R) as [Q _]. congruence. }
  destruct H. constructor;
    rewrite ?E1, ?E2, ?E3, ?E4, ?E5, ?E6, ?E7, ?E8, ?E9, ?E10, ?E11, ?E12, ?E13, ?E14, ?E15, ?E16; try assumption.
  - intros o Ho. congruence.
  - intros Ha. destruct (x_dead Ha) as [Hd|[Hd|Hd]]; auto. destruct A5 as [A5|A5]; [auto|]. right. left. congruence.
Qed.

(** ** Frames of the queuer's building blocks *)

Definition qfr (s s' : state) : Prop :=
  fr2 s s' /\ done s' = done s /\ q_fin s' = q_fin s /\ q_rem s' = q_rem s /\ g_qproc s' = g_qproc s /\
  rx_open (ready s') = rx_open (ready s) /\ cap (ready s') = cap (ready s).

Lemma qfr_refl s : qfr s s.
Proof. unfold qfr. split; [apply fr2_refl|]. repeat split. Qed.

Lemma qfr_trans a b c : qfr a b -> qfr b c -> qfr a c.
Proof.
  intros (E0 & E1 & E2 & E3 & E4 & E5 & E6) (F0 & F1 & F2 & F3 & F4 & F5 & F6).
  unfold qfr. split; [eapply fr2_trans; eassumption|]. repeat split; congruence.
Qed.

Lemma set_panic_qfr p s : qfr s (set_panic p s).
Proof. unfold set_panic. destruct (panic s); [apply qfr_refl|]. unfold qfr, fr2. simpl. repeat split. Qed.

Lemma q_child_qfr s c : qfr s (q_child s c).
Proof.
  unfold q_child. destruct (nth c (counts s) 0) as [|k]; [apply set_panic_qfr|].
  destruct ((k =? 0) && q_tx (s <| counts := set_nth c k (counts s) |>)); [|unfold qfr, fr2; simpl; repeat split].
  destruct (try_send (ready (s <| counts := set_nth c k (counts s) |>)) c) as [[ch r] wk] eqn:H.
  destruct r; try (unfold qfr, fr2; simpl; repeat split).
  all: apply try_send_ok in H; simpl in H; destruct H as (Hb & Hc & Ho1 & Ho2 & Hs & Hl); congruence.
Qed.

Lemma q_children_qfr cs : forall s, qfr s (fold_left q_child cs s).
Proof.
  induction cs as [|c cs IH]; intros s; simpl; [apply qfr_refl|].
  eapply qfr_trans; [apply q_child_qfr | apply IH].
Qed.

Lemma drop_ready_tx_qfr s :
  qfr s (drop_ready_tx s) /\ g_ready_sent (drop_ready_tx s) = g_ready_sent s /\
  q_tx (drop_ready_tx s) = false /\
  senders (ready (drop_ready_tx s)) = senders (ready s) - (if q_tx s then 1 else 0).
Proof.
  destruct (drop_ready_tx_spec s) as (_ & B1 & _ & _ & B4).
  split; [|split; [|split; assumption]].
  - unfold drop_ready_tx. destruct (q_tx s); [|apply qfr_refl].
    pose proof (drop_sender_rx_open (ready s)). pose proof (drop_sender_cap (ready s)).
    destruct (drop_sender (ready s)) as [c wk]. unfold qfr, fr2. simpl in *. repeat split; assumption.
  - unfold drop_ready_tx. destruct (q_tx s); [|reflexivity]. destruct (drop_sender (ready s)). reflexivity.
Qed.

(** ** One queuer step *)

Lemma q_step_stop cf s :
  snd (q_step cf s) = false ->
  q_fin (fst (q_step cf s)) = true \/
  (buf (done (fst (q_step cf s))) = [] /\ rx_waker (done (fst (q_step cf s))) = true).
Proof.
  unfold q_step. destruct (poll_recv (done s)) as [c r] eqn:Hrecv. destruct r as [| |id]; simpl; try discriminate; intros _.
  - right. unfold poll_recv in Hrecv. destruct (buf (done s)) eqn:Hb; [|discriminate].
    destruct (senders (done s) =? 0); [discriminate|]. inversion Hrecv; subst. simpl. split; [exact Hb | reflexivity].
  - left. destruct (drop_ready_tx_qfr (s <| done := drop_rx c |> <| q_fin := true |>)) as ((_ & _ & Q & _) & _).
    rewrite Q. reflexivity.
Qed.

Lemma inv2_q_step_fr cf s :
  cfg_ok cf -> Inv cf s -> Inv2 cf s -> q_fin s = false ->
  Inv2 cf (fst (q_step cf s)) /\ fr2 s (fst (q_step cf s)) /\
  (snd (q_step cf s) = true -> q_fin (fst (q_step cf s)) = false).
Proof.
  intros [Hw Hcounts] Hinv H2 Hqf. pose proof Hw as [Hwf [Hac Hu]].
  unfold q_step. destruct (poll_recv (done s)) as [c r] eqn:Hrecv. destruct r as [| |id].
  - (* Pending *)
    simpl. destruct (poll_recv_other _ _ _ Hrecv ltac:(discriminate)) as [Hb [Hb' [Hcap [Ho Hs]]]].
    assert (Hfr : fr2 s (s <| done := c |>)) by (unfold fr2; simpl; repeat split; congruence).
    split; [|split; [exact Hfr | discriminate]].
    apply (Inv2_fr2 cf s); try assumption; simpl.
    + apply (x_senders_r _ _ H2).
    + rewrite Ho. apply (x_done_open _ _ H2).
    + apply (x_qtx _ _ H2).
    + congruence.
    + right. reflexivity.
    + apply (x_sent_all _ _ H2).
  - (* None: the done channel is closed *)
    simpl. destruct (poll_recv_other _ _ _ Hrecv ltac:(discriminate)) as [Hb [Hb' [Hcap [Ho Hs]]]].
    assert (Hs0 : senders (done s) = 0).
    { unfold poll_recv in Hrecv. rewrite Hb in Hrecv. destruct (senders (done s) =? 0) eqn:E; [|discriminate].
      apply Nat.eqb_eq. exact E. }
    assert (Hstx : s_tx s = false).
    { pose proof (x_senders_d _ _ H2) as Hd. rewrite Hs0 in Hd. destruct (s_tx s); [discriminate | reflexivity]. }
    set (sN := s <| done := drop_rx c |> <| q_fin := true |>).
    destruct (drop_ready_tx_qfr sN) as ((D0 & D1 & D2 & D3 & D4 & D5 & D6) & D7 & D8 & D9).
    assert (Hfr : fr2 s (drop_ready_tx sN)).
    { eapply fr2_trans; [|exact D0]. unfold fr2, sN. simpl. repeat split. exact Hs. }
    split; [|split; [exact Hfr | discriminate]].
    apply (Inv2_fr2 cf s); try assumption.
    + rewrite D9, D8. simpl. rewrite (x_senders_r _ _ H2). destruct (q_tx s); reflexivity.
    + rewrite D1, D2. reflexivity.
    + intros _. right. rewrite D2. reflexivity.
    + intros _. exact Hstx.
    + left. exact D8.
    + rewrite D8. discriminate.
  - (* a notification *)
    destruct (poll_recv_some _ _ _ Hrecv) as [Hb [Hcap [Ho Hs]]].
    pose proof (v_done _ _ Hinv) as Hdone. rewrite Hb in Hdone.
    pose proof (v_ds_nodup _ _ Hinv) as Hdsnd. rewrite Hdone in Hdsnd.
    assert (HidP : ~ In id (g_qproc s)).
    { intros Hin. apply NoDup_remove_2 in Hdsnd. apply Hdsnd. apply in_or_app. left. exact Hin. }
    pose proof (v_qrem _ _ Hinv) as Hqrem.
    assert (HPlen : length (g_qproc s) < c_n cf).
    { assert (H : length (g_qproc s ++ [id]) <= c_n cf).
      { apply NoDup_bounded_length.
        - replace (g_qproc s ++ id :: buf c) with ((g_qproc s ++ [id]) ++ buf c) in Hdsnd by (rewrite <- app_assoc; reflexivity).
          apply NoDup_app_l in Hdsnd. exact Hdsnd.
        - intros x Hx. apply (Inv_ds_lt _ _ Hinv). rewrite Hdone. apply in_app_or in Hx. apply in_or_app.
          destruct Hx as [Hx|[<-|[]]]; [left; exact Hx | right; left; reflexivity]. }
      rewrite app_length in H. simpl in H. lia. }
    change (q_rem (s <| done := c |> <| g_qproc := g_qproc s ++ [id] |>)) with (q_rem s).
    destruct (q_rem s) as [|qr] eqn:Hqr; [lia|].
    set (s0 := s <| done := c |> <| g_qproc := g_qproc s ++ [id] |> <| q_rem := qr |>).
    set (s1 := if q_rem s0 =? 0 then drop_ready_tx s0 else s0).
    set (cs := children (c_es cf) id).
    simpl fst. simpl snd. set (s' := fold_left q_child cs s1).
    assert (Hcs : forall x, In x cs <-> Edge (c_es cf) id x) by (intros x; apply children_spec).
    assert (Hcslt : forall x, In x cs -> x < c_n cf).
    { intros x Hx. apply Hcs in Hx. apply (Edge_wf _ _ _ _ Hwf Hx). }
    assert (Hun : forall x, In x cs -> In id (unproc (c_es cf) (g_qproc s) x)).
    { intros x Hx. apply unproc_In. split; [apply Hcs; exact Hx | exact HidP]. }
    assert (Hcsnd : NoDup cs) by (apply children_NoDup; exact Hu).
    assert (Hcpos : forall x, In x cs -> 1 <= nth x (counts s) 0).
    { intros x Hx. rewrite (v_counts _ _ Hinv x (Hcslt x Hx)).
      pose proof (Hun x Hx) as Hin. destruct (unproc (c_es cf) (g_qproc s) x); [destruct Hin | simpl; lia]. }
    assert (Hclen : forall x, In x cs -> x < length (counts s)).
    { intros x Hx. rewrite (v_counts_len _ _ Hinv). apply Hcslt. exact Hx. }
    assert (Hfr0 : qfr s0 s').
    { eapply qfr_trans; [|apply q_children_qfr]. unfold s1.
      destruct (q_rem s0 =? 0); [apply (drop_ready_tx_qfr s0) | apply qfr_refl]. }
    destruct Hfr0 as (G0 & G1 & G2 & G3 & G4 & G5 & G6).
    destruct (q_children_x cs s1) as (X1 & _ & _ & X4). fold s' in X1, X4.
    assert (Hfr : fr2 s s').
    { eapply fr2_trans; [|exact G0]. unfold fr2, s0. simpl. repeat split. exact Hs. }
    assert (Hq1 : (q_tx s1 = false /\ senders (ready s1) = 0 /\ qr = 0) \/
                  (s1 = s0 /\ qr <> 0)).
    { unfold s1. change (q_rem s0) with qr. destruct (qr =? 0) eqn:Eq.
      - left. apply Nat.eqb_eq in Eq. destruct (drop_ready_tx_qfr s0) as (_ & _ & D8 & D9).
        split; [exact D8|]. split; [|exact Eq]. rewrite D9. change (ready s0) with (ready s). change (q_tx s0) with (q_tx s).
        rewrite (x_senders_r _ _ H2). destruct (q_tx s); reflexivity.
      - right. apply Nat.eqb_neq in Eq. split; [reflexivity | exact Eq]. }
    split; [|split; [exact Hfr | intros _; rewrite G2; exact Hqf]].
    apply (Inv2_fr2 cf s); try assumption.
    + rewrite X4, X1. destruct Hq1 as [(Q1 & Q2 & _)|(Q1 & _)].
      * rewrite Q1, Q2. reflexivity.
      * rewrite Q1. apply (x_senders_r _ _ H2).
    + rewrite G1, G2. change (done s0) with c. change (q_fin s0) with (q_fin s). rewrite Ho. apply (x_done_open _ _ H2).
    + intros Hq. rewrite G3. change (q_rem s0) with qr. rewrite X1 in Hq.
      destruct Hq1 as [(_ & _ & Q3)|(Q1 & _)]; [left; exact Q3|].
      rewrite Q1 in Hq. change (q_tx s0) with (q_tx s) in Hq.
      destruct (x_qtx _ _ H2 Hq) as [Hz|Hz]; congruence.
    + rewrite G2. change (q_fin s0) with (q_fin s). congruence.
    + rewrite X1. destruct Hq1 as [(Q1 & _)|(Q1 & _)]; [left; exact Q1 | right; rewrite Q1; reflexivity].
    + (* x_sent_all *)
      rewrite X1, G4, G5. change (g_qproc s0) with (g_qproc s ++ [id]). change (ready s0) with (ready s).
      intros Hq Hor x Hx Hnil.
      destruct Hq1 as [(Q1 & _)|(Q1 & _)]; [congruence|].
      assert (Hs' : s' = fold_left q_child cs s0) by (unfold s'; rewrite Q1; reflexivity).
      rewrite Q1 in Hq. change (q_tx s0) with (q_tx s) in Hq. rewrite Hs'.
      destruct (unproc (c_es cf) (g_qproc s) x) as [|p l] eqn:Hux.
      * apply q_children_rs_mono. change (g_ready_sent s0) with (g_ready_sent s).
        apply (x_sent_all _ _ H2); assumption.
      * assert (Hnd : NoDup (unproc (c_es cf) (g_qproc s) x)) by (apply unproc_NoDup; exact Hu).
        pose proof (filter_remove_len _ id Hnd) as Hlen. rewrite <- unproc_snoc, Hnil in Hlen. simpl in Hlen.
        destruct (mem id (unproc (c_es cf) (g_qproc s) x)) eqn:Hm; [|rewrite Hux in Hlen; discriminate].
        apply mem_spec in Hm. apply unproc_In in Hm. destruct Hm as [He _]. apply Hcs in He.
        assert (Hone : nth x (counts s) 0 = 1).
        { rewrite (v_counts _ _ Hinv x Hx). rewrite Hux in *. simpl in *. lia. }
        assert (Hone_new : forall y, In y cs -> nth y (counts s) 0 = 1 -> ~ In y (g_ready_sent s)).
        { intros y Hyc Hy1 Hin.
          rewrite (v_counts _ _ Hinv y (Hcslt y Hyc)), (v_sent _ _ Hinv y Hin) in Hy1. discriminate. }
        apply (q_children_all cs s0); try assumption.
        change (ready s0) with (ready s). change (counts s0) with (counts s).
        set (Fl := filter (fun c0 => nth c0 (counts s) 0 =? 1) cs).
        assert (HF : length (g_ready_sent s ++ Fl) <= c_n cf).
        { apply NoDup_bounded_length.
          - apply NoDup_app_intro; [apply (v_rs_nodup _ _ Hinv) | apply NoDup_filter; exact Hcsnd |].
            intros y Hy Hy'. apply filter_In in Hy'. destruct Hy' as [Hyc Hy1]. apply Nat.eqb_eq in Hy1.
            exact (Hone_new y Hyc Hy1 Hy).
          - intros y Hy. apply in_app_or in Hy. destruct Hy as [Hy|Hy]; [apply (v_rs_lt _ _ Hinv); exact Hy|].
            apply filter_In in Hy. apply Hcslt. tauto. }
        destruct (v_ready _ _ Hinv) as [rest [Hrs Hopen]]. rewrite <- (Hopen Hor).
        rewrite Hrs, !app_length in HF. rewrite (v_cap_r _ _ Hinv). lia.
Qed.

Lemma inv2_q_step cf s :
  cfg_ok cf -> Inv cf s -> Inv2 cf s -> q_fin s = false ->
  Inv2 cf (fst (q_step cf s)) /\
  (* frame: what the queuer never touches *)
  runq (fst (q_step cf s)) = runq s /\ members (fst (q_step cf s)) = members s /\
  trace (fst (q_step cf s)) = trace s /\ completed (fst (q_step cf s)) = completed s /\
  processed (fst (q_step cf s)) = processed s /\ errs (fst (q_step cf s)) = errs s /\
  s_fin (fst (q_step cf s)) = s_fin s /\ s_err (fst (q_step cf s)) = s_err s /\
  result (fst (q_step cf s)) = result s /\ w (fst (q_step cf s)) = w s /\ s_tx (fst (q_step cf s)) = s_tx s /\
  s_rem (fst (q_step cf s)) = s_rem s /\ s_alive (fst (q_step cf s)) = s_alive s /\
  (snd (q_step cf s) = true -> q_fin (fst (q_step cf s)) = false).
Proof.
  intros Hok Hinv H2 Hqf. destruct (inv2_q_step_fr cf s Hok Hinv H2 Hqf) as (A & B & C).
  destruct B as (E1 & E2 & E3 & E4 & E5 & E6 & E7 & E8 & E9 & E10 & E11 & E12 & E13 & E14 & E15 & E16).
  split; [exact A|]. repeat (split; [assumption|]). exact C.
Qed.

(** ** The queuer's loop *)

Lemma inv2_q_loop cf : cfg_ok cf -> forall fuel s,
  Inv cf s -> Inv2 cf s -> q_fin s = false -> length (buf (done s)) < fuel ->
  Inv2 cf (q_loop fuel cf s) /\
  runq (q_loop fuel cf s) = runq s /\ members (q_loop fuel cf s) = members s /\ trace (q_loop fuel cf s) = trace s /\
  completed (q_loop fuel cf s) = completed s /\ processed (q_loop fuel cf s) = processed s /\
  s_fin (q_loop fuel cf s) = s_fin s /\ result (q_loop fuel cf s) = result s /\ w (q_loop fuel cf s) = w s /\
  s_alive (q_loop fuel cf s) = s_alive s /\
  (* the queuer is settled afterwards *)
  (q_fin (q_loop fuel cf s) = true \/ (buf (done (q_loop fuel cf s)) = [] /\ rx_waker (done (q_loop fuel cf s)) = true)).
Proof.
  intros Hok. induction fuel as [|f IH]; intros s Hinv H2 Hqf Hlen; [lia|].
  simpl.
  pose proof (inv_q_step cf s Hok Hinv) as Hstep. pose proof (q_step_cont cf s) as Hcont.
  pose proof (q_step_stop cf s) as Hstop.
  destruct (inv2_q_step_fr cf s Hok Hinv H2 Hqf) as (A & B & C).
  destruct (q_step cf s) as [s' cont]. simpl in *. destruct cont.
  - specialize (Hcont eq_refl). specialize (C eq_refl).
    destruct (IH s' Hstep A C ltac:(lia)) as (A' & R1 & R2 & R3 & R4 & R5 & R6 & R7 & R8 & R9 & R10).
    destruct B as (E1 & E2 & E3 & E4 & E5 & E6 & E7 & E8 & E9 & E10 & E11 & E12 & E13 & E14 & E15 & E16).
    split; [exact A'|]. repeat (split; [congruence|]). exact R10.
  - destruct B as (E1 & E2 & E3 & E4 & E5 & E6 & E7 & E8 & E9 & E10 & E11 & E12 & E13 & E14 & E15 & E16).
    split; [exact A|]. repeat (split; [assumption|]). apply Hstop. reflexivity.
Qed.
