(** * SelfSignalInv2.v — the second invariant (outcome bookkeeping, in-flight bound, error
    bookkeeping) also holds when a user future sends the interrupt signal inside a poll
    ([SelfSignal.run_sig]): like the first it does not read the pending-signal counter. *)
From FG Require Import Dag Builder Sched DagFacts EdgeFacts RankFacts BuilderFacts TopoFacts
     SchedInv SchedInv2 SI_Queuer SI_Wrapper SI_Block SI_Init SI_Step SI2_Queuer SI2_Stream SI2_Block SI2_Step
     SelfSignal SelfSignalInv.
From RecordUpdate Require Import RecordSet.
Import RecordSetNotations.
From Coq Require Import List Arith Lia Bool.
Import ListNotations.

Lemma Inv2_bump cf b s : Inv2 cf s -> Inv2 cf (bump b s).
Proof. destruct b; [apply Inv2_set_ipend | exact (fun H => H)]. Qed.
Lemma bump_result b s : result (bump b s) = result s. Proof. destruct b; reflexivity. Qed.
Lemma bump_q_fin b s : q_fin (bump b s) = q_fin s. Proof. destruct b; reflexivity. Qed.

Lemma inv2_runq_loop_sig sg cf : cfg_ok cf -> forall fuel s mk,
  Inv cf s -> Inv2 cf s -> s_fin s = false -> result s = None -> length (runq s) < fuel ->
  let r := runq_loop_sig sg fuel cf (s, mk) in
  Inv2 cf (fst (fst r)) /\
  result (fst (fst r)) = None /\
  q_fin (fst (fst r)) = q_fin s /\
  (s_fin (fst (fst r)) = true -> snd r = FReady) /\
  (snd r <> FReady -> runq (fst (fst r)) = []) /\
  (snd r = FNone -> members (fst (fst r)) = []).
Proof.
  intros Hok. induction fuel as [|f IH]; intros s mk Hinv Hinv2 Hfin Hres Hlen; [lia|].
  cbn [runq_loop_sig fst snd]. destruct (runq s) as [|k rest] eqn:Hrq.
  - cbn [fst snd]. split; [exact Hinv2|]. split; [exact Hres|]. split; [reflexivity|].
    split; [intros H; congruence|]. split; [intros _; exact Hrq|].
    destruct (members s); simpl; [reflexivity | discriminate].
  - set (s0 := s <| runq := rest |>).
    assert (Hinv0 : Inv cf s0) by (apply Inv_set_runq; exact Hinv).
    destruct (find_member s0 k) as [m|] eqn:Hfm.
    + destruct (inv2_pop_poll cf s k rest m Hok Hinv Hinv2 Hfin Hres Hrq Hfm) as (A1 & A2 & A3 & A4).
      pose proof (inv_block_poll cf s0 m Hok Hinv0 (find_member_In _ _ _ Hfm)) as Hbp.
      fold s0 in A1, A2, A3, A4.
      destruct (block_poll_sig_bump sg cf s0 mk m) as [b [mk' Heq]]. rewrite Heq.
      destruct (block_poll cf s0 m) as [s1 rdy] eqn:Hbpe. cbn [fst snd] in *.
      destruct Hbp as (Hinv1 & Hrq1 & _).
      destruct rdy.
      * cbn [fst snd]. split; [apply Inv2_bump; exact A1|]. rewrite bump_result, bump_q_fin, bump_s_fin, bump_runq, bump_members.
        split; [exact A2|]. split; [exact A3|].
        split; [reflexivity|]. split; [congruence | discriminate].
      * assert (Hfin1 : s_fin s1 = false).
        { destruct (s_fin s1) eqn:E; [specialize (A4 eq_refl); discriminate | reflexivity]. }
        destruct (IH (bump b s1) mk' (Inv_bump cf b s1 Hinv1) (Inv2_bump cf b s1 A1)) as (B1 & B2 & B3 & B4 & B5 & B6).
        { rewrite bump_s_fin. exact Hfin1. }
        { rewrite bump_result. exact A2. }
        { rewrite bump_runq, Hrq1. simpl. simpl in Hlen. lia. }
        rewrite bump_q_fin in B3.
        split; [exact B1|]. split; [exact B2|]. split; [rewrite B3; exact A3|].
        split; [exact B4|]. split; [exact B5 | exact B6].
    + pose proof (inv2_pop_none cf s k rest Hinv Hinv2 Hrq Hfm) as A1. fold s0 in A1.
      destruct (IH s0 mk Hinv0 A1 Hfin Hres) as (B1 & B2 & B3 & B4 & B5 & B6).
      { simpl. simpl in Hlen. lia. }
      split; [exact B1|]. split; [exact B2|]. split; [exact B3|].
      split; [exact B4|]. split; [exact B5 | exact B6].
Qed.

Lemma inv2_conc_loop_sig sg cf : cfg_ok cf -> forall fuel s mk,
  Inv cf s -> Inv2 cf s -> s_fin s = false -> result s = None -> phi s < fuel ->
  let r := conc_loop_sig sg fuel cf (s, mk) in
  Inv2 cf (fst r) /\ result (fst r) = None /\ q_fin (fst r) = q_fin s.
Proof.
  intros Hok. induction fuel as [|f IH]; intros s mk Hinv Hinv2 Hfin Hres Hphi; [lia|].
  cbn [conc_loop_sig fst snd].
  destruct (inv_stream_step cf s Hinv) as (Hinv1 & Hfin1 & Hle1 & Hlt1).
  destruct (inv2_stream_step cf s Hok Hinv Hinv2 Hfin Hres) as (Hx1 & Hres1 & Hsf1 & Hqf1 & _).
  destruct (stream_step cf s) as [s1 prog]. cbn [fst snd] in *.
  destruct (inv_runq_loop_sig sg cf Hok (length (runq s1) + 1) s1 mk Hinv1 ltac:(lia)) as (Hinv2' & Hle2 & Hlt2).
  destruct (inv2_runq_loop_sig sg cf Hok (length (runq s1) + 1) s1 mk Hinv1 Hx1 Hsf1 Hres1 ltac:(lia))
    as (Hx2 & Hres2 & Hqf2 & Hsf2 & Hrq2 & Hmem2).
  destruct (runq_loop_sig sg (length (runq s1) + 1) cf (s1, mk)) as [[s2 mk2] fr]. cbn [fst snd] in *.
  destruct (s_fin s2) eqn:Hs2.
  - cbn [fst]. split; [exact Hx2|]. split; [exact Hres2|]. congruence.
  - destruct fr.
    + destruct (IH s2 mk2 Hinv2' Hx2 Hs2 Hres2) as (C1 & C2 & C3); [specialize (Hlt2 eq_refl); lia|].
      split; [exact C1|]. split; [exact C2|]. congruence.
    + destruct prog.
      * destruct (IH s2 mk2 Hinv2' Hx2 Hs2 Hres2) as (C1 & C2 & C3); [specialize (Hlt1 eq_refl); lia|].
        split; [exact C1|]. split; [exact C2|]. congruence.
      * cbn [fst]. split; [exact Hx2|]. split; [exact Hres2|]. congruence.
    + destruct (negb (s_alive s2)) eqn:Hal.
      * apply negb_true_iff in Hal. cbn [fst]. split; [apply inv2_sched_finish; auto|].
        unfold sched_finish. split.
        -- destruct (is_seq (c_api cf)); [unfold take_s_tx; destruct (s_tx _); [destruct (drop_sender _)|]|]; simpl; exact Hres2.
        -- destruct (is_seq (c_api cf)); [unfold take_s_tx; destruct (s_tx _); [destruct (drop_sender _)|]|]; simpl; congruence.
      * destruct prog.
        -- destruct (IH s2 mk2 Hinv2' Hx2 Hs2 Hres2) as (C1 & C2 & C3); [specialize (Hlt1 eq_refl); lia|].
           split; [exact C1|]. split; [exact C2|]. congruence.
        -- cbn [fst]. split; [exact Hx2|]. split; [exact Hres2|]. congruence.
Qed.

Lemma inv2_poll_sig sg cf s mk : cfg_ok cf -> Inv cf s -> Inv2 cf s -> Inv2 cf (fst (poll_sig sg cf (s, mk))).
Proof.
  intros Hok Hinv Hinv2. unfold poll_sig. destruct (result s) eqn:Hres; [exact Hinv2|].
  set (s0 := s <| woken := false |>).
  assert (H0 : Inv cf s0) by (apply Inv_set_woken; exact Hinv).
  assert (X0 : Inv2 cf s0) by (apply Inv2_set_woken; exact Hinv2).
  assert (R0 : result s0 = None) by exact Hres.
  set (s1 := if q_fin s0 then s0 else q_loop (poll_fuel cf) cf s0).
  assert (H1 : Inv cf s1 /\ Inv2 cf s1 /\ result s1 = None /\ s_fin s1 = s_fin s0).
  { unfold s1. destruct (q_fin s0) eqn:Hq; [auto|].
    assert (Hl : length (buf (done s0)) < poll_fuel cf).
    { pose proof (Inv_done_buf_len _ _ H0). unfold poll_fuel. lia. }
    split; [apply inv_q_loop; assumption|].
    destruct (inv2_q_loop cf Hok (poll_fuel cf) s0 H0 X0 Hq Hl) as (A & _ & _ & _ & _ & _ & Afin & Ares & _).
    split; [exact A|]. split; [rewrite Ares; exact R0 | exact Afin]. }
  destruct H1 as (H1 & X1 & R1 & F1).
  assert (H2 : let r := (if s_fin s1 then (s1, mk) else conc_loop_sig sg (poll_fuel cf) cf (s1, mk)) in
               Inv cf (fst r) /\ Inv2 cf (fst r) /\ result (fst r) = None).
  { destruct (s_fin s1) eqn:Hsf; [cbn [fst]; auto|].
    assert (Hp : phi s1 < poll_fuel cf) by (pose proof (phi_bound _ _ H1); unfold poll_fuel; lia).
    split; [apply inv_conc_loop_sig; assumption|].
    destruct (inv2_conc_loop_sig sg cf Hok (poll_fuel cf) s1 mk H1 X1 Hsf R1 Hp) as (A & B & _). auto. }
  destruct (if s_fin s1 then (s1, mk) else conc_loop_sig sg (poll_fuel cf) cf (s1, mk)) as [s2 mk2].
  cbn [fst] in *. destruct H2 as (H2 & X2 & R2).
  destruct (q_fin s2 && s_fin s2) eqn:Hb; [|exact X2].
  apply andb_true_iff in Hb. destruct Hb as [Hq Hsf].
  destruct X2. constructor; simpl; try assumption.
  intros o Ho. inversion Ho; subst. split; [exact Hq|]. split; [exact Hsf | reflexivity].
Qed.

Lemma inv12_settle_sig sg cf : cfg_ok cf -> forall fuel s mk,
  Inv cf s -> Inv2 cf s ->
  Inv cf (fst (settle_sig sg fuel cf (s, mk))) /\ Inv2 cf (fst (settle_sig sg fuel cf (s, mk))).
Proof.
  intros Hok. induction fuel as [|f IH]; intros s mk Hinv Hinv2; [split; assumption|].
  cbn [settle_sig fst]. destruct (woken s && is_none (result s) && is_none (panic s)); [|split; assumption].
  pose proof (inv_poll_sig sg cf s mk Hok Hinv) as Hp.
  pose proof (inv2_poll_sig sg cf s mk Hok Hinv Hinv2) as Hp2.
  destruct (poll_sig sg cf (s, mk)) as [s' mk']. apply IH; assumption.
Qed.

Theorem inv2_step_sig sg cf s mk e : cfg_ok cf -> Inv cf s -> Inv2 cf s -> Inv2 cf (fst (step_sig sg cf (s, mk) e)).
Proof.
  intros Hok Hinv Hinv2. destruct e as [i ok| | |]; cbn [step_sig fst snd].
  - apply (inv2_step cf s (ECmp i ok) Hok Hinv Hinv2).
  - apply (inv2_step cf s EInt Hok Hinv Hinv2).
  - apply inv2_poll_sig; assumption.
  - apply (inv12_settle_sig sg cf Hok (settle_fuel cf) s mk Hinv Hinv2).
Qed.

Theorem inv2_run_sig sg cf evs : cfg_ok cf -> cfg_ok2 cf ->
  Inv cf (fst (run_sig sg cf evs)) /\ Inv2 cf (fst (run_sig sg cf evs)).
Proof.
  intros Hok Hok2. unfold run_sig.
  assert (H : forall sm, Inv cf (fst sm) -> Inv2 cf (fst sm) ->
            Inv cf (fst (fold_left (step_sig sg cf) evs sm)) /\ Inv2 cf (fst (fold_left (step_sig sg cf) evs sm))).
  { induction evs as [|e evs IH]; intros [s mk] Hs Hs2; [split; assumption|]. cbn [fold_left].
    apply IH; [apply inv_step_sig | apply inv2_step_sig]; assumption. }
  apply (H (init cf, None)); [apply inv_init; exact Hok | apply inv2_init; assumption].
Qed.
