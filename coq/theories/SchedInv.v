(** * SchedInv.v — the safety invariant of the call machine ([Sched.init], [Sched.step]) *)

From FG Require Import Dag Builder Sched DagFacts EdgeFacts RankFacts BuilderFacts TopoFacts.
From RecordUpdate Require Import RecordSet.
Import RecordSetNotations.
From Coq Require Import Permutation.

(** ** Channel operations: what they change *)

Lemma drop_sender_buf c : buf (fst (drop_sender c)) = buf c.
Proof. unfold drop_sender. destruct (senders c) as [|[|k]]; reflexivity. Qed.
Lemma drop_sender_cap c : cap (fst (drop_sender c)) = cap c.
Proof. unfold drop_sender. destruct (senders c) as [|[|k]]; reflexivity. Qed.
Lemma drop_sender_rx_open c : rx_open (fst (drop_sender c)) = rx_open c.
Proof. unfold drop_sender. destruct (senders c) as [|[|k]]; reflexivity. Qed.

Lemma try_send_ok c x c' wk :
  try_send c x = (c', SOk, wk) ->
  buf c' = buf c ++ [x] /\ cap c' = cap c /\ rx_open c' = true /\ rx_open c = true /\ senders c' = senders c /\ length (buf c) < cap c.
Proof.
  unfold try_send. destruct (rx_open c) eqn:Ho; simpl; [|discriminate].
  destruct (cap c <=? length (buf c)) eqn:Hc; [discriminate|].
  intros H. inversion H; subst. simpl. apply Nat.leb_gt in Hc. repeat split; try reflexivity; assumption.
Qed.

Lemma try_send_not_ok c x c' r wk : try_send c x = (c', r, wk) -> r <> SOk -> c' = c.
Proof.
  unfold try_send. destruct (rx_open c); simpl.
  - destruct (cap c <=? length (buf c)); intros H; inversion H; subst; congruence.
  - intros H; inversion H; subst; reflexivity.
Qed.

Lemma try_send_succeeds c x :
  rx_open c = true -> length (buf c) < cap c -> exists c' wk, try_send c x = (c', SOk, wk).
Proof.
  intros Ho Hl. unfold try_send. rewrite Ho. simpl.
  destruct (cap c <=? length (buf c)) eqn:Hc; [apply Nat.leb_le in Hc; lia|]. eauto.
Qed.

Lemma poll_recv_some c c' x :
  poll_recv c = (c', RSome x) -> buf c = x :: buf c' /\ cap c' = cap c /\ rx_open c' = rx_open c /\ senders c' = senders c.
Proof.
  unfold poll_recv. destruct (buf c) as [|y rest] eqn:Hb.
  - destruct (senders c =? 0); discriminate.
  - intros H. inversion H; subst. simpl. repeat split; reflexivity.
Qed.

Lemma poll_recv_other c c' r :
  poll_recv c = (c', r) -> (forall x, r <> RSome x) ->
  buf c = [] /\ buf c' = [] /\ cap c' = cap c /\ rx_open c' = rx_open c /\ senders c' = senders c.
Proof.
  unfold poll_recv. destruct (buf c) as [|y rest] eqn:Hb.
  - destruct (senders c =? 0); intros H Hr; inversion H; subst; simpl; repeat split; try reflexivity; assumption.
  - intros H Hr. inversion H; subst. exfalso. apply (Hr y). reflexivity.
Qed.

(** ** Vocabulary *)

Definition cfg_ok (cf : cfg) : Prop :=
  wfg (c_n cf) (c_es cf) /\ c_counts cf = incoming_counts (c_n cf) (c_es cf).

Definition new_ids (ms : list member) : list nat :=
  flat_map (fun m => match m_st m, m_id m with MNew, Some i => [i] | _, _ => [] end) ms.
Definition wait_ids (ms : list member) : list nat :=
  flat_map (fun m => match m_st m, m_id m with MWait, Some i => [i] | _, _ => [] end) ms.

(** Parents of [c] the queuer has not processed yet. *)
Definition unproc (es : list edge) (P : list nat) (c : nat) : list nat :=
  filter (fun p => negb (mem p P)) (parents es c).

(** Temporal shape of a trace: a function is started only after all its predecessors (in the
    structure walked) have ended, ends only after it started, and starts at most once. *)
Definition trace_ok (es : list edge) (T : list tev) : Prop :=
  (forall T1 x T2, T = T1 ++ Start x :: T2 ->
     (forall p, Edge es p x -> In p (ends T1)) /\ ~ In x (starts T1)) /\
  (forall T1 x ok T2, T = T1 ++ End x ok :: T2 -> In x (starts T1) /\ ~ In x (ends T1)).

Record Inv (cf : cfg) (s : state) : Prop := {
  v_nopanic : panic s = None;
  v_cap_r : cap (ready s) = Nat.max 1 (c_n cf);
  v_cap_d : cap (done s) = Nat.max 1 (c_n cf);
  v_ready : exists rest, g_ready_sent s = g_received s ++ rest /\
                         (rx_open (ready s) = true -> rest = buf (ready s));
  v_done : g_done_sent s = g_qproc s ++ buf (done s);
  v_rs_nodup : NoDup (g_ready_sent s);
  v_rs_lt : forall x, In x (g_ready_sent s) -> x < c_n cf;
  v_ds_fin : incl (g_done_sent s) (g_finished s);
  v_ds_nodup : NoDup (g_done_sent s);
  v_counts_len : length (counts s) = c_n cf;
  v_counts : forall c, c < c_n cf -> nth c (counts s) 0 = length (unproc (c_es cf) (g_qproc s) c);
  v_sent : forall c, In c (g_ready_sent s) -> unproc (c_es cf) (g_qproc s) c = [];
  v_keys : forall m, In m (members s) ->
             match m_id m with Some i => m_key m = i | None => m_key m = c_n cf end;
  v_mem_nodup : NoDup (wait_ids (members s) ++ new_ids (members s));
  v_started : forall x, In x (starts (trace s)) <-> In x (g_finished s) \/ In x (wait_ids (members s));
  v_fin_wait : forall x, In x (g_finished s) -> ~ In x (wait_ids (members s));
  v_fin_nodup : NoDup (g_finished s);
  v_new_fresh : forall x, In x (new_ids (members s)) -> ~ In x (starts (trace s));
  v_recv : forall x, In x (starts (trace s)) \/ In x (new_ids (members s)) -> In x (g_received s);
  v_trace : trace_ok (c_es cf) (trace s);
  v_fin_ended : forall x, In x (g_finished s) -> In x (ends (trace s));
  v_ds_ok : is_try (c_api cf) = true -> forall x, In x (g_done_sent s) -> ~ In x (failed (trace s));
  v_completed : forall i ok, In (i, ok) (completed s) -> In i (wait_ids (members s)) /\ In (End i ok) (trace s);
  v_completed_nodup : NoDup (map fst (completed s));
  v_ended_split : forall x, In x (ends (trace s)) <-> In x (g_finished s) \/ In x (map fst (completed s));
  v_srem : s_err s = None -> s_rem s + length (g_finished s) = c_n cf;
  v_qrem : q_rem s + length (g_qproc s) = c_n cf;
  v_errs : NoDup (errs s) /\ incl (errs s) (g_finished s);
  v_limit : eff_limit cf <> 0 -> length (members s) <= eff_limit cf;
  v_alive : s_alive s = rx_open (ready s);
  v_none : length (filter (fun m => is_none (m_id m)) (members s)) <= (if w_ian (w s) then 1 else 0);
  v_serr : s_err s <> None -> members s = [] /\ s_alive s = false
}.

(** ** List and trace helpers *)

Lemma app_snoc_inv {A} (T T1 T2 : list A) (e a : A) :
  T ++ [e] = T1 ++ a :: T2 ->
  (T2 = [] /\ T1 = T /\ a = e) \/ (exists T2', T2 = T2' ++ [e] /\ T = T1 ++ a :: T2').
Proof.
  destruct T2 as [|z T2] using rev_ind; intros H.
  - left. apply app_inj_tail in H. destruct H as [H1 H2]. subst. auto.
  - right. clear IHT2. rewrite app_comm_cons, app_assoc in H. apply app_inj_tail in H.
    destruct H as [H1 H2]. subst. exists T2. auto.
Qed.

Lemma NoDup_app_l {A} (a b : list A) : NoDup (a ++ b) -> NoDup a.
Proof.
  induction a as [|x a IH]; intros H; [constructor|].
  simpl in H. inversion H as [|x' l' Hx Hnd]; subst. constructor.
  - intros Hin. apply Hx. apply in_or_app. left. exact Hin.
  - apply IH. exact Hnd.
Qed.

Lemma starts_app T1 T2 : starts (T1 ++ T2) = starts T1 ++ starts T2.
Proof. unfold starts. apply flat_map_app. Qed.
Lemma ends_app T1 T2 : ends (T1 ++ T2) = ends T1 ++ ends T2.
Proof. unfold ends. apply flat_map_app. Qed.
Lemma failed_app T1 T2 : failed (T1 ++ T2) = failed T1 ++ failed T2.
Proof. unfold failed. apply flat_map_app. Qed.

Lemma starts_snoc_start T x : starts (T ++ [Start x]) = starts T ++ [x].
Proof. rewrite starts_app. reflexivity. Qed.
Lemma starts_snoc_end T x ok : starts (T ++ [End x ok]) = starts T.
Proof. rewrite starts_app. simpl. apply app_nil_r. Qed.
Lemma ends_snoc_start T x : ends (T ++ [Start x]) = ends T.
Proof. rewrite ends_app. simpl. apply app_nil_r. Qed.
Lemma ends_snoc_end T x ok : ends (T ++ [End x ok]) = ends T ++ [x].
Proof. rewrite ends_app. reflexivity. Qed.
Lemma failed_snoc_start T x : failed (T ++ [Start x]) = failed T.
Proof. rewrite failed_app. simpl. apply app_nil_r. Qed.
Lemma failed_snoc_end T x ok : failed (T ++ [End x ok]) = failed T ++ (if ok then [] else [x]).
Proof. rewrite failed_app. destruct ok; reflexivity. Qed.

Lemma in_starts T x : In x (starts T) <-> In (Start x) T.
Proof.
  unfold starts. rewrite in_flat_map. split.
  - intros [e [He Hx]]. destruct e as [i|i ok]; simpl in Hx; [|destruct Hx]. destruct Hx as [<-|[]]. exact He.
  - intros H. exists (Start x). split; [exact H | left; reflexivity].
Qed.
Lemma in_ends T x : In x (ends T) <-> exists ok, In (End x ok) T.
Proof.
  unfold ends. rewrite in_flat_map. split.
  - intros [e [He Hx]]. destruct e as [i|i ok]; simpl in Hx; [destruct Hx|]. destruct Hx as [<-|[]]. exists ok. exact He.
  - intros [ok H]. exists (End x ok). split; [exact H | left; reflexivity].
Qed.
Lemma in_failed T x : In x (failed T) <-> In (End x false) T.
Proof.
  unfold failed. rewrite in_flat_map. split.
  - intros [e [He Hx]]. destruct e as [i|i [|]]; simpl in Hx; try destruct Hx as [<-|[]]; try destruct Hx. exact He.
  - intros H. exists (End x false). split; [exact H | left; reflexivity].
Qed.

Lemma trace_ok_nil es : trace_ok es [].
Proof. split; intros T1 x; intros; destruct T1; discriminate. Qed.

Lemma trace_ok_snoc_start es T x :
  trace_ok es T -> (forall p, Edge es p x -> In p (ends T)) -> ~ In x (starts T) ->
  trace_ok es (T ++ [Start x]).
Proof.
  intros [H1 H2] Hp Hn. split.
  - intros T1 y T2 Heq. apply app_snoc_inv in Heq. destruct Heq as [[_ [-> Hy]]|[T2' [_ ->]]].
    + inversion Hy; subst. split; assumption.
    + apply (H1 T1 y T2'). reflexivity.
  - intros T1 y ok T2 Heq. apply app_snoc_inv in Heq. destruct Heq as [[_ [_ Hy]]|[T2' [_ ->]]]; [discriminate|].
    apply (H2 T1 y ok T2'). reflexivity.
Qed.

Lemma trace_ok_snoc_end es T x ok :
  trace_ok es T -> In x (starts T) -> ~ In x (ends T) -> trace_ok es (T ++ [End x ok]).
Proof.
  intros [H1 H2] Hs Hn. split.
  - intros T1 y T2 Heq. apply app_snoc_inv in Heq. destruct Heq as [[_ [_ Hy]]|[T2' [_ ->]]]; [discriminate|].
    apply (H1 T1 y T2'). reflexivity.
  - intros T1 y ok' T2 Heq. apply app_snoc_inv in Heq. destruct Heq as [[_ [-> Hy]]|[T2' [_ ->]]].
    + inversion Hy; subst. split; assumption.
    + apply (H2 T1 y ok' T2'). reflexivity.
Qed.

Lemma wait_ids_app a b : wait_ids (a ++ b) = wait_ids a ++ wait_ids b.
Proof. unfold wait_ids. apply flat_map_app. Qed.
Lemma new_ids_app a b : new_ids (a ++ b) = new_ids a ++ new_ids b.
Proof. unfold new_ids. apply flat_map_app. Qed.

Lemma in_wait_ids ms x : In x (wait_ids ms) <-> exists m, In m ms /\ m_id m = Some x /\ m_st m = MWait.
Proof.
  unfold wait_ids. rewrite in_flat_map. split.
  - intros [m [Hm Hx]]. exists m. destruct (m_st m); destruct (m_id m); simpl in Hx; try destruct Hx as [<-|[]]; try destruct Hx. auto.
  - intros [m [Hm [Hi Hs]]]. exists m. split; [exact Hm|]. rewrite Hi, Hs. left. reflexivity.
Qed.
Lemma in_new_ids ms x : In x (new_ids ms) <-> exists m, In m ms /\ m_id m = Some x /\ m_st m = MNew.
Proof.
  unfold new_ids. rewrite in_flat_map. split.
  - intros [m [Hm Hx]]. exists m. destruct (m_st m); destruct (m_id m); simpl in Hx; try destruct Hx as [<-|[]]; try destruct Hx. auto.
  - intros [m [Hm [Hi Hs]]]. exists m. split; [exact Hm|]. rewrite Hi, Hs. left. reflexivity.
Qed.

Lemma is_waiting_spec s i : is_waiting s i = true <-> In i (wait_ids (members s)).
Proof.
  unfold is_waiting, is_waiting_b. rewrite existsb_exists, in_wait_ids. split.
  - intros [m [Hm H]]. exists m. destruct (m_id m) as [j|]; destruct (m_st m); try discriminate.
    apply Nat.eqb_eq in H. subst. auto.
  - intros [m [Hm [Hi Hs]]]. exists m. split; [exact Hm|]. rewrite Hi, Hs. apply Nat.eqb_refl.
Qed.

Lemma nth_map_seq (f : nat -> nat) n c : c < n -> nth c (map f (seq 0 n)) 0 = f c.
Proof.
  intros H. rewrite (nth_indep _ 0 (f 0)) by (rewrite map_length, seq_length; exact H).
  rewrite map_nth, seq_nth by exact H. reflexivity.
Qed.

Lemma count_parents es c : count_where edst es c = length (parents es c).
Proof. unfold count_where, parents. rewrite rev_length, map_length. reflexivity. Qed.

Lemma parents_NoDup es b : uniq_pairs es -> NoDup (parents es b).
Proof.
  intros Hu. unfold parents. apply NoDup_rev.
  induction es as [|e es IH]; simpl; [constructor|].
  inversion Hu as [|p ps Hnin Hu']; subst.
  destruct (edst e =? b) eqn:He; [|apply IH; exact Hu'].
  simpl. constructor; [|apply IH; exact Hu'].
  intros Hin. apply in_map_iff in Hin. destruct Hin as [e' [Hd Hin]].
  apply filter_In in Hin. destruct Hin as [Hin He'].
  apply Nat.eqb_eq in He. apply Nat.eqb_eq in He'.
  apply Hnin. unfold pairs. apply in_map_iff. exists e'. split; [|exact Hin].
  destruct e as [[x y] k]; destruct e' as [[x' y'] k']. unfold esrc, edst in *. simpl in *. subst. reflexivity.
Qed.

Lemma unproc_In es P c p : In p (unproc es P c) <-> Edge es p c /\ ~ In p P.
Proof. unfold unproc. rewrite filter_In, parents_spec, negb_true_iff, mem_false. tauto. Qed.

Lemma unproc_nil es P c : unproc es P c = [] <-> forall p, Edge es p c -> In p P.
Proof.
  split.
  - intros H p He. destruct (mem p P) eqn:Hm; [apply mem_spec; exact Hm|].
    apply mem_false in Hm. assert (Hin : In p (unproc es P c)) by (apply unproc_In; tauto). rewrite H in Hin. destruct Hin.
  - intros H. destruct (unproc es P c) as [|p l] eqn:Hu; [reflexivity|].
    assert (Hin : In p (unproc es P c)) by (rewrite Hu; left; reflexivity).
    apply unproc_In in Hin. destruct Hin as [He Hn]. exfalso. apply Hn. apply H. exact He.
Qed.
