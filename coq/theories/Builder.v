(** * Builder.v — executable model of `FnGraphBuilder`, `RankCalc`, `DataEdgeAugmenter`,
    `PredecessorCountCalc`, `build()`, `PartialEq for FnGraph`, the sequential iterators and
    `GraphInfo`.  Model only. *)

From FG Require Export Dag.

(** ** Builder operations *)

Inductive bop :=
| AddFn (f : fnspec)
| AddLogic (a b : nat)
| AddContains (a b : nat)
| AddLogicBatch (l : list (nat * nat))
| AddContainsBatch (l : list (nat * nat)).

(** Result of one builder call: the id returned by `add_fn`, `Ok`, `Err(WouldCycle)`, or a
    panic of the underlying petgraph (`out of bounds` ids – outside what the properties
    quantify over, modelled so that the malformed stream of the correspondence is defined). *)
Inductive bres := RId (i : nat) | ROk | RCycle | RPanic.

Definition bres_of (r : eres) : bres :=
  match r with EOk => ROk | ECycle => RCycle | EPanic => RPanic end.

Definition apply_edge (g : dag) (a b : nat) (k : kind) : dag * eres :=
  let '(es, r) := update_edge (ncount g) (edges g) a b k in (mkDag (nodes g) es, r).

(** `edges.try_for_each(|e| self.add_x_edge(..))?` – stops at the first error, keeping what was
    already added. *)
Fixpoint apply_batch (g : dag) (l : list (nat * nat)) (k : kind) : dag * eres :=
  match l with
  | [] => (g, EOk)
  | (a, b) :: l' =>
    match apply_edge g a b k with
    | (g', EOk) => apply_batch g' l' k
    | (g', r) => (g', r)
    end
  end.

Definition apply_op (g : dag) (o : bop) : dag * bres :=
  match o with
  | AddFn f => (mkDag (nodes g ++ [f]) (edges g), RId (ncount g))
  | AddLogic a b => let '(g', r) := apply_edge g a b Logic in (g', bres_of r)
  | AddContains a b => let '(g', r) := apply_edge g a b Contains in (g', bres_of r)
  | AddLogicBatch l => let '(g', r) := apply_batch g l Logic in (g', bres_of r)
  | AddContainsBatch l => let '(g', r) := apply_batch g l Contains in (g', bres_of r)
  end.

Definition is_rpanic (r : bres) : bool := match r with RPanic => true | _ => false end.

(** Runs a call sequence; stops after the first panic (the harness does the same). *)
Fixpoint run_ops (g : dag) (ops : list bop) : dag * list bres :=
  match ops with
  | [] => (g, [])
  | o :: ops' =>
    let '(g', r) := apply_op g o in
    if is_rpanic r then (g', [r])
    else let '(g'', rs) := run_ops g' ops' in (g'', r :: rs)
  end.

Definition builder_run (ops : list bop) : dag := fst (run_ops empty_dag ops).

(** ** RankCalc *)

Fixpoint set_nth (i v : nat) (l : list nat) : list nat :=
  match l, i with
  | [], _ => []
  | _ :: l', 0 => v :: l'
  | x :: l', S i' => x :: set_nth i' v l'
  end.

(** One child visit of the relaxation.  [always = true] is the algorithm as it stood before
    the C18 repair (child re-queued unconditionally); [always = false] is the repaired one
    (re-queued only when its rank grows). *)
Definition rank_relax (always : bool) (r : nat) (st : list nat * list nat) (c : nat)
  : list nat * list nat :=
  let '(rk, q) := st in
  if nth c rk 0 <? r then (set_nth c r rk, q ++ [c])
  else if always then (rk, q ++ [c]) else (rk, q).

(** Returns (ranks, number of `pop_front`s, out-of-fuel flag). *)
Fixpoint rank_loop (always : bool) (fuel : nat) (es : list edge) (q rk : list nat) (pops : nat)
  : list nat * nat * bool :=
  match q with
  | [] => (rk, pops, false)
  | u :: q' =>
    match fuel with
    | 0 => (rk, pops, true)
    | S f =>
      let '(rk', q'') := fold_left (rank_relax always (nth u rk 0 + 1)) (children es u) (rk, q') in
      rank_loop always f es q'' rk' (S pops)
    end
  end.

Definition rank_calc_gen (always : bool) (fuel n : nat) (es : list edge) : list nat * nat * bool :=
  rank_loop always fuel es (roots n es) (repeat 0 n) 0.

Definition rank_fuel (n : nat) : nat := n * n + n + 1.
Definition rank_calc (n : nat) (es : list edge) : list nat * nat * bool :=
  rank_calc_gen false (rank_fuel n) n es.

(** ** DataEdgeAugmenter *)

Definition inter (a b : list nat) : bool := existsb (fun x => mem x b) a.
Definition conflict (f g : fnspec) : bool :=
  inter (rd f) (wr g) || inter (wr f) (rd g) || inter (wr f) (wr g).

Definition dummy_fn : fnspec := mkFn 0 [] [].
Definition fn_at (g : dag) (i : nat) : fnspec := nth i (nodes g) dummy_fn.

(** `sort_by` on ranks is stable: insertion after the elements that are not greater. *)
Fixpoint insert_by (rk : list nat) (x : nat) (l : list nat) : list nat :=
  match l with
  | [] => [x]
  | y :: l' => if nth x rk 0 <? nth y rk 0 then x :: y :: l' else y :: insert_by rk x l'
  end.
Definition sort_by_rank (rk : list nat) (n : nat) : list nat :=
  fold_left (fun acc x => insert_by rk x acc) (seq 0 n) [].

(** Augmenter state: graph, number of path queries, and whether the `.expect` fired. *)
Record astate := mkA { a_g : dag; a_queries : nat; a_panic : bool }.

Definition aug_pair (x : nat) (s : astate) (y : nat) : astate :=
  if a_panic s then s else
  let g := a_g s in
  if reach (ncount g) (edges g) x y then mkA g (S (a_queries s)) false
  else if conflict (fn_at g x) (fn_at g y) then
    match apply_edge g x y Data with
    | (g', EOk) => mkA g' (S (a_queries s)) false
    | (g', _) => mkA g' (S (a_queries s)) true
    end
  else mkA g (S (a_queries s)) false.

(** Positions are handled from the last to the first; each against the later ones in
    ascending order. *)
Fixpoint aug_list (l : list nat) (s : astate) : astate :=
  match l with
  | [] => s
  | x :: rest => fold_left (aug_pair x) rest (aug_list rest s)
  end.

Definition augment (g : dag) (rk : list nat) : astate :=
  aug_list (sort_by_rank rk (ncount g)) (mkA g 0 false).

(** ** PredecessorCountCalc *)

Definition count_where (f : edge -> nat) (es : list edge) (v : nat) : nat :=
  length (filter (fun e => f e =? v) es).
Definition incoming_counts (n : nat) (es : list edge) : list nat :=
  map (count_where edst es) (seq 0 n).
Definition outgoing_counts (n : nat) (es : list edge) : list nat :=
  map (count_where esrc es) (seq 0 n).

(** ** build() *)

Record fngraph := mkFG {
  fg_nodes : list fnspec;
  fg_edges : list edge;           (* `graph.raw_edges()` after augmentation *)
  fg_struct : list edge;          (* `graph_structure` *)
  fg_struct_rev : list edge;      (* `graph_structure_rev` *)
  fg_ranks : list nat;
  fg_incoming : list nat;
  fg_outgoing : list nat
}.
Definition fg_n (G : fngraph) : nat := length (fg_nodes G).

(** The two structure copies are rebuilt edge by edge with daggy's checked `add_edge`. *)
Fixpoint copy_struct (n : nat) (todo acc accr : list edge) : option (list edge * list edge) :=
  match todo with
  | [] => Some (acc, accr)
  | e :: todo' =>
    match add_edge n acc (esrc e) (edst e) (ekind e) with
    | (acc', EOk) =>
      match add_edge n accr (edst e) (esrc e) (ekind e) with
      | (accr', EOk) => copy_struct n todo' acc' accr'
      | _ => None
      end
    | _ => None
    end
  end.

(** Build outcome: [BPanic] stands for a panic inside `build()`; the last two components of
    [BOk] are the work counters (rank pops, path queries) of C18. *)
Inductive bout := BPanic | BOof | BOk (G : fngraph) (pops queries : nat).

Definition build (g : dag) : bout :=
  let n := ncount g in
  let '(rk, pops, oof) := rank_calc n (edges g) in
  if oof then BOof else
  let a := augment g rk in
  if a_panic a then BPanic else
  let es := edges (a_g a) in
  match copy_struct n es [] [] with
  | None => BPanic
  | Some (st, str) =>
    BOk (mkFG (nodes g) es st str rk (incoming_counts n es) (outgoing_counts n es))
        pops (a_queries a)
  end.

(** No two edges on the same ordered pair (decidable form of [uniq_pairs]).  daggy's `add_edge`,
    unlike `update_edge`, accepts a parallel edge, so [copy_struct] alone does not exclude them. *)
Fixpoint uniq_pairs_b (es : list edge) : bool :=
  match es with
  | [] => true
  | e :: es' => negb (has_edge es' (esrc e) (edst e)) && uniq_pairs_b es'
  end.

(** The graph value with another edge list (correspondence only: the runtime model is run on the
    edge list the implementation built). [None] when the list has a parallel edge or daggy's
    checked copy refuses an edge. *)
Definition with_edges (G : fngraph) (es : list edge) : option fngraph :=
  let n := fg_n G in
  if uniq_pairs_b es then
    match copy_struct n es [] [] with
    | None => None
    | Some (st, str) =>
      Some (mkFG (fg_nodes G) es st str (fg_ranks G) (incoming_counts n es) (outgoing_counts n es))
    end
  else None.

(** ** `impl PartialEq for FnGraph` *)

Definition edge_eqb (e1 e2 : edge) : bool :=
  (esrc e1 =? esrc e2) && (edst e1 =? edst e2) && kind_eqb (ekind e1) (ekind e2).

Fixpoint zip_all {A} (f : A -> A -> bool) (l1 l2 : list A) : bool :=
  match l1, l2 with
  | x :: l1', y :: l2' => f x y && zip_all f l1' l2'
  | _, _ => true
  end.

(** Payload equality is the user's `F: PartialEq`; the harness payload compares [fid] and the
    declarations. *)
Definition list_eqb (a b : list nat) : bool :=
  (length a =? length b) && zip_all Nat.eqb a b.
Definition fn_eqb (f g : fnspec) : bool :=
  (fid f =? fid g) && list_eqb (rd f) (rd g) && list_eqb (wr f) (wr g).

Definition fngraph_eq (G1 G2 : fngraph) : bool :=
  if (length (fg_nodes G1) =? length (fg_nodes G2)) && (length (fg_edges G1) =? length (fg_edges G2))
  then zip_all edge_eqb (fg_edges G1) (fg_edges G2) && zip_all fn_eqb (fg_nodes G1) (fg_nodes G2)
  else false.

(** ** Sequential iteration *)

Definition iter_order (G : fngraph) : list nat := topo (fg_n G) (fg_struct G).      (* iter, toposort *)
Definition iter_rev_order (G : fngraph) : list nat := topo (fg_n G) (fg_struct_rev G).
Definition map_order (G : fngraph) : list nat := topo (fg_n G) (fg_edges G).        (* map, fold, for_each, try_* *)
Definition iter_insertion_order (G : fngraph) : list nat := seq 0 (fg_n G).

(** `try_fold` / `try_for_each` with the function whose id is in [failing] returning `Err`:
    the calls made, and the first failing id if any. *)
Fixpoint try_visit (order failing : list nat) : list nat * option nat :=
  match order with
  | [] => ([], None)
  | x :: rest => if mem x failing then ([x], Some x)
                 else let '(v, r) := try_visit rest failing in (x :: v, r)
  end.

(** ** GraphInfo *)

Record ginfo := mkGI { gi_nodes : list nat; gi_edges : list edge }.

(** daggy `add_edges`: appends everything, then checks cyclicity once if any edge needed it. *)
Fixpoint add_edges_check (es : list edge) (todo : list edge) : list edge * bool :=
  match todo with
  | [] => (es, false)
  | e :: todo' =>
    let chk := must_check es (esrc e) (edst e) in
    let '(es', c) := add_edges_check (es ++ [e]) todo' in (es', chk || c)
  end.

Definition is_cyclic (n : nat) (es : list edge) : bool :=
  existsb (fun e => reach n es (edst e) (esrc e)) es.

(** `None` = the `.expect` of `from_graph` fires. *)
Definition gi_from_graph (G : fngraph) (f : fnspec -> nat) : option ginfo :=
  let '(es, chk) := add_edges_check [] (fg_edges G) in
  if chk && is_cyclic (fg_n G) es then None
  else Some (mkGI (map f (fg_nodes G)) es).

Definition gi_iter (i : ginfo) : list nat := topo (length (gi_nodes i)) (gi_edges i).
Definition gi_iter_rev (i : ginfo) : list nat := topo (length (gi_nodes i)) (flip_edges (gi_edges i)).

(** petgraph's serde form of a `Graph`: node weights in index order, edges as
    `(source, target, weight)` in index order; deserialisation re-links them in that order. *)
Definition gi_ser (i : ginfo) : list nat * list edge := (gi_nodes i, gi_edges i).
Definition gi_de (s : list nat * list edge) : ginfo :=
  mkGI (fst s) (fold_left (fun acc e => acc ++ [e]) (snd s) []).

Definition gi_eqb (a b : ginfo) : bool :=
  list_eqb (gi_nodes a) (gi_nodes b)
  && (length (gi_edges a) =? length (gi_edges b)) && zip_all edge_eqb (gi_edges a) (gi_edges b).
