(** * SI_Block.v — the block-level actions of the scheduler preserve the invariant *)
From FG Require Import Dag Builder Sched DagFacts EdgeFacts RankFacts BuilderFacts TopoFacts SchedInv SI_Queuer.
From RecordUpdate Require Import RecordSet.
Import RecordSetNotations.
From Coq Require Import Permutation.

(** ** Lists *)

Lemma NoDup_app_inv {A} (a b : list A) :
  NoDup (a ++ b) -> NoDup a /\ NoDup b /\ (forall x, In x a -> ~ In x b).
Proof.
  induction a as [|x a IH]; simpl; intros H.
  - split; [constructor|]. split; [exact H|]. intros x [].
  - inversion H as [|x' l' Hx Hnd]; subst. destruct (IH Hnd) as [Ha [Hb Hd]]. split; [|split].
    + constructor; [|exact Ha]. intros Hin. apply Hx. apply in_or_app. left. exact Hin.
    + exact Hb.
    + intros y [<-|Hy] Hin; [apply Hx; apply in_or_app; right; exact Hin | exact (Hd y Hy Hin)].
Qed.

Lemma NoDup_flat_map_filter {A B} (g : A -> list B) (f : A -> bool) (l : list A) :
  NoDup (flat_map g l) -> NoDup (flat_map g (filter f l)).
Proof.
  induction l as [|a l IH]; simpl; intros H; [constructor|].
  apply NoDup_app_inv in H. destruct H as [Ha [Hl Hd]].
  destruct (f a); [|apply IH; exact Hl]. simpl. apply NoDup_app_intro; [exact Ha | apply IH; exact Hl |].
  intros x Hx Hin. apply (Hd x Hx). apply in_flat_map in Hin. destruct Hin as [y [Hy Hxy]].
  apply in_flat_map. exists y. apply filter_In in Hy. split; [apply Hy | exact Hxy].
Qed.

Lemma NoDup_map_filter {A B} (g : A -> B) (f : A -> bool) (l : list A) :
  NoDup (map g l) -> NoDup (map g (filter f l)).
Proof.
  induction l as [|a l IH]; simpl; intros H; [constructor|].
  inversion H as [|x l' Hx Hnd]; subst. destruct (f a); [|apply IH; exact Hnd].
  simpl. constructor; [|apply IH; exact Hnd]. intros Hin. apply Hx.
  apply in_map_iff in Hin. destruct Hin as [y [Hy Hin]]. apply filter_In in Hin.
  apply in_map_iff. exists y. split; [exact Hy | apply Hin].
Qed.

Lemma filter_length_le_all {A} (f : A -> bool) (l : list A) : length (filter f l) <= length l.
Proof. induction l as [|a l IH]; simpl; [lia|]. destruct (f a); simpl; lia. Qed.

Lemma filter_length_lt_all {A} (f : A -> bool) (l : list A) (y : A) :
  In y l -> f y = false -> length (filter f l) < length l.
Proof.
  induction l as [|a l IH]; intros Hy Hf; [destruct Hy|]. simpl.
  pose proof (filter_length_le_all f l) as Hle. destruct Hy as [->|Hy].
  - rewrite Hf. lia.
  - specialize (IH Hy Hf). destruct (f a); simpl; lia.
Qed.

Lemma lookup_In {A} k (l : list (nat * A)) v : lookup k l = Some v -> In (k, v) l.
Proof.
  unfold lookup. destruct (find (fun p => fst p =? k) l) as [p|] eqn:Hf; [|discriminate].
  intros H. inversion H; subst. apply find_some in Hf. destruct Hf as [Hin Hk].
  apply Nat.eqb_eq in Hk. destruct p as [a b]. simpl in *. subst. exact Hin.
Qed.

Lemma lookup_snoc {A} k (l : list (nat * A)) v : ~ In k (map fst l) -> lookup k (l ++ [(k, v)]) = Some v.
Proof.
  unfold lookup. induction l as [|[a b] l IH]; simpl; intros Hn.
  - rewrite Nat.eqb_refl. reflexivity.
  - destruct (a =? k) eqn:Hak; [apply Nat.eqb_eq in Hak; subst; exfalso; apply Hn; left; reflexivity|].
    apply IH. intros Hin. apply Hn. right. exact Hin.
Qed.

Lemma in_remove_key {A} k (l : list (nat * A)) i v : In (i, v) (remove_key k l) <-> In (i, v) l /\ i <> k.
Proof.
  unfold remove_key. rewrite filter_In. simpl. rewrite negb_true_iff, Nat.eqb_neq. tauto.
Qed.

Lemma in_keys_remove_key {A} k (l : list (nat * A)) i :
  In i (map fst (remove_key k l)) <-> In i (map fst l) /\ i <> k.
Proof.
  rewrite !in_map_iff. split.
  - intros [[a b] [Hf Hin]]. simpl in Hf. subst a. apply in_remove_key in Hin. destruct Hin as [Hin Hne].
    split; [exists (i, b); split; [reflexivity | exact Hin] | exact Hne].
  - intros [[[a b] [Hf Hin]] Hne]. simpl in Hf. subst a. exists (i, b). split; [reflexivity|].
    apply in_remove_key. split; assumption.
Qed.

(** ** Traces: a function ends at most once *)

Lemma trace_end_unique es T x a b : trace_ok es T -> In (End x a) T -> In (End x b) T -> a = b.
Proof.
  intros [_ H2] Ha Hb. apply in_split in Ha. destruct Ha as [T1 [T2 ->]].
  apply in_app_or in Hb. destruct Hb as [Hb|[Hb|Hb]].
  - destruct (H2 T1 x a T2 eq_refl) as [_ Hn]. exfalso. apply Hn. apply in_ends. exists b. exact Hb.
  - inversion Hb. reflexivity.
  - apply in_split in Hb. destruct Hb as [T3 [T4 ->]].
    destruct (H2 (T1 ++ End x a :: T3) x b T4) as [_ Hn].
    + rewrite <- app_assoc. reflexivity.
    + exfalso. apply Hn. apply in_ends. exists a. apply in_or_app. right. left. reflexivity.
Qed.

(** ** Member lists *)

Definition all_ids (ms : list member) : list nat :=
  flat_map (fun m => match m_id m with Some i => [i] | None => [] end) ms.

Lemma wn_perm ms : Permutation (wait_ids ms ++ new_ids ms) (all_ids ms).
Proof.
  induction ms as [|m ms IH]; [constructor|].
  unfold wait_ids, new_ids, all_ids in *. cbn [flat_map].
  destruct (m_st m); destruct (m_id m) as [i|]; simpl; try exact IH.
  - apply Permutation_sym. apply Permutation_cons_app. apply Permutation_sym. exact IH.
  - apply perm_skip. exact IH.
Qed.

Lemma wn_nodup_filter f ms :
  NoDup (wait_ids ms ++ new_ids ms) -> NoDup (wait_ids (filter f ms) ++ new_ids (filter f ms)).
Proof.
  intros H. eapply Permutation_NoDup; [apply Permutation_sym; apply wn_perm|].
  apply NoDup_flat_map_filter. eapply Permutation_NoDup; [apply wn_perm | exact H].
Qed.

Definition keys_ok (n : nat) (ms : list member) : Prop :=
  forall m, In m ms -> match m_id m with Some i => m_key m = i /\ i < n | None => m_key m = n end.

Definition keep (k : nat) (m : member) : bool := negb (m_key m =? k).
Definition to_wait (k : nat) (m : member) : member :=
  if m_key m =? k then mkMem (m_key m) (m_id m) (m_int m) MWait else m.

Lemma in_wait_filter n ms k x : keys_ok n ms ->
  In x (wait_ids (filter (keep k) ms)) <-> In x (wait_ids ms) /\ x <> k.
Proof.
  intros Hk. rewrite !in_wait_ids. split.
  - intros [m [Hm [Hi Hs]]]. apply filter_In in Hm. destruct Hm as [Hm Hf].
    pose proof (Hk m Hm) as Hkm. rewrite Hi in Hkm. destruct Hkm as [Hkey _].
    unfold keep in Hf. rewrite Hkey in Hf. apply negb_true_iff, Nat.eqb_neq in Hf.
    split; [exists m; auto | exact Hf].
  - intros [[m [Hm [Hi Hs]]] Hne]. exists m. split; [|auto]. apply filter_In. split; [exact Hm|].
    pose proof (Hk m Hm) as Hkm. rewrite Hi in Hkm. destruct Hkm as [Hkey _].
    unfold keep. rewrite Hkey. apply negb_true_iff, Nat.eqb_neq. exact Hne.
Qed.

Lemma in_new_filter n ms k x : keys_ok n ms ->
  In x (new_ids (filter (keep k) ms)) <-> In x (new_ids ms) /\ x <> k.
Proof.
  intros Hk. rewrite !in_new_ids. split.
  - intros [m [Hm [Hi Hs]]]. apply filter_In in Hm. destruct Hm as [Hm Hf].
    pose proof (Hk m Hm) as Hkm. rewrite Hi in Hkm. destruct Hkm as [Hkey _].
    unfold keep in Hf. rewrite Hkey in Hf. apply negb_true_iff, Nat.eqb_neq in Hf.
    split; [exists m; auto | exact Hf].
  - intros [[m [Hm [Hi Hs]]] Hne]. exists m. split; [|auto]. apply filter_In. split; [exact Hm|].
    pose proof (Hk m Hm) as Hkm. rewrite Hi in Hkm. destruct Hkm as [Hkey _].
    unfold keep. rewrite Hkey. apply negb_true_iff, Nat.eqb_neq. exact Hne.
Qed.

Lemma keys_ok_filter n f ms : keys_ok n ms -> keys_ok n (filter f ms).
Proof. intros H m Hm. apply filter_In in Hm. apply H. apply Hm. Qed.

Lemma none_filter_le f ms :
  length (filter (fun m => is_none (m_id m)) (filter f ms)) <= length (filter (fun m => is_none (m_id m)) ms).
Proof.
  induction ms as [|m ms IH]; simpl; [lia|].
  destruct (f m); simpl; destruct (is_none (m_id m)); simpl; lia.
Qed.

Lemma to_wait_key k m : m_key (to_wait k m) = m_key m.
Proof. unfold to_wait. destruct (m_key m =? k); reflexivity. Qed.
Lemma to_wait_id k m : m_id (to_wait k m) = m_id m.
Proof. unfold to_wait. destruct (m_key m =? k); reflexivity. Qed.

Lemma all_ids_to_wait k ms : all_ids (map (to_wait k) ms) = all_ids ms.
Proof.
  unfold all_ids. induction ms as [|m ms IH]; [reflexivity|]. simpl. rewrite to_wait_id, IH. reflexivity.
Qed.

Lemma wn_nodup_to_wait k ms :
  NoDup (wait_ids ms ++ new_ids ms) ->
  NoDup (wait_ids (map (to_wait k) ms) ++ new_ids (map (to_wait k) ms)).
Proof.
  intros H. eapply Permutation_NoDup; [apply Permutation_sym; apply wn_perm|].
  rewrite all_ids_to_wait. eapply Permutation_NoDup; [apply wn_perm | exact H].
Qed.

Lemma none_to_wait k ms :
  filter (fun m => is_none (m_id m)) (map (to_wait k) ms) = map (to_wait k) (filter (fun m => is_none (m_id m)) ms).
Proof.
  induction ms as [|m ms IH]; [reflexivity|]. simpl. rewrite to_wait_id.
  destruct (is_none (m_id m)); simpl; rewrite IH; reflexivity.
Qed.

Lemma keys_ok_to_wait n k ms : keys_ok n ms -> keys_ok n (map (to_wait k) ms).
Proof.
  intros H m Hm. apply in_map_iff in Hm. destruct Hm as [m0 [<- Hm0]].
  rewrite to_wait_id, to_wait_key. apply H. exact Hm0.
Qed.

Lemma in_wait_to_wait n ms k x : keys_ok n ms ->
  In x (wait_ids (map (to_wait k) ms)) <-> In x (wait_ids ms) \/ (x = k /\ In x (new_ids ms)).
Proof.
  intros Hk. rewrite !in_wait_ids, in_new_ids. split.
  - intros [m' [Hm' [Hi Hs]]]. apply in_map_iff in Hm'. destruct Hm' as [m [<- Hm]].
    rewrite to_wait_id in Hi. pose proof (Hk m Hm) as Hkm. rewrite Hi in Hkm. destruct Hkm as [Hkey _].
    unfold to_wait in Hs. rewrite Hkey in Hs. destruct (x =? k) eqn:Hxk.
    + apply Nat.eqb_eq in Hxk. destruct (m_st m) eqn:Hst; [right | left]; [split; [exact Hxk|]|]; exists m; auto.
    + left. exists m. auto.
  - intros [[m [Hm [Hi Hs]]] | [Hxk [m [Hm [Hi Hs]]]]].
    + exists (to_wait k m). split; [apply in_map; exact Hm|]. rewrite to_wait_id. split; [exact Hi|].
      unfold to_wait. destruct (m_key m =? k); [reflexivity | exact Hs].
    + exists (to_wait k m). split; [apply in_map; exact Hm|]. rewrite to_wait_id. split; [exact Hi|].
      pose proof (Hk m Hm) as Hkm. rewrite Hi in Hkm. destruct Hkm as [Hkey _].
      unfold to_wait. rewrite Hkey, Hxk, Nat.eqb_refl. reflexivity.
Qed.

Lemma in_new_to_wait n ms k x : keys_ok n ms ->
  In x (new_ids (map (to_wait k) ms)) <-> In x (new_ids ms) /\ x <> k.
Proof.
  intros Hk. rewrite !in_new_ids. split.
  - intros [m' [Hm' [Hi Hs]]]. apply in_map_iff in Hm'. destruct Hm' as [m [<- Hm]].
    rewrite to_wait_id in Hi. pose proof (Hk m Hm) as Hkm. rewrite Hi in Hkm. destruct Hkm as [Hkey _].
    unfold to_wait in Hs. rewrite Hkey in Hs. destruct (x =? k) eqn:Hxk; [discriminate|].
    apply Nat.eqb_neq in Hxk. split; [exists m; auto | exact Hxk].
  - intros [[m [Hm [Hi Hs]]] Hne]. exists (to_wait k m). split; [apply in_map; exact Hm|].
    rewrite to_wait_id. split; [exact Hi|].
    pose proof (Hk m Hm) as Hkm. rewrite Hi in Hkm. destruct Hkm as [Hkey _].
    unfold to_wait. rewrite Hkey. apply Nat.eqb_neq in Hne. rewrite Hne. exact Hs.
Qed.

(** ** Consequences of the invariant *)

Lemma Inv_wait_started cf s x : Inv cf s -> In x (wait_ids (members s)) -> In x (starts (trace s)).
Proof. intros H Hx. apply (v_started _ _ H). right. exact Hx. Qed.

Lemma Inv_id_lt cf s x : Inv cf s -> In x (wait_ids (members s)) \/ In x (new_ids (members s)) -> x < c_n cf.
Proof.
  intros H Hx. apply (v_rs_lt _ _ H). apply (Inv_recv_sub _ _ H). apply (v_recv _ _ H).
  destruct Hx as [Hx|Hx]; [left; apply (Inv_wait_started _ _ _ H Hx) | right; exact Hx].
Qed.

Lemma Inv_keys_ok cf s : Inv cf s -> keys_ok (c_n cf) (members s).
Proof.
  intros H m Hm. pose proof (v_keys _ _ H m Hm) as Hk. destruct (m_id m) as [i|] eqn:Hi; [|exact Hk].
  split; [exact Hk|]. apply (Inv_id_lt _ _ _ H).
  destruct (m_st m) eqn:Hs; [right; apply in_new_ids | left; apply in_wait_ids]; exists m; auto.
Qed.

Lemma Inv_new_not_wait cf s x : Inv cf s -> In x (new_ids (members s)) -> ~ In x (wait_ids (members s)).
Proof.
  intros H Hx Hw. destruct (NoDup_app_inv _ _ (v_mem_nodup _ _ H)) as [_ [_ Hd]]. exact (Hd x Hw Hx).
Qed.

Lemma Inv_mem_serr cf s m : Inv cf s -> In m (members s) -> s_err s = None.
Proof.
  intros H Hm. destruct (s_err s) eqn:E; [|reflexivity].
  destruct (v_serr _ _ H) as [Hmem _]; [rewrite E; discriminate|]. rewrite Hmem in Hm. destruct Hm.
Qed.

(** ** A user future resolves *)

Lemma inv_complete cf s i ok :
  Inv cf s -> In i (wait_ids (members s)) -> ~ In i (map fst (completed s)) -> Inv cf (complete s i ok).
Proof.
  intros Hinv Hw Hnc.
  assert (Hst : In i (starts (trace s))) by (apply (Inv_wait_started _ _ _ Hinv Hw)).
  assert (Hnf : ~ In i (g_finished s)) by (intros Hf; exact (v_fin_wait _ _ Hinv i Hf Hw)).
  assert (Hne : ~ In i (ends (trace s))).
  { intros He. apply (v_ended_split _ _ Hinv) in He. tauto. }
  destruct Hinv. unfold complete. constructor; simpl; try assumption.
  - intros x. rewrite starts_snoc_end. apply v_started.
  - intros x Hx. rewrite starts_snoc_end. apply v_new_fresh. exact Hx.
  - intros x. rewrite starts_snoc_end. apply v_recv.
  - apply trace_ok_snoc_end; assumption.
  - intros x Hx. rewrite ends_snoc_end. apply in_or_app. left. apply v_fin_ended. exact Hx.
  - intros Ht x Hx. rewrite failed_snoc_end. intros Hin. apply in_app_or in Hin. destruct Hin as [Hin|Hin].
    + exact (v_ds_ok Ht x Hx Hin).
    + destruct ok; [destruct Hin|]. destruct Hin as [<-|[]]. apply Hnf. apply v_ds_fin. exact Hx.
  - intros j okj Hin. apply in_app_or in Hin. destruct Hin as [Hin|[Hin|[]]].
    + destruct (v_completed j okj Hin) as [Hjw Hje]. split; [exact Hjw|]. apply in_or_app. left. exact Hje.
    + inversion Hin; subst. split; [exact Hw|]. apply in_or_app. right. left. reflexivity.
  - rewrite map_app. simpl. apply NoDup_app_intro; [assumption | constructor; [intros []|constructor] |].
    intros x Hx [<-|[]]. exact (Hnc Hx).
  - intros x. rewrite ends_snoc_end, map_app, !in_app_iff. simpl. rewrite v_ended_split. tauto.
Qed.

(** ** First poll of a block *)

Lemma start_block_eq cf s m id :
  ~ In id (wait_ids (members s)) ->
  start_block cf s m id = s <| trace := trace s ++ [Start id] |> <| members := map (to_wait (m_key m)) (members s) |>.
Proof.
  intros Hn. unfold start_block. destruct (is_waiting_b s id) eqn:Hw.
  - exfalso. apply Hn. apply is_waiting_spec. exact Hw.
  - rewrite andb_false_r. reflexivity.
Qed.

Lemma inv_start_block cf s m id :
  Inv cf s -> In m (members s) -> m_st m = MNew -> m_id m = Some id ->
  Inv cf (start_block cf s m id).
Proof.
  intros Hinv Hm Hst Hid.
  assert (Hnew : In id (new_ids (members s))) by (apply in_new_ids; exists m; auto).
  assert (Hnw : ~ In id (wait_ids (members s))) by (apply (Inv_new_not_wait _ _ _ Hinv Hnew)).
  pose proof (Inv_keys_ok _ _ Hinv) as Hko.
  assert (Hkey : m_key m = id).
  { pose proof (Hko m Hm) as H. rewrite Hid in H. apply H. }
  rewrite start_block_eq by exact Hnw. rewrite Hkey.
  assert (Hns : ~ In id (starts (trace s))) by (apply (v_new_fresh _ _ Hinv); exact Hnew).
  assert (Hnf : ~ In id (g_finished s)).
  { intros Hf. apply Hns. apply (v_started _ _ Hinv). left. exact Hf. }
  assert (Hpar : forall p, Edge (c_es cf) p id -> In p (ends (trace s))).
  { intros p Hp. apply (v_fin_ended _ _ Hinv). apply (v_ds_fin _ _ Hinv). rewrite (v_done _ _ Hinv).
    apply in_or_app. left. revert p Hp. apply unproc_nil. apply (v_sent _ _ Hinv).
    apply (Inv_recv_sub _ _ Hinv). apply (v_recv _ _ Hinv). right. exact Hnew. }
  destruct Hinv. constructor; simpl; try assumption.
  - apply keys_ok_to_wait with (k := id) in Hko. intros m' Hm'. specialize (Hko m' Hm').
    destruct (m_id m'); [apply Hko | exact Hko].
  - apply wn_nodup_to_wait. assumption.
  - intros x. rewrite starts_snoc_start, in_app_iff, (in_wait_to_wait _ _ _ _ Hko), v_started. simpl.
    split.
    + intros [[H|H]|[<-|[]]]; auto.
    + intros [H|[H|[-> H]]]; auto.
  - intros x Hx Hw. apply (in_wait_to_wait _ _ _ _ Hko) in Hw. destruct Hw as [Hw|[-> _]].
    + exact (v_fin_wait x Hx Hw).
    + exact (Hnf Hx).
  - intros x Hx. apply (in_new_to_wait _ _ _ _ Hko) in Hx. destruct Hx as [Hx Hne].
    rewrite starts_snoc_start, in_app_iff. simpl. intros [H|[H|[]]]; [exact (v_new_fresh x Hx H) | congruence].
  - intros x. rewrite starts_snoc_start, in_app_iff, (in_new_to_wait _ _ _ _ Hko). simpl.
    intros [[H|[<-|[]]]|[H _]]; apply v_recv; auto.
  - apply trace_ok_snoc_start; assumption.
  - intros x Hx. rewrite ends_snoc_start. apply v_fin_ended. exact Hx.
  - intros Ht x Hx. rewrite failed_snoc_start. apply v_ds_ok; assumption.
  - intros i ok Hin. destruct (v_completed i ok Hin) as [Hw He]. split.
    + apply (in_wait_to_wait _ _ _ _ Hko). left. exact Hw.
    + apply in_or_app. left. exact He.
  - intros x. rewrite ends_snoc_start. apply v_ended_split.
  - rewrite map_length. assumption.
  - rewrite none_to_wait, map_length. assumption.
  - intros He. destruct (v_serr He) as [Hmem _]. rewrite Hmem in Hm. destruct Hm.
Qed.

(** ** The end of a block *)

Lemma take_s_tx_shape s : exists d wk,
  take_s_tx s = s <| s_tx := false |> <| done := d |> <| woken := wk |> /\
  buf d = buf (done s) /\ cap d = cap (done s).
Proof.
  unfold take_s_tx. destruct (s_tx s) eqn:Htx.
  - pose proof (drop_sender_buf (done s)) as Hb. pose proof (drop_sender_cap (done s)) as Hc.
    destruct (drop_sender (done s)) as [c wk]. exists c, (woken s || wk). simpl in *. auto.
  - exists (done s), (woken s). split; [|auto]. destruct s. simpl in *. subst. reflexivity.
Qed.

Lemma done_send_shape s id : length (buf (done s)) < cap (done s) ->
  done_send s id = s \/
  exists c wk, done_send s id = s <| done := c |> <| woken := wk |> <| g_done_sent := g_done_sent s ++ [id] |> /\
               buf c = buf (done s) ++ [id] /\ cap c = cap (done s).
Proof.
  intros Hl. unfold done_send. destruct (try_send (done s) id) as [[c r] wk] eqn:Hts. destruct r.
  - right. destruct (try_send_ok _ _ _ _ Hts) as [Hb [Hc _]]. exists c, (woken s || wk). auto.
  - exfalso. unfold try_send in Hts. destruct (rx_open (done s)); simpl in Hts; [|discriminate].
    destruct (cap (done s) <=? length (buf (done s))) eqn:Hle; [|discriminate]. apply Nat.leb_le in Hle. lia.
  - left. reflexivity.
Qed.

Definition fin_eff (cf : cfg) (s : state) (k id : nat) (ok : bool) (s' : state) : Prop :=
  panic s' = panic s /\ cap (ready s') = cap (ready s) /\ cap (done s') = cap (done s) /\
  g_ready_sent s' = g_ready_sent s /\ g_received s' = g_received s /\ g_qproc s' = g_qproc s /\
  counts s' = counts s /\ trace s' = trace s /\ completed s' = completed s /\ q_rem s' = q_rem s /\
  w s' = w s /\ runq s' = runq s /\
  members s' = filter (keep k) (members s) /\
  g_finished s' = g_finished s ++ [id] /\
  ((g_done_sent s' = g_done_sent s /\ buf (done s') = buf (done s)) \/
   (g_done_sent s' = g_done_sent s ++ [id] /\ buf (done s') = buf (done s) ++ [id] /\
    (is_try (c_api cf) = true -> ok = true))) /\
  (errs s' = errs s \/ errs s' = errs s ++ [id]) /\
  ((s_err s' = s_err s /\ S (s_rem s') = s_rem s /\ ready s' = ready s /\ s_alive s' = s_alive s /\
    s_fin s' = s_fin s) \/
   (s_err s' = Some id /\ buf (ready s') = [] /\ rx_open (ready s') = false /\ s_alive s' = false /\
    s_fin s' = true /\ c_api cf = ATryFold)).

Ltac fin_split := unfold fin_eff; simpl; repeat match goal with |- _ /\ _ => split end;
  try reflexivity; try assumption; try congruence.

(** Updates the invariant cannot see. *)
Definition inv_upd (s s' : state) : Prop :=
  exists b d wk, s' = s <| s_tx := b |> <| done := d |> <| woken := wk |> /\
                 buf d = buf (done s) /\ cap d = cap (done s).

Lemma inv_upd_refl s : inv_upd s s.
Proof. exists (s_tx s), (done s), (woken s). split; [destruct s; reflexivity | auto]. Qed.

Lemma inv_upd_take s : inv_upd s (take_s_tx s).
Proof. destruct (take_s_tx_shape s) as (d & wk & He & Hb & Hc). exists false, d, wk. auto. Qed.

Lemma inv_upd_trans s s' s'' : inv_upd s s' -> inv_upd s' s'' -> inv_upd s s''.
Proof.
  intros (b & d & wk & -> & Hb & Hc) (b' & d' & wk' & -> & Hb' & Hc'). simpl in *.
  exists b', d', wk'. split; [destruct s; reflexivity | split; congruence].
Qed.

Lemma inv_upd_if (c : bool) s : inv_upd s (if c then take_s_tx s else s).
Proof. destruct c; [apply inv_upd_take | apply inv_upd_refl]. Qed.

Definition fb_fail (cf : cfg) (s : state) (id : nat) (ok : bool) : state :=
  if negb ok && match c_api cf with ATryForEach => true | _ => false end then
    let s := if Nat.max 1 (c_n cf) <=? length (errs s) then set_panic PResult s
             else s <| errs := errs s ++ [id] |> in
    take_s_tx s
  else s.
Definition fb_send (s : state) (id : nat) : state := if s_tx s then done_send s id else s.
Definition fb_tail (mi : bool) (s : state) (id : nat) : state :=
  let s := match s_rem s with 0 => set_panic PSRem s | S r => s <| s_rem := r |> end in
  let s := if s_rem s =? 0 then take_s_tx s else s in
  let s := if mi then take_s_tx s else s in
  s <| g_finished := g_finished s ++ [id] |>.

Lemma finish_block_unfold cf s m id ok :
  finish_block cf s m id ok =
  let s := remove_member s (m_key m) in
  if negb ok && match c_api cf with ATryFold => true | _ => false end then
    drop_ready_rx (take_s_tx s) <| s_err := Some id |> <| s_fin := true |> <| g_finished := g_finished s ++ [id] |>
  else fb_tail (m_int m) (fb_send (fb_fail cf s id ok) id) id.
Proof. reflexivity. Qed.

Lemma fb_fail_shape cf s id ok : length (errs s) < Nat.max 1 (c_n cf) ->
  (negb ok && match c_api cf with ATryForEach => true | _ => false end = false /\ fb_fail cf s id ok = s) \/
  (exists d wk, fb_fail cf s id ok = s <| errs := errs s ++ [id] |> <| s_tx := false |> <| done := d |> <| woken := wk |> /\
                buf d = buf (done s) /\ cap d = cap (done s)).
Proof.
  intros Hl. unfold fb_fail. destruct (negb ok && match c_api cf with ATryForEach => true | _ => false end); [right | left; auto].
  destruct (Nat.max 1 (c_n cf) <=? length (errs s)) eqn:Hle; [apply Nat.leb_le in Hle; lia|].
  destruct (take_s_tx_shape (s <| errs := errs s ++ [id] |>)) as (d & wk & He & Hb & Hc).
  exists d, wk. simpl in Hb, Hc. auto.
Qed.

Lemma fb_send_shape s id : length (buf (done s)) < cap (done s) ->
  fb_send s id = s \/
  (s_tx s = true /\
   exists c wk, fb_send s id = s <| done := c |> <| woken := wk |> <| g_done_sent := g_done_sent s ++ [id] |> /\
                buf c = buf (done s) ++ [id] /\ cap c = cap (done s)).
Proof.
  intros Hl. unfold fb_send. destruct (s_tx s); [|left; reflexivity].
  destruct (done_send_shape s id Hl) as [H|H]; [left; exact H | right; split; [reflexivity | exact H]].
Qed.

Lemma fb_tail_shape mi s id : 1 <= s_rem s ->
  exists r b d wk, s_rem s = S r /\
    fb_tail mi s id = s <| s_rem := r |> <| s_tx := b |> <| done := d |> <| woken := wk |>
                        <| g_finished := g_finished s ++ [id] |> /\
    buf d = buf (done s) /\ cap d = cap (done s).
Proof.
  intros Hr. unfold fb_tail. destruct (s_rem s) as [|r] eqn:Hs; [lia|].
  set (s1 := s <| s_rem := r |>).
  assert (Hu : inv_upd s1 (if mi then take_s_tx (if s_rem s1 =? 0 then take_s_tx s1 else s1)
                           else (if s_rem s1 =? 0 then take_s_tx s1 else s1))).
  { eapply inv_upd_trans; [apply inv_upd_if | apply inv_upd_if]. }
  destruct Hu as (b & d & wk & He & Hb & Hc). exists r, b, d, wk. split; [reflexivity|].
  cbv zeta. rewrite He. unfold s1. simpl in *. auto.
Qed.

Lemma finish_block_eff cf s m id ok :
  panic s = None -> 1 <= s_rem s -> length (errs s) < Nat.max 1 (c_n cf) ->
  length (buf (done s)) < cap (done s) ->
  fin_eff cf s (m_key m) id ok (finish_block cf s m id ok).
Proof.
  intros Hpan Hrem Herrs Hdone. rewrite finish_block_unfold. cbv zeta. unfold remove_member.
  change (fun m0 : member => negb (m_key m0 =? m_key m)) with (keep (m_key m)).
  set (s1 := s <| members := filter (keep (m_key m)) (members s) |>).
  destruct (negb ok && match c_api cf with ATryFold => true | _ => false end) eqn:HA.
  - destruct (take_s_tx_shape s1) as (d & wk & -> & Hb & Hc). unfold s1 in *. simpl in Hb, Hc.
    unfold drop_ready_rx, drop_rx. fin_split.
    + left. split; reflexivity || assumption.
    + left. reflexivity.
    + right. repeat split. destruct ok; destruct (c_api cf); simpl in HA; try discriminate; reflexivity.
  - assert (Hsend : is_try (c_api cf) = true -> negb ok && match c_api cf with ATryForEach => true | _ => false end = false -> ok = true).
    { intros Ht HB. destruct ok; [reflexivity|]. destruct (c_api cf); simpl in *; discriminate. }
    destruct (fb_fail_shape cf s1 id ok Herrs) as [[HB ->] | (d & wk & -> & Hb & Hc)].
    + destruct (fb_send_shape s1 id Hdone) as [-> | (Htx & c & wk & -> & Hb & Hc)].
      * destruct (fb_tail_shape (m_int m) s1 id Hrem) as (r & b & d & wk & Hr & -> & Hb & Hc).
        unfold s1 in *. simpl in Hb, Hc, Hr. fin_split.
        -- left. split; reflexivity || assumption.
        -- left. reflexivity.
        -- left. repeat split; congruence.
      * match goal with |- fin_eff _ _ _ _ _ (fb_tail _ ?X _) =>
          destruct (fb_tail_shape (m_int m) X id Hrem) as (r & b & d & wk' & Hr & -> & Hb' & Hc') end.
        unfold s1 in *. simpl in Hb, Hc, Hr, Hb', Hc'. fin_split.
        -- right. repeat split; try congruence. intros Ht. apply Hsend; assumption.
        -- left. reflexivity.
        -- left. repeat split; congruence.
    + unfold fb_send. unfold s1 at 1. cbn [s_tx set eta_state].
      match goal with |- fin_eff _ _ _ _ _ (fb_tail _ ?X _) =>
          destruct (fb_tail_shape (m_int m) X id Hrem) as (r & b & d' & wk' & Hr & -> & Hb' & Hc') end.
      unfold s1 in *. simpl in Hb, Hc, Hr, Hb', Hc'. fin_split.
      * left. split; congruence.
      * right. reflexivity.
      * left. repeat split; congruence.
Qed.

(** The net effect of [finish_block] preserves the invariant ([s] is the state before the entry
    of [id] is taken out of [completed]). *)
Lemma inv_fin_eff cf s s' id ok :
  Inv cf s -> In (id, ok) (completed s) ->
  fin_eff cf (s <| completed := remove_key id (completed s) |>) id id ok s' -> Inv cf s'.
Proof.
  intros Hinv Hc Heff. unfold fin_eff in Heff. simpl in Heff.
  destruct Heff as (E1 & E2 & E3 & E4 & E5 & E6 & E7 & E8 & E9 & E10 & E11 & E12 & E13 & E14 & E15 & E16 & E17).
  destruct (v_completed _ _ Hinv id ok Hc) as [Hw He].
  pose proof (Inv_keys_ok _ _ Hinv) as Hko.
  assert (Hnf : ~ In id (g_finished s)) by (intros Hf; exact (v_fin_wait _ _ Hinv id Hf Hw)).
  assert (Hnds : ~ In id (g_done_sent s)) by (intros Hd; apply Hnf; apply (v_ds_fin _ _ Hinv); exact Hd).
  destruct Hinv. constructor.
  - rewrite E1. assumption.
  - rewrite E2. assumption.
  - rewrite E3. assumption.
  - destruct v_ready as [rest [Hrs Hop]]. exists rest. rewrite E4, E5. split; [exact Hrs|].
    destruct E17 as [(_ & _ & Er & _) | (_ & _ & Ho & _)]; [rewrite Er; exact Hop | rewrite Ho; discriminate].
  - rewrite E6. destruct E15 as [[-> ->] | (-> & -> & _)]; [assumption|].
    rewrite v_done, <- app_assoc. reflexivity.
  - rewrite E4. assumption.
  - rewrite E4. assumption.
  - rewrite E14. destruct E15 as [[-> _] | (-> & _)]; intros x Hx; apply in_or_app.
    + left. apply v_ds_fin. exact Hx.
    + apply in_app_or in Hx. destruct Hx as [Hx|Hx]; [left; apply v_ds_fin; exact Hx | right; exact Hx].
  - destruct E15 as [[-> _] | (-> & _)]; [assumption|].
    apply NoDup_app_intro; [assumption | constructor; [intros [] | constructor] |].
    intros x Hx [<-|[]]. exact (Hnds Hx).
  - rewrite E7. assumption.
  - rewrite E7, E6. assumption.
  - rewrite E4, E6. assumption.
  - rewrite E13. intros m Hm. apply filter_In in Hm. apply v_keys. apply Hm.
  - rewrite E13. apply wn_nodup_filter. assumption.
  - rewrite E8, E14, E13. intros x. rewrite in_app_iff, (in_wait_filter _ _ _ _ Hko), v_started. simpl. split.
    + intros [H|H]; [auto|]. destruct (Nat.eq_dec x id) as [->|Hne]; auto.
    + intros [[H|[<-|[]]]|[H _]]; auto.
  - rewrite E14, E13. intros x Hx Hwx. apply (in_wait_filter _ _ _ _ Hko) in Hwx. destruct Hwx as [Hwx Hne].
    apply in_app_or in Hx. destruct Hx as [Hx|[Hx|[]]]; [exact (v_fin_wait x Hx Hwx) | congruence].
  - rewrite E14. apply NoDup_app_intro; [assumption | constructor; [intros [] | constructor] |].
    intros x Hx [<-|[]]. exact (Hnf Hx).
  - rewrite E13, E8. intros x Hx. apply (in_new_filter _ _ _ _ Hko) in Hx. apply v_new_fresh. apply Hx.
  - rewrite E8, E13, E5. intros x [H|H]; apply v_recv; [left; exact H | right].
    apply (in_new_filter _ _ _ _ Hko) in H. apply H.
  - rewrite E8. assumption.
  - rewrite E14, E8. intros x Hx. apply in_app_or in Hx. destruct Hx as [Hx|[<-|[]]].
    + apply v_fin_ended. exact Hx.
    + apply in_ends. exists ok. exact He.
  - rewrite E8. intros Ht x Hx. destruct E15 as [[Ed _] | (Ed & _ & Hok)]; rewrite Ed in Hx.
    + apply v_ds_ok; assumption.
    + apply in_app_or in Hx. destruct Hx as [Hx|[<-|[]]]; [apply v_ds_ok; assumption|].
      intros Hf. apply in_failed in Hf. specialize (Hok Ht). subst ok.
      pose proof (trace_end_unique _ _ _ _ _ v_trace He Hf). discriminate.
  - rewrite E9, E13, E8. intros i oki Hin. apply in_remove_key in Hin. destruct Hin as [Hin Hne].
    destruct (v_completed i oki Hin) as [Hwi Hei]. split; [|exact Hei].
    apply (in_wait_filter _ _ _ _ Hko). auto.
  - rewrite E9. unfold remove_key. apply NoDup_map_filter. assumption.
  - rewrite E8, E14, E9. intros x. rewrite in_app_iff, in_keys_remove_key, v_ended_split. simpl. split.
    + intros [H|H]; [auto|]. destruct (Nat.eq_dec x id) as [->|Hne]; auto.
    + intros [[H|[<-|[]]]|[H _]]; auto. right. apply in_map_iff. exists (id, ok). auto.
  - destruct E17 as [(Ee & Er & _) | (Ee & _)]; rewrite Ee; [|discriminate].
    intros Hn. specialize (v_srem Hn). rewrite E14, app_length. simpl. lia.
  - rewrite E10, E6. assumption.
  - rewrite E14. destruct v_errs as [Hnd Hin]. destruct E16 as [-> | ->].
    + split; [exact Hnd|]. intros x Hx. apply in_or_app. left. apply Hin. exact Hx.
    + split.
      * apply NoDup_app_intro; [assumption | constructor; [intros [] | constructor] |].
        intros x Hx [<-|[]]. apply Hnf. apply Hin. exact Hx.
      * intros x Hx. apply in_or_app. apply in_app_or in Hx. destruct Hx as [Hx|Hx]; [left; apply Hin; exact Hx | right; exact Hx].
  - rewrite E13. intros Hl. specialize (v_limit Hl). pose proof (filter_length_le_all (keep id) (members s)). lia.
  - destruct E17 as [(_ & _ & Er & Ea & _) | (_ & _ & Ho & Ea & _)]; rewrite Ea; [rewrite Er; assumption | rewrite Ho; reflexivity].
  - rewrite E13, E11. eapply Nat.le_trans; [apply none_filter_le | assumption].
  - rewrite E13. destruct E17 as [(Ee & _ & _ & Ea & _) | (Ee & _ & _ & Ea & _ & Hapi)].
    + rewrite Ee, Ea. intros Hn. destruct (v_serr Hn) as [Hmem Hal]. rewrite Hmem. simpl. auto.
    + intros _. split; [|exact Ea]. apply length_zero_iff_nil.
      assert (Hlim : length (members s) <= 1).
      { assert (Hel : eff_limit cf = 1) by (unfold eff_limit; rewrite Hapi; reflexivity).
        rewrite <- Hel. apply v_limit. rewrite Hel. discriminate. }
      apply in_wait_ids in Hw. destruct Hw as [m0 [Hm0 [Hi0 _]]].
      assert (Hlt : length (filter (keep id) (members s)) < length (members s)).
      { apply (filter_length_lt_all _ _ m0 Hm0).
        pose proof (Hko m0 Hm0) as Hk. rewrite Hi0 in Hk. destruct Hk as [Hk _].
        unfold keep. rewrite Hk, Nat.eqb_refl. reflexivity. }
      lia.
Qed.

(** ** What a block poll leaves alone *)

Definition bp_frame (s s' : state) (rdy : bool) : Prop :=
  runq s' = runq s /\ w s' = w s /\
  length (members s') <= length (members s) /\
  (rdy = true -> length (members s') < length (members s)) /\
  length (buf (ready s')) <= length (buf (ready s)) /\
  (s_fin s' = s_fin s \/ s_fin s' = true) /\
  (rx_open (ready s') = rx_open (ready s) \/ rx_open (ready s') = false) /\
  ((s_err s' = s_err s /\ s_fin s' = s_fin s) \/ s_fin s' = true).

Lemma Inv_room cf s id : Inv cf s -> In id (wait_ids (members s)) -> length (g_finished s) < c_n cf.
Proof.
  intros H Hw. assert (Hl : length (g_finished s ++ [id]) <= c_n cf).
  { apply NoDup_bounded_length.
    - apply NoDup_app_intro; [apply (v_fin_nodup _ _ H) | constructor; [intros [] | constructor] |].
      intros x Hx [<-|[]]. exact (v_fin_wait _ _ H _ Hx Hw).
    - intros x Hx. apply in_app_or in Hx. destruct Hx as [Hx|[<-|[]]].
      + apply (Inv_fin_lt _ _ H). exact Hx.
      + apply (Inv_id_lt _ _ _ H). left. exact Hw. }
  rewrite app_length in Hl. simpl in Hl. lia.
Qed.

Lemma inv_resume_block cf s m id :
  Inv cf s -> m_key m = id ->
  Inv cf (fst (resume_block cf s m id)) /\
  bp_frame s (fst (resume_block cf s m id)) (snd (resume_block cf s m id)).
Proof.
  intros Hinv Hkey. unfold resume_block. destruct (lookup id (completed s)) as [ok|] eqn:Hl.
  - apply lookup_In in Hl. destruct (v_completed _ _ Hinv id ok Hl) as [Hw He].
    pose proof (Inv_room _ _ _ Hinv Hw) as Hroom.
    set (s0 := s <| completed := remove_key id (completed s) |>).
    assert (Heff : fin_eff cf s0 (m_key m) id ok (finish_block cf s0 m id ok)).
    { apply finish_block_eff; unfold s0.
      - change (panic s = None). apply (v_nopanic _ _ Hinv).
      - change (1 <= s_rem s).
        assert (Hn : s_err s = None).
        { apply in_wait_ids in Hw. destruct Hw as [m0 [Hm0 _]]. exact (Inv_mem_serr _ _ _ Hinv Hm0). }
        pose proof (v_srem _ _ Hinv Hn). lia.
      - change (length (errs s) < Nat.max 1 (c_n cf)). destruct (v_errs _ _ Hinv) as [Hnd Hin].
        pose proof (NoDup_incl_length Hnd Hin). lia.
      - change (length (buf (done s)) < cap (done s)). rewrite (v_cap_d _ _ Hinv).
        pose proof (NoDup_incl_length (v_ds_nodup _ _ Hinv) (v_ds_fin _ _ Hinv)) as Hle.
        rewrite (v_done _ _ Hinv), app_length in Hle. lia. }
    rewrite Hkey in Heff. cbn [fst snd]. split; [eapply inv_fin_eff; eassumption|].
    subst s0. unfold fin_eff in Heff. simpl in Heff.
    destruct Heff as (E1 & E2 & E3 & E4 & E5 & E6 & E7 & E8 & E9 & E10 & E11 & E12 & E13 & E14 & E15 & E16 & E17).
    unfold bp_frame. rewrite E13. repeat split.
    + exact E12.
    + exact E11.
    + apply filter_length_le_all.
    + intros _. apply in_wait_ids in Hw. destruct Hw as [m0 [Hm0 [Hi0 _]]].
      apply (filter_length_lt_all _ _ m0 Hm0).
      pose proof (Inv_keys_ok _ _ Hinv m0 Hm0) as Hk. rewrite Hi0 in Hk. destruct Hk as [Hk _].
      unfold keep. rewrite Hk, Nat.eqb_refl. reflexivity.
    + destruct E17 as [(_ & _ & Er & _) | (_ & Eb & _)]; [rewrite Er; lia | rewrite Eb; simpl; lia].
    + destruct E17 as [(_ & _ & _ & _ & Ef) | (_ & _ & _ & _ & Ef & _)]; auto.
    + destruct E17 as [(_ & _ & Er & _) | (_ & _ & Eo & _)]; [rewrite Er; auto | auto].
    + destruct E17 as [(Ee & _ & _ & _ & Ef) | (_ & _ & _ & _ & Ef & _)]; auto.
  - cbn [fst snd]. split; [exact Hinv|]. unfold bp_frame. repeat split; auto; discriminate.
Qed.

(** ** A block without a function (`NoInterrupt`-less interrupt item) *)

Lemma inv_remove_none cf s m :
  Inv cf s -> In m (members s) -> m_id m = None ->
  Inv cf (remove_member (if m_int m then take_s_tx s else s) (m_key m)).
Proof.
  intros Hinv Hm Hid.
  pose proof (Inv_keys_ok _ _ Hinv) as Hko.
  assert (Hkey : m_key m = c_n cf).
  { pose proof (Hko m Hm) as H. rewrite Hid in H. exact H. }
  destruct (inv_upd_if (m_int m) s) as (b & d & wk & -> & Hb & Hc).
  unfold remove_member. simpl. rewrite Hkey.
  change (fun m0 : member => negb (m_key m0 =? c_n cf)) with (keep (c_n cf)).
  assert (Hwf : forall x, In x (wait_ids (filter (keep (c_n cf)) (members s))) <-> In x (wait_ids (members s))).
  { intros x. rewrite (in_wait_filter _ _ _ _ Hko). split; [tauto|]. intros Hx. split; [exact Hx|].
    pose proof (Inv_id_lt _ _ x Hinv (or_introl Hx)). lia. }
  assert (Hnf : forall x, In x (new_ids (filter (keep (c_n cf)) (members s))) <-> In x (new_ids (members s))).
  { intros x. rewrite (in_new_filter _ _ _ _ Hko). split; [tauto|]. intros Hx. split; [exact Hx|].
    pose proof (Inv_id_lt _ _ x Hinv (or_intror Hx)). lia. }
  destruct Hinv. constructor; simpl; try assumption.
  - rewrite Hc. assumption.
  - rewrite Hb. assumption.
  - intros m0 Hm0. apply filter_In in Hm0. apply v_keys. apply Hm0.
  - apply wn_nodup_filter. assumption.
  - intros x. rewrite Hwf. apply v_started.
  - intros x Hx. rewrite Hwf. apply v_fin_wait. exact Hx.
  - intros x Hx. apply v_new_fresh. apply Hnf. exact Hx.
  - intros x. rewrite Hnf. apply v_recv.
  - intros i ok Hin. rewrite Hwf. apply v_completed. exact Hin.
  - intros Hl. specialize (v_limit Hl). pose proof (filter_length_le_all (keep (c_n cf)) (members s)). lia.
  - eapply Nat.le_trans; [apply none_filter_le | assumption].
  - intros He. destruct (v_serr He) as [Hmem _]. rewrite Hmem in Hm. destruct Hm.
Qed.

(** ** Sub-actions that preserve the invariant on their own *)

Lemma inv_take_s_tx cf s : Inv cf s -> Inv cf (take_s_tx s).
Proof. apply Inv_core_eq. apply core_eq_take_s_tx. Qed.

Lemma inv_drop_ready_rx cf s : Inv cf s -> Inv cf (drop_ready_rx s).
Proof.
  intros Hinv. destruct Hinv. unfold drop_ready_rx, drop_rx. constructor; simpl; try assumption.
  - destruct v_ready as [rest [Hrs _]]. exists rest. split; [exact Hrs | discriminate].
  - reflexivity.
  - intros He. split; [apply (v_serr He) | reflexivity].
Qed.

(** ** One poll of a block *)

Lemma bp_frame_refl s : bp_frame s s false.
Proof. unfold bp_frame. repeat split; auto; discriminate. Qed.

Theorem inv_block_poll_gen cf s m :
  Inv cf s -> In m (members s) ->
  Inv cf (fst (block_poll cf s m)) /\ bp_frame s (fst (block_poll cf s m)) (snd (block_poll cf s m)).
Proof.
  intros Hinv Hm. pose proof (Inv_keys_ok _ _ Hinv) as Hko.
  unfold block_poll. destruct (m_st m) eqn:Hst; destruct (m_id m) as [id|] eqn:Hid.
  - (* first poll of a block with a function *)
    assert (Hnew : In id (new_ids (members s))) by (apply in_new_ids; exists m; auto).
    assert (Hnw : ~ In id (wait_ids (members s))) by (apply (Inv_new_not_wait _ _ _ Hinv Hnew)).
    assert (Hkey : m_key m = id).
    { pose proof (Hko m Hm) as H. rewrite Hid in H. apply H. }
    pose proof (inv_start_block cf s m id Hinv Hm Hst Hid) as Hinv1.
    rewrite start_block_eq in * by exact Hnw.
    set (s1 := s <| trace := trace s ++ [Start id] |> <| members := map (to_wait (m_key m)) (members s) |>) in *.
    destruct (lookup id (c_imm cf)) as [ok|].
    + assert (Hnc : ~ In id (map fst (completed s))).
      { intros Hin. apply in_map_iff in Hin. destruct Hin as [[i b] [Hi Hin]]. simpl in Hi. subst i.
        apply Hnw. apply (v_completed _ _ Hinv id b Hin). }
      assert (Hinv2 : Inv cf (complete s1 id ok)).
      { apply inv_complete; [exact Hinv1 | | exact Hnc].
        change (members s1) with (map (to_wait (m_key m)) (members s)).
        apply (in_wait_to_wait _ _ _ _ Hko). right. split; [symmetry; exact Hkey | exact Hnew]. }
      destruct (inv_resume_block cf (complete s1 id ok) m id Hinv2 Hkey) as [Hi Hf].
      split; [exact Hi|].
      destruct (resume_block cf (complete s1 id ok) m id) as [s' rdy]. cbn [fst snd] in *.
      destruct Hf as (F1 & F2 & F3 & F4 & F5 & F6 & F7 & F8).
      change (members (complete s1 id ok)) with (map (to_wait (m_key m)) (members s)) in F3, F4.
      rewrite map_length in F3, F4.
      unfold bp_frame. repeat split; assumption.
    + cbn [fst snd]. split; [exact Hinv1|]. unfold bp_frame, s1. simpl. rewrite map_length.
      repeat split; auto; discriminate.
  - (* a block without a function *)
    cbn [fst snd]. split; [apply inv_remove_none; assumption|].
    destruct (inv_upd_if (m_int m) s) as (b & d & wk & -> & _ & _).
    unfold remove_member, bp_frame. simpl. repeat split; auto.
    + apply filter_length_le_all.
    + intros _. apply (filter_length_lt_all _ _ m Hm). rewrite Nat.eqb_refl. reflexivity.
  - (* a block whose user future may have resolved *)
    apply inv_resume_block; [exact Hinv|].
    pose proof (Hko m Hm) as H. rewrite Hid in H. apply H.
  - cbn [fst snd]. split; [exact Hinv | apply bp_frame_refl].
Qed.

(** The statement in full ([cfg_ok] is not used). *)
Theorem inv_block_poll cf s m :
  cfg_ok cf -> Inv cf s -> In m (members s) ->
  Inv cf (fst (block_poll cf s m)) /\
  runq (fst (block_poll cf s m)) = runq s /\ w (fst (block_poll cf s m)) = w s /\
  length (members (fst (block_poll cf s m))) <= length (members s) /\
  (snd (block_poll cf s m) = true -> length (members (fst (block_poll cf s m))) < length (members s)) /\
  length (buf (ready (fst (block_poll cf s m)))) <= length (buf (ready s)) /\
  (s_fin (fst (block_poll cf s m)) = s_fin s \/ s_fin (fst (block_poll cf s m)) = true) /\
  (rx_open (ready (fst (block_poll cf s m))) = rx_open (ready s) \/ rx_open (ready (fst (block_poll cf s m))) = false) /\
  ((s_err (fst (block_poll cf s m)) = s_err s /\ s_fin (fst (block_poll cf s m)) = s_fin s) \/
   s_fin (fst (block_poll cf s m)) = true).
Proof.
  intros _ Hinv Hm. destruct (inv_block_poll_gen cf s m Hinv Hm) as [Hi Hf]. split; [exact Hi | exact Hf].
Qed.

Print Assumptions inv_block_poll.
Print Assumptions inv_complete.
