(** * Dag.v — executable model of the graph layer (petgraph 0.8.3 `Graph` + daggy 0.9.0 `Dag`)

    Model only: no proofs in this file, so that the model still runs when a proof breaks.
    A graph is a node payload list plus the raw edge list in insertion order (`raw_edges()`).
    Everything that only depends on the shape takes the node count [n] and the edge list [es],
    so that the payload-free copies `graph_structure` / `graph_structure_rev` reuse it. *)

From Coq Require Export List Arith Bool PeanoNat Lia.
Export ListNotations.

Inductive kind := Logic | Contains | Data.

Definition kind_eqb (a b : kind) : bool :=
  match a, b with
  | Logic, Logic | Contains, Contains | Data, Data => true
  | _, _ => false
  end.

(** Payload of a function: an identity (what `F: PartialEq` compares), the data types it
    reads (`borrows()`) and the ones it writes (`borrow_muts()`). *)
Record fnspec := mkFn { fid : nat; rd : list nat; wr : list nat }.

Definition edge : Type := nat * nat * kind.
Definition esrc (e : edge) : nat := fst (fst e).
Definition edst (e : edge) : nat := snd (fst e).
Definition ekind (e : edge) : kind := snd e.

Record dag := mkDag { nodes : list fnspec; edges : list edge }.
Definition ncount (g : dag) : nat := length (nodes g).
Definition empty_dag : dag := mkDag [] [].

Definition mem (x : nat) (l : list nat) : bool := existsb (Nat.eqb x) l.

(** petgraph keeps, per node, a linked list of its outgoing (incoming) edges with the most
    recently added edge first; `children` / `parents` / `neighbors` walk it in that order. *)
Definition children (es : list edge) (a : nat) : list nat :=
  rev (map edst (filter (fun e => esrc e =? a) es)).
Definition parents (es : list edge) (b : nat) : list nat :=
  rev (map esrc (filter (fun e => edst e =? b) es)).

Definition has_edge (es : list edge) (a b : nat) : bool :=
  existsb (fun e => (esrc e =? a) && (edst e =? b)) es.

(** ** Reachability (`has_path_connecting`): breadth first closure, one expansion per node. *)

Fixpoint add_new (xs seen acc : list nat) : list nat :=
  match xs with
  | [] => rev acc
  | x :: xs' => if mem x seen || mem x acc then add_new xs' seen acc
                else add_new xs' seen (x :: acc)
  end.

Fixpoint bfs (fuel : nat) (es : list edge) (frontier visited : list nat) : list nat :=
  match frontier with
  | [] => visited
  | _ :: _ =>
    match fuel with
    | 0 => visited
    | S f => let fresh := add_new (flat_map (children es) frontier) visited [] in
             bfs f es fresh (visited ++ fresh)
    end
  end.

Definition reach_set (n : nat) (es : list edge) (a : nat) : list nat := bfs (S n) es [a] [a].
Definition reach (n : nat) (es : list edge) (a b : nat) : bool := mem b (reach_set n es a).

(** ** daggy `add_edge` / `update_edge` *)

Definition is_nil {A} (l : list A) : bool := match l with [] => true | _ => false end.

Definition must_check (es : list edge) (a b : nat) : bool :=
  (a =? b) || (negb (is_nil (parents es a)) && negb (is_nil (children es b)) && negb (has_edge es a b)).

Inductive eres := EOk | ECycle | EPanic.

Definition add_edge (n : nat) (es : list edge) (a b : nat) (k : kind) : list edge * eres :=
  if (a <? n) && (b <? n) then
    if must_check es a b && reach n es b a then (es, ECycle)
    else (es ++ [(a, b, k)], EOk)
  else (es, EPanic).

Fixpoint set_kind (es : list edge) (a b : nat) (k : kind) : list edge :=
  match es with
  | [] => []
  | e :: es' => if (esrc e =? a) && (edst e =? b) then (a, b, k) :: es'
                else e :: set_kind es' a b k
  end.

Definition update_edge (n : nat) (es : list edge) (a b : nat) (k : kind) : list edge * eres :=
  if has_edge es a b then (set_kind es a b k, EOk) else add_edge n es a b k.

(** ** petgraph `Topo` *)

Definition all_in (l vis : list nat) : bool := forallb (fun p => mem p vis) l.

(** [stack]: head = top of petgraph's `tovisit` vector; [out]: visited nodes, latest first. *)
Fixpoint topo_loop (fuel : nat) (es : list edge) (stack out : list nat) : list nat :=
  match fuel with
  | 0 => rev out
  | S f =>
    match stack with
    | [] => rev out
    | x :: st =>
      if mem x out then topo_loop f es st out
      else let out' := x :: out in
           let push := filter (fun c => all_in (parents es c) out') (children es x) in
           topo_loop f es (rev push ++ st) out'
    end
  end.

Definition roots (n : nat) (es : list edge) : list nat :=
  filter (fun a => is_nil (parents es a)) (seq 0 n).

Definition topo (n : nat) (es : list edge) : list nat :=
  topo_loop (n + length es + 1) es (rev (roots n es)) [].

Definition flip_edges (es : list edge) : list edge :=
  map (fun e => (edst e, esrc e, ekind e)) es.
