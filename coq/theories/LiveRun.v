(** * LiveRun.v — no deadlock and no lost wake-up: in every reachable state in which the call is
    pending and no wake-up of its task is outstanding, some user future it started is still in
    flight (its completion will wake the task). *)
From FG Require Import Dag Builder Sched DagFacts EdgeFacts RankFacts BuilderFacts TopoFacts
     SchedInv SchedInv2 SchedInv3 LiveFacts LiveStep SI_Queuer SI_Init SI_Step SI2_Queuer SI2_Step.
From RecordUpdate Require Import RecordSet.
Import RecordSetNotations.

Definition QdR (s : state) : Prop :=
  q_fin s = true \/ (buf (done s) = [] /\ rx_waker (done s) = true /\ s_tx s = true).

(** Either the call has returned, or a wake-up is outstanding, or both halves are settled. *)
Definition Live (cf : cfg) (s : state) : Prop :=
  result s <> None \/ woken s = true \/
  (QdR s /\ (s_fin s = true \/ SS cf s) /\ q_fin s && s_fin s = false).

Lemma live_init cf : Live cf (init cf).
Proof.
  right. left. unfold init.
  destruct (fold_left preload_one (preload_ids cf) (mkChan [] (Nat.max 1 (c_n cf)) 1 true false, [], false)) as [[rc sent] bad].
  destruct bad; [unfold set_panic; simpl|]; reflexivity.
Qed.

Lemma live_poll cf s : cfg_ok cf -> Inv cf s -> Inv2 cf s -> Live cf (poll cf s).
Proof.
  intros Hok Hinv Hinv2. unfold poll. destruct (result s) eqn:Hres; [left; rewrite Hres; discriminate|].
  set (s0 := s <| woken := false |>).
  assert (H0 : Inv cf s0) by (apply Inv_set_woken; exact Hinv).
  assert (X0 : Inv2 cf s0) by (apply Inv2_set_woken; exact Hinv2).
  assert (R0 : result s0 = None) by exact Hres.
  set (s1 := if q_fin s0 then s0 else q_loop (poll_fuel cf) cf s0).
  assert (Hl : length (buf (done s0)) < poll_fuel cf).
  { pose proof (Inv_done_buf_len _ _ H0). unfold poll_fuel. lia. }
  assert (H1 : Inv cf s1 /\ Inv2 cf s1 /\ result s1 = None /\
               (q_fin s1 = true \/ (buf (done s1) = [] /\ rx_waker (done s1) = true /\ senders (done s1) <> 0))).
  { unfold s1. destruct (q_fin s0) eqn:Hq;
      [split; [exact H0|]; split; [exact X0|]; split; [exact R0|]; left; exact Hq|].
    split; [apply inv_q_loop; assumption|].
    destruct (inv2_q_loop cf Hok (poll_fuel cf) s0 H0 X0 Hq Hl) as (A & _ & _ & _ & _ & _ & _ & Ares & _).
    split; [exact A|]. split; [rewrite Ares; exact R0|]. apply q_loop_stop_senders. exact Hl. }
  destruct H1 as (H1 & X1 & R1 & Q1).
  assert (Qd1 : q_fin s1 = true \/ Qd s1).
  { destruct Q1 as [Q1|(B1 & B2 & B3)]; [left; exact Q1|]. right.
    pose proof (x_senders_d _ _ X1) as Hs. split; [exact Hs|]. right. split; [exact B1|]. split; [exact B2|].
    destruct (s_tx s1); [reflexivity | congruence]. }
  set (s2 := if s_fin s1 then s1 else conc_loop (poll_fuel cf) cf s1).
  assert (H2 : (q_fin s2 = true \/ Qd s2) /\ (s_fin s2 = true \/ SS cf s2) /\ result s2 = None).
  { unfold s2. destruct (s_fin s1) eqn:Hsf.
    - split; [exact Qd1|]. split; [left; exact Hsf | exact R1].
    - assert (Hp : phi s1 < poll_fuel cf) by (pose proof (phi_bound _ _ H1); unfold poll_fuel; lia).
      destruct (inv2_conc_loop cf Hok (poll_fuel cf) s1 H1 X1 Hsf R1 Hp) as (_ & B & C).
      split; [|split; [apply live_conc_loop; assumption | exact B]].
      destruct Qd1 as [Qf|Qd1]; [left; rewrite C; exact Qf | right; apply Qd_conc_loop; exact Qd1]. }
  destruct H2 as (Q2 & S2 & R2).
  destruct (q_fin s2 && s_fin s2) eqn:Hb; [left; simpl; discriminate|].
  destruct (woken s2) eqn:Hw; [right; left; exact Hw|].
  right. right. split; [|split; [exact S2 | exact Hb]].
  destruct Q2 as [Q2|[_ [Q2|Q2]]]; [left; exact Q2 | congruence | right; exact Q2].
Qed.

Lemma live_settle cf : cfg_ok cf -> forall fuel s, Inv cf s -> Inv2 cf s -> Live cf s -> Live cf (settle fuel cf s).
Proof.
  intros Hok. induction fuel as [|f IH]; intros s Hinv Hinv2 Hl; [exact Hl|].
  simpl. destruct (woken s && is_none (result s) && is_none (panic s)); [|exact Hl].
  apply IH; [apply inv_poll | apply inv2_poll | apply live_poll]; assumption.
Qed.

Lemma live_step cf s e : cfg_ok cf -> Inv cf s -> Inv2 cf s -> Live cf s -> Live cf (step cf s e).
Proof.
  intros Hok Hinv Hinv2 Hl. destruct e as [i ok| | |]; simpl.
  - destruct (is_waiting s i && is_none (lookup i (completed s))); [|exact Hl].
    destruct (result s) eqn:Hr; [left; simpl; rewrite Hr; discriminate | right; left; reflexivity].
  - exact Hl.
  - apply live_poll; assumption.
  - apply live_settle; assumption.
Qed.

Theorem live_run cf evs : cfg_ok cf -> cfg_ok2 cf -> Live cf (run cf evs).
Proof.
  intros Hok Hok2. unfold run.
  assert (H : forall s, Inv cf s -> Inv2 cf s -> Live cf s -> Live cf (fold_left (step cf) evs s)).
  { induction evs as [|e evs IH]; intros s A B C; [exact C|]. simpl.
    apply IH; [apply inv_step | apply inv2_step | apply live_step]; assumption. }
  apply H; [apply inv_init; exact Hok | apply inv2_init; assumption | apply live_init].
Qed.

(** ** The deadlock-freedom argument *)

Lemma exists_missing (l : list nat) n :
  NoDup l -> length l < n -> exists v, v < n /\ ~ In v l.
Proof.
  intros Hnd Hlen.
  destruct (forallb (fun v => mem v l) (seq 0 n)) eqn:Hf.
  - exfalso. assert (Hincl : incl (seq 0 n) l).
    { intros v Hv. rewrite forallb_forall in Hf. apply mem_spec. apply Hf. exact Hv. }
    pose proof (NoDup_incl_length (seq_NoDup n 0) Hincl) as H. rewrite seq_length in H. lia.
  - assert (Hex : exists v, In v (seq 0 n) /\ mem v l = false).
    { clear -Hf. induction (seq 0 n) as [|x xs IH]; [discriminate|]. simpl in Hf.
      destruct (mem x l) eqn:Hm; simpl in Hf.
      - destruct (IH Hf) as [v [Hv Hm']]. exists v. split; [right; exact Hv | exact Hm'].
      - exists x. split; [left; reflexivity | exact Hm]. }
    destruct Hex as [v [Hv Hm]]. exists v. apply in_seq in Hv. split; [lia | apply mem_false; exact Hm].
Qed.

Lemma min_unprocessed n es P :
  wfg n es -> forall h v, height n es v < h -> v < n -> ~ In v P ->
  exists u, u < n /\ ~ In u P /\ unproc es P u = [].
Proof.
  intros [Hwf [Hac Hu]]. induction h as [|h IH]; intros v Hh Hv Hn; [lia|].
  destruct (unproc es P v) as [|p l] eqn:Hun; [exists v; auto|].
  assert (Hp : In p (unproc es P v)) by (rewrite Hun; left; reflexivity).
  apply unproc_In in Hp. destruct Hp as [He HnP].
  pose proof (height_edge _ _ _ _ Hwf Hac He). destruct (Edge_wf _ _ _ _ Hwf He) as [Hpn _].
  apply (IH p); [lia | exact Hpn | exact HnP].
Qed.

Theorem no_deadlock_state cf s :
  cfg_ok cf -> Inv cf s -> Inv2 cf s -> Inv3 cf s -> Live cf s ->
  result s = None -> woken s = false ->
  exists i, In i (wait_ids (members s)) /\ ~ In i (map fst (completed s)).
Proof.
  intros [Hw Hcounts] H1 H2 H3 Hl Hres Hwk.
  destruct Hl as [Hl|[Hl|(Hq & Hs & Hboth)]]; [congruence | congruence |].
  destruct (s_fin s) eqn:Hsf.
  - (* scheduler finished: its done sender is gone, so the queuer was woken or has finished *)
    exfalso. rewrite andb_true_r in Hboth.
    destruct Hq as [Hq|(_ & _ & Htx)]; [congruence|].
    pose proof (x_sfin_stx _ _ H2 Hsf). congruence.
  - destruct Hs as [Hs|(Hrq & Halive & Hdead)]; [discriminate|].
    assert (Hcomp : completed s = []).
    { destruct (completed s) as [|[i ok] l] eqn:Hc; [reflexivity|]. exfalso.
      assert (Hin : In i (runq s)) by (apply (x_completed_runq _ _ H2); rewrite Hc; left; reflexivity).
      rewrite Hrq in Hin. destruct Hin. }
    assert (Hnew : new_keys (members s) = []).
    { pose proof (x_runq_new _ _ H2) as Hn. rewrite Hrq in Hn. simpl in Hn. symmetry. exact Hn. }
    destruct (wait_ids (members s)) as [|i l] eqn:Hwait.
    2:{ exists i. split; [left; reflexivity | rewrite Hcomp; intros []]. }
    exfalso.
    assert (Hmem : members s = []).
    { destruct (members s) as [|m ms] eqn:Hm; [reflexivity|]. exfalso.
      unfold new_keys in Hnew. simpl in Hnew. unfold wait_ids in Hwait. simpl in Hwait.
      destruct (m_st m) eqn:Hst; [simpl in Hnew; discriminate|].
      destruct (m_id m) eqn:Hid; [simpl in Hwait; discriminate|].
      pose proof (y_none_new _ _ H3 m ltac:(rewrite Hm; left; reflexivity) Hid). congruence. }
    destruct (s_alive s) eqn:Hal; [|apply (Hdead eq_refl); exact Hmem].
    destruct (Halive eq_refl) as [Hlim|(Hrb & Hrw & Hian & Hsend)].
    { unfold limit_ok in Hlim. rewrite Hmem in Hlim. simpl in Hlim. destruct (eff_limit cf); discriminate. }
    assert (Hqtx : q_tx s = true).
    { pose proof (x_senders_r _ _ H2) as Hsr. destruct (q_tx s); [reflexivity | congruence]. }
    destruct Hq as [Hq|(Hdb & _ & Hstx)].
    { pose proof (y_qfin_qtx _ _ H3 Hq). congruence. }
    (* everything sent has been processed and nothing is in flight *)
    assert (Hopen : rx_open (ready s) = true) by (rewrite <- (v_alive _ _ H1); exact Hal).
    assert (Hds : g_done_sent s = g_qproc s) by (rewrite (v_done _ _ H1), Hdb; apply app_nil_r).
    assert (Hrs : g_ready_sent s = g_received s).
    { destruct (v_ready _ _ H1) as [rest [Heq Ho]]. rewrite Heq, (Ho Hopen), Hrb. apply app_nil_r. }
    assert (Hrc : g_received s = starts (trace s)).
    { rewrite (y_recv_processed _ _ H3 Hian), (x_processed _ _ H2).
      assert (Hni : new_ids (members s) = []) by (rewrite Hmem; reflexivity). rewrite Hni. apply app_nil_r. }
    assert (Herr : s_err s = None).
    { destruct (s_err s) eqn:He; [|reflexivity]. destruct (v_serr _ _ H1) as [_ Hf]; [rewrite He; discriminate | congruence]. }
    assert (Hrem : s_rem s <> 0) by (intros H0; pose proof (x_srem_stx _ _ H2 H0); congruence).
    assert (Hfinlen : length (g_finished s) < c_n cf) by (pose proof (v_srem _ _ H1 Herr); lia).
    destruct (exists_missing (g_finished s) (c_n cf) (v_fin_nodup _ _ H1) Hfinlen) as [v [Hv Hnv]].
    assert (HnvP : ~ In v (g_qproc s)).
    { intros Hin. apply Hnv. apply (v_ds_fin _ _ H1). rewrite Hds. exact Hin. }
    destruct (min_unprocessed (c_n cf) (c_es cf) (g_qproc s) Hw (S (height (c_n cf) (c_es cf) v)) v ltac:(lia) Hv HnvP)
      as [u [Hu [HnuP Hun]]].
    apply HnuP.
    pose proof (x_sent_all _ _ H2 Hqtx Hopen u Hu Hun) as Hin.
    rewrite Hrs, Hrc in Hin. apply (v_started _ _ H1) in Hin. rewrite Hwait in Hin.
    destruct Hin as [Hin|[]]. rewrite <- Hds. apply (x_stx_sent _ _ H2 Hstx). exact Hin.
Qed.

(** ** Nothing waits for anything but its predecessors (C06)

    With no concurrency limit, no interruption delivered and no failure: in every reachable state
    in which the call is idle (pending, no wake-up outstanding), every function all of whose
    predecessors in the structure walked have returned has already been started. *)
Theorem no_idle_ready_state cf s :
  cfg_ok cf -> Inv cf s -> Inv2 cf s -> Inv3 cf s -> Live cf s ->
  result s = None -> woken s = false ->
  eff_limit cf = 0 -> w_ian (w s) = false -> failed (trace s) = [] ->
  forall v, v < c_n cf -> (forall p, Edge (c_es cf) p v -> In p (ends (trace s))) -> In v (starts (trace s)).
Proof.
  intros [Hw Hcounts] H1 H2 H3 Hl Hres Hwk Hlim Hian Hfail v Hv Hpreds.
  destruct Hl as [Hl|[Hl|(Hq & Hs & Hboth)]]; [congruence | congruence |].
  assert (Hcn : completed s = [] /\ new_ids (members s) = []).
  { destruct (s_fin s) eqn:Hsf.
    - destruct (x_fin_members _ _ H2 Hsf) as [Hm Hc]. rewrite Hm. split; [exact Hc | reflexivity].
    - destruct Hs as [Hs|(Hrq & _ & _)]; [discriminate|]. split.
      + destruct (completed s) as [|[i ok] l] eqn:Hc; [reflexivity|]. exfalso.
        assert (Hin : In i (runq s)) by (apply (x_completed_runq _ _ H2); rewrite Hc; left; reflexivity).
        rewrite Hrq in Hin. destruct Hin.
      + pose proof (x_runq_new _ _ H2) as Hn. rewrite Hrq in Hn. simpl in Hn.
        destruct (new_ids (members s)) as [|x l] eqn:Hni; [reflexivity|]. exfalso.
        assert (Hx : In x (new_ids (members s))) by (rewrite Hni; left; reflexivity).
        apply in_new_ids in Hx. destruct Hx as [m [Hm [Hid Hst]]].
        assert (Hk : In (m_key m) (new_keys (members s))).
        { unfold new_keys. apply in_flat_map. exists m. split; [exact Hm|]. rewrite Hst. left. reflexivity. }
        rewrite <- Hn in Hk. destruct Hk. }
  destruct Hcn as [Hcomp Hnew].
  assert (Hfin : forall p, Edge (c_es cf) p v -> In p (g_finished s)).
  { intros p He. pose proof (Hpreds p He) as Hp. apply (v_ended_split _ _ H1) in Hp. rewrite Hcomp in Hp.
    destruct Hp as [Hp|[]]. exact Hp. }
  assert (Herr : s_err s = None).
  { destruct (s_err s) eqn:He; [|reflexivity]. exfalso.
    destruct (x_serr_some _ _ H2 n He) as (_ & _ & T1 & Ht & _). rewrite Ht, failed_app in Hfail. simpl in Hfail.
    destruct (failed T1); discriminate. }
  assert (Hall : length (g_finished s) = c_n cf -> In v (starts (trace s))).
  { intros Hlen. apply (v_started _ _ H1). left.
    destruct (in_dec Nat.eq_dec v (g_finished s)) as [Hin|Hnin]; [exact Hin|]. exfalso.
    assert (Hl2 : length (v :: g_finished s) <= c_n cf).
    { apply NoDup_bounded_length; [constructor; [exact Hnin | apply (v_fin_nodup _ _ H1)]|].
      intros x [<-|Hx]; [exact Hv | apply (Inv_fin_lt _ _ H1); exact Hx]. }
    simpl in Hl2. lia. }
  destruct (s_tx s) eqn:Hstx.
  2:{ destruct (x_stx_why _ _ H2 Hstx) as [H0|[H0|[H0|H0]]]; [|congruence|congruence|lia].
      apply Hall. pose proof (v_srem _ _ H1 Herr). lia. }
  (* the done sender is still held: every finished function was announced *)
  destruct Hq as [Hq|(Hdb & _ & _)]; [pose proof (x_qfin_stx _ _ H2 Hq); congruence|].
  assert (Hds : g_done_sent s = g_qproc s) by (rewrite (v_done _ _ H1), Hdb; apply app_nil_r).
  assert (Hun : unproc (c_es cf) (g_qproc s) v = []).
  { apply unproc_nil. intros p He. rewrite <- Hds. apply (x_stx_sent _ _ H2 Hstx). apply Hfin. exact He. }
  assert (Hsf : s_fin s = false).
  { destruct (s_fin s) eqn:E; [|reflexivity]. pose proof (x_sfin_stx _ _ H2 E). congruence. }
  destruct Hs as [Hs|(Hrq & Halive & Hdead)]; [congruence|].
  assert (Hqrem0 : q_rem s = 0 -> In v (starts (trace s))).
  { intros H0. apply Hall. pose proof (v_qrem _ _ H1) as Hq.
    assert (Hle : length (g_qproc s) <= length (g_finished s)).
    { apply NoDup_incl_length.
      - pose proof (v_ds_nodup _ _ H1) as Hnd. rewrite Hds in Hnd. exact Hnd.
      - intros x Hx. apply (v_ds_fin _ _ H1). rewrite Hds. exact Hx. }
    assert (Hfl : length (g_finished s) <= c_n cf).
    { apply NoDup_bounded_length; [apply (v_fin_nodup _ _ H1) | apply (Inv_fin_lt _ _ H1)]. }
    lia. }
  destruct (s_alive s) eqn:Hal.
  - destruct (Halive eq_refl) as [Hlm|(Hrb & Hrw & _ & Hsend)].
    { unfold limit_ok in Hlm. rewrite Hlim in Hlm. discriminate. }
    assert (Hqtx : q_tx s = true).
    { pose proof (x_senders_r _ _ H2) as Hsr. destruct (q_tx s); [reflexivity | congruence]. }
    assert (Hopen : rx_open (ready s) = true) by (rewrite <- (v_alive _ _ H1); exact Hal).
    pose proof (x_sent_all _ _ H2 Hqtx Hopen v Hv Hun) as Hin.
    destruct (v_ready _ _ H1) as [rest [Heq Ho]]. rewrite Heq, (Ho Hopen), Hrb, app_nil_r in Hin.
    rewrite (y_recv_processed _ _ H3 Hian), (x_processed _ _ H2), Hnew, app_nil_r in Hin. exact Hin.
  - destruct (x_dead _ _ H2 Hal) as [Hd|[Hd|Hd]]; [congruence | | congruence].
    destruct (x_qtx _ _ H2 Hd) as [H0|H0]; [apply Hqrem0; exact H0|].
    pose proof (x_qfin_stx _ _ H2 H0). congruence.
Qed.

(** ** Between polls no block is waiting for its first poll *)

Lemma boundary_poll cf s :
  cfg_ok cf -> Inv cf s -> Inv2 cf s -> new_keys (members s) = [] -> new_keys (members (poll cf s)) = [].
Proof.
  intros Hok Hinv Hinv2 Hb. unfold poll. destruct (result s) eqn:Hres; [exact Hb|].
  set (s0 := s <| woken := false |>).
  assert (H0 : Inv cf s0) by (apply Inv_set_woken; exact Hinv).
  assert (X0 : Inv2 cf s0) by (apply Inv2_set_woken; exact Hinv2).
  assert (R0 : result s0 = None) by exact Hres.
  set (s1 := if q_fin s0 then s0 else q_loop (poll_fuel cf) cf s0).
  assert (Hl : length (buf (done s0)) < poll_fuel cf).
  { pose proof (Inv_done_buf_len _ _ H0). unfold poll_fuel. lia. }
  assert (H1 : Inv cf s1 /\ Inv2 cf s1 /\ result s1 = None /\ members s1 = members s).
  { unfold s1. destruct (q_fin s0) eqn:Hq; [split; [exact H0|]; split; [exact X0|]; split; [exact R0 | reflexivity]|].
    split; [apply inv_q_loop; assumption|].
    destruct (inv2_q_loop cf Hok (poll_fuel cf) s0 H0 X0 Hq Hl) as (A & _ & Am & _ & _ & _ & _ & Ares & _).
    split; [exact A|]. split; [rewrite Ares; exact R0 | exact Am]. }
  destruct H1 as (H1 & X1 & R1 & M1).
  set (s2 := if s_fin s1 then s1 else conc_loop (poll_fuel cf) cf s1).
  assert (H2 : new_keys (members s2) = []).
  { unfold s2. destruct (s_fin s1) eqn:Hsf; [rewrite M1; exact Hb|].
    assert (Hp : phi s1 < poll_fuel cf) by (pose proof (phi_bound _ _ H1); unfold poll_fuel; lia).
    destruct (inv2_conc_loop cf Hok (poll_fuel cf) s1 H1 X1 Hsf R1 Hp) as (X2 & _ & _).
    destruct (live_conc_loop cf Hok (poll_fuel cf) s1 H1 X1 Hsf R1 Hp) as [Hf|(Hrq & _ & _)].
    - destruct (x_fin_members _ _ X2 Hf) as [Hm _]. rewrite Hm. reflexivity.
    - pose proof (x_runq_new _ _ X2) as Hn. rewrite Hrq in Hn. simpl in Hn. symmetry. exact Hn. }
  destruct (q_fin s2 && s_fin s2); exact H2.
Qed.

Theorem boundary_run cf evs : cfg_ok cf -> cfg_ok2 cf -> new_keys (members (run cf evs)) = [].
Proof.
  intros Hok Hok2. unfold run.
  assert (H : forall s, Inv cf s -> Inv2 cf s -> new_keys (members s) = [] ->
              new_keys (members (fold_left (step cf) evs s)) = []).
  { induction evs as [|e evs IH]; intros s A B C; [exact C|]. simpl.
    apply IH; [apply inv_step | apply inv2_step |]; try assumption.
    destruct e as [i ok| | |]; simpl.
    - destruct (is_waiting s i && is_none (lookup i (completed s))); exact C.
    - exact C.
    - apply boundary_poll; assumption.
    - clear IH. revert s A B C. induction (settle_fuel cf) as [|f IHf]; intros s A B C; [exact C|].
      simpl. destruct (woken s && is_none (result s) && is_none (panic s)); [|exact C].
      apply IHf; [apply inv_poll | apply inv2_poll | apply boundary_poll]; assumption. }
  apply H; [apply inv_init; exact Hok | apply inv2_init; assumption|].
  unfold init. destruct (fold_left preload_one (preload_ids cf) (mkChan [] (Nat.max 1 (c_n cf)) 1 true false, [], false)) as [[rc sent] bad].
  destruct bad; [unfold set_panic; simpl|]; reflexivity.
Qed.
