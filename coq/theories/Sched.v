(** * Sched.v — executable model of the streaming entry points of `FnGraph` (src/fn_graph.rs)

    Model only (no proofs).  One machine for the call APIs
    (`fold_async*`, `try_fold_async*`, `for_each_concurrent*`, `try_for_each_concurrent*`, with
    `_mut`, `_with`, `_control` variants) and one for `stream*`.  The library behaviour they lean
    on is re-stated by hand (DESIGN.md Appendix A): tokio bounded mpsc with its single
    consumed-on-wake receiver waker, `futures::join!`, `StreamExt::fold`/`try_fold` (modelled as
    the concurrent loop at limit 1, A.4), `for_each_concurrent` + `FuturesUnordered` FIFO run
    queue, `interruptible` 0.2.4's stream wrapper.  Ghost fields (`trace`, `g_*`) record history and
    influence nothing. *)

From FG Require Export Dag Builder.
From RecordUpdate Require Import RecordSet.
Import RecordSetNotations.

(** ** Channels (tokio::sync::mpsc, bounded) *)

Record chan := mkChan {
  buf : list nat;        (* queued messages, oldest first *)
  cap : nat;
  senders : nat;         (* live `Sender` handles *)
  rx_open : bool;        (* receiver not dropped *)
  rx_waker : bool        (* a waker is registered by a `Pending` `poll_recv` *)
}.
#[export] Instance eta_chan : Settable _ := settable! mkChan <buf; cap; senders; rx_open; rx_waker>.

Inductive sres := SOk | SFull | SClosed.

(** `try_send`: returns the channel, the result, and whether the receiver's waker was woken. *)
Definition try_send (c : chan) (x : nat) : chan * sres * bool :=
  if negb (rx_open c) then (c, SClosed, false)
  else if cap c <=? length (buf c) then (c, SFull, false)
  else (c <| buf := buf c ++ [x] |> <| rx_waker := false |>, SOk, rx_waker c).

(** Dropping one sender; the drop of the last one wakes a registered receiver. *)
Definition drop_sender (c : chan) : chan * bool :=
  match senders c with
  | 0 => (c, false)
  | 1 => (c <| senders := 0 |> <| rx_waker := false |>, rx_waker c)
  | S k => (c <| senders := k |>, false)
  end.

Definition drop_rx (c : chan) : chan := c <| rx_open := false |> <| buf := [] |> <| rx_waker := false |>.

Inductive rres := RPending | RNone | RSome (x : nat).

Definition poll_recv (c : chan) : chan * rres :=
  match buf c with
  | x :: rest => (c <| buf := rest |>, RSome x)
  | [] => if senders c =? 0 then (c, RNone) else (c <| rx_waker := true |>, RPending)
  end.

(** ** Configuration of one call *)

Inductive api := AFold | ATryFold | AForEach | ATryForEach.
Inductive strat := SNonInt | SIgnore | SFinish | SPollN (k : nat).

Record cfg := mkCfg {
  c_n : nat;
  c_es : list edge;            (* structure walked: `graph_structure` or `graph_structure_rev` *)
  c_counts : list nat;         (* `incoming` (forward) or `outgoing` (reverse) *)
  c_api : api;
  c_mut : bool;
  c_ctl : bool;                (* `_control` wrapper *)
  c_limit : nat;               (* 0 = no limit *)
  c_strat : strat;
  c_incl : bool;               (* interrupted_next_item_include *)
  c_imm : list (nat * bool);   (* user futures that resolve on their first poll: id, ok? *)
  c_empty_release : bool       (* the path releases its done-sender when the graph is empty *)
}.

Definition is_try (a : api) : bool := match a with ATryFold | ATryForEach => true | _ => false end.
Definition is_seq (a : api) : bool := match a with AFold | ATryFold => true | _ => false end.
Definition eff_limit (cf : cfg) : nat := if is_seq (c_api cf) then 1 else c_limit cf.

Definition mk_cfg (G : fngraph) (rev : bool) (a : api) (mt ctl : bool) (lim : nat) (st : strat) (incl : bool)
           (imm : list (nat * bool)) (empty_release : bool) : cfg :=
  mkCfg (fg_n G) (if rev then fg_struct_rev G else fg_struct G)
        (if rev then fg_outgoing G else fg_incoming G) a mt ctl lim st incl imm empty_release.

(** ** Interruptible wrapper state (interruptible_stream.rs + interruptibility_state.rs) *)

Record wrap := mkWrap {
  w_ian : bool;     (* interrupted_and_notified *)
  w_hp : bool;      (* has_pending *)
  w_sig : bool;     (* interrupt_signal.is_some() *)
  w_ipc : bool;     (* item_polled_is_counted *)
  w_recv : bool;    (* interrupt_signal_received.is_some() *)
  w_cnt : nat       (* poll_since_interrupt_count *)
}.
#[export] Instance eta_wrap : Settable _ := settable! mkWrap <w_ian; w_hp; w_sig; w_ipc; w_recv; w_cnt>.
Definition wrap0 : wrap := mkWrap false false false false false 0.

(** `interrupt_check`; [ipend] = signals sent and not yet received. *)
Definition interrupt_check (st : strat) (w : wrap) (ipend : nat) : wrap * nat :=
  if w_sig w || w_ipc w then (w, ipend) else
  match st with
  | SNonInt => (w, ipend)
  | _ =>
    let needs := match st with SPollN _ => negb (w_hp w) | _ => true end in
    let '(recv, first, ipend') :=
        if w_recv w then (true, false, ipend)
        else match ipend with 0 => (false, false, 0) | S p => (true, true, p) end in
    if recv then
      let inc := match st with SPollN _ => needs && negb first | _ => needs end in
      let cnt := if inc then S (w_cnt w) else w_cnt w in
      let sg := match st with SFinish => true | SPollN k => k <=? cnt | _ => false end in
      (w <| w_recv := true |> <| w_cnt := cnt |> <| w_sig := sg |> <| w_ipc := inc |>, ipend')
    else (w, ipend')
  end.

(** ** State of one call *)

Inductive mstate := MNew | MWait.
Record member := mkMem { m_key : nat; m_id : option nat; m_int : bool; m_st : mstate }.

Inductive tev := Start (i : nat) | End (i : nat) (ok : bool).

Inductive okind := KOk | KErr | KContinue | KBreak | KFoldErr (i : nat).
Record outcome := mkOut {
  o_kind : okind; o_finished : bool; o_processed : list nat; o_not_processed : list nat; o_errs : list nat
}.

(** Panic sites (`.expect`, arithmetic underflow in debug builds, a `send().await` that would
    have to wait, fuel of the model). *)
Inductive psite := PPreload | PCount | PQRem | PSRem | PResult | PTryWrite | PBlocked | POof.

Record state := mkState {
  counts : list nat;
  ready : chan;
  done : chan;
  ipend : nat;
  q_rem : nat; q_tx : bool; q_fin : bool;
  s_rem : nat; s_tx : bool; s_fin : bool; s_err : option nat;
  w : wrap;
  s_alive : bool;                       (* scheduler still holds the ready stream *)
  members : list member;
  runq : list nat;
  completed : list (nat * bool);        (* user futures resolved by an event, block not yet resumed *)
  processed : list nat;
  errs : list nat;
  result : option outcome;
  woken : bool;
  panic : option psite;
  trace : list tev;                     (* ghost *)
  g_ready_sent : list nat;              (* ghost: ids accepted by the ready channel *)
  g_received : list nat;                (* ghost: ids taken out of the ready channel *)
  g_done_sent : list nat;               (* ghost: ids accepted by the done channel *)
  g_qproc : list nat;                   (* ghost: ids the queuer has processed *)
  g_finished : list nat                 (* ghost: ids whose block ran to its end *)
}.
#[export] Instance eta_state : Settable _ := settable! mkState
  <counts; ready; done; ipend; q_rem; q_tx; q_fin; s_rem; s_tx; s_fin; s_err; w; s_alive; members; runq;
   completed; processed; errs; result; woken; panic; trace; g_ready_sent; g_received; g_done_sent; g_qproc; g_finished>.

Definition set_panic (p : psite) (s : state) : state :=
  match panic s with Some _ => s | None => s <| panic := Some p |> end.

(** ** Setup (`stream_setup_init` + the synchronous prologue of each internal path) *)

Definition preload_ids (cf : cfg) : list nat :=
  filter (fun i => nth i (c_counts cf) 0 =? 0) (topo (c_n cf) (c_es cf)).

Definition preload_one (st : chan * list nat * bool) (i : nat) : chan * list nat * bool :=
  let '(c, sent, bad) := st in
  if bad then st else
  match try_send c i with
  | (c', SOk, _) => (c', sent ++ [i], false)
  | _ => (c, sent, true)
  end.

Definition init (cf : cfg) : state :=
  let capn := Nat.max 1 (c_n cf) in
  let '(rc, sent, bad) := fold_left preload_one (preload_ids cf) (mkChan [] capn 1 true false, [], false) in
  let empty := c_n cf =? 0 in
  let rel := empty && c_empty_release cf in
  let s := mkState (c_counts cf)
    (if empty then rc <| senders := 0 |> else rc)
    (mkChan [] capn (if rel then 0 else 1) true false)
    0
    (c_n cf) (negb empty) false
    (c_n cf) (negb rel) false None
    wrap0 true [] [] [] [] [] None true None [] sent [] [] [] [] in
  if bad then set_panic PPreload s else s.

(** ** Queuer (`fn_ready_queuer` / `queuer_stream_fold`) *)

Definition drop_ready_tx (s : state) : state :=
  if q_tx s then
    let '(c, wk) := drop_sender (ready s) in
    s <| q_tx := false |> <| ready := c |> <| woken := woken s || wk |>
  else s.

Definition q_child (s : state) (c : nat) : state :=
  match nth c (counts s) 0 with
  | 0 => set_panic PCount s
  | S k =>
    let s := s <| counts := set_nth c k (counts s) |> in
    if (k =? 0) && q_tx s then
      match try_send (ready s) c with
      | (ch, SOk, wk) => s <| ready := ch |> <| woken := woken s || wk |> <| g_ready_sent := g_ready_sent s ++ [c] |>
      | _ => s
      end
    else s
  end.

(** One `poll_recv` of the done channel and its consequence; the flag says whether the fold
    continues in this poll. *)
Definition q_step (cf : cfg) (s : state) : state * bool :=
  match poll_recv (done s) with
  | (c, RSome id) =>
    let s := s <| done := c |> <| g_qproc := g_qproc s ++ [id] |> in
    let s := match q_rem s with 0 => set_panic PQRem s | S r => s <| q_rem := r |> end in
    let s := if q_rem s =? 0 then drop_ready_tx s else s in
    (fold_left q_child (children (c_es cf) id) s, true)
  | (c, RNone) => (drop_ready_tx (s <| done := drop_rx c |> <| q_fin := true |>), false)
  | (c, RPending) => (s <| done := c |>, false)
  end.

Fixpoint q_loop (fuel : nat) (cf : cfg) (s : state) : state :=
  match fuel with
  | 0 => set_panic POof s
  | S f => let '(s', cont) := q_step cf s in if cont then q_loop f cf s' else s'
  end.

(** ** Scheduler *)

Definition take_s_tx (s : state) : state :=
  if s_tx s then
    let '(c, wk) := drop_sender (done s) in
    s <| s_tx := false |> <| done := c |> <| woken := woken s || wk |>
  else s.

Definition drop_ready_rx (s : state) : state := s <| ready := drop_rx (ready s) |> <| s_alive := false |>.

(** Item produced by the (wrapped, tracked) ready stream. *)
Inductive witem := WPending | WNone | WItem (x : nat) | WInt (o : option nat).

Definition inner_poll (s : state) : state * rres :=
  let '(c, r) := poll_recv (ready s) in
  let s := s <| ready := c |> in
  match r with
  | RSome x => (s <| g_received := g_received s ++ [x] |>, r)
  | _ => (s, r)
  end.

Definition w_reset (s : state) : state := s <| w := (w s) <| w_hp := false |> <| w_ipc := false |> |>.
Definition w_notify (s : state) : state := s <| w := (w s) <| w_ian := true |> <| w_hp := false |> <| w_ipc := false |> |>.

Definition wrapper_poll (cf : cfg) (s : state) : state * witem :=
  if w_ian (w s) then (s, WNone) else
  let '(w1, ip) := interrupt_check (c_strat cf) (w s) (ipend s) in
  let s := s <| w := w1 |> <| ipend := ip |> in
  if w_hp w1 then
    let '(s, r) := inner_poll s in
    match r with
    | RPending => (s, WPending)
    | RSome x => if w_sig w1 then (w_notify s, WInt (Some x)) else (w_reset s, WItem x)
    | RNone => if w_sig w1 then (w_notify s, WInt None) else (w_reset s, WNone)
    end
  else if w_sig w1 then (w_notify s, WInt None)
  else
    let '(s, r) := inner_poll s in
    match r with
    | RPending => (s <| w := (w s) <| w_hp := true |> |>, WPending)
    | RSome x => (w_reset s, WItem x)
    | RNone => (w_reset s, WNone)
    end.

(** `poll_and_track_fn_ready`: with the include flag the id is recorded as it leaves the channel;
    without it only `NoInterrupt` ids are recorded and an interrupted id is dropped. *)
Definition tracked_poll (cf : cfg) (s : state) : state * witem :=
  let '(s, r) := wrapper_poll cf s in
  match r with
  | WItem x => (s <| processed := processed s ++ [x] |>, r)
  | WInt (Some x) =>
    if c_incl cf then (s <| processed := processed s ++ [x] |>, r) else (s, WInt None)
  | _ => (s, r)
  end.

Definition limit_ok (cf : cfg) (s : state) : bool :=
  match eff_limit cf with 0 => true | l => length (members s) <? l end.

Definition push_member (s : state) (m : member) : state :=
  s <| members := members s ++ [m] |> <| runq := runq s ++ [m_key m] |>.

Definition find_member (s : state) (k : nat) : option member :=
  find (fun m => m_key m =? k) (members s).
Definition remove_member (s : state) (k : nat) : state :=
  s <| members := filter (fun m => negb (m_key m =? k)) (members s) |>.
Definition set_member_wait (s : state) (k : nat) : state :=
  s <| members := map (fun m => if m_key m =? k then mkMem (m_key m) (m_id m) (m_int m) MWait else m) (members s) |>.

Definition is_waiting_b (s : state) (i : nat) : bool :=
  existsb (fun m => match m_id m, m_st m with Some j, MWait => j =? i | _, _ => false end) (members s).

Definition lookup {A} (k : nat) (l : list (nat * A)) : option A :=
  match find (fun p => fst p =? k) l with Some p => Some (snd p) | None => None end.
Definition remove_key {A} (k : nat) (l : list (nat * A)) : list (nat * A) :=
  filter (fun p => negb (fst p =? k)) l.

(** `fn_done_tx.send(id).await` – never has to wait (proved); a closed receiver is ignored. *)
Definition done_send (s : state) (id : nat) : state :=
  match try_send (done s) id with
  | (c, SOk, wk) => s <| done := c |> <| woken := woken s || wk |> <| g_done_sent := g_done_sent s ++ [id] |>
  | (_, SFull, _) => set_panic PBlocked s
  | (_, SClosed, _) => s
  end.

(** The rest of an item's block once the user future has resolved with [ok]. *)
Definition finish_block (cf : cfg) (s : state) (m : member) (id : nat) (ok : bool) : state :=
  let s := remove_member s (m_key m) in
  if negb ok && match c_api cf with ATryFold => true | _ => false end then
    (* `?` leaves the block: the fold state (done sender) is dropped, TryFold breaks with Err, the
       stream is dropped, the scheduler future is complete *)
    drop_ready_rx (take_s_tx s) <| s_err := Some id |> <| s_fin := true |> <| g_finished := g_finished s ++ [id] |>
  else
    let s := if negb ok && match c_api cf with ATryForEach => true | _ => false end then
               let s := if Nat.max 1 (c_n cf) <=? length (errs s) then set_panic PResult s
                        else s <| errs := errs s ++ [id] |> in
               take_s_tx s
             else s in
    let s := if s_tx s then done_send s id else s in
    let s := match s_rem s with 0 => set_panic PSRem s | S r => s <| s_rem := r |> end in
    let s := if s_rem s =? 0 then take_s_tx s else s in
    let s := if m_int m then take_s_tx s else s in
    s <| g_finished := g_finished s ++ [id] |>.

(** A user future resolves (by an external event, or on its first poll when it is in [c_imm]). *)
Definition complete (s : state) (i : nat) (ok : bool) : state :=
  s <| completed := completed s ++ [(i, ok)] |> <| trace := trace s ++ [End i ok] |>.

(** First poll of a block that carries a function: the user closure is called (**Start**). The
    `_mut` paths take a per-function lock with `try_write().expect(..)`. *)
Definition start_block (cf : cfg) (s : state) (m : member) (id : nat) : state :=
  let s := if c_mut cf && is_waiting_b s id then set_panic PTryWrite s else s in
  set_member_wait (s <| trace := trace s ++ [Start id] |>) (m_key m).

(** A block whose user future has resolved runs to its end. *)
Definition resume_block (cf : cfg) (s : state) (m : member) (id : nat) : state * bool :=
  match lookup id (completed s) with
  | Some ok => (finish_block cf (s <| completed := remove_key id (completed s) |>) m id ok, true)
  | None => (s, false)
  end.

(** One poll of an item's block; the flag says whether it returned `Ready`. *)
Definition block_poll (cf : cfg) (s : state) (m : member) : state * bool :=
  match m_st m, m_id m with
  | MNew, None => (remove_member (if m_int m then take_s_tx s else s) (m_key m), true)
  | MNew, Some id =>
    let s := start_block cf s m id in
    match lookup id (c_imm cf) with
    | Some ok => resume_block cf (complete s id ok) m id
    | None => (s, false)
    end
  | MWait, Some id => resume_block cf s m id
  | MWait, None => (s, false)
  end.

Inductive fres := FReady | FPending | FNone.

(** `FuturesUnordered::poll_next`: poll the run queue in FIFO order until a block is ready. *)
Fixpoint runq_loop (fuel : nat) (cf : cfg) (s : state) : state * fres :=
  match fuel with
  | 0 => (set_panic POof s, FPending)
  | S f =>
    match runq s with
    | [] => (s, if is_nil (members s) then FNone else FPending)
    | k :: rest =>
      let s := s <| runq := rest |> in
      match find_member s k with
      | None => runq_loop f cf s
      | Some m => let '(s', rdy) := block_poll cf s m in
                  if rdy then (s', FReady) else runq_loop f cf s'
      end
    end
  end.

Definition sched_finish (cf : cfg) (s : state) : state :=
  let s := s <| s_fin := true |> in
  if is_seq (c_api cf) then take_s_tx s else s.   (* the fold state is dropped with the scheduler *)

(** The stream half of one iteration of `ForEachConcurrent::poll`: below the limit, poll the
    (wrapped, tracked) ready stream and push the new block; the flag is `made_progress`. *)
Definition stream_step (cf : cfg) (s : state) : state * bool :=
  if limit_ok cf s && s_alive s then
    let '(s, r) := tracked_poll cf s in
    match r with
    | WItem x => (push_member s (mkMem x (Some x) false MNew), true)
    | WInt (Some x) => (push_member s (mkMem x (Some x) true MNew), true)
    | WInt None => (push_member s (mkMem (c_n cf) None true MNew), true)
    | WNone => (drop_ready_rx s, false)
    | WPending => (s, false)
    end
  else (s, false).

(** `ForEachConcurrent::poll` (and, at limit 1, `Fold`/`TryFold::poll`). *)
Fixpoint conc_loop (fuel : nat) (cf : cfg) (s : state) : state :=
  match fuel with
  | 0 => set_panic POof s
  | S f =>
    let '(s, prog) := stream_step cf s in
    let '(s, fr) := runq_loop (length (runq s) + 1) cf s in
    if s_fin s then s else
    match fr with
    | FReady => conc_loop f cf s
    | FNone => if negb (s_alive s) then sched_finish cf s else if prog then conc_loop f cf s else s
    | FPending => if prog then conc_loop f cf s else s
    end
  end.

(** ** Join and result *)

Definition not_processed (cf : cfg) (s : state) : list nat :=
  filter (fun i => negb (mem i (processed s))) (seq 0 (c_n cf)).

Definition make_result (cf : cfg) (s : state) : outcome :=
  let fin := s_rem s =? 0 in
  let np := not_processed cf s in
  match c_api cf, s_err s with
  | ATryFold, Some i => mkOut (KFoldErr i) false [] [] []
  | ATryForEach, _ =>
    let base := if is_nil (errs s) then KOk else KErr in
    let k := if c_ctl cf then
               match base with
               | KOk => if fin then KContinue else KBreak
               | _ => KBreak
               end
             else base in
    mkOut k fin (processed s) np (errs s)
  | _, _ => mkOut KOk fin (processed s) np []
  end.

Definition poll_fuel (cf : cfg) : nat := 2 * c_n cf + 4.

(** One poll of the call's future: `join!(queuer, scheduler)` then the epilogue. *)
Definition poll (cf : cfg) (s : state) : state :=
  match result s with
  | Some _ => s
  | None =>
    let s := s <| woken := false |> in
    let s := if q_fin s then s else q_loop (poll_fuel cf) cf s in
    let s := if s_fin s then s else conc_loop (poll_fuel cf) cf s in
    if q_fin s && s_fin s then s <| result := Some (make_result cf s) |> else s
  end.

(** ** External events *)

Inductive event :=
| ECmp (i : nat) (ok : bool)    (* the user future of function i resolves; its waker is woken *)
| EInt                          (* an InterruptSignal is sent (wakes nobody) *)
| EPoll                         (* the executor polls once, woken or not *)
| ESettle.                      (* the executor polls while the waker flag is set *)

Definition is_none {A} (o : option A) : bool := match o with None => true | Some _ => false end.

Definition is_waiting (s : state) (i : nat) : bool := is_waiting_b s i.

Definition settle_fuel (cf : cfg) : nat := 2 * c_n cf + 6.

Fixpoint settle (fuel : nat) (cf : cfg) (s : state) : state :=
  match fuel with
  | 0 => s
  | S f => if woken s && is_none (result s) && is_none (panic s) then settle f cf (poll cf s) else s
  end.

(** A completion is enabled only for a function in flight (its block awaits the user future). The
    `FuturesUnordered` task waker enqueues the block once and wakes the call's waker. *)
Definition step (cf : cfg) (s : state) (e : event) : state :=
  match e with
  | ECmp i ok =>
    if is_waiting s i && is_none (lookup i (completed s)) then
      (complete s i ok) <| runq := if mem i (runq s) then runq s else runq s ++ [i] |>
                        <| woken := true |>
    else s
  | EInt => s <| ipend := S (ipend s) |>
  | EPoll => poll cf s
  | ESettle => settle (settle_fuel cf) cf s
  end.

Definition run (cf : cfg) (evs : list event) : state := fold_left (step cf) evs (init cf).

(** A call that starts on an `InterruptibilityState` shared with earlier operations (`reborrow()`):
    what the state owns is carried over - whether a signal was received ([recv]) and the polls counted
    since ([cnt]) - as are the signals sent and not yet read ([pend]); the flags of the
    `InterruptibleStream` itself start fresh. *)
Definition init_carry (cf : cfg) (recv : bool) (cnt pend : nat) : state :=
  (init cf) <| w := wrap0 <| w_recv := recv |> <| w_cnt := cnt |> |> <| ipend := pend |>.


Definition starts (t : list tev) : list nat :=
  flat_map (fun e => match e with Start i => [i] | End _ _ => [] end) t.
Definition ends (t : list tev) : list nat :=
  flat_map (fun e => match e with End i _ => [i] | Start _ => [] end) t.
Definition failed (t : list tev) : list nat :=
  flat_map (fun e => match e with End i false => [i] | _ => [] end) t.

(** ** The stream machine (`stream_internal`, `stream*`)

    Reuses [state]: [q_tx] = the stream holds the ready sender, [s_tx] = it holds the done sender,
    [s_rem] = `fns_remaining`, a [members] entry in state [MWait] = a `FnRef` held by the consumer,
    [processed] = ids yielded, `Start i` = `FnRef` i handed out, `End i` = it was dropped. *)

Record scfg := mkSCfg {
  sc_n : nat; sc_es : list edge; sc_counts : list nat;
  sc_strat : strat;
  sc_interruptible : bool;     (* `stream_with_interruptible` *)
  sc_drain : bool              (* the done channel is drained on every poll (C05 repair) *)
}.

Definition mk_scfg (G : fngraph) (rev : bool) (st : strat) (intr drain : bool) : scfg :=
  mkSCfg (fg_n G) (if rev then fg_struct_rev G else fg_struct G)
         (if rev then fg_outgoing G else fg_incoming G) st intr drain.

Definition scfg_cfg (sc : scfg) : cfg :=
  mkCfg (sc_n sc) (sc_es sc) (sc_counts sc) AForEach false false 0 (sc_strat sc) true [] true.

Definition sinit (sc : scfg) : state :=
  let s := init (scfg_cfg sc) in
  let s := s <| woken := false |> in
  if sc_n sc =? 0 then s <| ready := (ready s) <| senders := 0 |> |> <| q_tx := false |> else s.

Definition st_drain_one (sc : scfg) (s : state) : state * bool :=
  match poll_recv (done s) with
  | (c, RSome id) =>
    (fold_left q_child (children (sc_es sc) id) (s <| done := c |> <| g_qproc := g_qproc s ++ [id] |>), true)
  | (c, _) => (s <| done := c |>, false)
  end.

Fixpoint st_drain (fuel : nat) (sc : scfg) (s : state) : state :=
  match fuel with
  | 0 => set_panic POof s
  | S f => let '(s', cont) := st_drain_one sc s in if cont then st_drain f sc s' else s'
  end.

Definition clone_done_tx (s : state) : state := s <| done := (done s) <| senders := S (senders (done s)) |> |>.

(** One poll of the `poll_fn` closure of `stream_internal`. *)
Definition st_inner (sc : scfg) (s : state) : state * rres :=
  let s := if sc_drain sc then st_drain (sc_n sc + 2) sc s else fst (st_drain_one sc s) in
  if s_tx s then
    let '(s, r) := inner_poll s in
    match r with
    | RSome id =>
      let s := clone_done_tx s in
      let s := s <| members := members s ++ [mkMem id (Some id) false MWait] |>
                 <| trace := trace s ++ [Start id] |> <| processed := processed s ++ [id] |> in
      let s := match s_rem s with 0 => set_panic PSRem s | S r => s <| s_rem := r |> end in
      let s := if s_rem s =? 0 then drop_ready_tx (take_s_tx s) else s in
      (s, r)
    | _ => (s, r)
    end
  else (s, RNone).

(** The generic wrapper around an inner stream (same code as [wrapper_poll]). *)
Definition wrapper_poll_gen (st : strat) (inner : state -> state * rres) (s : state) : state * witem :=
  if w_ian (w s) then (s, WNone) else
  let '(w1, ip) := interrupt_check st (w s) (ipend s) in
  let s := s <| w := w1 |> <| ipend := ip |> in
  if w_hp w1 then
    let '(s, r) := inner s in
    match r with
    | RPending => (s, WPending)
    | RSome x => if w_sig w1 then (w_notify s, WInt (Some x)) else (w_reset s, WItem x)
    | RNone => if w_sig w1 then (w_notify s, WInt None) else (w_reset s, WNone)
    end
  else if w_sig w1 then (w_notify s, WInt None)
  else
    let '(s, r) := inner s in
    match r with
    | RPending => (s <| w := (w s) <| w_hp := true |> |>, WPending)
    | RSome x => (w_reset s, WItem x)
    | RNone => (w_reset s, WNone)
    end.

Inductive sevent :=
| SNext                  (* poll_next once *)
| SDrop (i : nat)        (* the consumer drops the FnRef of function i *)
| SInt                   (* an InterruptSignal is sent *)
| SDropStream.           (* the stream is dropped *)

Definition is_held (s : state) (i : nat) : bool := is_waiting s i.

(** [s_alive] = the stream value still exists. *)
Definition sstep (sc : scfg) (s : state) (e : sevent) : state * witem :=
  match e with
  | SNext =>
    if negb (s_alive s) then (s, WPending) else
    let s := s <| woken := false |> in
    if sc_interruptible sc then wrapper_poll_gen (sc_strat sc) (st_inner sc) s
    else let '(s, r) := st_inner sc s in
         (s, match r with RPending => WPending | RNone => WNone | RSome x => WItem x end)
  | SDrop i =>
    if is_held s i then
      let s := remove_member s i in
      let s := s <| trace := trace s ++ [End i true] |> in
      let s := match try_send (done s) i with
               | (c, SOk, wk) => s <| done := c |> <| woken := woken s || wk |> <| g_done_sent := g_done_sent s ++ [i] |>
               | _ => s
               end in
      let '(c, wk) := drop_sender (done s) in
      (s <| done := c |> <| woken := woken s || wk |>, WPending)
    else (s, WPending)
  | SInt => (s <| ipend := S (ipend s) |>, WPending)
  | SDropStream =>
    if s_alive s then
      let s := drop_ready_tx (take_s_tx s) in
      (s <| ready := drop_rx (ready s) |> <| done := drop_rx (done s) |> <| s_alive := false |>, WPending)
    else (s, WPending)
  end.

Definition srun (sc : scfg) (evs : list sevent) : state :=
  fold_left (fun s e => fst (sstep sc s e)) evs (sinit sc).
