(** * StreamFacts.v — consequences of the stream invariant for C05 *)
From FG Require Import Dag Builder Sched DagFacts EdgeFacts RankFacts BuilderFacts TopoFacts AugFacts BuildFacts
     SchedInv StreamInv SI_Stream CfgFacts.

(** When both channels are empty and the stream still holds its senders, every function that
    has not been yielded is blocked by a FnRef that is still held: it has a strict ancestor (in the
    structure walked) whose FnRef was yielded and not dropped. *)
Theorem blocked_by_held_ref sc s :
  scfg_ok sc -> SInv sc s -> s_alive s = true -> s_tx s = true ->
  buf (done s) = [] -> buf (ready s) = [] ->
  forall c, c < sc_n sc -> ~ In c (starts (trace s)) ->
  exists p, Path (sc_es sc) p c /\ p <> c /\ In p (wait_ids (members s)).
Proof.
  intros [Hw Hc] H Halive Htx Hdone Hready.
  pose proof Hw as [Hwf [Hac Hu]].
  assert (Hrs : g_ready_sent s = g_received s).
  { destruct (sv_ready _ _ H) as [rest [Heq Hopen]]. rewrite Heq, (Hopen ltac:(rewrite (sv_alive_r _ _ H); exact Halive)), Hready.
    apply app_nil_r. }
  assert (Hds : g_done_sent s = g_qproc s).
  { destruct (sv_done _ _ H) as [rest [Heq Hopen]]. rewrite Heq, (Hopen ltac:(rewrite (sv_alive_d _ _ H); exact Halive)), Hdone.
    apply app_nil_r. }
  assert (Hq : q_tx s = true) by (rewrite (sv_qtx _ _ H); exact Htx).
  assert (Hgen : forall h c, height (sc_n sc) (sc_es sc) c < h -> c < sc_n sc -> ~ In c (starts (trace s)) ->
            exists p, Path (sc_es sc) p c /\ p <> c /\ In p (wait_ids (members s))).
  { induction h as [|h IH]; intros c Hh Hc' Hns; [lia|].
    assert (Hnrs : ~ In c (g_ready_sent s)) by (rewrite Hrs, <- (sv_started _ _ H); exact Hns).
    destruct (unproc (sc_es sc) (g_qproc s) c) as [|p l] eqn:Hun.
    - exfalso. apply Hnrs. apply (sv_sent_all _ _ H Hq c Hc' Hun).
    - assert (Hp : In p (unproc (sc_es sc) (g_qproc s) c)) by (rewrite Hun; left; reflexivity).
      apply unproc_In in Hp. destruct Hp as [He HnP].
      assert (Hpne : p <> c) by (intros ->; exact (acyclic_irrefl _ _ Hac He)).
      assert (Hnend : ~ In p (ends (trace s))).
      { intros Hin. apply HnP. rewrite <- Hds. apply (sv_ends_sent _ _ H Halive p Hin). }
      destruct (in_dec Nat.eq_dec p (starts (trace s))) as [Hps|Hps].
      + exists p. split; [apply Path_edge; exact He|]. split; [exact Hpne|].
        apply (sv_split _ _ H) in Hps. destruct Hps as [Hps|Hps]; [contradiction | exact Hps].
      + destruct (Edge_wf _ _ _ _ Hwf He) as [Hpn _].
        pose proof (height_edge _ _ _ _ Hwf Hac He) as Hhe.
        destruct (IH p ltac:(lia) Hpn Hps) as [q [Hqp [Hqne Hqw]]].
        exists q. split; [eapply Path_snoc; eauto|]. split; [|exact Hqw].
        intros ->. apply (Hac _ _ He). exact Hqp. }
  intros c Hc' Hns. apply (Hgen (S (height (sc_n sc) (sc_es sc) c)) c); [lia | exact Hc' | exact Hns].
Qed.

Theorem scfg_ok_mk B G pops queries rev st intr drain :
  build_ok B G pops queries -> scfg_ok (mk_scfg G rev st intr drain).
Proof.
  intros Hok. unfold scfg_ok, mk_scfg. simpl.
  assert (Hn : fg_n G = ncount B) by (unfold fg_n; rewrite (bo_nodes _ _ _ _ Hok); reflexivity).
  rewrite Hn. destruct rev.
  - rewrite (bo_struct_rev _ _ _ _ Hok), (bo_outgoing _ _ _ _ Hok). split.
    + apply wfg_flip. apply (bo_wf _ _ _ _ Hok).
    + apply outgoing_is_incoming_flip.
  - rewrite (bo_struct _ _ _ _ Hok), (bo_incoming _ _ _ _ Hok). split; [apply (bo_wf _ _ _ _ Hok) | reflexivity].
Qed.

Lemma mk_scfg_es B G pops queries rev st intr drain :
  build_ok B G pops queries ->
  sc_es (mk_scfg G rev st intr drain) = if rev then flip_edges (fg_edges G) else fg_edges G.
Proof.
  intros Hok. unfold mk_scfg. simpl. destruct rev; [apply (bo_struct_rev _ _ _ _ Hok) | apply (bo_struct _ _ _ _ Hok)].
Qed.
