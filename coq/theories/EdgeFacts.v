(** * EdgeFacts.v — daggy's `add_edge` / `update_edge`: exact rejection condition (soundness of
    `must_check_for_cycle` included) and preservation of well-formedness. *)

From FG Require Import Dag DagFacts.

Definition wfg (n : nat) (es : list edge) : Prop :=
  wf_edges n es /\ acyclic es /\ uniq_pairs es.

Lemma wfg_nil n : wfg n [].
Proof.
  split; [|split].
  - intros e [].
  - intros a b [k []].
  - constructor.
Qed.

Lemma Edge_app es e x y :
  Edge (es ++ [e]) x y <-> Edge es x y \/ (x = esrc e /\ y = edst e).
Proof.
  unfold Edge. split.
  - intros [k Hk]. apply in_app_or in Hk. destruct Hk as [Hk|[Hk|[]]].
    + left. exists k. exact Hk.
    + right. subst e. split; reflexivity.
  - intros [[k Hk]|[-> ->]].
    + exists k. apply in_or_app. left. exact Hk.
    + exists (ekind e). apply in_or_app. right. left. apply edge_eta.
Qed.

(** A path of the extended graph either avoids the new edge or goes through it. *)
Lemma Path_app_new es a b k x y :
  Path (es ++ [(a, b, k)]) x y -> Path es x y \/ (Path es x a /\ Path es b y).
Proof.
  induction 1 as [x|x z y He Hp IH].
  - left. apply Path_refl.
  - apply Edge_app in He. simpl in He. destruct He as [He|[-> ->]].
    + destruct IH as [IH|[IH1 IH2]].
      * left. eapply Path_step; eauto.
      * right. split; [eapply Path_step; eauto | exact IH2].
    + destruct IH as [IH|[IH1 IH2]].
      * right. split; [apply Path_refl | exact IH].
      * right. split; [apply Path_refl | exact IH2].
Qed.

Lemma Path_app_old es e x y : Path es x y -> Path (es ++ [e]) x y.
Proof. apply Path_ext. intros u v H. apply Edge_app. left. exact H. Qed.

Lemma acyclic_app es a b k :
  acyclic es -> a <> b -> ~ Path es b a -> acyclic (es ++ [(a, b, k)]).
Proof.
  intros Hac Hne Hnp u v He Hp.
  apply Edge_app in He. simpl in He.
  apply Path_app_new in Hp.
  destruct He as [He|[-> ->]].
  - destruct Hp as [Hp|[Hp1 Hp2]].
    + exact (Hac _ _ He Hp).
    + apply Hnp. eapply Path_trans; [exact Hp2|]. eapply Path_step; eauto.
  - destruct Hp as [Hp|[Hp1 Hp2]]; [exact (Hnp Hp) | exact (Hnp Hp1)].
Qed.

(** daggy skips the path search when `a` has no parent, or `b` no child, or the edge `a -> b`
    already exists.  In an acyclic graph none of these cases can hide a path `b ~> a`. *)
Lemma must_check_sound es a b :
  acyclic es -> must_check es a b = false -> a <> b /\ ~ Path es b a.
Proof.
  intros Hac Hm. unfold must_check in Hm. apply orb_false_iff in Hm. destruct Hm as [Hne Hm].
  apply Nat.eqb_neq in Hne. split; [exact Hne|]. intros Hp.
  assert (Hpar : is_nil (parents es a) = false).
  { apply is_nil_false. apply Path_inv_last in Hp. destruct Hp as [Hp|[c [_ Hc]]]; [congruence|].
    exists c. apply parents_spec. exact Hc. }
  assert (Hch : is_nil (children es b) = false).
  { apply is_nil_false. inversion Hp as [|x c y He Hp']; subst; [congruence|].
    exists c. apply children_spec. exact He. }
  rewrite Hpar, Hch in Hm. simpl in Hm. apply negb_false_iff in Hm.
  apply has_edge_spec in Hm. exact (Hac _ _ Hm Hp).
Qed.

Lemma pairs_app es e : pairs (es ++ [e]) = pairs es ++ [fst e].
Proof. unfold pairs. rewrite map_app. reflexivity. Qed.

Lemma in_pairs_Edge es a b : In (a, b) (pairs es) <-> Edge es a b.
Proof.
  unfold pairs, Edge. rewrite in_map_iff. split.
  - intros [[[x y] k] [Heq Hin]]. simpl in Heq. inversion Heq; subst. exists k. exact Hin.
  - intros [k Hk]. exists (a, b, k). split; [reflexivity | exact Hk].
Qed.

(** Exact behaviour of `add_edge` on a well-formed graph, for valid ids. *)
Theorem add_edge_spec n es a b k :
  wfg n es -> a < n -> b < n ->
  (add_edge n es a b k = (es, ECycle) /\ (a = b \/ Path es b a)) \/
  (add_edge n es a b k = (es ++ [(a, b, k)], EOk) /\ a <> b /\ ~ Path es b a).
Proof.
  intros [Hwf [Hac Hu]] Ha Hb. unfold add_edge.
  apply Nat.ltb_lt in Ha as Ha'. apply Nat.ltb_lt in Hb as Hb'. rewrite Ha', Hb'. simpl.
  destruct (must_check es a b) eqn:Hm; simpl.
  - destruct (reach n es b a) eqn:Hr.
    + left. split; [reflexivity|]. right. apply (reach_spec n es b a Hwf Hb). exact Hr.
    + right. apply (reach_false n es b a Hwf Hb) in Hr. split; [reflexivity|]. split; [|exact Hr].
      intros ->. apply Hr. apply Path_refl.
  - right. split; [reflexivity|]. apply must_check_sound; assumption.
Qed.

Lemma wfg_app n es a b k :
  wfg n es -> a < n -> b < n -> a <> b -> ~ Path es b a -> ~ Edge es a b ->
  wfg n (es ++ [(a, b, k)]).
Proof.
  intros [Hwf [Hac Hu]] Ha Hb Hne Hnp Hnedge. split; [|split].
  - intros e He. apply in_app_or in He. destruct He as [He|[<-|[]]]; [apply Hwf; exact He|].
    split; assumption.
  - apply acyclic_app; assumption.
  - unfold uniq_pairs. rewrite pairs_app. apply NoDup_app_intro; [exact Hu | constructor; [intros []|constructor] |].
    intros [x y] Hx [Hy|[]]. simpl in Hy. inversion Hy; subst. apply Hnedge. apply in_pairs_Edge. exact Hx.
Qed.

(** ** [set_kind] (the overwrite branch of `update_edge`) *)

Lemma set_kind_pairs es a b k : pairs (set_kind es a b k) = pairs es.
Proof.
  induction es as [|e es IH]; simpl; [reflexivity|].
  destruct ((esrc e =? a) && (edst e =? b)) eqn:He; simpl.
  - apply andb_true_iff in He. destruct He as [H1 H2].
    apply Nat.eqb_eq in H1. apply Nat.eqb_eq in H2. subst. destruct e as [[x y] k']. reflexivity.
  - rewrite IH. reflexivity.
Qed.

Lemma Edge_pairs_ext es es' : pairs es = pairs es' -> forall x y, Edge es x y -> Edge es' x y.
Proof. intros H x y He. apply in_pairs_Edge. rewrite <- H. apply in_pairs_Edge. exact He. Qed.

Lemma wfg_pairs_ext n es es' : pairs es = pairs es' -> wfg n es -> wfg n es'.
Proof.
  intros Hp [Hwf [Hac Hu]]. split; [|split].
  - intros e He. assert (Hed : Edge es' (esrc e) (edst e)) by (exists (ekind e); rewrite <- edge_eta; exact He).
    apply (Edge_pairs_ext es' es (eq_sym Hp)) in Hed. apply (Edge_wf _ _ _ _ Hwf Hed).
  - intros a b He Hpth. apply (Edge_pairs_ext es' es (eq_sym Hp)) in He.
    apply (Hac _ _ He). eapply Path_ext; [|exact Hpth]. apply Edge_pairs_ext. symmetry. exact Hp.
  - unfold uniq_pairs. rewrite <- Hp. exact Hu.
Qed.

(** What `set_kind` does to the edge list: the (unique) edge on the pair gets the new kind, all
    other edges and all positions are unchanged. *)
Lemma set_kind_In es a b k e :
  uniq_pairs es -> Edge es a b ->
  (In e (set_kind es a b k) <-> (e = (a, b, k) \/ (In e es /\ fst e <> (a, b)))).
Proof.
  induction es as [|e0 es IH]; intros Hu He.
  - destruct He as [k' []].
  - simpl. inversion Hu as [|p ps Hnin Hu']; subst.
    destruct ((esrc e0 =? a) && (edst e0 =? b)) eqn:Hc.
    + apply andb_true_iff in Hc. destruct Hc as [H1 H2].
      apply Nat.eqb_eq in H1. apply Nat.eqb_eq in H2.
      assert (Hf : fst e0 = (a, b)) by (destruct e0 as [[x y] k0]; simpl in *; subst; reflexivity).
      simpl. split.
      * intros [H|H]; [left; symmetry; exact H|]. right. split; [right; exact H|].
        intros Hfe. apply Hnin. rewrite Hf, <- Hfe. apply in_map. exact H.
      * intros [->|[[->|H] Hne]]; [left; reflexivity | contradiction | right; exact H].
    + assert (He' : Edge es a b).
      { destruct He as [k' [Hk|Hk]]; [|exists k'; exact Hk]. subst e0. unfold esrc, edst in Hc. simpl in Hc.
        rewrite !Nat.eqb_refl in Hc. discriminate. }
      simpl. rewrite (IH Hu' He'). split.
      * intros [->|[->|[H Hne]]]; [right; split; [left; reflexivity|] | left; reflexivity | right; split; [right; exact H | exact Hne]].
        intros Hf. destruct e as [[x y] k0]. simpl in Hf. inversion Hf; subst.
        unfold esrc, edst in Hc. simpl in Hc. rewrite !Nat.eqb_refl in Hc. discriminate.
      * intros [->|[[->|H] Hne]]; [right; left; reflexivity | left; reflexivity | right; right; split; assumption].
Qed.

Lemma set_kind_length es a b k : length (set_kind es a b k) = length es.
Proof.
  induction es as [|e es IH]; simpl; [reflexivity|].
  destruct ((esrc e =? a) && (edst e =? b)); simpl; [reflexivity | rewrite IH; reflexivity].
Qed.

(** ** `update_edge`: the complete statement behind C16 *)

Inductive upd_result (es : list edge) (a b : nat) (k : kind) : list edge * eres -> Prop :=
| upd_cycle : (a = b \/ Path es b a) -> upd_result es a b k (es, ECycle)
| upd_overwrite : Edge es a b -> upd_result es a b k (set_kind es a b k, EOk)
| upd_append : a <> b -> ~ Path es b a -> ~ Edge es a b -> upd_result es a b k (es ++ [(a, b, k)], EOk).

Theorem update_edge_spec n es a b k :
  wfg n es -> a < n -> b < n ->
  upd_result es a b k (update_edge n es a b k) /\ wfg n (fst (update_edge n es a b k)).
Proof.
  intros Hw Ha Hb. unfold update_edge. destruct (has_edge es a b) eqn:Hh.
  - apply has_edge_spec in Hh. split; [apply upd_overwrite; exact Hh|].
    simpl. eapply wfg_pairs_ext; [|exact Hw]. symmetry. apply set_kind_pairs.
  - assert (Hne : ~ Edge es a b).
    { intros He. apply has_edge_spec in He. congruence. }
    destruct (add_edge_spec n es a b k Hw Ha Hb) as [[-> Hc]|[-> [Hab Hnp]]].
    + split; [apply upd_cycle; exact Hc | exact Hw].
    + split; [apply upd_append; assumption|]. simpl. apply wfg_app; assumption.
Qed.

(** An edge is rejected exactly when it would close a cycle with the accepted edges. *)
Corollary update_edge_cycle_iff n es a b k :
  wfg n es -> a < n -> b < n ->
  (snd (update_edge n es a b k) = ECycle <-> (a = b \/ Path es b a)).
Proof.
  intros Hw Ha Hb. destruct (update_edge_spec n es a b k Hw Ha Hb) as [Hr _].
  destruct Hw as [Hwf [Hac Hu]].
  inversion Hr as [Hc Heq|He Heq|Hab Hnp Hne Heq]; simpl; split; intros H; try reflexivity; try discriminate; try exact Hc.
  - exfalso. destruct H as [->|Hp]; [exact (acyclic_irrefl _ _ Hac He) | exact (Hac _ _ He Hp)].
  - exfalso. destruct H as [->|Hp]; [apply Hab; reflexivity | exact (Hnp Hp)].
Qed.

Lemma update_edge_never_panics n es a b k :
  a < n -> b < n -> snd (update_edge n es a b k) <> EPanic.
Proof.
  intros Ha Hb. unfold update_edge, add_edge.
  apply Nat.ltb_lt in Ha. apply Nat.ltb_lt in Hb. rewrite Ha, Hb. simpl.
  destruct (has_edge es a b); simpl; [discriminate|].
  destruct (must_check es a b && reach n es b a); simpl; discriminate.
Qed.
