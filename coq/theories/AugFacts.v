(** * AugFacts.v — `DataEdgeAugmenter::augment` and `build()`:
    the augmenter never trips its `.expect`, adds only Data edges between conflicting functions,
    keeps the graph well-formed, and orders every conflicting pair along the lexicographic
    (rank, insertion index) order (C11, C12 tie-break); `build()` is total (C11) and the number of
    path queries is n(n-1)/2 (C18). *)

From FG Require Import Dag Builder DagFacts EdgeFacts RankFacts BuilderFacts TopoFacts.
From Coq Require Import Permutation Sorted.

(** ** Stable sort by rank *)

Section Sort.
Variable rk : list nat.

Definition lexlt (x y : nat) : Prop :=
  rk_at rk x < rk_at rk y \/ (rk_at rk x = rk_at rk y /\ x < y).

Lemma lexlt_irrefl x : ~ lexlt x x.
Proof. unfold lexlt. lia. Qed.
Lemma lexlt_trans x y z : lexlt x y -> lexlt y z -> lexlt x z.
Proof. unfold lexlt. lia. Qed.
Lemma lexlt_asym x y : lexlt x y -> ~ lexlt y x.
Proof. unfold lexlt. lia. Qed.
Lemma lexlt_total x y : x <> y -> lexlt x y \/ lexlt y x.
Proof. unfold lexlt. lia. Qed.

Lemma insert_by_perm x l : Permutation (insert_by rk x l) (x :: l).
Proof.
  induction l as [|y l IH]; simpl; [apply Permutation_refl|].
  destruct (nth x rk 0 <? nth y rk 0); [apply Permutation_refl|].
  eapply Permutation_trans; [apply perm_skip; exact IH | apply perm_swap].
Qed.

Lemma insert_by_sorted x l :
  StronglySorted lexlt l -> (forall y, In y l -> y < x) -> StronglySorted lexlt (insert_by rk x l).
Proof.
  induction l as [|y l IH]; intros Hs Hlt; simpl.
  - constructor; constructor.
  - inversion Hs as [|y' l' Hs' Hall]; subst.
    fold (rk_at rk x). fold (rk_at rk y).
    destruct (rk_at rk x <? rk_at rk y) eqn:Hc.
    + apply Nat.ltb_lt in Hc. constructor; [exact Hs|].
      constructor; [left; exact Hc|].
      apply Forall_forall. intros z Hz. rewrite Forall_forall in Hall. specialize (Hall z Hz).
      unfold lexlt in *. lia.
    + apply Nat.ltb_ge in Hc. constructor.
      * apply IH; [exact Hs'|]. intros z Hz. apply Hlt. right. exact Hz.
      * apply Forall_forall. intros z Hz.
        apply (Permutation_in _ (insert_by_perm x l)) in Hz. destruct Hz as [<-|Hz].
        -- assert (y < x) by (apply Hlt; left; reflexivity). unfold lexlt. lia.
        -- rewrite Forall_forall in Hall. apply Hall. exact Hz.
Qed.

Lemma sort_fold xs : forall acc,
  StronglySorted lexlt acc -> StronglySorted lt xs -> (forall y x, In y acc -> In x xs -> y < x) ->
  StronglySorted lexlt (fold_left (fun a x => insert_by rk x a) xs acc) /\
  Permutation (fold_left (fun a x => insert_by rk x a) xs acc) (acc ++ xs).
Proof.
  induction xs as [|x xs IH]; intros acc Hs Hxs Hlt; simpl.
  - split; [exact Hs | rewrite app_nil_r; apply Permutation_refl].
  - inversion Hxs as [|x' xs' Hxs' Hall]; subst.
    destruct (IH (insert_by rk x acc)) as [H1 H2].
    + apply insert_by_sorted; [exact Hs|]. intros y Hy. apply Hlt; [exact Hy | left; reflexivity].
    + exact Hxs'.
    + intros y z Hy Hz. apply (Permutation_in _ (insert_by_perm x acc)) in Hy. destruct Hy as [<-|Hy].
      * rewrite Forall_forall in Hall. apply Hall. exact Hz.
      * apply Hlt; [exact Hy | right; exact Hz].
    + split; [exact H1|]. eapply Permutation_trans; [exact H2|].
      eapply Permutation_trans; [apply Permutation_app_tail; apply insert_by_perm|].
      simpl. apply Permutation_middle.
Qed.

Lemma seq_sorted s len : StronglySorted lt (seq s len).
Proof.
  revert s. induction len as [|len IH]; intros s; simpl; constructor; [apply IH|].
  apply Forall_forall. intros z Hz. apply in_seq in Hz. lia.
Qed.

Lemma sort_by_rank_spec n :
  StronglySorted lexlt (sort_by_rank rk n) /\ Permutation (sort_by_rank rk n) (seq 0 n).
Proof.
  unfold sort_by_rank. destruct (sort_fold (seq 0 n) []) as [H1 H2].
  - constructor.
  - apply seq_sorted.
  - intros y x [].
  - split; [exact H1 | exact H2].
Qed.

End Sort.

(** ** The augmenter *)

Fixpoint tri (m : nat) : nat := match m with 0 => 0 | S k => k + tri k end.

Lemma tri_double m : 2 * tri m = m * (m - 1).
Proof. induction m as [|m IH]; simpl; [reflexivity|]. destruct m; simpl in *; nia. Qed.

Section Aug.
Variable g : dag.
Hypothesis Hg : wf_dag g.
Variable rk : list nat.
Hypothesis Hrk : forall u v, Edge (edges g) u v -> rk_at rk u < rk_at rk v.

Let n := ncount g.
Let es0 := edges g.
Notation lt2 := (lexlt rk).

Definition data_ok (L : list nat) (e : edge) : Prop :=
  ekind e = Data /\ conflict (fn_at g (esrc e)) (fn_at g (edst e)) = true /\ In (esrc e) L /\ In (edst e) L.

Record ainv (L : list nat) (R : nat -> nat -> Prop) (q : nat) (s : astate) : Prop := {
  ai_nopanic : a_panic s = false;
  ai_nodes : nodes (a_g s) = nodes g;
  ai_edges : exists D, edges (a_g s) = es0 ++ D /\ Forall (data_ok L) D;
  ai_wf : wfg n (edges (a_g s));
  ai_fwd : forall a b, Edge (edges (a_g s)) a b -> lt2 a b;
  ai_conn : forall a b, R a b -> conflict (fn_at g a) (fn_at g b) = true -> Path (edges (a_g s)) a b;
  ai_q : a_queries s = q
}.

Lemma ainv_weaken L L' (R R' : nat -> nat -> Prop) q s :
  incl L L' -> (forall a b, R' a b -> R a b) -> ainv L R q s -> ainv L' R' q s.
Proof.
  intros HL HR [H1 H2 [D [H3 H3']] H4 H5 H6 H7]. constructor; try assumption.
  - exists D. split; [exact H3|]. eapply Forall_impl; [|exact H3'].
    intros e [Ha [Hb [Hc Hd]]]. repeat split; try assumption; apply HL; assumption.
  - intros a b Hab. apply H6. apply HR. exact Hab.
Qed.

Lemma fwd_path s L (R : nat -> nat -> Prop) q : ainv L R q s -> forall a b, Path (edges (a_g s)) a b -> a = b \/ lt2 a b.
Proof.
  intros Hinv a b Hp. induction Hp as [a|a b c He Hp IH]; [left; reflexivity|].
  right. pose proof (ai_fwd _ _ _ _ Hinv a b He) as H1. destruct IH as [<-|IH]; [exact H1|].
  eapply lexlt_trans; eauto.
Qed.

Lemma aug_pair_inv L (R : nat -> nat -> Prop) q s x y :
  ainv L R q s -> In x L -> In y L -> x < n -> y < n -> lt2 x y ->
  ainv L (fun a b => R a b \/ (a = x /\ b = y)) (S q) (aug_pair x s y).
Proof.
  intros Hinv HxL HyL Hx Hy Hxy.
  pose proof Hinv as [Hnp Hnodes [D [HD HDok]] Hwf Hfwd Hconn Hq].
  unfold aug_pair. rewrite Hnp.
  assert (Hnc : ncount (a_g s) = n) by (unfold ncount, n; rewrite Hnodes; reflexivity).
  rewrite Hnc.
  destruct (reach n (edges (a_g s)) x y) eqn:Hr.
  - (* already connected *)
    constructor; simpl; try assumption; try reflexivity.
    + exists D. split; assumption.
    + intros a b [Hab|[-> ->]] Hc; [apply Hconn; assumption|]. apply (reach_sound _ _ _ _ Hr).
    + rewrite Hq. reflexivity.
  - apply (reach_false n (edges (a_g s)) x y (proj1 Hwf) Hx) in Hr.
    assert (Hfn : forall v, fn_at (a_g s) v = fn_at g v) by (intros v; unfold fn_at; rewrite Hnodes; reflexivity).
    rewrite !Hfn.
    destruct (conflict (fn_at g x) (fn_at g y)) eqn:Hc.
    + (* add the Data edge *)
      assert (Hwd : wf_dag (a_g s)) by (unfold wf_dag; rewrite Hnc; exact Hwf).
      pose proof (apply_edge_spec (a_g s) x y Data Hwd) as Hspec.
      rewrite Hnc in Hspec. specialize (Hspec Hx Hy).
      destruct (apply_edge (a_g s) x y Data) as [g' r].
      destruct Hspec as [Hn' [Hw' Hcases]].
      assert (Hnocyc : ~ (x = y \/ Path (edges (a_g s)) y x)).
      { intros [->|Hp]; [exact (lexlt_irrefl rk y Hxy)|].
        destruct (fwd_path s L R q Hinv y x Hp) as [->|Hlt]; [exact (lexlt_irrefl rk x Hxy)|].
        exact (lexlt_asym rk x y Hxy Hlt). }
      destruct Hcases as [[-> [_ Hcyc]]|[[-> [He _]]|[-> [Hne [Hes _]]]]].
      * exfalso. exact (Hnocyc Hcyc).
      * exfalso. apply Hr. apply Path_edge. exact He.
      * constructor; simpl.
        -- reflexivity.
        -- rewrite Hn'. exact Hnodes.
        -- exists (D ++ [(x, y, Data)]). split; [rewrite Hes, HD, app_assoc; reflexivity|].
           apply Forall_app. split; [exact HDok|]. constructor; [|constructor].
           unfold data_ok. simpl. repeat split; assumption.
        -- unfold wf_dag in Hw'. unfold ncount in Hw'. rewrite Hn' in Hw'. fold (ncount (a_g s)) in Hw'.
           rewrite Hnc in Hw'. exact Hw'.
        -- intros a b He. rewrite Hes in He. apply Edge_app in He. simpl in He.
           destruct He as [He|[-> ->]]; [apply Hfwd; exact He | exact Hxy].
        -- intros a b [Hab|[-> ->]] Hcf; rewrite Hes.
           ++ apply Path_app_old. apply Hconn; assumption.
           ++ apply Path_edge. apply Edge_app. right. split; reflexivity.
        -- rewrite Hq. reflexivity.
    + constructor; simpl; try assumption; try reflexivity.
      * exists D. split; assumption.
      * intros a b [Hab|[-> ->]] Hcf; [apply Hconn; assumption | congruence].
      * rewrite Hq. reflexivity.
Qed.

Lemma aug_inner_inv L (R : nat -> nat -> Prop) x : forall todo done q s,
  ainv L (fun a b => R a b \/ (a = x /\ In b done)) q s ->
  In x L -> x < n -> (forall y, In y todo -> In y L /\ y < n /\ lt2 x y) ->
  ainv L (fun a b => R a b \/ (a = x /\ In b (done ++ todo))) (q + length todo) (fold_left (aug_pair x) todo s).
Proof.
  induction todo as [|y todo IH]; intros done q s Hinv HxL Hx Htodo; simpl.
  - rewrite app_nil_r, Nat.add_0_r. exact Hinv.
  - destruct (Htodo y (or_introl eq_refl)) as [HyL [Hy Hxy]].
    pose proof (aug_pair_inv L _ q s x y Hinv HxL HyL Hx Hy Hxy) as Hstep.
    replace (done ++ y :: todo) with ((done ++ [y]) ++ todo) by (rewrite <- app_assoc; reflexivity).
    replace (q + S (length todo)) with (S q + length todo) by lia.
    apply IH; [|exact HxL|exact Hx|].
    + eapply ainv_weaken; [apply incl_refl| |exact Hstep].
      intros a b [Hab|[-> Hb]]; [left; left; exact Hab|].
      apply in_app_or in Hb. destruct Hb as [Hb|[<-|[]]]; [left; right; split; [reflexivity|exact Hb] | right; split; reflexivity].
    + intros z Hz. apply Htodo. right. exact Hz.
Qed.

Definition sufR (l : list nat) (a b : nat) : Prop := In a l /\ In b l /\ lt2 a b.

Lemma aug_list_inv : forall l s0,
  StronglySorted lt2 l -> (forall x, In x l -> x < n) ->
  ainv [] (sufR []) 0 s0 ->
  ainv l (sufR l) (tri (length l)) (aug_list l s0).
Proof.
  induction l as [|x rest IH]; intros s0 Hs Hlt H0; simpl.
  - exact H0.
  - inversion Hs as [|x' rest' Hs' Hall]; subst. rewrite Forall_forall in Hall.
    assert (IH' : ainv rest (sufR rest) (tri (length rest)) (aug_list rest s0)).
    { apply IH; [exact Hs' | intros z Hz; apply Hlt; right; exact Hz | exact H0]. }
    assert (Hstart : ainv (x :: rest) (fun a b => sufR rest a b \/ (a = x /\ In b [])) (tri (length rest)) (aug_list rest s0)).
    { eapply ainv_weaken; [|  |exact IH'].
      - intros z Hz. right. exact Hz.
      - intros a b [Hab|[_ []]]. exact Hab. }
    pose proof (aug_inner_inv (x :: rest) (sufR rest) x rest [] _ _ Hstart (or_introl eq_refl)
                  (Hlt x (or_introl eq_refl))) as Hin.
    simpl app in Hin.
    replace (length rest + tri (length rest)) with (tri (length rest) + length rest) by lia.
    eapply ainv_weaken; [apply incl_refl| |apply Hin].
    + intros a b [Ha [Hb Hab]]. destruct Ha as [<-|Ha].
      * right. split; [reflexivity|]. destruct Hb as [<-|Hb]; [exfalso; exact (lexlt_irrefl rk _ Hab) | exact Hb].
      * destruct Hb as [<-|Hb].
        -- exfalso. exact (lexlt_asym rk _ _ Hab (Hall a Ha)).
        -- left. repeat split; assumption.
    + intros y Hy. split; [right; exact Hy|]. split; [apply Hlt; right; exact Hy | apply Hall; exact Hy].
Qed.

(** The augmenter's result on the builder graph [g]. *)
Theorem augment_spec :
  let a := augment g rk in
  a_panic a = false /\
  nodes (a_g a) = nodes g /\
  (exists D, edges (a_g a) = edges g ++ D /\
     Forall (fun e => ekind e = Data /\ conflict (fn_at g (esrc e)) (fn_at g (edst e)) = true) D) /\
  wfg n (edges (a_g a)) /\
  (forall a0 b, Edge (edges (a_g a)) a0 b -> lt2 a0 b) /\
  (forall i j, i < n -> j < n -> lt2 i j -> conflict (fn_at g i) (fn_at g j) = true ->
     Path (edges (a_g a)) i j) /\
  a_queries a = tri n.
Proof.
  unfold augment. fold n.
  destruct (sort_by_rank_spec rk n) as [Hsorted Hperm].
  assert (Hin : forall x, In x (sort_by_rank rk n) <-> x < n).
  { intros x. split; intros H.
    - apply (Permutation_in _ Hperm) in H. apply in_seq in H. lia.
    - apply (Permutation_in _ (Permutation_sym Hperm)). apply in_seq. lia. }
  assert (H0 : ainv [] (sufR []) 0 (mkA g 0 false)).
  { constructor; simpl; try reflexivity.
    - exists []. split; [rewrite app_nil_r; reflexivity | constructor].
    - exact Hg.
    - intros a b He. left. apply Hrk. exact He.
    - intros a b [[] _]. }
  pose proof (aug_list_inv (sort_by_rank rk n) (mkA g 0 false) Hsorted (fun x H => proj1 (Hin x) H) H0) as Hinv.
  destruct Hinv as [H1 H2 [D [H3 H3']] H4 H5 H6 H7].
  split; [exact H1|]. split; [exact H2|]. split.
  { exists D. split; [exact H3|]. eapply Forall_impl; [|exact H3']. intros e [Ha [Hb _]]. split; assumption. }
  split; [exact H4|]. split; [exact H5|]. split.
  - intros i j Hi Hj Hij Hc. apply H6; [|exact Hc]. repeat split; try apply Hin; assumption.
  - rewrite H7. f_equal. rewrite (Permutation_length Hperm). apply seq_length.
Qed.

End Aug.

(** ** Sub-lists of a well-formed edge list, and the structure copies of `build()` *)

Lemma NoDup_prefix {A} (a b : list A) : NoDup (a ++ b) -> NoDup a.
Proof.
  induction a as [|x a IH]; intros H; [constructor|].
  simpl in H. inversion H as [|x' l' Hx Hnd]; subst. constructor.
  - intros Hin. apply Hx. apply in_or_app. left. exact Hin.
  - apply IH. exact Hnd.
Qed.

Lemma wfg_prefix n acc todo : wfg n (acc ++ todo) -> wfg n acc.
Proof.
  intros [Hwf [Hac Hu]]. split; [|split].
  - intros e He. apply Hwf. apply in_or_app. left. exact He.
  - intros a b [k Hk] Hp. apply (Hac a b).
    + exists k. apply in_or_app. left. exact Hk.
    + eapply Path_ext; [|exact Hp]. intros u v [k' Hk']. exists k'. apply in_or_app. left. exact Hk'.
  - unfold uniq_pairs, pairs in *. rewrite map_app in Hu. apply NoDup_prefix in Hu. exact Hu.
Qed.

Lemma flip_edges_app a b : flip_edges (a ++ b) = flip_edges a ++ flip_edges b.
Proof. unfold flip_edges. apply map_app. Qed.

Lemma copy_struct_ok n es : wfg n es ->
  forall todo acc, acc ++ todo = es ->
  copy_struct n todo acc (flip_edges acc) = Some (es, flip_edges es).
Proof.
  intros Hw. induction todo as [|e todo IH]; intros acc Heq; simpl.
  - rewrite app_nil_r in Heq. subst. reflexivity.
  - destruct e as [[a b] k]. unfold esrc, edst, ekind. simpl.
    assert (Hwacc : wfg n acc) by (apply (wfg_prefix n acc ((a, b, k) :: todo)); unfold edge in *; rewrite Heq; exact Hw).
    assert (He : Edge es a b) by (exists k; rewrite <- Heq; apply in_or_app; right; left; reflexivity).
    destruct Hw as [Hwf [Hac Hu]].
    destruct (Edge_wf _ _ _ _ Hwf He) as [Ha Hb].
    assert (Hsub : forall u v, Path acc u v -> Path es u v).
    { intros u v. apply Path_ext. intros p q [k' Hk']. exists k'. rewrite <- Heq. apply in_or_app. left. exact Hk'. }
    destruct (add_edge_spec n acc a b k Hwacc Ha Hb) as [[_ Hc]|[-> _]].
    + exfalso. destruct Hc as [->|Hp]; [exact (acyclic_irrefl _ _ Hac He) | exact (Hac _ _ He (Hsub _ _ Hp))].
    + destruct (add_edge_spec n (flip_edges acc) b a k (wfg_flip n acc Hwacc) Hb Ha) as [[_ Hc]|[-> _]].
      * exfalso. destruct Hc as [->|Hp]; [exact (acyclic_irrefl _ _ Hac He)|].
        apply (proj1 (Path_flip _ _ _)) in Hp. exact (Hac _ _ He (Hsub _ _ Hp)).
      * replace (flip_edges acc ++ [(b, a, k)]) with (flip_edges (acc ++ [(a, b, k)])).
        -- apply IH. rewrite <- app_assoc. exact Heq.
        -- rewrite flip_edges_app. reflexivity.
Qed.

(** ** build() on any builder call sequence *)

Definition conflicting (g : dag) (i j : nat) : Prop := conflict (fn_at g i) (fn_at g j) = true.

Record build_ok (B : dag) (G : fngraph) (pops queries : nat) : Prop := {
  bo_nodes : fg_nodes G = nodes B;
  bo_edges : exists D, fg_edges G = edges B ++ D /\
               Forall (fun e => ekind e = Data /\ conflicting B (esrc e) (edst e)) D;
  bo_wf : wfg (ncount B) (fg_edges G);
  bo_struct : fg_struct G = fg_edges G;
  bo_struct_rev : fg_struct_rev G = flip_edges (fg_edges G);
  bo_ranks : forall v, v < ncount B -> longest_chain (edges B) v (nth v (fg_ranks G) 0);
  bo_ranks_len : length (fg_ranks G) = ncount B;
  bo_fwd : forall a b, Edge (fg_edges G) a b -> lexlt (fg_ranks G) a b;
  bo_conn : forall i j, i < ncount B -> j < ncount B -> lexlt (fg_ranks G) i j -> conflicting B i j ->
              Path (fg_edges G) i j;
  bo_incoming : fg_incoming G = incoming_counts (ncount B) (fg_edges G);
  bo_outgoing : fg_outgoing G = outgoing_counts (ncount B) (fg_edges G);
  bo_pops : pops <= ncount B * ncount B;
  bo_queries : 2 * queries = ncount B * (ncount B - 1)
}.

Theorem build_total_spec (B : dag) : wf_dag B -> exists G pops queries, build B = BOk G pops queries /\ build_ok B G pops queries.
Proof.
  intros HB.
  destruct (rank_calc_correct_and_bounded (ncount B) (edges B) HB) as [rk [pops [Hrc [Hlen [Hlong Hpops]]]]].
  assert (Hstrict : forall u v, Edge (edges B) u v -> rk_at rk u < rk_at rk v).
  { intros u v He. destruct (Edge_wf _ _ _ _ (proj1 HB) He) as [Hu Hv].
    destruct (Hlong u Hu) as [Hc _]. destruct (Hlong v Hv) as [_ Hmax].
    specialize (Hmax (S (rk_at rk u)) (Chain_S _ _ _ _ Hc He)). unfold rk_at in *. lia. }
  destruct (augment_spec B HB rk Hstrict) as [Hnp [Hnodes [[D [HD HDok]] [Hwf [Hfwd [Hconn Hq]]]]]].
  unfold build. rewrite Hrc. rewrite Hnp.
  pose proof (copy_struct_ok (ncount B) (edges (a_g (augment B rk))) Hwf (edges (a_g (augment B rk))) [] eq_refl) as Hcs.
  change (flip_edges []) with (@nil edge) in Hcs. rewrite Hcs.
  set (a := augment B rk) in *.
  exists (mkFG (nodes B) (edges (a_g a)) (edges (a_g a)) (flip_edges (edges (a_g a))) rk
               (incoming_counts (ncount B) (edges (a_g a))) (outgoing_counts (ncount B) (edges (a_g a)))).
  exists pops, (a_queries a). split; [reflexivity|].
  constructor; simpl; try reflexivity; try assumption.
  - exists D. split; [exact HD | exact HDok].
  - rewrite Hq. apply tri_double.
Qed.
