(** * SI3_Run.v — the third invariant [Inv3] holds in every reachable state

    The three clauses of [Inv3] are "monotone" facts, so they are proved through one transitive
    relation [R3] between a state and a later state: every action of the machine is in [R3]
    ([Inv] is needed only for the first poll of a block), [R3] carries [Inv3] over, and the loops
    compose by transitivity while [Inv] is carried along with the lemmas of SI_Step.v. *)
From FG Require Import Dag Builder Sched DagFacts EdgeFacts RankFacts BuilderFacts TopoFacts
     SchedInv SchedInv2 SchedInv3 SI_Init SI_Queuer SI_Wrapper SI_Block SI_Step
     SI2_Queuer SI2_Stream SI2_Block SI2_Step.
From RecordUpdate Require Import RecordSet.
Import RecordSetNotations.

(** ** The step relation *)

Definition R3 (s s' : state) : Prop :=
  (forall m, In m (members s') -> m_id m = None -> m_st m = MNew \/ In m (members s)) /\
  (w_ian (w s') = false ->
     w_ian (w s) = false /\
     exists l, g_received s' = g_received s ++ l /\ processed s' = processed s ++ l) /\
  (q_fin s' = true -> q_fin s = true \/ q_tx s' = false) /\
  (q_tx s = false -> q_tx s' = false).

Lemma R3_refl s : R3 s s.
Proof.
  unfold R3. split; [auto|]. split; [|auto].
  intros H. split; [exact H|]. exists []. rewrite !app_nil_r. auto.
Qed.

Lemma R3_trans a b c : R3 a b -> R3 b c -> R3 a c.
Proof.
  intros (A1 & A2 & A3 & A4) (B1 & B2 & B3 & B4). unfold R3. split; [|split; [|split]].
  - intros m Hm Hid. destruct (B1 m Hm Hid) as [H|H]; [left; exact H | exact (A1 m H Hid)].
  - intros Hw. destruct (B2 Hw) as (Hwb & l2 & G2 & P2). destruct (A2 Hwb) as (Hwa & l1 & G1 & P1).
    split; [exact Hwa|]. exists (l1 ++ l2). rewrite G2, P2, G1, P1, !app_assoc. auto.
  - intros Hq. destruct (B3 Hq) as [H|H]; [|right; exact H].
    destruct (A3 H) as [H'|H']; [left; exact H' | right; apply B4; exact H'].
  - intros Hq. apply B4. apply A4. exact Hq.
Qed.

Lemma R3_Inv3 cf s s' : R3 s s' -> Inv3 cf s -> Inv3 cf s'.
Proof.
  intros (A1 & A2 & A3 & A4) H. destruct H. constructor.
  - intros m Hm Hid. destruct (A1 m Hm Hid) as [H|H]; [exact H | apply y_none_new; assumption].
  - intros Hw. destruct (A2 Hw) as (Hw0 & l & G & P). rewrite G, P, (y_recv_processed Hw0). reflexivity.
  - intros Hq. destruct (A3 Hq) as [H|H]; [apply A4; apply y_qfin_qtx; exact H | exact H].
Qed.

(** Nothing [Inv3] reads changes, except that blocks may disappear and the queuer may finish after
    dropping its sender. *)
Lemma r3_frame s s' :
  incl (members s') (members s) -> g_received s' = g_received s -> processed s' = processed s ->
  w_ian (w s') = w_ian (w s) ->
  (q_fin s' = true -> q_fin s = true \/ q_tx s' = false) ->
  (q_tx s = false -> q_tx s' = false) ->
  R3 s s'.
Proof.
  intros Hm Hg Hp Hw Hq Ht. unfold R3. split; [|split; [|split]].
  - intros m Hin _. right. apply Hm. exact Hin.
  - intros H. split; [congruence|]. exists []. rewrite !app_nil_r. auto.
  - exact Hq.
  - exact Ht.
Qed.

Ltac fr3 := apply r3_frame; simpl; [apply incl_refl | reflexivity | reflexivity | reflexivity | auto | auto].

(** ** Building blocks *)

Lemma set_panic_r3 p s : R3 s (set_panic p s).
Proof. unfold set_panic. destruct (panic s); [apply R3_refl | fr3]. Qed.

Lemma take_s_tx_r3 s : R3 s (take_s_tx s).
Proof.
  unfold take_s_tx. destruct (s_tx s); [|apply R3_refl].
  destruct (drop_sender (done s)) as [c wk]. fr3.
Qed.

Lemma if_take_r3 (b : bool) s : R3 s (if b then take_s_tx s else s).
Proof. destruct b; [apply take_s_tx_r3 | apply R3_refl]. Qed.

Lemma done_send_r3 s id : R3 s (done_send s id).
Proof.
  unfold done_send. destruct (try_send (done s) id) as [[c r] wk]. destruct r;
    [fr3 | apply set_panic_r3 | apply R3_refl].
Qed.

Lemma drop_ready_rx_r3 s : R3 s (drop_ready_rx s).
Proof. unfold drop_ready_rx. fr3. Qed.

Lemma remove_member_r3 s k : R3 s (remove_member s k).
Proof.
  unfold remove_member. apply r3_frame; simpl; auto.
  intros m Hm. apply filter_In in Hm. apply Hm.
Qed.

Lemma drop_ready_tx_eqs s :
  members (drop_ready_tx s) = members s /\ g_received (drop_ready_tx s) = g_received s /\
  processed (drop_ready_tx s) = processed s /\ w (drop_ready_tx s) = w s /\
  q_fin (drop_ready_tx s) = q_fin s /\ q_tx (drop_ready_tx s) = false.
Proof.
  unfold drop_ready_tx. destruct (q_tx s) eqn:Hq.
  - destruct (drop_sender (ready s)) as [c wk]. simpl. repeat split.
  - repeat split. exact Hq.
Qed.

Lemma drop_ready_tx_r3 s : R3 s (drop_ready_tx s).
Proof.
  destruct (drop_ready_tx_eqs s) as (E1 & E2 & E3 & E4 & E5 & E6).
  apply r3_frame; [rewrite E1; apply incl_refl | congruence | congruence | congruence | rewrite E5; auto | auto].
Qed.

(** ** The queuer *)

Lemma q_child_r3 s c : R3 s (q_child s c).
Proof.
  unfold q_child. destruct (nth c (counts s) 0) as [|k]; [apply set_panic_r3|].
  destruct ((k =? 0) && q_tx (s <| counts := set_nth c k (counts s) |>)); [|fr3].
  destruct (try_send (ready (s <| counts := set_nth c k (counts s) |>)) c) as [[ch r] wk].
  destruct r; fr3.
Qed.

Lemma q_children_r3 cs : forall s, R3 s (fold_left q_child cs s).
Proof.
  induction cs as [|c cs IH]; intros s; simpl; [apply R3_refl|].
  eapply R3_trans; [apply q_child_r3 | apply IH].
Qed.

Lemma q_step_r3 cf s : R3 s (fst (q_step cf s)).
Proof.
  unfold q_step. destruct (poll_recv (done s)) as [c r]. destruct r as [| |id]; cbn [fst].
  - fr3.
  - set (s1 := s <| done := drop_rx c |> <| q_fin := true |>).
    destruct (drop_ready_tx_eqs s1) as (E1 & E2 & E3 & E4 & E5 & E6).
    apply r3_frame.
    + rewrite E1. apply incl_refl.
    + rewrite E2. reflexivity.
    + rewrite E3. reflexivity.
    + rewrite E4. reflexivity.
    + intros _. right. exact E6.
    + intros _. exact E6.
  - eapply R3_trans; [|apply q_children_r3].
    set (s1 := s <| done := c |> <| g_qproc := g_qproc s ++ [id] |>).
    assert (H1 : R3 s s1) by (unfold s1; fr3).
    set (s2 := match q_rem s1 with 0 => set_panic PQRem s1 | S r => s1 <| q_rem := r |> end).
    assert (H2 : R3 s1 s2).
    { unfold s2. destruct (q_rem s1); [apply set_panic_r3 | fr3]. }
    eapply R3_trans; [exact H1|]. eapply R3_trans; [exact H2|].
    destruct (q_rem s2 =? 0); [apply drop_ready_tx_r3 | apply R3_refl].
Qed.

Lemma inv3_q_step cf s : Inv3 cf s -> Inv3 cf (fst (q_step cf s)).
Proof. apply R3_Inv3. apply q_step_r3. Qed.

Lemma q_loop_r3 cf : forall fuel s, R3 s (q_loop fuel cf s).
Proof.
  induction fuel as [|f IH]; intros s; simpl; [apply set_panic_r3|].
  pose proof (q_step_r3 cf s) as H. destruct (q_step cf s) as [s' cont]. simpl in H.
  destruct cont; [|exact H]. eapply R3_trans; [exact H | apply IH].
Qed.

Lemma inv3_q_loop cf fuel s : Inv3 cf s -> Inv3 cf (q_loop fuel cf s).
Proof. apply R3_Inv3. apply q_loop_r3. Qed.

(** ** The stream half of a scheduler iteration *)

Lemma tracked_poll_r3 cf s s' r : tracked_poll cf s = (s', r) -> R3 s s'.
Proof.
  intros H. pose proof (tracked_poll_spec cf s s' r H) as (F & Hm).
  pose proof (tracked_poll_spec2 cf s s' r H) as ((G1 & G2 & _) & Hp & _).
  destruct F as (_ & _ & _ & _ & _ & _ & _ & _ & _ & E10 & _).
  unfold R3. split; [|split; [|split]].
  - intros m Hin _. right. rewrite <- E10. exact Hin.
  - intros Hw. destruct r as [| |x|[x|]].
    + destruct Hm as [[_ Hg] Hi]. simpl in Hp. split; [congruence|]. exists []. rewrite Hg, Hp, !app_nil_r. auto.
    + destruct Hm as [[_ Hg] Hi]. simpl in Hp. split; [congruence|]. exists []. rewrite Hg, Hp, !app_nil_r. auto.
    + destruct Hm as [[_ Hg] Hi]. simpl in Hp. split; [congruence|]. exists [x]. rewrite Hg, Hp. auto.
    + destruct Hm as [_ [Hi _]]. congruence.
    + destruct Hm as [_ [Hi _]]. congruence.
  - intros Hq. left. congruence.
  - intros Hq. congruence.
Qed.

Lemma push_member_r3 s m : (m_id m = None -> m_st m = MNew) -> R3 s (push_member s m).
Proof.
  intros Hn. unfold push_member, R3. simpl. split; [|split; [|split]]; auto.
  - intros m0 Hin Hid. apply in_app_or in Hin. destruct Hin as [Hin|[<-|[]]]; [right; exact Hin | left; auto].
  - intros Hw. split; [exact Hw|]. exists []. rewrite !app_nil_r. auto.
Qed.

Lemma stream_step_r3 cf s : R3 s (fst (stream_step cf s)).
Proof.
  unfold stream_step. destruct (limit_ok cf s && s_alive s); [|apply R3_refl].
  destruct (tracked_poll cf s) as [s1 r] eqn:Htp. apply tracked_poll_r3 in Htp.
  destruct r as [| |x|[x|]]; cbn [fst].
  - exact Htp.
  - eapply R3_trans; [exact Htp | apply drop_ready_rx_r3].
  - eapply R3_trans; [exact Htp | apply push_member_r3; discriminate].
  - eapply R3_trans; [exact Htp | apply push_member_r3; discriminate].
  - eapply R3_trans; [exact Htp | apply push_member_r3; reflexivity].
Qed.

Lemma inv3_stream_step cf s : Inv3 cf s -> Inv3 cf (fst (stream_step cf s)).
Proof. apply R3_Inv3. apply stream_step_r3. Qed.

(** ** Blocks *)

Lemma fb_fail_r3 cf s id ok : R3 s (fb_fail cf s id ok).
Proof.
  unfold fb_fail. destruct (negb ok && _); [|apply R3_refl]. cbv zeta.
  eapply R3_trans; [|apply take_s_tx_r3].
  destruct (Nat.max 1 (c_n cf) <=? length (errs s)); [apply set_panic_r3 | fr3].
Qed.

Lemma fb_send_r3 s id : R3 s (fb_send s id).
Proof. unfold fb_send. destruct (s_tx s); [apply done_send_r3 | apply R3_refl]. Qed.

Lemma fb_tail_r3 mi s id : R3 s (fb_tail mi s id).
Proof.
  unfold fb_tail.
  set (s1 := match s_rem s with 0 => set_panic PSRem s | S r => s <| s_rem := r |> end).
  assert (H1 : R3 s s1) by (unfold s1; destruct (s_rem s); [apply set_panic_r3 | fr3]).
  cbv zeta.
  set (s2 := if s_rem s1 =? 0 then take_s_tx s1 else s1).
  assert (H2 : R3 s1 s2) by (apply if_take_r3).
  set (s3 := if mi then take_s_tx s2 else s2).
  assert (H3 : R3 s2 s3) by (apply if_take_r3).
  eapply R3_trans; [exact H1|]. eapply R3_trans; [exact H2|]. eapply R3_trans; [exact H3|]. fr3.
Qed.

Lemma finish_block_r3 cf s m id ok : R3 s (finish_block cf s m id ok).
Proof.
  rewrite finish_block_unfold. cbv zeta.
  eapply R3_trans; [apply (remove_member_r3 s (m_key m))|].
  set (s1 := remove_member s (m_key m)).
  destruct (negb ok && _).
  - eapply R3_trans; [apply take_s_tx_r3|]. set (s2 := take_s_tx s1). unfold drop_ready_rx. fr3.
  - eapply R3_trans; [apply fb_fail_r3|]. eapply R3_trans; [apply fb_send_r3 | apply fb_tail_r3].
Qed.

Lemma complete_r3 s i ok : R3 s (complete s i ok).
Proof. unfold complete. fr3. Qed.

Lemma resume_block_r3 cf s m id : R3 s (fst (resume_block cf s m id)).
Proof.
  unfold resume_block. destruct (lookup id (completed s)) as [ok|]; cbn [fst]; [|apply R3_refl].
  eapply R3_trans; [|apply finish_block_r3]. fr3.
Qed.

(** The only place where a block changes its state: the block polled has a function, hence a key
    below [c_n cf], and a block without a function has the key [c_n cf]. *)
Lemma start_block_r3 cf s m id :
  Inv cf s -> In m (members s) -> m_id m = Some id -> R3 s (start_block cf s m id).
Proof.
  intros Hinv Hm Hid. pose proof (Inv_keys_ok _ _ Hinv) as Hko.
  pose proof (Hko m Hm) as Hkm. rewrite Hid in Hkm. destruct Hkm as [Hkey Hlt].
  unfold start_block.
  set (s0 := if c_mut cf && is_waiting_b s id then set_panic PTryWrite s else s).
  assert (H0 : members s0 = members s /\ g_received s0 = g_received s /\ processed s0 = processed s /\
               w s0 = w s /\ q_fin s0 = q_fin s /\ q_tx s0 = q_tx s).
  { unfold s0. destruct (c_mut cf && is_waiting_b s id); [|repeat split].
    unfold set_panic. destruct (panic s); repeat split. }
  destruct H0 as (E1 & E2 & E3 & E4 & E5 & E6).
  unfold set_member_wait, R3. simpl. rewrite E1, E2, E3, E4, E5, E6. split; [|split; [|split]]; auto.
  - intros m' Hin Hid'. right. apply in_map_iff in Hin. destruct Hin as [m0 [Heq Hm0]].
    assert (Hid0 : m_id m0 = None).
    { subst m'. destruct (m_key m0 =? m_key m); simpl in Hid'; exact Hid'. }
    pose proof (Hko m0 Hm0) as Hk0. rewrite Hid0 in Hk0.
    assert (Hne : (m_key m0 =? m_key m) = false) by (apply Nat.eqb_neq; lia).
    rewrite Hne in Heq. subst m'. exact Hm0.
  - intros Hw. split; [exact Hw|]. exists []. rewrite !app_nil_r. auto.
Qed.

Lemma block_poll_r3 cf s m : Inv cf s -> In m (members s) -> R3 s (fst (block_poll cf s m)).
Proof.
  intros Hinv Hm. unfold block_poll. destruct (m_st m) eqn:Hst; destruct (m_id m) as [id|] eqn:Hid.
  - pose proof (start_block_r3 cf s m id Hinv Hm Hid) as H1.
    set (s1 := start_block cf s m id) in *.
    destruct (lookup id (c_imm cf)) as [ok|]; [|exact H1].
    eapply R3_trans; [exact H1|]. eapply R3_trans; [apply (complete_r3 s1 id ok) | apply resume_block_r3].
  - cbn [fst]. eapply R3_trans; [apply (if_take_r3 (m_int m)) | apply remove_member_r3].
  - apply resume_block_r3.
  - apply R3_refl.
Qed.

Lemma inv3_block_poll cf s m :
  Inv cf s -> Inv3 cf s -> In m (members s) -> Inv3 cf (fst (block_poll cf s m)).
Proof. intros Hinv H3 Hm. eapply R3_Inv3; [apply block_poll_r3; assumption | exact H3]. Qed.

(** ** The run queue *)

Lemma runq_loop_r3 cf : cfg_ok cf -> forall fuel s, Inv cf s -> R3 s (fst (runq_loop fuel cf s)).
Proof.
  intros Hok. induction fuel as [|f IH]; intros s Hinv; cbn [runq_loop]; [apply set_panic_r3|].
  destruct (runq s) as [|k rest] eqn:Hrq; [apply R3_refl|].
  set (s0 := s <| runq := rest |>).
  assert (Hinv0 : Inv cf s0) by (apply Inv_set_runq; exact Hinv).
  assert (H0 : R3 s s0) by (unfold s0; fr3).
  destruct (find_member s0 k) as [m|] eqn:Hfm.
  - pose proof (find_member_In _ _ _ Hfm) as Hm.
    pose proof (inv_block_poll cf s0 m Hok Hinv0 Hm) as (Hinv1 & _).
    pose proof (block_poll_r3 cf s0 m Hinv0 Hm) as H1.
    destruct (block_poll cf s0 m) as [s1 rdy]. cbn [fst] in *.
    destruct rdy; cbn [fst].
    + eapply R3_trans; [exact H0 | exact H1].
    + eapply R3_trans; [exact H0|]. eapply R3_trans; [exact H1 | apply IH; exact Hinv1].
  - eapply R3_trans; [exact H0 | apply IH; exact Hinv0].
Qed.

Lemma inv3_runq_loop cf fuel s :
  cfg_ok cf -> Inv cf s -> Inv3 cf s -> Inv3 cf (fst (runq_loop fuel cf s)).
Proof. intros Hok Hinv H3. eapply R3_Inv3; [apply runq_loop_r3; assumption | exact H3]. Qed.

(** ** The scheduler loop *)

Lemma sched_finish_r3 cf s : R3 s (sched_finish cf s).
Proof.
  unfold sched_finish. set (s1 := s <| s_fin := true |>).
  assert (H1 : R3 s s1) by (unfold s1; fr3).
  destruct (is_seq (c_api cf)); [|exact H1]. eapply R3_trans; [exact H1 | apply take_s_tx_r3].
Qed.

Lemma inv3_sched_finish cf s : Inv3 cf s -> Inv3 cf (sched_finish cf s).
Proof. apply R3_Inv3. apply sched_finish_r3. Qed.

Lemma conc_loop_r3 cf : cfg_ok cf -> forall fuel s, Inv cf s -> phi s < fuel -> R3 s (conc_loop fuel cf s).
Proof.
  intros Hok. induction fuel as [|f IH]; intros s Hinv Hphi; [lia|].
  cbn [conc_loop].
  destruct (inv_stream_step cf s Hinv) as (Hinv1 & Hfin1 & Hle1 & Hlt1).
  pose proof (stream_step_r3 cf s) as Hr1.
  destruct (stream_step cf s) as [s1 prog]. simpl in *.
  destruct (inv_runq_loop cf Hok (length (runq s1) + 1) s1 Hinv1 ltac:(lia)) as (Hinv2 & Hle2 & Hlt2 & _).
  pose proof (runq_loop_r3 cf Hok (length (runq s1) + 1) s1 Hinv1) as Hr2.
  destruct (runq_loop (length (runq s1) + 1) cf s1) as [s2 fr]. simpl in *.
  assert (Hr : R3 s s2) by (eapply R3_trans; eassumption).
  destruct (s_fin s2); [exact Hr|].
  destruct fr.
  - eapply R3_trans; [exact Hr|]. apply IH; [exact Hinv2|]. specialize (Hlt2 eq_refl). lia.
  - destruct prog; [|exact Hr]. eapply R3_trans; [exact Hr|].
    apply IH; [exact Hinv2|]. specialize (Hlt1 eq_refl). lia.
  - destruct (negb (s_alive s2)); [eapply R3_trans; [exact Hr | apply sched_finish_r3]|].
    destruct prog; [|exact Hr]. eapply R3_trans; [exact Hr|].
    apply IH; [exact Hinv2|]. specialize (Hlt1 eq_refl). lia.
Qed.

Lemma inv3_conc_loop cf fuel s :
  cfg_ok cf -> Inv cf s -> Inv3 cf s -> phi s < fuel -> Inv3 cf (conc_loop fuel cf s).
Proof. intros Hok Hinv H3 Hphi. eapply R3_Inv3; [apply conc_loop_r3; assumption | exact H3]. Qed.

(** ** One poll, settling, events, runs *)

Lemma poll_r3 cf s : cfg_ok cf -> Inv cf s -> R3 s (poll cf s).
Proof.
  intros Hok Hinv. unfold poll. destruct (result s); [apply R3_refl|].
  set (s0 := s <| woken := false |>).
  assert (H0 : Inv cf s0) by (apply Inv_set_woken; exact Hinv).
  assert (R0 : R3 s s0) by (unfold s0; fr3).
  set (s1 := if q_fin s0 then s0 else q_loop (poll_fuel cf) cf s0).
  assert (H1 : Inv cf s1).
  { unfold s1. destruct (q_fin s0); [exact H0|]. apply inv_q_loop; [exact Hok | exact H0|].
    pose proof (Inv_done_buf_len _ _ H0). unfold poll_fuel. lia. }
  assert (R1 : R3 s0 s1).
  { unfold s1. destruct (q_fin s0); [apply R3_refl | apply q_loop_r3]. }
  set (s2 := if s_fin s1 then s1 else conc_loop (poll_fuel cf) cf s1).
  assert (R2 : R3 s1 s2).
  { unfold s2. destruct (s_fin s1); [apply R3_refl|]. apply conc_loop_r3; [exact Hok | exact H1|].
    pose proof (phi_bound _ _ H1). unfold poll_fuel. lia. }
  assert (R : R3 s s2) by (eapply R3_trans; [exact R0|]; eapply R3_trans; eassumption).
  destruct (q_fin s2 && s_fin s2); [|exact R]. eapply R3_trans; [exact R|]. fr3.
Qed.

Lemma inv3_poll cf s : cfg_ok cf -> Inv cf s -> Inv3 cf s -> Inv3 cf (poll cf s).
Proof. intros Hok Hinv H3. eapply R3_Inv3; [apply poll_r3; assumption | exact H3]. Qed.

Lemma inv3_settle cf : cfg_ok cf -> forall fuel s, Inv cf s -> Inv3 cf s -> Inv3 cf (settle fuel cf s).
Proof.
  intros Hok. induction fuel as [|f IH]; intros s Hinv H3; [exact H3|].
  simpl. destruct (woken s && is_none (result s) && is_none (panic s)); [|exact H3].
  apply IH; [apply inv_poll | apply inv3_poll]; assumption.
Qed.

Theorem inv3_step cf s e : cfg_ok cf -> Inv cf s -> Inv3 cf s -> Inv3 cf (step cf s e).
Proof.
  intros Hok Hinv H3. destruct e as [i ok| | |]; simpl.
  - destruct (is_waiting s i && is_none (lookup i (completed s))); [|exact H3].
    eapply R3_Inv3; [|exact H3]. eapply R3_trans; [apply (complete_r3 s i ok)|]. fr3.
  - eapply R3_Inv3; [|exact H3]. fr3.
  - apply inv3_poll; assumption.
  - apply inv3_settle; assumption.
Qed.

Theorem inv3_init cf : Inv3 cf (init cf).
Proof.
  unfold init.
  destruct (fold_left preload_one (preload_ids cf) (mkChan [] (Nat.max 1 (c_n cf)) 1 true false, [], false))
    as [[rc sent] bad].
  destruct bad; unfold set_panic; simpl; constructor; simpl;
    try (intros; contradiction); try reflexivity; try discriminate.
Qed.

Theorem inv3_run cf evs : cfg_ok cf -> cfg_ok2 cf -> Inv3 cf (run cf evs).
Proof.
  intros Hok _. unfold run.
  assert (H : forall s, Inv cf s -> Inv3 cf s -> Inv3 cf (fold_left (step cf) evs s)).
  { induction evs as [|e evs IH]; intros s Hs H3; [exact H3|]. simpl.
    apply IH; [apply inv_step | apply inv3_step]; assumption. }
  apply H; [apply inv_init; exact Hok | apply inv3_init].
Qed.

Print Assumptions inv3_run.
