(** * OverrideFacts.v — [with_edges]: the graph value carrying an edge list that did not come from
    the model's own [build].  Whenever [with_edges] succeeds the edge list is well formed, the two
    structure copies are the list and its flip, and the configurations made from the result satisfy
    [cfg_ok] / [scfg_ok], so that every runtime theorem applies.

    daggy's `add_edge` (unlike `update_edge`) accepts a parallel edge, so a successful
    [copy_struct] gives ids in range and acyclicity but not [uniq_pairs]; that part comes from the
    [uniq_pairs_b] test of [with_edges] ([copy_struct_parallel] below is the witness). *)
From FG Require Import Dag Builder Sched DagFacts EdgeFacts RankFacts BuilderFacts TopoFacts AugFacts BuildFacts
     SchedInv StreamInv CfgFacts StreamFacts.

(** ** [uniq_pairs_b] decides [uniq_pairs] *)

Lemma uniq_pairs_b_spec es : uniq_pairs_b es = true <-> uniq_pairs es.
Proof.
  unfold uniq_pairs. induction es as [|e es IH]; simpl.
  - split; [intros _; constructor | reflexivity].
  - rewrite andb_true_iff, negb_true_iff, IH. split.
    + intros [Hh Hu]. constructor; [|exact Hu]. intros Hin.
      assert (He : Edge es (esrc e) (edst e)).
      { apply in_pairs_Edge. destruct e as [[a b] k]. exact Hin. }
      apply has_edge_spec in He. congruence.
    + intros Hnd. inversion Hnd as [|p ps Hnin Hu]; subst. split; [|exact Hu].
      destruct (has_edge es (esrc e) (edst e)) eqn:Hh; [|reflexivity].
      exfalso. apply Hnin. apply has_edge_spec in Hh. apply in_pairs_Edge in Hh.
      destruct e as [[a b] k]. exact Hh.
Qed.

(** ** What a successful `add_edge` means, without assuming [uniq_pairs] *)

Lemma add_edge_ok_inv n es a b k es' :
  wf_edges n es -> acyclic es -> add_edge n es a b k = (es', EOk) ->
  es' = es ++ [(a, b, k)] /\ a < n /\ b < n /\ a <> b /\ ~ Path es b a.
Proof.
  intros Hwf Hac. unfold add_edge.
  destruct ((a <? n) && (b <? n)) eqn:Hr; [|discriminate].
  apply andb_true_iff in Hr. destruct Hr as [Ha Hb].
  apply Nat.ltb_lt in Ha. apply Nat.ltb_lt in Hb.
  destruct (must_check es a b) eqn:Hm; simpl.
  - destruct (reach n es b a) eqn:Hre; [discriminate|].
    intros Heq. inversion Heq; subst es'.
    apply (reach_false n es b a Hwf Hb) in Hre.
    repeat split; try assumption. intros ->. apply Hre. apply Path_refl.
  - intros Heq. inversion Heq; subst es'.
    destruct (must_check_sound es a b Hac Hm) as [Hne Hnp].
    repeat split; assumption.
Qed.

Lemma wf_edges_app n es a b k : wf_edges n es -> a < n -> b < n -> wf_edges n (es ++ [(a, b, k)]).
Proof.
  intros Hwf Ha Hb e He. apply in_app_or in He. destruct He as [He|[<-|[]]]; [apply Hwf; exact He|].
  split; assumption.
Qed.

Lemma wf_edges_flip n es : wf_edges n es -> wf_edges n (flip_edges es).
Proof.
  intros Hwf e He. unfold flip_edges in He. apply in_map_iff in He. destruct He as [e0 [<- He0]].
  destruct (Hwf _ He0) as [H1 H2]. split; assumption.
Qed.

Lemma acyclic_flip es : acyclic es -> acyclic (flip_edges es).
Proof.
  intros Hac a b He Hp.
  assert (He' : Edge es b a).
  { destruct He as [k Hk]. unfold flip_edges in Hk. apply in_map_iff in Hk. destruct Hk as [e0 [Heq He0]].
    inversion Heq; subst. exists (ekind e0). rewrite <- edge_eta. exact He0. }
  apply (proj1 (Path_flip _ _ _)) in Hp.
  apply (Hac _ _ He'). exact Hp.
Qed.

(** ** A successful [copy_struct] *)

Lemma copy_struct_inv n : forall todo acc st str,
  wf_edges n acc -> acyclic acc ->
  copy_struct n todo acc (flip_edges acc) = Some (st, str) ->
  st = acc ++ todo /\ str = flip_edges (acc ++ todo) /\ wf_edges n st /\ acyclic st.
Proof.
  induction todo as [|e todo IH]; intros acc st str Hwf Hac Hc; simpl in Hc.
  - inversion Hc; subst. rewrite app_nil_r. split; [reflexivity|]. split; [reflexivity|]. split; assumption.
  - destruct (add_edge n acc (esrc e) (edst e) (ekind e)) as [acc' r] eqn:Ha.
    destruct r; try discriminate.
    destruct (add_edge n (flip_edges acc) (edst e) (esrc e) (ekind e)) as [accr' r'] eqn:Har.
    destruct r'; try discriminate.
    destruct (add_edge_ok_inv _ _ _ _ _ _ Hwf Hac Ha) as [-> [Hs [Hd [Hne Hnp]]]].
    destruct (add_edge_ok_inv _ _ _ _ _ _ (wf_edges_flip _ _ Hwf) (acyclic_flip _ Hac) Har) as [-> _].
    rewrite <- edge_eta in Hc.
    replace (flip_edges acc ++ [(edst e, esrc e, ekind e)]) with (flip_edges (acc ++ [e])) in Hc
      by (rewrite flip_edges_app; reflexivity).
    apply IH in Hc.
    + rewrite <- app_assoc in Hc. exact Hc.
    + rewrite (edge_eta e). apply wf_edges_app; assumption.
    + rewrite (edge_eta e). apply acyclic_app; assumption.
Qed.

Lemma copy_struct_success n es st str :
  copy_struct n es [] [] = Some (st, str) ->
  st = es /\ str = flip_edges es /\ wf_edges n es /\ acyclic es.
Proof.
  intros Hc. change (@nil edge) with (flip_edges []) in Hc at 2.
  apply copy_struct_inv in Hc.
  - simpl in Hc. destruct Hc as [-> [-> [Hwf Hac]]]. split; [reflexivity|]. split; [reflexivity|]. split; assumption.
  - intros e [].
  - intros a b [k []].
Qed.

(** `add_edge` takes a parallel edge: [copy_struct] succeeds on a list that is not [uniq_pairs]. *)
Lemma copy_struct_parallel :
  copy_struct 2 [(0, 1, Logic); (0, 1, Data)] [] []
    = Some ([(0, 1, Logic); (0, 1, Data)], [(1, 0, Logic); (1, 0, Data)])
  /\ ~ uniq_pairs [(0, 1, Logic); (0, 1, Data)].
Proof.
  split; [reflexivity|]. intros H. inversion H as [|p ps Hnin _]; subst. apply Hnin. left. reflexivity.
Qed.

(** ** [with_edges] *)

Theorem with_edges_fields G es G' : with_edges G es = Some G' ->
  fg_nodes G' = fg_nodes G /\ fg_edges G' = es /\ fg_struct G' = es /\ fg_struct_rev G' = flip_edges es /\
  fg_incoming G' = incoming_counts (fg_n G) es /\ fg_outgoing G' = outgoing_counts (fg_n G) es /\
  wfg (fg_n G) es.
Proof.
  unfold with_edges. intros H.
  destruct (uniq_pairs_b es) eqn:Hu; [|discriminate].
  destruct (copy_struct (fg_n G) es [] []) as [[st str]|] eqn:Hc; [|discriminate].
  inversion H; subst G'; simpl.
  apply copy_struct_success in Hc. destruct Hc as [-> [-> [Hwf Hac]]].
  apply uniq_pairs_b_spec in Hu.
  do 6 (split; [reflexivity|]). split; [exact Hwf | split; assumption].
Qed.

Lemma with_edges_n G es G' : with_edges G es = Some G' -> fg_n G' = fg_n G.
Proof. intros H. apply with_edges_fields in H. unfold fg_n. destruct H as [-> _]. reflexivity. Qed.

Theorem with_edges_cfg_ok G es G' rev a mt ctl lim st incl imm er :
  with_edges G es = Some G' -> cfg_ok (mk_cfg G' rev a mt ctl lim st incl imm er).
Proof.
  intros H. pose proof (with_edges_n _ _ _ H) as Hn.
  destruct (with_edges_fields _ _ _ H) as [_ [_ [Hs [Hsr [Hi [Ho Hw]]]]]].
  unfold cfg_ok, mk_cfg. simpl. rewrite Hn. destruct rev.
  - rewrite Hsr, Ho. split; [apply wfg_flip; exact Hw | apply outgoing_is_incoming_flip].
  - rewrite Hs, Hi. split; [exact Hw | reflexivity].
Qed.

Theorem with_edges_scfg_ok G es G' rev st intr drain :
  with_edges G es = Some G' -> scfg_ok (mk_scfg G' rev st intr drain).
Proof.
  intros H. pose proof (with_edges_n _ _ _ H) as Hn.
  destruct (with_edges_fields _ _ _ H) as [_ [_ [Hs [Hsr [Hi [Ho Hw]]]]]].
  unfold scfg_ok, mk_scfg. simpl. rewrite Hn. destruct rev.
  - rewrite Hsr, Ho. split; [apply wfg_flip; exact Hw | apply outgoing_is_incoming_flip].
  - rewrite Hs, Hi. split; [exact Hw | reflexivity].
Qed.

Theorem with_edges_complete G es : wfg (fg_n G) es -> exists G', with_edges G es = Some G'.
Proof.
  intros Hw. unfold with_edges.
  pose proof (copy_struct_ok (fg_n G) es Hw es [] eq_refl) as Hc.
  change (flip_edges []) with (@nil edge) in Hc. rewrite Hc.
  destruct Hw as [_ [_ Hu]]. apply uniq_pairs_b_spec in Hu. rewrite Hu.
  eexists. reflexivity.
Qed.

Theorem with_edges_self B G p q : build_ok B G p q -> with_edges G (fg_edges G) = Some G.
Proof.
  intros Hok. unfold with_edges.
  assert (Hn : fg_n G = ncount B) by (unfold fg_n; rewrite (bo_nodes _ _ _ _ Hok); reflexivity).
  pose proof (bo_wf _ _ _ _ Hok) as Hw. rewrite <- Hn in Hw.
  pose proof (copy_struct_ok (fg_n G) (fg_edges G) Hw (fg_edges G) [] eq_refl) as Hc.
  change (flip_edges []) with (@nil edge) in Hc. rewrite Hc.
  destruct Hw as [_ [_ Hu]]. apply uniq_pairs_b_spec in Hu. rewrite Hu.
  rewrite <- (bo_struct _ _ _ _ Hok) at 2. rewrite <- (bo_struct_rev _ _ _ _ Hok).
  rewrite Hn, <- (bo_incoming _ _ _ _ Hok), <- (bo_outgoing _ _ _ _ Hok).
  destruct G; reflexivity.
Qed.
