(** * AugNR.v — no Data edge added by the augmenter repeats an ordering implied by the other
    edges of the built graph (C12, non-redundancy). *)

From FG Require Import Dag Builder DagFacts EdgeFacts RankFacts BuilderFacts TopoFacts AugFacts.
From Coq Require Import Permutation Sorted.

Definition rm_pair (es : list edge) (a b : nat) : list edge :=
  filter (fun e => negb ((esrc e =? a) && (edst e =? b))) es.

Lemma rm_pair_In es a b e : In e (rm_pair es a b) <-> In e es /\ ~ (esrc e = a /\ edst e = b).
Proof.
  unfold rm_pair. rewrite filter_In, negb_true_iff, andb_false_iff, !Nat.eqb_neq. split.
  - intros [H [H1|H1]]; split; try exact H; intros [H2 H3]; contradiction.
  - intros [H H1]. split; [exact H|]. destruct (Nat.eq_dec (esrc e) a); [right|left]; tauto.
Qed.

Lemma rm_pair_absent es a b : ~ Edge es a b -> rm_pair es a b = es.
Proof.
  intros Hne. unfold rm_pair. induction es as [|e es IH]; simpl; [reflexivity|].
  destruct ((esrc e =? a) && (edst e =? b)) eqn:Hc.
  - exfalso. apply andb_true_iff in Hc. destruct Hc as [H1 H2]. apply Nat.eqb_eq in H1. apply Nat.eqb_eq in H2.
    apply Hne. exists (ekind e). left. rewrite <- H1, <- H2. apply edge_eta.
  - simpl. rewrite IH; [reflexivity|]. intros [k Hk]. apply Hne. exists k. right. exact Hk.
Qed.

Lemma rm_pair_app es e a b : rm_pair (es ++ [e]) a b = rm_pair es a b ++ rm_pair [e] a b.
Proof. unfold rm_pair. apply filter_app. Qed.

Lemma rm_pair_single_keep x y k a b :
  ~ (x = a /\ y = b) -> rm_pair (@cons edge (x, y, k) nil) a b = @cons edge (x, y, k) nil.
Proof.
  intros Hab. unfold rm_pair. simpl. unfold esrc, edst. simpl.
  destruct (x =? a) eqn:E1; destruct (y =? b) eqn:E2; simpl; try reflexivity.
  apply Nat.eqb_eq in E1. apply Nat.eqb_eq in E2. exfalso. apply Hab. split; assumption.
Qed.

Lemma rm_pair_single_gone x y k : rm_pair (@cons edge (x, y, k) nil) x y = nil.
Proof. unfold rm_pair. simpl. unfold esrc, edst. simpl. rewrite !Nat.eqb_refl. reflexivity. Qed.

Lemma rm_pair_sub es a b u v : Path (rm_pair es a b) u v -> Path es u v.
Proof. apply Path_ext. intros x y [k Hk]. apply rm_pair_In in Hk. exists k. tauto. Qed.

Lemma sorted_app_lt {A} (R : A -> A -> Prop) l1 l2 :
  StronglySorted R (l1 ++ l2) -> forall a b, In a l1 -> In b l2 -> R a b.
Proof.
  induction l1 as [|x l1 IH]; intros Hs a b Ha Hb; [destruct Ha|].
  simpl in Hs. inversion Hs as [|x' l' Hs' Hall]; subst. destruct Ha as [<-|Ha].
  - rewrite Forall_forall in Hall. apply Hall. apply in_or_app. right. exact Hb.
  - apply IH; assumption.
Qed.

Lemma sorted_app_r {A} (R : A -> A -> Prop) l1 l2 : StronglySorted R (l1 ++ l2) -> StronglySorted R l2.
Proof. induction l1 as [|x l1 IH]; intros Hs; [exact Hs|]. simpl in Hs. inversion Hs; subst. apply IH. assumption. Qed.

Section NR.
Variable g : dag.
Hypothesis Hg : wf_dag g.
Hypothesis Hnd : no_data (edges g).
Variable rk : list nat.
Hypothesis Hrk : forall u v, Edge (edges g) u v -> rk_at rk u < rk_at rk v.

Notation lt2 := (lexlt rk).
Notation n := (ncount g).

(** Every Data edge is necessary: without it there is no path between its endpoints. *)
Definition NR (s : astate) : Prop :=
  forall a b, In (a, b, Data) (edges (a_g s)) -> ~ Path (rm_pair (edges (a_g s)) a b) a b.

(** Data edges leaving [x] all point into [done]. *)
Definition XD (x : nat) (done : list nat) (s : astate) : Prop :=
  forall b, In (x, b, Data) (edges (a_g s)) -> In b done.

Lemma data_edge_in_D s L R q a b :
  ainv g rk L R q s -> In (a, b, Data) (edges (a_g s)) -> In a L /\ In b L.
Proof.
  intros Hinv Hin. destruct (ai_edges _ _ _ _ _ _ Hinv) as [D [HD HDok]].
  rewrite HD in Hin. apply in_app_or in Hin. destruct Hin as [Hin|Hin].
  - exfalso. apply (Hnd _ Hin). reflexivity.
  - rewrite Forall_forall in HDok. destruct (HDok _ Hin) as [_ [_ [H1 H2]]]. simpl in *. split; assumption.
Qed.

Lemma aug_pair_nr L (R : nat -> nat -> Prop) q s x y done :
  ainv g rk L R q s -> In x L -> In y L -> x < n -> y < n -> lt2 x y ->
  (forall a, In a L -> a = x \/ lt2 x a) ->
  (forall b, In b done -> lt2 b y) ->
  NR s -> XD x done s ->
  NR (aug_pair x s y) /\ XD x (done ++ [y]) (aug_pair x s y).
Proof.
  intros Hinv HxL HyL Hx Hy Hxy Hmin Hdone Hnr Hxd.
  pose proof Hinv as [Hnp Hnodes [D [HD HDok]] Hwf Hfwd Hconn Hq].
  assert (Hweak : XD x (done ++ [y]) s).
  { intros b Hb. apply in_or_app. left. apply Hxd. exact Hb. }
  unfold aug_pair. rewrite Hnp.
  assert (Hnc : ncount (a_g s) = n) by (unfold ncount; rewrite Hnodes; reflexivity).
  rewrite Hnc.
  destruct (reach n (edges (a_g s)) x y) eqn:Hr; [split; assumption|].
  apply (reach_false n (edges (a_g s)) x y (proj1 Hwf) Hx) in Hr.
  assert (Hfn : forall v, fn_at (a_g s) v = fn_at g v) by (intros v; unfold fn_at; rewrite Hnodes; reflexivity).
  rewrite !Hfn.
  destruct (conflict (fn_at g x) (fn_at g y)) eqn:Hc; [|split; assumption].
  assert (Hwd : wf_dag (a_g s)) by (unfold wf_dag; rewrite Hnc; exact Hwf).
  pose proof (apply_edge_spec (a_g s) x y Data Hwd) as Hspec.
  rewrite Hnc in Hspec. specialize (Hspec Hx Hy).
  destruct (apply_edge (a_g s) x y Data) as [g' r].
  destruct Hspec as [Hn' [Hw' Hcases]].
  assert (Hnocyc : ~ (x = y \/ Path (edges (a_g s)) y x)).
  { intros [->|Hp]; [exact (lexlt_irrefl rk y Hxy)|].
    destruct (fwd_path g rk s L R q Hinv y x Hp) as [->|Hlt]; [exact (lexlt_irrefl rk x Hxy)|].
    exact (lexlt_asym rk x y Hxy Hlt). }
  destruct Hcases as [[-> [_ Hcyc]]|[[-> [He _]]|[-> [Hne [Hes _]]]]].
  - exfalso. exact (Hnocyc Hcyc).
  - exfalso. apply Hr. apply Path_edge. exact He.
  - unfold NR, XD. simpl. split.
    + intros a b Hin. rewrite Hes in Hin |- *. apply in_app_or in Hin.
      rewrite rm_pair_app. destruct Hin as [Hin|[Hin|[]]].
      * (* an older Data edge *)
        assert (Hab : ~ (x = a /\ y = b)).
        { intros [-> ->]. apply Hne. exists Data. exact Hin. }
        rewrite (rm_pair_single_keep x y Data a b Hab). intros Hp. apply Path_app_new in Hp. destruct Hp as [Hp|[Hp1 Hp2]].
        -- exact (Hnr a b Hin Hp).
        -- apply rm_pair_sub in Hp1. apply rm_pair_sub in Hp2.
           destruct (data_edge_in_D s L R q a b Hinv Hin) as [HaL _].
           destruct (fwd_path g rk s L R q Hinv a x Hp1) as [Hax|Hax].
           ++ subst a. (* another Data edge leaving x: it points into [done], before y *)
              pose proof (Hdone b (Hxd b Hin)) as Hby.
              destruct (fwd_path g rk s L R q Hinv y b Hp2) as [Hyb|Hyb].
              ** subst b. exact (lexlt_irrefl rk y Hby).
              ** exact (lexlt_asym rk _ _ Hby Hyb).
           ++ destruct (Hmin a HaL) as [->|Hxa]; [exact (lexlt_irrefl rk x Hax) | exact (lexlt_asym rk _ _ Hax Hxa)].
      * (* the new edge itself *)
        inversion Hin; subst a b.
        rewrite rm_pair_single_gone, app_nil_r, (rm_pair_absent _ _ _ Hne). exact Hr.
    + intros b Hb. rewrite Hes in Hb. apply in_app_or in Hb. destruct Hb as [Hb|[Hb|[]]].
      * apply in_or_app. left. apply Hxd. exact Hb.
      * inversion Hb; subst. apply in_or_app. right. left. reflexivity.
Qed.

Lemma aug_inner_nr L (R : nat -> nat -> Prop) x : forall todo done q s,
  ainv g rk L (fun a b => R a b \/ (a = x /\ In b done)) q s ->
  In x L -> x < n -> (forall y, In y todo -> In y L /\ y < n /\ lt2 x y) ->
  (forall a, In a L -> a = x \/ lt2 x a) ->
  StronglySorted lt2 (done ++ todo) ->
  NR s -> XD x done s ->
  NR (fold_left (aug_pair x) todo s).
Proof.
  induction todo as [|y todo IH]; intros done q s Hinv HxL Hx Htodo Hmin Hsorted Hnr Hxd; simpl; [exact Hnr|].
  destruct (Htodo y (or_introl eq_refl)) as [HyL [Hy Hxy]].
  pose proof (aug_pair_inv g rk L _ q s x y Hinv HxL HyL Hx Hy Hxy) as Hstep.
  destruct (aug_pair_nr L _ q s x y done Hinv HxL HyL Hx Hy Hxy Hmin) as [Hnr' Hxd']; try assumption.
  { intros b Hb. apply (sorted_app_lt lt2 done (y :: todo) Hsorted b y Hb). left. reflexivity. }
  apply (IH (done ++ [y]) (S q)); try assumption.
  - eapply ainv_weaken; [apply incl_refl| |exact Hstep].
    intros a b [Hab|[-> Hb]]; [left; left; exact Hab|].
    apply in_app_or in Hb. destruct Hb as [Hb|[<-|[]]]; [left; right; split; [reflexivity|exact Hb] | right; split; reflexivity].
  - intros z Hz. apply Htodo. right. exact Hz.
  - rewrite <- app_assoc. exact Hsorted.
Qed.

Lemma aug_list_nr : forall l s0,
  StronglySorted lt2 l -> (forall x, In x l -> x < n) ->
  ainv g rk [] (sufR rk []) 0 s0 -> NR s0 ->
  NR (aug_list l s0).
Proof.
  induction l as [|x rest IH]; intros s0 Hs Hlt H0 Hnr0; simpl; [exact Hnr0|].
  inversion Hs as [|x' rest' Hs' Hall]; subst. rewrite Forall_forall in Hall.
  assert (Hlt' : forall z, In z rest -> z < n) by (intros z Hz; apply Hlt; right; exact Hz).
  pose proof (aug_list_inv g rk rest s0 Hs' Hlt' H0) as IHinv.
  assert (Hstart : ainv g rk (x :: rest) (fun a b => sufR rk rest a b \/ (a = x /\ In b [])) (tri (length rest)) (aug_list rest s0)).
  { eapply ainv_weaken; [| |exact IHinv].
    - intros z Hz. right. exact Hz.
    - intros a b [Hab|[_ []]]. exact Hab. }
  apply (aug_inner_nr (x :: rest) (sufR rk rest) x rest [] _ _ Hstart).
  - left. reflexivity.
  - apply Hlt. left. reflexivity.
  - intros y Hy. split; [right; exact Hy|]. split; [apply Hlt'; exact Hy | apply Hall; exact Hy].
  - intros a [<-|Ha]; [left; reflexivity | right; apply Hall; exact Ha].
  - exact Hs'.
  - apply IH; assumption.
  - intros b Hb. destruct (data_edge_in_D _ _ _ _ x b IHinv Hb) as [Hx _].
    exfalso. exact (lexlt_irrefl rk x (Hall x Hx)).
Qed.

Theorem augment_nonredundant :
  forall a b, In (a, b, Data) (edges (a_g (augment g rk))) ->
  ~ Path (rm_pair (edges (a_g (augment g rk))) a b) a b.
Proof.
  unfold augment.
  destruct (sort_by_rank_spec rk n) as [Hsorted Hperm].
  assert (Hin : forall x, In x (sort_by_rank rk n) -> x < n).
  { intros x H. apply (Permutation_in _ Hperm) in H. apply in_seq in H. lia. }
  assert (H0 : ainv g rk [] (sufR rk []) 0 (mkA g 0 false)).
  { constructor; simpl; try reflexivity.
    - exists []. split; [rewrite app_nil_r; reflexivity | constructor].
    - exact Hg.
    - intros a b He. left. apply Hrk. exact He.
    - intros a b [[] _]. }
  apply (aug_list_nr (sort_by_rank rk n) (mkA g 0 false) Hsorted Hin H0).
  intros a b Hin'. simpl in Hin'. exfalso. apply (Hnd _ Hin'). reflexivity.
Qed.

End NR.
