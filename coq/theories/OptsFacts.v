(** Facts about the `StreamOpts` builder model: the options a chain of setter calls produces depend
    on which setters were called and on the last argument of each, never on their order or number. *)
From Coq Require Import List Bool.
From FG Require Import Dag Builder Sched Opts.
Import ListNotations.

Definition is_rev (c : opt_call) : bool := match c with ORev => true | _ => false end.

(** last argument of a setter in the chain, or the default *)
Fixpoint last_state (calls : list opt_call) (d : strat) : strat :=
  match calls with
  | [] => d
  | OState st :: t => last_state t st
  | _ :: t => last_state t d
  end.

Fixpoint last_incl (calls : list opt_call) (d : bool) : bool :=
  match calls with
  | [] => d
  | OIncl b :: t => last_incl t b
  | _ :: t => last_incl t d
  end.

Lemma fold_opts : forall calls o,
  fold_left opt_apply calls o =
  mkSOpts (so_rev o || existsb is_rev calls) (last_state calls (so_strat o)) (last_incl calls (so_incl o)).
Proof.
  induction calls as [|c t IH]; intros o; cbn [fold_left existsb last_state last_incl].
  - rewrite orb_false_r. destruct o; reflexivity.
  - rewrite IH. destruct c; cbn [opt_apply so_rev so_strat so_incl is_rev orb].
    + rewrite orb_true_r. reflexivity.
    + reflexivity.
    + reflexivity.
Qed.

Theorem opts_build_spec : forall calls,
  opts_build calls = mkSOpts (existsb is_rev calls) (last_state calls SNonInt) (last_incl calls true).
Proof. intros calls. unfold opts_build. rewrite fold_opts. reflexivity. Qed.

(** `rev()` any number of times is one `rev()`; other setters never undo it. *)
Theorem opts_rev_idempotent : forall calls,
  so_rev (opts_build calls) = existsb is_rev calls.
Proof. intros calls. rewrite opts_build_spec. reflexivity. Qed.

Theorem opts_rev_once_enough : forall pre post,
  so_rev (opts_build (pre ++ ORev :: post)) = true.
Proof.
  intros pre post. rewrite opts_rev_idempotent, existsb_app. cbn [existsb is_rev].
  rewrite orb_true_l, orb_true_r. reflexivity.
Qed.

Theorem opts_no_rev_forward : forall calls,
  existsb is_rev calls = false -> so_rev (opts_build calls) = false.
Proof. intros calls H. rewrite opts_rev_idempotent. exact H. Qed.

Lemma last_state_app : forall a b d, last_state (a ++ b) d = last_state b (last_state a d).
Proof. induction a as [|c t IH]; intros b d; cbn [app last_state]; [reflexivity|]. destruct c; apply IH. Qed.

Lemma last_incl_app : forall a b d, last_incl (a ++ b) d = last_incl b (last_incl a d).
Proof. induction a as [|c t IH]; intros b d; cbn [app last_incl]; [reflexivity|]. destruct c; apply IH. Qed.

(** The include flag is the argument of the last `interrupted_next_item_include` call -- calls of
    the other setters after it (in particular `interruptibility_state`) do not reset it. *)
Theorem opts_incl_survives : forall pre b post,
  (forall c, In c post -> match c with OIncl _ => False | _ => True end) ->
  so_incl (opts_build (pre ++ OIncl b :: post)) = b.
Proof.
  intros pre b post Hpost. rewrite opts_build_spec. cbn [so_incl].
  rewrite last_incl_app. cbn [last_incl].
  clear pre. revert Hpost. induction post as [|c t IH]; intros Hpost; cbn [last_incl]; [reflexivity|].
  pose proof (Hpost c (or_introl eq_refl)) as Hc. destruct c; try contradiction;
    apply IH; intros c' Hin; apply Hpost; right; exact Hin.
Qed.

Theorem opts_state_survives : forall pre st post,
  (forall c, In c post -> match c with OState _ => False | _ => True end) ->
  so_strat (opts_build (pre ++ OState st :: post)) = st.
Proof.
  intros pre st post Hpost. rewrite opts_build_spec. cbn [so_strat].
  rewrite last_state_app. cbn [last_state].
  clear pre. revert Hpost. induction post as [|c t IH]; intros Hpost; cbn [last_state]; [reflexivity|].
  pose proof (Hpost c (or_introl eq_refl)) as Hc. destruct c; try contradiction;
    apply IH; intros c' Hin; apply Hpost; right; exact Hin.
Qed.

(** Two adjacent calls of different setters commute. *)
Definition same_setter (c d : opt_call) : bool :=
  match c, d with
  | ORev, ORev | OState _, OState _ | OIncl _, OIncl _ => true
  | _, _ => false
  end.

Theorem opts_setters_commute : forall pre c d post,
  same_setter c d = false ->
  opts_build (pre ++ c :: d :: post) = opts_build (pre ++ d :: c :: post).
Proof.
  intros pre c d post H. unfold opts_build. rewrite !fold_left_app. cbn [fold_left].
  f_equal. destruct c, d; cbn in H; try discriminate; reflexivity.
Qed.
