(** * SettleFacts.v — no livelock: a poll that ends with the task's waker flag set has made
    irreversible progress, so [ESettle] (poll while woken) reaches quiescence within its fuel.

    Within one poll [woken] is first cleared and can then only be set by
    - an accepted [try_send] to the ready channel ([q_child]): [g_ready_sent] grows,
    - an accepted [try_send] to the done channel ([done_send]): [g_done_sent] grows,
    - the drop of the ready sender ([drop_ready_tx]): [q_tx] goes from true to false,
    - the drop of the done sender ([take_s_tx]): [s_tx] goes from true to false.
    None of these is ever undone, each id is sent at most once on each channel. *)
From FG Require Import Dag Builder Sched DagFacts EdgeFacts RankFacts BuilderFacts TopoFacts
     SchedInv SchedInv2 SchedInv3 LiveFacts LiveStep SI_Queuer SI_Init SI_Step SI2_Queuer SI2_Step
     SI3_Run LiveRun.
From RecordUpdate Require Import RecordSet.
Import RecordSetNotations.
From Coq Require Import Lia.

(** ** The progress measure *)

(** Number of irreversible wake-capable actions performed so far. *)
Definition mu (s : state) : nat :=
  length (g_ready_sent s) + length (g_done_sent s) +
  (if q_tx s then 0 else 1) + (if s_tx s then 0 else 1).

Definition settle_bound (cf : cfg) : nat := 2 * c_n cf + 2.

(** The potential: what is left of the budget. *)
Definition psi (cf : cfg) (s : state) : nat := settle_bound cf - mu s.

(** [T s s']: going from [s] to [s'] the measure did not decrease, and if the waker flag is set
    in [s'] it was already set in [s] or the measure has strictly increased. *)
Definition T (s s' : state) : Prop :=
  mu s <= mu s' /\ (woken s' = true -> woken s = true \/ mu s < mu s').

Lemma T_refl s : T s s.
Proof. split; [lia | intros H; left; exact H]. Qed.

Lemma T_trans s1 s2 s3 : T s1 s2 -> T s2 s3 -> T s1 s3.
Proof.
  intros [A1 A2] [B1 B2]. split; [lia|]. intros H.
  destruct (B2 H) as [H2|H2]; [|right; lia].
  destruct (A2 H2) as [H1|H1]; [left; exact H1 | right; lia].
Qed.

Lemma T_same s s' :
  g_ready_sent s' = g_ready_sent s -> g_done_sent s' = g_done_sent s ->
  q_tx s' = q_tx s -> s_tx s' = s_tx s -> woken s' = woken s -> T s s'.
Proof.
  intros H1 H2 H3 H4 H5. unfold T, mu. rewrite H1, H2, H3, H4, H5.
  split; [lia | intros H; left; exact H].
Qed.

(** The measure went up: whatever happened to the flag is accounted for. *)
Lemma T_up s s' : mu s < mu s' -> T s s'.
Proof. intros H. split; [lia | intros _; right; exact H]. Qed.

Lemma T_set_panic p s : T s (set_panic p s).
Proof. unfold set_panic. destruct (panic s); [apply T_refl|]. apply T_same; reflexivity. Qed.

(** ** Queuer *)

Lemma T_drop_ready_tx s : T s (drop_ready_tx s).
Proof.
  unfold drop_ready_tx. destruct (q_tx s) eqn:Hq; [|apply T_refl].
  destruct (drop_sender (ready s)) as [c wk].
  apply T_up. unfold mu.
  change (g_ready_sent (s <| q_tx := false |> <| ready := c |> <| woken := woken s || wk |>)) with (g_ready_sent s).
  change (g_done_sent (s <| q_tx := false |> <| ready := c |> <| woken := woken s || wk |>)) with (g_done_sent s).
  change (q_tx (s <| q_tx := false |> <| ready := c |> <| woken := woken s || wk |>)) with false.
  change (s_tx (s <| q_tx := false |> <| ready := c |> <| woken := woken s || wk |>)) with (s_tx s).
  rewrite Hq. lia.
Qed.

Lemma T_q_child s c : T s (q_child s c).
Proof.
  unfold q_child. destruct (nth c (counts s) 0) as [|k]; [apply T_set_panic|].
  cbv zeta. set (s0 := s <| counts := set_nth c k (counts s) |>).
  assert (H0 : T s s0) by (apply T_same; reflexivity).
  destruct ((k =? 0) && q_tx s0); [|exact H0].
  destruct (try_send (ready s0) c) as [[ch r] wk]. destruct r; try exact H0.
  apply (T_trans _ s0); [exact H0|]. apply T_up. unfold mu.
  change (g_ready_sent (s0 <| ready := ch |> <| woken := woken s0 || wk |> <| g_ready_sent := g_ready_sent s0 ++ [c] |>))
    with (g_ready_sent s0 ++ [c]).
  change (g_done_sent (s0 <| ready := ch |> <| woken := woken s0 || wk |> <| g_ready_sent := g_ready_sent s0 ++ [c] |>))
    with (g_done_sent s0).
  change (q_tx (s0 <| ready := ch |> <| woken := woken s0 || wk |> <| g_ready_sent := g_ready_sent s0 ++ [c] |>))
    with (q_tx s0).
  change (s_tx (s0 <| ready := ch |> <| woken := woken s0 || wk |> <| g_ready_sent := g_ready_sent s0 ++ [c] |>))
    with (s_tx s0).
  rewrite app_length. simpl. lia.
Qed.

Lemma T_fold_q_child l : forall s, T s (fold_left q_child l s).
Proof.
  induction l as [|c l IH]; intros s; simpl; [apply T_refl|].
  apply (T_trans _ (q_child s c)); [apply T_q_child | apply IH].
Qed.

Lemma T_q_step cf s : T s (fst (q_step cf s)).
Proof.
  unfold q_step. destruct (poll_recv (done s)) as [c r]. destruct r as [| |id].
  - simpl. apply T_same; reflexivity.
  - simpl. apply (T_trans _ (s <| done := drop_rx c |> <| q_fin := true |>)); [apply T_same; reflexivity|].
    apply T_drop_ready_tx.
  - cbv zeta. set (s0 := s <| done := c |> <| g_qproc := g_qproc s ++ [id] |>).
    assert (H0 : T s s0) by (apply T_same; reflexivity).
    set (s1 := match q_rem s0 with 0 => set_panic PQRem s0 | S r => s0 <| q_rem := r |> end).
    assert (H1 : T s s1).
    { apply (T_trans _ s0); [exact H0|]. unfold s1. destruct (q_rem s0); [apply T_set_panic|]. apply T_same; reflexivity. }
    set (s2 := if q_rem s1 =? 0 then drop_ready_tx s1 else s1).
    assert (H2 : T s s2).
    { unfold s2. destruct (q_rem s1 =? 0); [|exact H1]. apply (T_trans _ s1); [exact H1 | apply T_drop_ready_tx]. }
    simpl. apply (T_trans _ s2); [exact H2 | apply T_fold_q_child].
Qed.

Lemma T_q_loop cf : forall fuel s, T s (q_loop fuel cf s).
Proof.
  induction fuel as [|f IH]; intros s; simpl; [apply T_set_panic|].
  pose proof (T_q_step cf s) as H1. destruct (q_step cf s) as [s1 cont]. simpl in H1.
  destruct cont; [|exact H1]. apply (T_trans _ s1); [exact H1 | apply IH].
Qed.

(** ** Scheduler *)

Lemma T_take_s_tx s : T s (take_s_tx s).
Proof.
  unfold take_s_tx. destruct (s_tx s) eqn:Hq; [|apply T_refl].
  destruct (drop_sender (done s)) as [c wk].
  apply T_up. unfold mu.
  change (g_ready_sent (s <| s_tx := false |> <| done := c |> <| woken := woken s || wk |>)) with (g_ready_sent s).
  change (g_done_sent (s <| s_tx := false |> <| done := c |> <| woken := woken s || wk |>)) with (g_done_sent s).
  change (q_tx (s <| s_tx := false |> <| done := c |> <| woken := woken s || wk |>)) with (q_tx s).
  change (s_tx (s <| s_tx := false |> <| done := c |> <| woken := woken s || wk |>)) with false.
  rewrite Hq. lia.
Qed.

Lemma T_done_send s id : T s (done_send s id).
Proof.
  unfold done_send. destruct (try_send (done s) id) as [[c r] wk]. destruct r.
  - apply T_up. unfold mu.
    change (g_ready_sent (s <| done := c |> <| woken := woken s || wk |> <| g_done_sent := g_done_sent s ++ [id] |>))
      with (g_ready_sent s).
    change (g_done_sent (s <| done := c |> <| woken := woken s || wk |> <| g_done_sent := g_done_sent s ++ [id] |>))
      with (g_done_sent s ++ [id]).
    change (q_tx (s <| done := c |> <| woken := woken s || wk |> <| g_done_sent := g_done_sent s ++ [id] |>))
      with (q_tx s).
    change (s_tx (s <| done := c |> <| woken := woken s || wk |> <| g_done_sent := g_done_sent s ++ [id] |>))
      with (s_tx s).
    rewrite app_length. simpl. lia.
  - apply T_set_panic.
  - apply T_refl.
Qed.

Lemma T_drop_ready_rx s : T s (drop_ready_rx s).
Proof. apply T_same; reflexivity. Qed.
Lemma T_remove_member s k : T s (remove_member s k).
Proof. apply T_same; reflexivity. Qed.
Lemma T_set_member_wait s k : T s (set_member_wait s k).
Proof. apply T_same; reflexivity. Qed.
Lemma T_complete s i ok : T s (complete s i ok).
Proof. apply T_same; reflexivity. Qed.
Lemma T_push_member s m : T s (push_member s m).
Proof. apply T_same; reflexivity. Qed.

Lemma T_finish_block cf s m id ok : T s (finish_block cf s m id ok).
Proof.
  unfold finish_block.
  pose proof (T_remove_member s (m_key m)) as H0. set (s0 := remove_member s (m_key m)) in *.
  destruct (negb ok && match c_api cf with ATryFold => true | _ => false end).
  - apply (T_trans _ (drop_ready_rx (take_s_tx s0))); [|apply T_same; reflexivity].
    apply (T_trans _ (take_s_tx s0)); [|apply T_drop_ready_rx].
    apply (T_trans _ s0); [exact H0 | apply T_take_s_tx].
  - set (s1 := if negb ok && match c_api cf with ATryForEach => true | _ => false end
               then take_s_tx (if Nat.max 1 (c_n cf) <=? length (errs s0) then set_panic PResult s0
                               else s0 <| errs := errs s0 ++ [id] |>)
               else s0).
    assert (H1 : T s s1).
    { unfold s1. destruct (negb ok && match c_api cf with ATryForEach => true | _ => false end); [|exact H0].
      eapply T_trans; [|apply T_take_s_tx]. apply (T_trans _ s0); [exact H0|].
      destruct (Nat.max 1 (c_n cf) <=? length (errs s0)); [apply T_set_panic|]. apply T_same; reflexivity. }
    set (s2 := if s_tx s1 then done_send s1 id else s1).
    assert (H2 : T s s2).
    { unfold s2. destruct (s_tx s1); [|exact H1]. apply (T_trans _ s1); [exact H1 | apply T_done_send]. }
    set (s3 := match s_rem s2 with 0 => set_panic PSRem s2 | S r => s2 <| s_rem := r |> end).
    assert (H3 : T s s3).
    { apply (T_trans _ s2); [exact H2|]. unfold s3. destruct (s_rem s2); [apply T_set_panic|]. apply T_same; reflexivity. }
    set (s4 := if s_rem s3 =? 0 then take_s_tx s3 else s3).
    assert (H4 : T s s4).
    { unfold s4. destruct (s_rem s3 =? 0); [|exact H3]. apply (T_trans _ s3); [exact H3 | apply T_take_s_tx]. }
    set (s5 := if m_int m then take_s_tx s4 else s4).
    assert (H5 : T s s5).
    { unfold s5. destruct (m_int m); [|exact H4]. apply (T_trans _ s4); [exact H4 | apply T_take_s_tx]. }
    apply (T_trans _ s5); [exact H5 | apply T_same; reflexivity].
Qed.

Lemma T_resume_block cf s m id : T s (fst (resume_block cf s m id)).
Proof.
  unfold resume_block. destruct (lookup id (completed s)); [|apply T_refl].
  simpl. eapply T_trans; [|apply T_finish_block]. apply T_same; reflexivity.
Qed.

Lemma T_start_block cf s m id : T s (start_block cf s m id).
Proof.
  unfold start_block. eapply T_trans; [|apply T_set_member_wait].
  match goal with |- T _ (?x <| trace := _ |>) => apply (T_trans _ x); [|apply T_same; reflexivity] end.
  destruct (c_mut cf && is_waiting_b s id); [apply T_set_panic | apply T_refl].
Qed.

Lemma T_block_poll cf s m : T s (fst (block_poll cf s m)).
Proof.
  unfold block_poll. destruct (m_st m); destruct (m_id m) as [id|].
  - destruct (lookup id (c_imm cf)).
    + eapply T_trans; [|apply T_resume_block].
      eapply T_trans; [|apply T_complete]. apply T_start_block.
    + simpl. apply T_start_block.
  - simpl. eapply T_trans; [|apply T_remove_member]. destruct (m_int m); [apply T_take_s_tx | apply T_refl].
  - apply T_resume_block.
  - apply T_refl.
Qed.

Lemma T_inner_poll s : T s (fst (inner_poll s)).
Proof.
  unfold inner_poll. destruct (poll_recv (ready s)) as [c r]. destruct r; simpl; apply T_same; reflexivity.
Qed.

Lemma T_w s x : T s (s <| w := x |>).
Proof. apply T_same; reflexivity. Qed.

Lemma T_wrapper_poll cf s : T s (fst (wrapper_poll cf s)).
Proof.
  unfold wrapper_poll. destruct (w_ian (w s)); [apply T_refl|].
  destruct (interrupt_check (c_strat cf) (w s) (ipend s)) as [w1 ip].
  set (s0 := s <| w := w1 |> <| ipend := ip |>).
  assert (H0 : T s s0) by (apply T_same; reflexivity).
  pose proof (T_inner_poll s0) as H1.
  destruct (w_hp w1).
  - destruct (inner_poll s0) as [s1 r]. simpl in H1.
    assert (H2 : T s s1) by (apply (T_trans _ s0); assumption).
    destruct r; simpl; try exact H2;
      destruct (w_sig w1); simpl; unfold w_notify, w_reset; (eapply T_trans; [exact H2 | apply T_w]).
  - destruct (w_sig w1); [unfold w_notify; simpl; eapply T_trans; [exact H0 | apply T_w]|].
    destruct (inner_poll s0) as [s1 r]. simpl in H1.
    assert (H2 : T s s1) by (apply (T_trans _ s0); assumption).
    destruct r; simpl; unfold w_reset; (eapply T_trans; [exact H2 | apply T_w]).
Qed.

Lemma T_tracked_poll cf s : T s (fst (tracked_poll cf s)).
Proof.
  unfold tracked_poll. pose proof (T_wrapper_poll cf s) as H1.
  destruct (wrapper_poll cf s) as [s1 r]. simpl in H1.
  destruct r as [| |x|[x|]]; simpl; try exact H1;
    try (eapply T_trans; [exact H1 | apply T_same; reflexivity]).
  destruct (c_incl cf); simpl; [|exact H1]. eapply T_trans; [exact H1 | apply T_same; reflexivity].
Qed.

Lemma T_stream_step cf s : T s (fst (stream_step cf s)).
Proof.
  unfold stream_step. destruct (limit_ok cf s && s_alive s); [|apply T_refl].
  pose proof (T_tracked_poll cf s) as H1. destruct (tracked_poll cf s) as [s1 r]. simpl in H1.
  destruct r as [| |x|[x|]]; simpl; try exact H1;
    (eapply T_trans; [exact H1|]); first [apply T_push_member | apply T_drop_ready_rx].
Qed.

Lemma T_runq_loop cf : forall fuel s, T s (fst (runq_loop fuel cf s)).
Proof.
  induction fuel as [|f IH]; intros s; simpl; [apply T_set_panic|].
  destruct (runq s) as [|k rest]; [apply T_refl|].
  set (s0 := s <| runq := rest |>). assert (H0 : T s s0) by (apply T_same; reflexivity).
  destruct (find_member s0 k) as [m|]; [|apply (T_trans _ s0); [exact H0 | apply IH]].
  pose proof (T_block_poll cf s0 m) as H1. destruct (block_poll cf s0 m) as [s1 rdy]. simpl in H1.
  assert (H2 : T s s1) by (apply (T_trans _ s0); assumption).
  destruct rdy; [exact H2 | apply (T_trans _ s1); [exact H2 | apply IH]].
Qed.

Lemma T_sched_finish cf s : T s (sched_finish cf s).
Proof.
  unfold sched_finish. set (s0 := s <| s_fin := true |>).
  assert (H0 : T s s0) by (apply T_same; reflexivity).
  destruct (is_seq (c_api cf)); [|exact H0]. apply (T_trans _ s0); [exact H0 | apply T_take_s_tx].
Qed.

Lemma T_conc_loop cf : forall fuel s, T s (conc_loop fuel cf s).
Proof.
  induction fuel as [|f IH]; intros s; cbn [conc_loop]; [apply T_set_panic|].
  pose proof (T_stream_step cf s) as H1. destruct (stream_step cf s) as [s1 prog]. simpl in H1.
  pose proof (T_runq_loop cf (length (runq s1) + 1) s1) as H2.
  destruct (runq_loop (length (runq s1) + 1) cf s1) as [s2 fr]. simpl in H2.
  assert (H3 : T s s2) by (apply (T_trans _ s1); assumption).
  assert (H4 : T s (conc_loop f cf s2)) by (apply (T_trans _ s2); [exact H3 | apply IH]).
  destruct (s_fin s2); [exact H3|]. destruct fr.
  - exact H4.
  - destruct prog; [exact H4 | exact H3].
  - destruct (negb (s_alive s2)); [apply (T_trans _ s2); [exact H3 | apply T_sched_finish]|].
    destruct prog; [exact H4 | exact H3].
Qed.

(** ** One poll *)

(** No invariant is needed here: the flag is cleared at the start of the poll, so if it is set at
    the end, one of the four irreversible actions has happened in between. *)
Lemma mu_poll cf s :
  mu s <= mu (poll cf s) /\
  (result s = None -> woken (poll cf s) = true -> mu s < mu (poll cf s)).
Proof.
  unfold poll. destruct (result s) eqn:Hres; [split; [lia | discriminate]|].
  set (s0 := s <| woken := false |>).
  assert (M0 : mu s0 = mu s) by reflexivity.
  assert (W0 : woken s0 = false) by reflexivity.
  set (s1 := if q_fin s0 then s0 else q_loop (poll_fuel cf) cf s0).
  assert (H1 : T s0 s1) by (unfold s1; destruct (q_fin s0); [apply T_refl | apply T_q_loop]).
  set (s2 := if s_fin s1 then s1 else conc_loop (poll_fuel cf) cf s1).
  assert (H2 : T s0 s2).
  { apply (T_trans _ s1); [exact H1|]. unfold s2. destruct (s_fin s1); [apply T_refl | apply T_conc_loop]. }
  set (s3 := if q_fin s2 && s_fin s2 then s2 <| result := Some (make_result cf s2) |> else s2).
  assert (H3 : T s0 s3).
  { apply (T_trans _ s2); [exact H2|]. unfold s3. destruct (q_fin s2 && s_fin s2); [apply T_same; reflexivity | apply T_refl]. }
  destruct H3 as [A B]. rewrite M0 in A, B. split; [exact A|]. intros _ Hw.
  destruct (B Hw) as [C|C]; [congruence | exact C].
Qed.

(** ** The bound *)

Lemma Inv_done_sent_ready cf s : Inv cf s -> incl (g_done_sent s) (g_ready_sent s).
Proof.
  intros H x Hx. apply (v_ds_fin _ _ H) in Hx.
  assert (Hs : In x (starts (trace s))) by (apply (v_started _ _ H); left; exact Hx).
  assert (Hr : In x (g_received s)) by (apply (v_recv _ _ H); left; exact Hs).
  destruct (v_ready _ _ H) as [rest [Heq _]]. rewrite Heq. apply in_or_app. left. exact Hr.
Qed.

Lemma mu_bound cf s : Inv cf s -> mu s <= settle_bound cf.
Proof.
  intros H. unfold mu, settle_bound.
  assert (A : length (g_ready_sent s) <= c_n cf).
  { apply NoDup_bounded_length; [apply (v_rs_nodup _ _ H) | apply (v_rs_lt _ _ H)]. }
  assert (B : length (g_done_sent s) <= c_n cf).
  { apply NoDup_bounded_length; [apply (v_ds_nodup _ _ H)|].
    intros x Hx. apply (v_rs_lt _ _ H). apply (Inv_done_sent_ready _ _ H). exact Hx. }
  destruct (q_tx s); destruct (s_tx s); lia.
Qed.

(** ** The potential [psi] *)

Lemma psi_bound cf s : psi cf s <= settle_bound cf.
Proof. unfold psi. lia. Qed.

Lemma settle_bound_fuel cf : settle_bound cf < settle_fuel cf.
Proof. unfold settle_bound, settle_fuel. lia. Qed.

Lemma psi_poll_le cf s : psi cf (poll cf s) <= psi cf s.
Proof. unfold psi. pose proof (proj1 (mu_poll cf s)). lia. Qed.

Lemma psi_poll_lt cf s :
  cfg_ok cf -> Inv cf s ->
  woken (poll cf s) = true -> result (poll cf s) = None -> psi cf (poll cf s) < psi cf s.
Proof.
  intros Hok Hinv Hw Hr. unfold psi.
  assert (Hres : result s = None).
  { destruct (result s) eqn:E; [|reflexivity]. unfold poll in Hr. rewrite E in Hr. congruence. }
  pose proof (proj2 (mu_poll cf s) Hres Hw).
  pose proof (mu_bound cf _ (inv_poll cf s Hok Hinv)). lia.
Qed.

(** External events other than polls leave the potential alone. *)
Lemma psi_ecmp cf s i ok : psi cf (step cf s (ECmp i ok)) = psi cf s.
Proof. simpl. destruct (is_waiting s i && is_none (lookup i (completed s))); reflexivity. Qed.
Lemma psi_eint cf s : psi cf (step cf s EInt) = psi cf s.
Proof. reflexivity. Qed.

Lemma psi_settle_le cf : forall fuel s, psi cf (settle fuel cf s) <= psi cf s.
Proof.
  induction fuel as [|f IH]; intros s; simpl; [lia|].
  destruct (woken s && is_none (result s) && is_none (panic s)); [|lia].
  pose proof (IH (poll cf s)). pose proof (psi_poll_le cf s). lia.
Qed.

Lemma psi_step_le cf s e : psi cf (step cf s e) <= psi cf s.
Proof.
  destruct e as [i ok| | |].
  - rewrite psi_ecmp. lia.
  - rewrite psi_eint. lia.
  - apply psi_poll_le.
  - apply psi_settle_le.
Qed.

(** ** Settling reaches quiescence *)

Definition quiescent (s : state) : Prop := woken s = false \/ result s <> None.

Lemma settle_quiescent_id fuel cf s : quiescent s -> settle fuel cf s = s.
Proof.
  intros H. destruct fuel as [|f]; [reflexivity|]. simpl.
  destruct H as [H|H]; [rewrite H; reflexivity|].
  destruct (result s); [|congruence]. simpl. rewrite andb_false_r. reflexivity.
Qed.

Lemma settle_quiesces_fuel cf : cfg_ok cf -> forall fuel s,
  Inv cf s -> psi cf s < fuel -> quiescent (settle fuel cf s).
Proof.
  intros Hok. induction fuel as [|f IH]; intros s Hinv Hpsi; [lia|].
  simpl. destruct (woken s) eqn:Hw; [|left; exact Hw].
  destruct (result s) eqn:Hr; [simpl; right; rewrite Hr; discriminate|].
  rewrite (v_nopanic _ _ Hinv). simpl.
  destruct (woken (poll cf s)) eqn:Hw1; [|rewrite settle_quiescent_id; left; exact Hw1].
  destruct (result (poll cf s)) eqn:Hr1.
  { rewrite settle_quiescent_id; right; rewrite Hr1; discriminate. }
  apply IH; [apply inv_poll; assumption|].
  pose proof (psi_poll_lt cf s Hok Hinv Hw1 Hr1). lia.
Qed.

(** State-level version: from any state satisfying the safety invariant, the fuel of [ESettle]
    is enough to reach a state that is not woken or has returned. *)
Theorem settle_quiesces_state cf s :
  cfg_ok cf -> Inv cf s ->
  let s' := settle (settle_fuel cf) cf s in
  woken s' = false \/ result s' <> None.
Proof.
  intros Hok Hinv. apply settle_quiesces_fuel; [exact Hok | exact Hinv|].
  pose proof (psi_bound cf s). pose proof (settle_bound_fuel cf). lia.
Qed.

Lemma run_snoc cf evs e : run cf (evs ++ [e]) = step cf (run cf evs) e.
Proof. unfold run. rewrite fold_left_app. reflexivity. Qed.

Theorem settle_quiesces cf evs :
  cfg_ok cf -> cfg_ok2 cf ->
  let s := run cf (evs ++ [ESettle]) in
  woken s = false \/ result s <> None.
Proof.
  intros Hok Hok2. cbv zeta. rewrite run_snoc.
  apply (settle_quiesces_state cf (run cf evs) Hok). apply inv_run. exact Hok.
Qed.

(** ** After settling, the call can only be waiting for an external completion *)

Theorem settled_waits_for_completion cf evs :
  cfg_ok cf -> cfg_ok2 cf ->
  let s := run cf (evs ++ [ESettle]) in
  result s <> None \/
  exists i, In i (wait_ids (members s)) /\ ~ In i (map fst (completed s)).
Proof.
  intros Hok Hok2. cbv zeta.
  destruct (settle_quiesces cf evs Hok Hok2) as [Hw|Hr]; [|left; exact Hr].
  set (s := run cf (evs ++ [ESettle])) in *.
  destruct (result s) eqn:Hres; [left; discriminate|]. right.
  destruct (inv2_run cf (evs ++ [ESettle]) Hok Hok2) as [H1 H2].
  apply (no_deadlock_state cf s Hok H1 H2 (inv3_run cf _ Hok Hok2) (live_run cf _ Hok Hok2) Hres Hw).
Qed.

(** The same, spelled out on the members: some block is awaiting its user future (state [MWait])
    and that future has not resolved yet. *)
Corollary settled_waits_for_member cf evs :
  cfg_ok cf -> cfg_ok2 cf ->
  let s := run cf (evs ++ [ESettle]) in
  result s <> None \/
  exists m i, In m (members s) /\ m_id m = Some i /\ m_st m = MWait /\
              is_waiting s i = true /\ lookup i (completed s) = None.
Proof.
  intros Hok Hok2. cbv zeta.
  destruct (settled_waits_for_completion cf evs Hok Hok2) as [H|[i [Hi Hn]]]; [left; exact H|]. right.
  pose proof Hi as Hi'. apply in_wait_ids in Hi'. destruct Hi' as [m [Hm [Hid Hst]]].
  exists m, i. split; [exact Hm|]. split; [exact Hid|]. split; [exact Hst|].
  split; [apply is_waiting_spec; exact Hi|].
  unfold lookup. destruct (find (fun p => fst p =? i) (completed _)) as [p|] eqn:Hf; [|reflexivity].
  exfalso. apply Hn. destruct (find_some _ _ Hf) as [Hin Heq]. apply Nat.eqb_eq in Heq.
  apply in_map_iff. exists p. split; assumption.
Qed.

Print Assumptions settle_quiesces.
Print Assumptions settle_quiesces_state.
Print Assumptions settled_waits_for_completion.
