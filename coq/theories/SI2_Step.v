(** * SI2_Step.v — the second invariant holds in every reachable state *)
From FG Require Import Dag Builder Sched DagFacts EdgeFacts RankFacts BuilderFacts TopoFacts
     SchedInv SchedInv2 SI_Queuer SI_Wrapper SI_Block SI_Init SI_Step SI2_Queuer SI2_Stream SI2_Block.
From RecordUpdate Require Import RecordSet.
Import RecordSetNotations.

(** ** The run queue *)

Lemma inv2_runq_loop cf : cfg_ok cf -> forall fuel s,
  Inv cf s -> Inv2 cf s -> s_fin s = false -> result s = None -> length (runq s) < fuel ->
  Inv2 cf (fst (runq_loop fuel cf s)) /\
  result (fst (runq_loop fuel cf s)) = None /\
  q_fin (fst (runq_loop fuel cf s)) = q_fin s /\
  (s_fin (fst (runq_loop fuel cf s)) = true -> snd (runq_loop fuel cf s) = FReady) /\
  (snd (runq_loop fuel cf s) <> FReady -> runq (fst (runq_loop fuel cf s)) = []) /\
  (snd (runq_loop fuel cf s) = FNone -> members (fst (runq_loop fuel cf s)) = []).
Proof.
  intros Hok. induction fuel as [|f IH]; intros s Hinv Hinv2 Hfin Hres Hlen; [lia|].
  cbn [runq_loop]. destruct (runq s) as [|k rest] eqn:Hrq.
  - simpl. split; [exact Hinv2|]. split; [exact Hres|]. split; [reflexivity|].
    split; [intros H; congruence|]. split; [intros _; exact Hrq|].
    destruct (members s); simpl; [reflexivity | discriminate].
  - set (s0 := s <| runq := rest |>).
    assert (Hinv0 : Inv cf s0) by (apply Inv_set_runq; exact Hinv).
    destruct (find_member s0 k) as [m|] eqn:Hfm.
    + destruct (inv2_pop_poll cf s k rest m Hok Hinv Hinv2 Hfin Hres Hrq Hfm) as (A1 & A2 & A3 & A4).
      pose proof (inv_block_poll cf s0 m Hok Hinv0 (find_member_In _ _ _ Hfm)) as Hbp.
      fold s0 in A1, A2, A3, A4.
      destruct (block_poll cf s0 m) as [s1 rdy] eqn:Hbpe. simpl in *.
      destruct Hbp as (Hinv1 & Hrq1 & _).
      destruct rdy.
      * simpl. split; [exact A1|]. split; [exact A2|]. split; [exact A3|].
        split; [reflexivity|]. split; [congruence | discriminate].
      * assert (Hfin1 : s_fin s1 = false).
        { destruct (s_fin s1) eqn:E; [specialize (A4 eq_refl); discriminate | reflexivity]. }
        destruct (IH s1 Hinv1 A1 Hfin1 A2) as (B1 & B2 & B3 & B4 & B5 & B6).
        { rewrite Hrq1. simpl. simpl in Hlen. lia. }
        split; [exact B1|]. split; [exact B2|]. split; [rewrite B3; exact A3|].
        split; [exact B4|]. split; [exact B5 | exact B6].
    + pose proof (inv2_pop_none cf s k rest Hinv Hinv2 Hrq Hfm) as A1. fold s0 in A1.
      destruct (IH s0 Hinv0 A1 Hfin Hres) as (B1 & B2 & B3 & B4 & B5 & B6).
      { simpl. simpl in Hlen. lia. }
      split; [exact B1|]. split; [exact B2|]. split; [exact B3|].
      split; [exact B4|]. split; [exact B5 | exact B6].
Qed.

(** ** The scheduler loop *)

Lemma inv2_conc_loop cf : cfg_ok cf -> forall fuel s,
  Inv cf s -> Inv2 cf s -> s_fin s = false -> result s = None -> phi s < fuel ->
  Inv2 cf (conc_loop fuel cf s) /\ result (conc_loop fuel cf s) = None /\
  q_fin (conc_loop fuel cf s) = q_fin s.
Proof.
  intros Hok. induction fuel as [|f IH]; intros s Hinv Hinv2 Hfin Hres Hphi; [lia|].
  cbn [conc_loop].
  destruct (inv_stream_step cf s Hinv) as (Hinv1 & Hfin1 & Hle1 & Hlt1).
  destruct (inv2_stream_step cf s Hok Hinv Hinv2 Hfin Hres) as (Hx1 & Hres1 & Hsf1 & Hqf1 & _).
  destruct (stream_step cf s) as [s1 prog]. simpl in *.
  destruct (inv_runq_loop cf Hok (length (runq s1) + 1) s1 Hinv1 ltac:(lia)) as (Hinv2' & Hle2 & Hlt2 & _).
  destruct (inv2_runq_loop cf Hok (length (runq s1) + 1) s1 Hinv1 Hx1 Hsf1 Hres1 ltac:(lia))
    as (Hx2 & Hres2 & Hqf2 & Hsf2 & Hrq2 & Hmem2).
  destruct (runq_loop (length (runq s1) + 1) cf s1) as [s2 fr]. simpl in *.
  destruct (s_fin s2) eqn:Hs2.
  - split; [exact Hx2|]. split; [exact Hres2|]. congruence.
  - destruct fr.
    + destruct (IH s2 Hinv2' Hx2 Hs2 Hres2) as (C1 & C2 & C3); [specialize (Hlt2 eq_refl); lia|].
      split; [exact C1|]. split; [exact C2|]. congruence.
    + destruct prog.
      * destruct (IH s2 Hinv2' Hx2 Hs2 Hres2) as (C1 & C2 & C3); [specialize (Hlt1 eq_refl); lia|].
        split; [exact C1|]. split; [exact C2|]. congruence.
      * split; [exact Hx2|]. split; [exact Hres2|]. congruence.
    + destruct (negb (s_alive s2)) eqn:Hal.
      * apply negb_true_iff in Hal. split; [apply inv2_sched_finish; auto|].
        unfold sched_finish. split.
        -- destruct (is_seq (c_api cf)); [unfold take_s_tx; destruct (s_tx _); [destruct (drop_sender _)|]|]; simpl; exact Hres2.
        -- destruct (is_seq (c_api cf)); [unfold take_s_tx; destruct (s_tx _); [destruct (drop_sender _)|]|]; simpl; congruence.
      * destruct prog.
        -- destruct (IH s2 Hinv2' Hx2 Hs2 Hres2) as (C1 & C2 & C3); [specialize (Hlt1 eq_refl); lia|].
           split; [exact C1|]. split; [exact C2|]. congruence.
        -- split; [exact Hx2|]. split; [exact Hres2|]. congruence.
Qed.

(** ** One poll, settling, events, runs *)

Lemma Inv2_set_woken cf s b : Inv2 cf s -> Inv2 cf (s <| woken := b |>).
Proof. intros H. destruct H. constructor; simpl; assumption. Qed.
Lemma Inv2_set_ipend cf s k : Inv2 cf s -> Inv2 cf (s <| ipend := k |>).
Proof. intros H. destruct H. constructor; simpl; assumption. Qed.

Lemma inv2_poll cf s : cfg_ok cf -> Inv cf s -> Inv2 cf s -> Inv2 cf (poll cf s).
Proof.
  intros Hok Hinv Hinv2. unfold poll. destruct (result s) eqn:Hres; [exact Hinv2|].
  set (s0 := s <| woken := false |>).
  assert (H0 : Inv cf s0) by (apply Inv_set_woken; exact Hinv).
  assert (X0 : Inv2 cf s0) by (apply Inv2_set_woken; exact Hinv2).
  assert (R0 : result s0 = None) by exact Hres.
  set (s1 := if q_fin s0 then s0 else q_loop (poll_fuel cf) cf s0).
  assert (H1 : Inv cf s1 /\ Inv2 cf s1 /\ result s1 = None /\ s_fin s1 = s_fin s0).
  { unfold s1. destruct (q_fin s0) eqn:Hq; [auto|].
    assert (Hl : length (buf (done s0)) < poll_fuel cf).
    { pose proof (Inv_done_buf_len _ _ H0). unfold poll_fuel. lia. }
    split; [apply inv_q_loop; assumption|].
    destruct (inv2_q_loop cf Hok (poll_fuel cf) s0 H0 X0 Hq Hl) as (A & _ & _ & _ & _ & _ & Afin & Ares & _).
    split; [exact A|]. split; [rewrite Ares; exact R0 | exact Afin]. }
  destruct H1 as (H1 & X1 & R1 & F1).
  set (s2 := if s_fin s1 then s1 else conc_loop (poll_fuel cf) cf s1).
  assert (H2 : Inv cf s2 /\ Inv2 cf s2 /\ result s2 = None).
  { unfold s2. destruct (s_fin s1) eqn:Hsf; [auto|].
    assert (Hp : phi s1 < poll_fuel cf) by (pose proof (phi_bound _ _ H1); unfold poll_fuel; lia).
    split; [apply inv_conc_loop; assumption|].
    destruct (inv2_conc_loop cf Hok (poll_fuel cf) s1 H1 X1 Hsf R1 Hp) as (A & B & _). auto. }
  destruct H2 as (H2 & X2 & R2).
  destruct (q_fin s2 && s_fin s2) eqn:Hb; [|exact X2].
  apply andb_true_iff in Hb. destruct Hb as [Hq Hsf].
  destruct X2. constructor; simpl; try assumption.
  intros o Ho. inversion Ho; subst. split; [exact Hq|]. split; [exact Hsf | reflexivity].
Qed.

Lemma inv2_settle cf : cfg_ok cf -> forall fuel s, Inv cf s -> Inv2 cf s -> Inv2 cf (settle fuel cf s).
Proof.
  intros Hok. induction fuel as [|f IH]; intros s Hinv Hinv2; [exact Hinv2|].
  simpl. destruct (woken s && is_none (result s) && is_none (panic s)); [|exact Hinv2].
  apply IH; [apply inv_poll | apply inv2_poll]; assumption.
Qed.

Theorem inv2_step cf s e : cfg_ok cf -> Inv cf s -> Inv2 cf s -> Inv2 cf (step cf s e).
Proof.
  intros Hok Hinv Hinv2. destruct e as [i ok| | |]; simpl.
  - destruct (is_waiting s i && is_none (lookup i (completed s))) eqn:Hg; [|exact Hinv2].
    apply andb_true_iff in Hg. destruct Hg as [Hw Hn]. apply inv2_ecmp; assumption.
  - apply Inv2_set_ipend. exact Hinv2.
  - apply inv2_poll; assumption.
  - apply inv2_settle; assumption.
Qed.

Theorem inv2_run cf evs : cfg_ok cf -> cfg_ok2 cf -> Inv cf (run cf evs) /\ Inv2 cf (run cf evs).
Proof.
  intros Hok Hok2. unfold run.
  assert (H : forall s, Inv cf s -> Inv2 cf s -> Inv cf (fold_left (step cf) evs s) /\ Inv2 cf (fold_left (step cf) evs s)).
  { induction evs as [|e evs IH]; intros s Hs Hs2; [auto|]. simpl. apply IH; [apply inv_step | apply inv2_step]; assumption. }
  apply H; [apply inv_init; exact Hok | apply inv2_init; assumption].
Qed.
