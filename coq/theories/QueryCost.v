(** * QueryCost.v — cost of one path query (`has_path_connecting`, modelled by [Dag.bfs])

    The search expands every node at most once (a visited set), so one query costs at most [n]
    node expansions and walks at most [length es] adjacency entries, whatever the number of paths.
    [bfs_expansions] / [bfs_scans] instrument [Dag.bfs] (same recursion, same frontier / visited
    arguments): the number of nodes taken off a frontier, and the number of adjacency entries
    (`children`) walked while expanding them. *)
From Coq Require Import List Arith Lia Bool.
From FG Require Import Dag DagFacts.
Import ListNotations.

Fixpoint bfs_expansions (fuel : nat) (es : list edge) (frontier visited : list nat) : nat :=
  match frontier with
  | [] => 0
  | _ :: _ =>
    match fuel with
    | 0 => 0
    | S f => let fresh := add_new (flat_map (children es) frontier) visited [] in
             length frontier + bfs_expansions f es fresh (visited ++ fresh)
    end
  end.

Fixpoint bfs_scans (fuel : nat) (es : list edge) (frontier visited : list nat) : nat :=
  match frontier with
  | [] => 0
  | _ :: _ =>
    match fuel with
    | 0 => 0
    | S f => let fresh := add_new (flat_map (children es) frontier) visited [] in
             length (flat_map (children es) frontier) + bfs_scans f es fresh (visited ++ fresh)
    end
  end.

(** [expanded fuel es frontier visited] = the nodes taken off a frontier, in order. *)
Fixpoint expanded (fuel : nat) (es : list edge) (frontier visited : list nat) : list nat :=
  match frontier with
  | [] => []
  | _ :: _ =>
    match fuel with
    | 0 => []
    | S f => let fresh := add_new (flat_map (children es) frontier) visited [] in
             frontier ++ expanded f es fresh (visited ++ fresh)
    end
  end.

Lemma expansions_length fuel es : forall frontier visited,
  bfs_expansions fuel es frontier visited = length (expanded fuel es frontier visited).
Proof.
  induction fuel as [|f IH]; intros [|y fr] visited; cbn [bfs_expansions expanded]; try reflexivity.
  rewrite app_length, IH. reflexivity.
Qed.

Lemma scans_sum fuel es : forall frontier visited,
  bfs_scans fuel es frontier visited = length (flat_map (children es) (expanded fuel es frontier visited)).
Proof.
  induction fuel as [|f IH]; intros [|y fr] visited; cbn [bfs_scans expanded]; try reflexivity.
  rewrite flat_map_app, app_length, IH. reflexivity.
Qed.

Lemma NoDup_app_l {A} (a b : list A) : NoDup (a ++ b) -> NoDup a.
Proof.
  induction a as [|x a IH]; intros H; [constructor|].
  cbn [app] in H. inversion H as [|x' l Hx Hl]; subst. constructor.
  - intros Hin. apply Hx. apply in_or_app. left. exact Hin.
  - apply IH. exact Hl.
Qed.

Lemma add_new_fresh xs seen x : In x (add_new xs seen []) -> ~ In x seen.
Proof. intros H. apply add_new_In in H. destruct H as [[]|[_ H]]. exact H. Qed.

(** The expanded nodes are the frontier followed by nodes that were not yet visited: with a
    frontier that is a duplicate-free suffix of the visited list, nothing is expanded twice and
    everything expanded ends up in the result of [bfs]. *)
Lemma expanded_spec fuel es : forall frontier visited pre,
  visited = pre ++ frontier -> NoDup visited ->
  NoDup (pre ++ expanded fuel es frontier visited) /\
  incl (pre ++ expanded fuel es frontier visited) (bfs fuel es frontier visited).
Proof.
  induction fuel as [|f IH]; intros frontier visited pre Hv Hnd.
  - destruct frontier as [|y fr]; cbn [expanded bfs]; rewrite app_nil_r; subst visited.
    + rewrite app_nil_r in *. split; [exact Hnd | apply incl_refl].
    + split; [apply NoDup_app_l in Hnd; exact Hnd | apply incl_appl, incl_refl].
  - destruct frontier as [|y fr].
    + cbn [expanded bfs]. rewrite app_nil_r. subst visited. rewrite app_nil_r in *.
      split; [exact Hnd | apply incl_refl].
    + cbn [expanded bfs].
      set (fresh := add_new (flat_map (children es) (y :: fr)) visited []).
      assert (Hnd' : NoDup (visited ++ fresh)).
      { apply NoDup_app_intro; [exact Hnd | apply add_new_NoDup; constructor |].
        intros x Hx Hf. exact (add_new_fresh _ _ _ Hf Hx). }
      destruct (IH fresh (visited ++ fresh) visited eq_refl Hnd') as [H1 H2].
      rewrite app_assoc, <- Hv. split; assumption.
Qed.

Lemma bfs_NoDup fuel es : forall frontier visited,
  NoDup visited -> NoDup (bfs fuel es frontier visited).
Proof.
  induction fuel as [|f IH]; intros frontier visited Hnd; destruct frontier as [|y fr]; cbn [bfs]; try exact Hnd.
  apply IH. apply NoDup_app_intro; [exact Hnd | apply add_new_NoDup; constructor |].
  intros x Hx Hf. exact (add_new_fresh _ _ _ Hf Hx).
Qed.

Lemma NoDup_below_length (l : list nat) n : NoDup l -> (forall x, In x l -> x < n) -> length l <= n.
Proof.
  intros Hnd Hlt. rewrite <- (seq_length n 0). apply NoDup_incl_length; [exact Hnd|].
  intros x Hx. apply in_seq. specialize (Hlt x Hx). lia.
Qed.

(** Sum of out-degrees over a duplicate-free set of nodes: at most the number of edges. *)
Lemma children_length es a : length (children es a) = length (filter (fun e => esrc e =? a) es).
Proof. unfold children. rewrite rev_length, map_length. reflexivity. Qed.

Lemma outdeg_sum es : forall l, NoDup l ->
  length (flat_map (children es) l) <= length es.
Proof.
  induction es as [|e es IH]; intros l Hnd.
  - induction l as [|x l IHl]; [apply le_n|]. cbn [flat_map]. rewrite app_length, children_length.
    cbn [filter length]. inversion Hnd; subst. apply IHl. assumption.
  - assert (H : length (flat_map (children (e :: es)) l)
                = length (flat_map (children es) l) + (if mem (esrc e) l then 1 else 0)).
    { clear IH. induction l as [|x l IHl]; [reflexivity|].
      inversion Hnd as [|x' l' Hx Hl]; subst. cbn [flat_map]. rewrite !app_length, (IHl Hl), !children_length.
      cbn [filter mem existsb]. fold (mem (esrc e) l).
      destruct (esrc e =? x) eqn:E.
      - apply Nat.eqb_eq in E. cbn [orb length].
        destruct (mem (esrc e) l) eqn:M; [apply mem_spec in M; rewrite E in M; contradiction|]. lia.
      - cbn [orb]. lia. }
    rewrite H. specialize (IH l Hnd). cbn [length]. destruct (mem (esrc e) l); lia.
Qed.

(** One query: at most [n] expansions, at most [length es] adjacency entries walked. *)
Theorem query_cost_bound n es a :
  wf_edges n es -> a < n ->
  bfs_expansions (S n) es [a] [a] <= n /\ bfs_scans (S n) es [a] [a] <= length es.
Proof.
  intros Hwf Ha.
  assert (Hnd0 : NoDup [a]) by (constructor; [intros [] | constructor]).
  destruct (expanded_spec (S n) es [a] [a] [] eq_refl Hnd0) as [Hnd Hincl]. cbn [app] in Hnd, Hincl.
  split.
  - rewrite expansions_length. apply NoDup_below_length; [exact Hnd|].
    intros x Hx. apply Hincl in Hx.
    apply (Path_wf n es a x Hwf Ha).
    apply (bfs_sound es a (S n) [a] [a]); [intros z [<-|[]]; apply Path_refl | apply incl_refl | exact Hx].
  - rewrite scans_sum. apply outdeg_sum. exact Hnd.
Qed.

(** The instrumented search is the search: its visited set is [Dag.reach_set]. *)
Lemma expanded_in_reach_set n es a x :
  In x (expanded (S n) es [a] [a]) -> In x (reach_set n es a).
Proof.
  intros Hx. assert (Hnd0 : NoDup [a]) by (constructor; [intros [] | constructor]).
  destruct (expanded_spec (S n) es [a] [a] [] eq_refl Hnd0) as [_ Hincl]. apply Hincl. exact Hx.
Qed.
