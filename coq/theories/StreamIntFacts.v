(** * StreamIntFacts.v — the C05 facts for interruptible streams (`stream_with_interruptible`)

    SI_Stream.v states [next_pending_quiet] and [next_none_iff] for [sc_interruptible sc = false]
    only.  Here they are generalised to the stream wrapped by the `interruptible` crate's
    InterruptibleStream ([wrapper_poll_gen]), for every interrupt strategy. *)
From FG Require Import Dag Builder Sched DagFacts EdgeFacts RankFacts BuilderFacts TopoFacts AugFacts BuildFacts
     SchedInv SI_Queuer SI_Wrapper IntCredit IntRun IntStream StreamInv SI_Stream CfgFacts StreamFacts.
From RecordUpdate Require Import RecordSet.
Import RecordSetNotations.

(** ** What the wrapper does with the answer of the inner stream *)

(** The item the wrapper makes of the inner answer, given whether a signal is decided. *)
Definition wmap (r1 : rres) (sig : bool) : witem :=
  match r1 with
  | RPending => WPending
  | RSome x => if sig then WInt (Some x) else WItem x
  | RNone => if sig then WInt None else WNone
  end.

Lemma set_w_id s : s <| w := w s |> = s.
Proof. destruct s; reflexivity. Qed.

(** One poll of the wrapper: it has ended before ([w_ian]); or a signal is decided while no item
    is pending and the inner stream is not polled; or the inner stream is polled exactly once, on
    a state that differs from [s] in [w] and [ipend] only, and the result differs from the inner
    result in [w] only. *)
Lemma wrapper_gen_cases st inner s s' r :
  wrapper_poll_gen st inner s = (s', r) ->
  (w_ian (w s) = true /\ s' = s /\ r = WNone) \/
  (w_ian (w s) = false /\
   let w1 := fst (interrupt_check st (w s) (ipend s)) in
   let ip := snd (interrupt_check st (w s) (ipend s)) in
   let s0 := s <| w := w1 |> <| ipend := ip |> in
   ((w_hp w1 = false /\ w_sig w1 = true /\ s' = w_notify s0 /\ r = WInt None) \/
    ((w_hp w1 = true \/ w_sig w1 = false) /\
     exists s1 r1 w', inner s0 = (s1, r1) /\ s' = s1 <| w := w' |> /\ r = wmap r1 (w_sig w1)))).
Proof.
  unfold wrapper_poll_gen. destruct (w_ian (w s)) eqn:Hian.
  { intros E; inversion E; subst. left. repeat split. }
  intros E. right. split; [reflexivity|].
  destruct (interrupt_check st (w s) (ipend s)) as [w1 ip]. cbn [fst snd]. cbv zeta.
  destruct (w_hp w1) eqn:Hhp.
  - right. split; [left; reflexivity|].
    destruct (inner (s <| w := w1 |> <| ipend := ip |>)) as [s1 r1].
    destruct r1 as [| |x]; try destruct (w_sig w1); injection E as <- <-;
      exists s1; eexists;
      first [ exists (w s1); split; [reflexivity|]; split; [symmetry; apply set_w_id | reflexivity]
            | eexists; split; [reflexivity|]; split; reflexivity ].
  - destruct (w_sig w1) eqn:Hsig.
    + inversion E; subst; clear E. left. repeat split.
    + right. split; [right; reflexivity|].
      destruct (inner (s <| w := w1 |> <| ipend := ip |>)) as [s1 r1].
      destruct r1 as [| |x]; injection E as <- <-;
        exists s1; eexists; eexists; (split; [reflexivity|]); split; reflexivity.
Qed.

(** ** One poll of the inner stream [st_inner] under the invariant *)

Lemma inner_poll_tm s : trace (fst (inner_poll s)) = trace s /\ members (fst (inner_poll s)) = members s.
Proof.
  unfold inner_poll. destruct (poll_recv (ready s)) as [c r]. destruct r; simpl; split; reflexivity.
Qed.

Lemma set_panic_tm p s :
  trace (set_panic p s) = trace s /\ members (set_panic p s) = members s /\ s_rem (set_panic p s) = s_rem s.
Proof. unfold set_panic. destruct (panic s); simpl; repeat split. Qed.

Lemma st_yield_tm s id :
  trace (st_yield s id) = trace s ++ [Start id] /\
  members (st_yield s id) = members s ++ [mkMem id (Some id) false MWait].
Proof.
  unfold st_yield. cbv zeta.
  set (s2 := (clone_done_tx s) <| members := members (clone_done_tx s) ++ [mkMem id (Some id) false MWait] |>
                <| trace := trace (clone_done_tx s) ++ [Start id] |>
                <| processed := processed (clone_done_tx s) ++ [id] |>).
  assert (H2 : trace s2 = trace s ++ [Start id] /\ members s2 = members s ++ [mkMem id (Some id) false MWait]).
  { unfold s2, clone_done_tx. simpl. split; reflexivity. }
  set (s3 := match s_rem s2 with 0 => set_panic PSRem s2 | S r => s2 <| s_rem := r |> end).
  assert (H3 : trace s3 = trace s2 /\ members s3 = members s2).
  { unfold s3. destruct (s_rem s2).
    - destruct (set_panic_tm PSRem s2) as (A & B & _). split; assumption.
    - simpl. split; reflexivity. }
  destruct H2 as [A2 B2]. destruct H3 as [A3 B3].
  destruct (s_rem s3 =? 0).
  - destruct (release_spec s3) as (R & _).
    destruct R as (E1 & E2 & E3 & E4 & E5 & E6 & E7 & E8 & E9 & E10 & E11 & E12 & E13 & E14 & E15 & E16 & E17).
    rewrite E13, E14, A3, B3. split; assumption.
  - rewrite A3, B3. split; assumption.
Qed.

(** The second half of the inner poll. *)
Lemma st_tail_tm s :
  match snd (st_tail s) with
  | RSome x => trace (fst (st_tail s)) = trace s ++ [Start x] /\
               members (fst (st_tail s)) = members s ++ [mkMem x (Some x) false MWait]
  | _ => trace (fst (st_tail s)) = trace s /\ members (fst (st_tail s)) = members s
  end.
Proof.
  unfold st_tail. destruct (s_tx s); [|simpl; split; reflexivity].
  pose proof (inner_poll_tm s) as [A B].
  destruct (inner_poll s) as [s1 r]. simpl in A, B. destruct r as [| |id]; simpl.
  - split; assumption.
  - split; assumption.
  - destruct (st_yield_tm s1 id) as [C D]. rewrite C, D, A, B. split; reflexivity.
Qed.

(** Everything the consequences below need to know about one inner poll. *)
Lemma st_inner_facts sc s0 s1 r1 :
  scfg_ok sc -> SInv sc s0 -> s_alive s0 = true -> st_inner sc s0 = (s1, r1) ->
  SInv sc s1 /\
  (r1 = RNone <-> length (starts (trace s0)) = sc_n sc) /\
  (r1 = RPending -> sc_drain sc = true ->
     buf (done s1) = [] /\ buf (ready s1) = [] /\ rx_waker (done s1) = true /\ s_tx s1 = true) /\
  match r1 with
  | RSome x => trace s1 = trace s0 ++ [Start x] /\ members s1 = members s0 ++ [mkMem x (Some x) false MWait]
  | _ => trace s1 = trace s0 /\ members s1 = members s0
  end.
Proof.
  intros Hok Hinv Hal H.
  assert (Hinv1 : SInv sc s1).
  { pose proof (sinv_inner sc s0 Hok Hinv Hal) as Hi. rewrite H in Hi. exact Hi. }
  split; [exact Hinv1|].
  rewrite st_inner_eq in H.
  destruct (sinv_pre sc s0 Hok Hinv Hal) as (A & B & C).
  destruct B as (B1 & B2 & B3 & B4 & B5 & B6 & _).
  pose proof (st_tail_none sc (st_pre sc s0) A) as Hn. rewrite B2 in Hn.
  pose proof (st_tail_pending (st_pre sc s0)) as Hp.
  pose proof (st_tail_tm (st_pre sc s0)) as Htm.
  rewrite H in Hn, Hp, Htm. cbn [fst snd] in Hn, Hp, Htm.
  split; [|split].
  - rewrite Hn, (sv_stx _ _ Hinv), Hal. pose proof (sv_srem _ _ Hinv) as Hs. simpl.
    destruct (s_rem s0) as [|k]; simpl; split; intros; try discriminate; try reflexivity; lia.
  - intros -> Hdr. destruct (C Hdr) as [C1 C2]. destruct (Hp eq_refl) as (P1 & P2 & P3 & P4).
    rewrite P2. split; [exact C1|]. split; [exact P1|]. split; [|exact P3]. apply C2. congruence.
  - rewrite B5, B6 in Htm. exact Htm.
Qed.

(** ** One poll of the interruptible stream *)

(** The wrapper state after the [interrupt_check] of this poll. *)
Definition chk (sc : scfg) (s : state) : wrap := fst (interrupt_check (sc_strat sc) (w s) (ipend s)).

Lemma sstep_next_int sc s :
  sc_interruptible sc = true -> s_alive s = true ->
  sstep sc s SNext = wrapper_poll_gen (sc_strat sc) (st_inner sc) (s <| woken := false |>).
Proof. intros Hi Ha. unfold sstep. rewrite Ha, Hi. reflexivity. Qed.

(** The three ways a poll of a live interruptible stream can go. *)
Lemma sstep_next_int_cases sc s s' r :
  scfg_ok sc -> SInv sc s -> sc_interruptible sc = true -> s_alive s = true ->
  sstep sc s SNext = (s', r) ->
  (* ended by an earlier interruption *)
  (w_ian (w s) = true /\ r = WNone /\ s' = s <| woken := false |>) \/
  (* a signal is decided and no item is pending: interrupted, the inner stream is not polled *)
  (w_ian (w s) = false /\ w_hp (chk sc s) = false /\ w_sig (chk sc s) = true /\ r = WInt None /\
   trace s' = trace s /\ members s' = members s /\ w_ian (w s') = true) \/
  (* the inner stream is polled once *)
  (w_ian (w s) = false /\ (w_hp (chk sc s) = true \/ w_sig (chk sc s) = false) /\
   exists s0 s1 r1 w',
     SInv sc s0 /\ s_alive s0 = true /\ trace s0 = trace s /\ members s0 = members s /\
     st_inner sc s0 = (s1, r1) /\ s' = s1 <| w := w' |> /\ r = wmap r1 (w_sig (chk sc s))).
Proof.
  intros Hok Hinv Hi Hal H. rewrite (sstep_next_int _ _ Hi Hal) in H.
  apply wrapper_gen_cases in H. cbv zeta in H.
  change (w (s <| woken := false |>)) with (w s) in H.
  change (ipend (s <| woken := false |>)) with (ipend s) in H.
  fold (chk sc s) in H.
  destruct H as [(A & B & C)|(A & [(B & C & D & E)|(B & s1 & r1 & w' & C & D & E)])].
  - left. repeat split; assumption.
  - right; left. subst s'. repeat split; assumption.
  - right; right. split; [exact A|]. split; [exact B|].
    eexists; exists s1, r1, w'. split; [|split; [|split; [|split; [|split; [exact C|split; [exact D|exact E]]]]]].
    + apply SInv_ipend, SInv_w, SInv_woken. exact Hinv.
    + exact Hal.
    + reflexivity.
    + reflexivity.
Qed.

(** *** 1. A Pending poll leaves both channels empty and the done waker registered *)

Theorem next_pending_quiet_int sc s s' :
  scfg_ok sc -> SInv sc s -> sc_interruptible sc = true -> sc_drain sc = true -> s_alive s = true ->
  sstep sc s SNext = (s', WPending) ->
  buf (done s') = [] /\ buf (ready s') = [] /\ rx_waker (done s') = true /\ s_tx s' = true.
Proof.
  intros Hok Hinv Hi Hdr Hal H.
  destruct (sstep_next_int_cases sc s s' _ Hok Hinv Hi Hal H)
    as [(_ & B & _)|[(_ & _ & _ & B & _)|(_ & _ & s0 & s1 & r1 & w' & I0 & A0 & _ & _ & Hin & -> & Hr)]];
    try discriminate.
  destruct (st_inner_facts sc s0 s1 r1 Hok I0 A0 Hin) as (_ & _ & P & _).
  assert (Hr1 : r1 = RPending) by (destruct r1; [reflexivity | |]; simpl in Hr; destruct (w_sig (chk sc s)); discriminate).
  exact (P Hr1 Hdr).
Qed.

(** The pure wrapper returns Pending only with [has_pending] set and not notified. *)
Lemma wpost_pending st w0 ip ri w' ip' :
  wpost st w0 ip ri = (w', ip', WPending) -> w_ian w0 = false /\ w_hp w' = true /\ w_ian w' = false.
Proof.
  unfold wpost. destruct (w_ian w0) eqn:Hian; [discriminate|].
  pose proof (interrupt_check_ian st w0 ip) as Hc. rewrite Hian in Hc.
  destruct (interrupt_check st w0 ip) as [w1 ip1]. cbn [fst] in Hc.
  destruct (w_hp w1) eqn:Hhp.
  - destruct ri; try destruct (w_sig w1); intros E; inversion E; subst; repeat split; auto.
  - destruct (w_sig w1); [discriminate|].
    destruct ri; intros E; inversion E; subst; cbn; repeat split; auto.
Qed.

(** What else is known after a Pending poll: the wrapper remembers the pending item. *)
Theorem next_pending_int_wrapper sc s s' :
  scfg_ok sc -> SInv sc s -> sc_interruptible sc = true -> s_alive s = true ->
  sstep sc s SNext = (s', WPending) ->
  w_ian (w s) = false /\ w_hp (w s') = true /\ w_ian (w s') = false /\
  length (starts (trace s)) < sc_n sc /\ trace s' = trace s /\ members s' = members s.
Proof.
  intros Hok Hinv Hi Hal H.
  pose proof H as H'. rewrite (sstep_next_int _ _ Hi Hal) in H'.
  destruct (wrapper_gen_shape _ _ _ _ _ (st_inner_frame sc) H') as [ri Hri].
  destruct (wpost_pending _ _ _ _ _ _ Hri) as (W1 & W2 & W3).
  change (w (s <| woken := false |>)) with (w s) in W1.
  split; [exact W1|]. split; [exact W2|]. split; [exact W3|].
  destruct (sstep_next_int_cases sc s s' _ Hok Hinv Hi Hal H)
    as [(_ & B & _)|[(_ & _ & _ & B & _)|(A & _ & s0 & s1 & r1 & w' & I0 & A0 & T0 & M0 & Hin & -> & Hr)]];
    try discriminate.
  destruct (st_inner_facts sc s0 s1 r1 Hok I0 A0 Hin) as (_ & N & _ & TM).
  assert (Hr1 : r1 = RPending) by (destruct r1; [reflexivity | |]; simpl in Hr; destruct (w_sig (chk sc s)); discriminate).
  subst r1. destruct TM as [T1 M1].
  split; [|split].
  - pose proof (sv_srem _ _ I0) as Hs. rewrite T0 in Hs.
    assert (Hne : length (starts (trace s)) <> sc_n sc).
    { intros Hall. rewrite <- T0 in Hall. apply N in Hall. discriminate. }
    lia.
  - change (trace (s1 <| w := w' |>)) with (trace s1). congruence.
  - change (members (s1 <| w := w' |>)) with (members s1). congruence.
Qed.

(** *** 2. When the stream ends, is interrupted, or yields *)

Lemma wmap_none r1 sig : wmap r1 sig = WNone <-> r1 = RNone /\ sig = false.
Proof. destruct r1, sig; simpl; split; try discriminate; try tauto; intros [A B]; discriminate. Qed.

Lemma wmap_int r1 sig o : wmap r1 sig = WInt o -> sig = true /\ match o with Some x => r1 = RSome x | None => r1 = RNone end.
Proof. destruct r1, sig; simpl; intros E; try discriminate; inversion E; subst; split; reflexivity. Qed.

Lemma wmap_item r1 sig x : wmap r1 sig = WItem x -> sig = false /\ r1 = RSome x.
Proof. destruct r1, sig; simpl; intros E; try discriminate; inversion E; subst; split; reflexivity. Qed.

(** None is returned exactly when the stream was interrupted before, or every function has been
    yielded and no signal is decided in this poll. *)
Theorem next_none_iff_int sc s s' r :
  scfg_ok sc -> SInv sc s -> sc_interruptible sc = true -> s_alive s = true ->
  sstep sc s SNext = (s', r) ->
  (r = WNone <->
   w_ian (w s) = true \/ (length (starts (trace s)) = sc_n sc /\ w_sig (chk sc s) = false)).
Proof.
  intros Hok Hinv Hi Hal H.
  destruct (sstep_next_int_cases sc s s' r Hok Hinv Hi Hal H)
    as [(A & B & _)|[(A & _ & C & B & _)|(A & _ & s0 & s1 & r1 & w' & I0 & A0 & T0 & _ & Hin & _ & Hr)]].
  - split; [intros _; left; exact A | intros _; exact B].
  - subst r. split; [discriminate|]. intros [F|[_ F]]; congruence.
  - destruct (st_inner_facts sc s0 s1 r1 Hok I0 A0 Hin) as (_ & N & _ & _). rewrite T0 in N.
    rewrite Hr, wmap_none, N. split; [intros X; right; exact X|]. intros [F|X]; [congruence | exact X].
Qed.

Corollary next_none_int sc s s' r :
  scfg_ok sc -> SInv sc s -> sc_interruptible sc = true -> s_alive s = true ->
  sstep sc s SNext = (s', r) -> r = WNone ->
  length (starts (trace s)) = sc_n sc \/ w_ian (w s) = true.
Proof.
  intros Hok Hinv Hi Hal H Hr.
  apply (next_none_iff_int sc s s' r Hok Hinv Hi Hal H) in Hr. tauto.
Qed.

(** Once every function has been yielded a poll returns None — or, when a signal is decided in
    this very poll, the `Interrupted` marker without an item; nothing else. *)
Theorem next_all_yielded_int sc s s' r :
  scfg_ok sc -> SInv sc s -> sc_interruptible sc = true -> s_alive s = true ->
  sstep sc s SNext = (s', r) ->
  length (starts (trace s)) = sc_n sc ->
  (r = WNone /\ (w_ian (w s) = true \/ w_sig (chk sc s) = false)) \/
  (r = WInt None /\ w_ian (w s) = false /\ w_sig (chk sc s) = true).
Proof.
  intros Hok Hinv Hi Hal H Hall.
  destruct (sstep_next_int_cases sc s s' r Hok Hinv Hi Hal H)
    as [(A & B & _)|[(A & _ & C & B & _)|(A & _ & s0 & s1 & r1 & w' & I0 & A0 & T0 & _ & Hin & _ & Hr)]].
  - left. split; [exact B | left; exact A].
  - right. repeat split; assumption.
  - destruct (st_inner_facts sc s0 s1 r1 Hok I0 A0 Hin) as (_ & N & _ & _). rewrite T0 in N.
    apply N in Hall. subst r1. simpl in Hr. destruct (w_sig (chk sc s)).
    + right. repeat split; assumption.
    + left. split; [exact Hr | right; reflexivity].
Qed.

(** The pure wrapper returns `Interrupted` only when a signal is decided after this poll's
    [interrupt_check], and from then on it is notified. *)
Lemma wpost_int st w0 ip ri w' ip' o :
  wpost st w0 ip ri = (w', ip', WInt o) ->
  w_ian w0 = false /\ w_sig (fst (interrupt_check st w0 ip)) = true /\ w_ian w' = true /\
  (o <> None -> w_hp (fst (interrupt_check st w0 ip)) = true).
Proof.
  unfold wpost. destruct (w_ian w0) eqn:Hian; [discriminate|].
  destruct (interrupt_check st w0 ip) as [w1 ip1]. cbn [fst].
  destruct (w_hp w1) eqn:Hhp.
  - destruct ri; destruct (w_sig w1); intros E; inversion E; subst; cbn; repeat split; auto.
  - destruct (w_sig w1).
    + intros E; inversion E; subst; cbn. repeat split; auto; intros F; contradiction.
    + destruct ri; discriminate.
Qed.

(** A signal is decided only if one was sent: received earlier or waiting to be received. *)
Lemma chk_signal st w0 ip :
  wrap_ok st w0 -> w_sig (fst (interrupt_check st w0 ip)) = true ->
  st <> SNonInt /\ st <> SIgnore /\ (ip >= 1 \/ w_recv w0 = true).
Proof.
  unfold wrap_ok, interrupt_check.
  destruct w0 as [ian hp sig ipc recv cnt]. intros H.
  destruct ian, hp, sig, ipc, recv; cbn -[Nat.leb Nat.sub] in H; spec_refl; try discriminate;
    destruct st as [| | |k]; cbn -[Nat.leb Nat.sub] in *; spec_refl; try discriminate;
    try (destruct ip as [|ip0]); cbn -[Nat.leb Nat.sub]; intros E; try discriminate;
    (split; [discriminate|]; split; [discriminate|]); first [right; reflexivity | left; lia].
Qed.

(** An `Interrupted` item means a signal is decided in this poll; afterwards the stream has ended. *)
Theorem next_int_signal sc s s' o :
  sc_interruptible sc = true -> s_alive s = true ->
  sstep sc s SNext = (s', WInt o) ->
  w_ian (w s) = false /\ w_sig (chk sc s) = true /\ w_ian (w s') = true /\
  (o <> None -> w_hp (chk sc s) = true).
Proof.
  intros Hi Hal H. rewrite (sstep_next_int _ _ Hi Hal) in H.
  destruct (wrapper_gen_shape _ _ _ _ _ (st_inner_frame sc) H) as [ri Hri].
  exact (wpost_int _ _ _ _ _ _ _ Hri).
Qed.

(** ... and, with a consistent wrapper state (every reachable one, [swrap_ok_run]), a signal had
    been sent and the strategy reacts to signals. *)
Theorem next_int_signal_sent sc s s' o :
  sc_interruptible sc = true -> s_alive s = true -> wrap_ok (sc_strat sc) (w s) ->
  sstep sc s SNext = (s', WInt o) ->
  signal_present s /\ sc_strat sc <> SNonInt /\ sc_strat sc <> SIgnore.
Proof.
  intros Hi Hal Hw H. destruct (next_int_signal sc s s' o Hi Hal H) as (_ & S & _).
  destruct (chk_signal _ _ _ Hw S) as (A & B & C). split; [exact C|]. split; assumption.
Qed.

(** `Interrupted` without an item: a signal is decided and either no item was pending (the inner
    stream is not even polled) or every function had been yielded. *)
Theorem next_int_none_iff sc s s' r :
  scfg_ok sc -> SInv sc s -> sc_interruptible sc = true -> s_alive s = true ->
  sstep sc s SNext = (s', r) ->
  (r = WInt None <->
   w_ian (w s) = false /\ w_sig (chk sc s) = true /\
   (w_hp (chk sc s) = false \/ length (starts (trace s)) = sc_n sc)).
Proof.
  intros Hok Hinv Hi Hal H.
  destruct (sstep_next_int_cases sc s s' r Hok Hinv Hi Hal H)
    as [(A & B & _)|[(A & Hh & C & B & _)|(A & D & s0 & s1 & r1 & w' & I0 & A0 & T0 & _ & Hin & _ & Hr)]].
  - subst r. split; [discriminate|]. intros (F & _). congruence.
  - split; [|intros _; exact B]. intros _. split; [exact A|]. split; [exact C|]. left. exact Hh.
  - destruct (st_inner_facts sc s0 s1 r1 Hok I0 A0 Hin) as (_ & N & _ & _). rewrite T0 in N.
    split.
    + intros ->. symmetry in Hr. apply wmap_int in Hr. destruct Hr as [S R].
      split; [exact A|]. split; [exact S|]. right. apply N. exact R.
    + intros (_ & S & [F|Hall]).
      * destruct D as [D|D]; congruence.
      * apply N in Hall. subst r1. rewrite Hr, S. reflexivity.
Qed.

(** A poll that delivers a function (with or without the `Interrupted` marker) hands out a FnRef
    that was not handed out before, and nothing else changes in the history. *)
Theorem next_item_int sc s s' r x :
  scfg_ok sc -> SInv sc s -> sc_interruptible sc = true -> s_alive s = true ->
  sstep sc s SNext = (s', r) -> r = WItem x \/ r = WInt (Some x) ->
  ~ In x (starts (trace s)) /\ x < sc_n sc /\
  trace s' = trace s ++ [Start x] /\
  members s' = members s ++ [mkMem x (Some x) false MWait] /\
  In x (wait_ids (members s')) /\
  (r = WItem x -> w_sig (chk sc s) = false) /\
  (r = WInt (Some x) -> w_sig (chk sc s) = true /\ w_hp (chk sc s) = true).
Proof.
  intros Hok Hinv Hi Hal H Hr.
  assert (Hinv' : SInv sc s').
  { pose proof (sinv_step sc s SNext Hok Hinv) as X. rewrite H in X. exact X. }
  destruct (sstep_next_int_cases sc s s' r Hok Hinv Hi Hal H)
    as [(A & B & _)|[(A & _ & C & B & _)|(A & D & s0 & s1 & r1 & w' & I0 & A0 & T0 & M0 & Hin & -> & Hr1)]];
    [destruct Hr; congruence | destruct Hr; congruence |].
  destruct (st_inner_facts sc s0 s1 r1 Hok I0 A0 Hin) as (_ & _ & _ & TM).
  assert (Hx : r1 = RSome x /\ (r = WItem x -> w_sig (chk sc s) = false) /\
               (r = WInt (Some x) -> w_sig (chk sc s) = true)).
  { destruct Hr as [-> | ->]; symmetry in Hr1.
    - apply wmap_item in Hr1. destruct Hr1 as [S R]. split; [exact R|]. split; [intros _; exact S | discriminate].
    - apply wmap_int in Hr1. destruct Hr1 as [S R]. split; [exact R|]. split; [discriminate | intros _; exact S]. }
  destruct Hx as (-> & S1 & S2). destruct TM as [T1 M1]. rewrite T0 in T1. rewrite M0 in M1.
  change (trace (s1 <| w := w' |>)) with (trace s1) in *.
  change (members (s1 <| w := w' |>)) with (members s1) in *.
  assert (Hw : In x (wait_ids (members s1))).
  { rewrite M1, wait_ids_app. apply in_or_app. right. left. reflexivity. }
  assert (Hnd : NoDup (starts (trace s) ++ [x])).
  { pose proof (sv_started _ _ Hinv') as Hst. change (trace (s1 <| w := w' |>)) with (trace s1) in Hst.
    rewrite <- starts_snoc_start, <- T1, Hst.
    destruct (sv_ready _ _ Hinv') as [rest [Heq _]]. pose proof (sv_rs_nodup _ _ Hinv') as Hn.
    rewrite Heq in Hn. apply NoDup_app_l in Hn. exact Hn. }
  split; [|split; [|split; [exact T1|split; [exact M1|split; [exact Hw|split; [exact S1|]]]]]].
  - intros Hin'. apply NoDup_remove_2 in Hnd. apply Hnd. rewrite app_nil_r. exact Hin'.
  - apply (SInv_held_lt _ _ _ Hinv' Hw).
  - intros Hr2. split; [apply S2; exact Hr2|].
    rewrite Hr2 in H. destruct (next_int_signal sc s _ _ Hi Hal H) as (_ & _ & _ & Hh). apply Hh. discriminate.
Qed.

(** ** The C05 statements for `stream_with_interruptible` (any strategy) *)

(** *** 3. A Pending poll is justified by a FnRef that is still held *)

Theorem pending_justified_int : forall ops G p q rev st evs s',
  build (builder_run ops) = BOk G p q ->
  let sc := mk_scfg G rev st true true in
  s_alive (srun sc evs) = true ->
  sstep sc (srun sc evs) SNext = (s', WPending) ->
  forall c, c < ncount (builder_run ops) -> ~ In c (starts (trace s')) ->
  exists a, Path (sc_es sc) a c /\ a <> c /\ In a (wait_ids (members s')).
Proof.
  intros ops G p q rev st evs s' Hb sc Halive Hstep c Hc Hns.
  pose proof (build_ok_intro ops G p q Hb) as Hok.
  pose proof (scfg_ok_mk _ _ _ _ rev st true true Hok) as Hsok. fold sc in Hsok.
  pose proof (sinv_run sc evs Hsok) as Hinv.
  destruct (next_pending_quiet_int sc _ s' Hsok Hinv eq_refl eq_refl Halive Hstep) as (Hd & Hr & Hwk & Htx).
  assert (Hinv' : SInv sc s').
  { pose proof (sinv_step sc (srun sc evs) SNext Hsok Hinv) as H. rewrite Hstep in H. exact H. }
  assert (Halive' : s_alive s' = true).
  { pose proof (sv_stx _ _ Hinv') as H. rewrite Htx in H. symmetry in H. apply andb_true_iff in H. tauto. }
  assert (Hn : sc_n sc = ncount (builder_run ops)).
  { unfold sc, mk_scfg. simpl. unfold fg_n. rewrite (bo_nodes _ _ _ _ Hok). reflexivity. }
  apply (blocked_by_held_ref sc s' Hsok Hinv' Halive' Htx Hd Hr c); [rewrite Hn; exact Hc | exact Hns].
Qed.

(** *** 4. ... and the drop of any held FnRef after such a poll signals a wake-up *)

Theorem drop_after_pending_wakes_int : forall ops G p q rev st evs s' i,
  build (builder_run ops) = BOk G p q ->
  let sc := mk_scfg G rev st true true in
  s_alive (srun sc evs) = true ->
  sstep sc (srun sc evs) SNext = (s', WPending) ->
  In i (wait_ids (members s')) ->
  woken (fst (sstep sc s' (SDrop i))) = true.
Proof.
  intros ops G p q rev st evs s' i Hb sc Halive Hstep Hi.
  pose proof (build_ok_intro ops G p q Hb) as Hok.
  pose proof (scfg_ok_mk _ _ _ _ rev st true true Hok) as Hsok. fold sc in Hsok.
  pose proof (sinv_run sc evs Hsok) as Hinv.
  destruct (next_pending_quiet_int sc _ s' Hsok Hinv eq_refl eq_refl Halive Hstep) as (Hd & Hr & Hwk & Htx).
  assert (Hinv' : SInv sc s').
  { pose proof (sinv_step sc (srun sc evs) SNext Hsok Hinv) as H. rewrite Hstep in H. exact H. }
  assert (Halive' : s_alive s' = true).
  { pose proof (sv_stx _ _ Hinv') as H. rewrite Htx in H. symmetry in H. apply andb_true_iff in H. tauto. }
  apply (drop_wakes sc s' i Hsok Hinv' Halive' Hwk Hi).
Qed.

(** The same for both values of the interruptible flag. *)
Theorem pending_justified_any : forall ops G p q rev st intr evs s',
  build (builder_run ops) = BOk G p q ->
  let sc := mk_scfg G rev st intr true in
  s_alive (srun sc evs) = true ->
  sstep sc (srun sc evs) SNext = (s', WPending) ->
  (forall c, c < ncount (builder_run ops) -> ~ In c (starts (trace s')) ->
     exists a, Path (sc_es sc) a c /\ a <> c /\ In a (wait_ids (members s'))) /\
  (forall i, In i (wait_ids (members s')) -> woken (fst (sstep sc s' (SDrop i))) = true).
Proof.
  intros ops G p q rev st intr evs s' Hb sc Halive Hstep.
  pose proof (build_ok_intro ops G p q Hb) as Hok.
  pose proof (scfg_ok_mk _ _ _ _ rev st intr true Hok) as Hsok. fold sc in Hsok.
  pose proof (sinv_run sc evs Hsok) as Hinv.
  assert (Hq : buf (done s') = [] /\ buf (ready s') = [] /\ rx_waker (done s') = true /\ s_tx s' = true).
  { destruct intr.
    - exact (next_pending_quiet_int sc _ s' Hsok Hinv eq_refl eq_refl Halive Hstep).
    - exact (next_pending_quiet sc _ s' Hsok Hinv eq_refl eq_refl Halive Hstep). }
  destruct Hq as (Hd & Hr & Hwk & Htx).
  assert (Hinv' : SInv sc s').
  { pose proof (sinv_step sc (srun sc evs) SNext Hsok Hinv) as H. rewrite Hstep in H. exact H. }
  assert (Halive' : s_alive s' = true).
  { pose proof (sv_stx _ _ Hinv') as H. rewrite Htx in H. symmetry in H. apply andb_true_iff in H. tauto. }
  assert (Hn : sc_n sc = ncount (builder_run ops)).
  { unfold sc, mk_scfg. simpl. unfold fg_n. rewrite (bo_nodes _ _ _ _ Hok). reflexivity. }
  split.
  - intros c Hc Hns.
    apply (blocked_by_held_ref sc s' Hsok Hinv' Halive' Htx Hd Hr c); [rewrite Hn; exact Hc | exact Hns].
  - intros i Hi. apply (drop_wakes sc s' i Hsok Hinv' Halive' Hwk Hi).
Qed.

(** The end of the stream, on runs: None means all functions were yielded or the stream was
    interrupted; an `Interrupted` item means a signal was sent. *)
Theorem none_int_run : forall ops G p q rev st drain evs s',
  build (builder_run ops) = BOk G p q ->
  let sc := mk_scfg G rev st true drain in
  s_alive (srun sc evs) = true ->
  sstep sc (srun sc evs) SNext = (s', WNone) ->
  length (starts (trace (srun sc evs))) = ncount (builder_run ops) \/ w_ian (w (srun sc evs)) = true.
Proof.
  intros ops G p q rev st drain evs s' Hb sc Halive Hstep.
  pose proof (build_ok_intro ops G p q Hb) as Hok.
  pose proof (scfg_ok_mk _ _ _ _ rev st true drain Hok) as Hsok. fold sc in Hsok.
  assert (Hn : sc_n sc = ncount (builder_run ops)).
  { unfold sc, mk_scfg. simpl. unfold fg_n. rewrite (bo_nodes _ _ _ _ Hok). reflexivity. }
  rewrite <- Hn.
  exact (next_none_int sc (srun sc evs) s' WNone Hsok (sinv_run sc evs Hsok) eq_refl Halive Hstep eq_refl).
Qed.

Theorem all_yielded_int_run : forall ops G p q rev st drain evs s' r,
  build (builder_run ops) = BOk G p q ->
  let sc := mk_scfg G rev st true drain in
  s_alive (srun sc evs) = true ->
  sstep sc (srun sc evs) SNext = (s', r) ->
  length (starts (trace (srun sc evs))) = ncount (builder_run ops) ->
  r = WNone \/ r = WInt None.
Proof.
  intros ops G p q rev st drain evs s' r Hb sc Halive Hstep Hall.
  pose proof (build_ok_intro ops G p q Hb) as Hok.
  pose proof (scfg_ok_mk _ _ _ _ rev st true drain Hok) as Hsok. fold sc in Hsok.
  assert (Hn : sc_n sc = ncount (builder_run ops)).
  { unfold sc, mk_scfg. simpl. unfold fg_n. rewrite (bo_nodes _ _ _ _ Hok). reflexivity. }
  rewrite <- Hn in Hall.
  destruct (next_all_yielded_int sc (srun sc evs) s' r Hsok (sinv_run sc evs Hsok) eq_refl Halive Hstep Hall)
    as [[A _]|[A _]]; [left | right]; exact A.
Qed.

Theorem int_item_run : forall sc evs s' o,
  sc_interruptible sc = true -> s_alive (srun sc evs) = true ->
  sstep sc (srun sc evs) SNext = (s', WInt o) ->
  signal_present (srun sc evs) /\ sc_strat sc <> SNonInt /\ sc_strat sc <> SIgnore /\ w_ian (w s') = true.
Proof.
  intros sc evs s' o Hi Hal H.
  destruct (next_int_signal_sent sc _ s' o Hi Hal (swrap_ok_run sc evs) H) as (A & B & C).
  destruct (next_int_signal sc _ s' o Hi Hal H) as (_ & _ & D & _).
  repeat split; assumption.
Qed.

(** Non-vacuity (a, b -> c, interruptible, PollNextN 1): yield a, b; poll (Pending); drop both; the
    next poll yields c.  With a signal sent while the poll for c is pending, c still comes (it is
    the one more item) and the poll after it is `Interrupted`; then the stream has ended.
    With FinishCurrent the pending c comes marked `Interrupted`. *)
Example int_example :
  let ops := [AddFn (mkFn 0 [] []); AddFn (mkFn 1 [] []); AddFn (mkFn 2 [] []); AddLogic 0 2; AddLogic 1 2] in
  match build (builder_run ops) with
  | BOk G _ _ =>
    let sc := mk_scfg G false (SPollN 1) true true in
    let sf := mk_scfg G false SFinish true true in
    snd (sstep sc (srun sc [SNext; SNext]) SNext) = WPending /\
    snd (sstep sc (srun sc [SNext; SNext; SNext; SDrop 1; SDrop 0]) SNext) = WItem 2 /\
    snd (sstep sc (srun sc [SNext; SNext; SNext; SInt; SDrop 1; SDrop 0]) SNext) = WItem 2 /\
    snd (sstep sc (srun sc [SNext; SNext; SNext; SInt; SDrop 1; SDrop 0; SNext]) SNext) = WInt None /\
    snd (sstep sc (srun sc [SNext; SNext; SNext; SInt; SDrop 1; SDrop 0; SNext; SNext]) SNext) = WNone /\
    snd (sstep sf (srun sf [SNext; SNext; SNext; SInt; SDrop 1; SDrop 0]) SNext) = WInt (Some 2) /\
    snd (sstep sf (srun sf [SNext; SInt]) SNext) = WInt None /\
    snd (sstep sf (srun sf [SNext; SInt; SNext]) SNext) = WNone
  | _ => False
  end.
Proof. vm_compute. repeat split; reflexivity. Qed.

Print Assumptions next_pending_quiet_int.
Print Assumptions next_pending_int_wrapper.
Print Assumptions next_none_iff_int.
Print Assumptions next_none_int.
Print Assumptions next_all_yielded_int.
Print Assumptions next_int_signal.
Print Assumptions next_int_signal_sent.
Print Assumptions next_int_none_iff.
Print Assumptions next_item_int.
Print Assumptions pending_justified_int.
Print Assumptions drop_after_pending_wakes_int.
Print Assumptions pending_justified_any.
Print Assumptions none_int_run.
Print Assumptions all_yielded_int_run.
Print Assumptions int_item_run.
