(** * SchedInv2.v — second invariant of the call machine: outcome bookkeeping (C09), the limit on
    every prefix of the trace (C10), error reporting (C07), completion (C04) and the sender /
    receiver flags on which the liveness arguments rest. Proved on top of [Inv]. *)

From FG Require Import Dag Builder Sched DagFacts EdgeFacts SchedInv.
From RecordUpdate Require Import RecordSet.
Import RecordSetNotations.

(** Keys of the blocks that have not been polled yet, in creation order. *)
Definition new_keys (ms : list member) : list nat :=
  flat_map (fun m => match m_st m with MNew => [m_key m] | MWait => [] end) ms.

Definition is_tfe (a : api) : bool := match a with ATryForEach => true | _ => false end.
Definition is_tfold (a : api) : bool := match a with ATryFold => true | _ => false end.

(** Every internal path releases its done-sender when the graph is empty (true of the code since the
    C04 repair; the variant without it is refuted in Regress.v). *)
Definition cfg_ok2 (cf : cfg) : Prop := c_empty_release cf = true.

Record Inv2 (cf : cfg) (s : state) : Prop := {
  (* --- outcome bookkeeping --- *)
  x_processed : processed s = starts (trace s) ++ new_ids (members s);
  x_keys_nodup : NoDup (map m_key (members s));
  x_runq_nodup : NoDup (runq s);
  x_runq_keys : forall k, In k (runq s) -> In k (map m_key (members s));
  x_runq_new : filter (fun k => mem k (new_keys (members s))) (runq s) = new_keys (members s);
  x_completed_runq : forall i, In i (map fst (completed s)) -> In i (runq s);
  x_result : forall o, result s = Some o -> q_fin s = true /\ s_fin s = true /\ o = make_result cf s;
  x_fin_members : s_fin s = true -> members s = [] /\ completed s = [];
  (* --- limit on every prefix --- *)
  x_inflight : eff_limit cf <> 0 -> forall T0 T1, trace s = T0 ++ T1 ->
               length (starts T0) <= length (ends T0) + eff_limit cf;
  (* --- errors --- *)
  x_errs_failed : forall x, In x (errs s) -> In x (failed (trace s));
  x_errs_complete : is_tfe (c_api cf) = true ->
                    forall x, In x (g_finished s) -> In x (failed (trace s)) -> In x (errs s);
  x_errs_other : is_tfe (c_api cf) = false -> errs s = [];
  x_serr_some : forall i, s_err s = Some i ->
                is_tfold (c_api cf) = true /\ s_fin s = true /\ exists T1, trace s = T1 ++ [End i false] /\ failed T1 = [];
  x_tfold_failed : is_tfold (c_api cf) = true -> s_err s = None ->
                   failed (trace s) = [] \/
                   exists i T1, trace s = T1 ++ [End i false] /\ failed T1 = [] /\ In (i, false) (completed s);
  (* --- who still holds which end of which channel --- *)
  x_senders_d : senders (done s) = (if s_tx s then 1 else 0);
  x_senders_r : senders (ready s) = (if q_tx s then 1 else 0);
  x_done_open : rx_open (done s) = negb (q_fin s);
  x_qtx : q_tx s = false -> q_rem s = 0 \/ q_fin s = true;
  x_qfin_stx : q_fin s = true -> s_tx s = false;
  x_srem_stx : s_rem s = 0 -> s_tx s = false;
  x_sfin_stx : s_fin s = true -> s_tx s = false;
  x_dead : s_alive s = false -> w_ian (w s) = true \/ q_tx s = false \/ s_err s <> None;
  x_ian : w_ian (w s) = true -> s_tx s = false \/ exists m, In m (members s) /\ m_int m = true;
  x_int_ian : forall m, In m (members s) -> m_int m = true -> w_ian (w s) = true;
  x_none_int : forall m, In m (members s) -> m_id m = None -> m_int m = true;
  x_stx_sent : s_tx s = true -> incl (g_finished s) (g_done_sent s);
  x_sent_all : q_tx s = true -> rx_open (ready s) = true ->
               forall v, v < c_n cf -> unproc (c_es cf) (g_qproc s) v = [] -> In v (g_ready_sent s);
  (* why the done sender is gone: everything ran, an interruption was delivered, or a failure *)
  x_stx_why : s_tx s = false ->
              s_rem s = 0 \/ w_ian (w s) = true \/ failed (trace s) <> [] \/ c_n cf = 0
}.
