(** * OutcomeFacts.v — what [Inv] and [Inv2] say at the moment a call has returned *)
From FG Require Import Dag Builder Sched DagFacts EdgeFacts SchedInv SchedInv2 SI_Queuer SafetyFacts.
From Coq Require Import Permutation.

Section Returned.
Variables (cf : cfg) (s : state) (o : outcome).
Hypothesis H1 : Inv cf s.
Hypothesis H2 : Inv2 cf s.
Hypothesis Hres : result s = Some o.

Lemma ret_flags : q_fin s = true /\ s_fin s = true /\ o = make_result cf s.
Proof. apply (x_result _ _ H2 o Hres). Qed.

Lemma ret_members : members s = [] /\ completed s = [].
Proof. apply (x_fin_members _ _ H2). apply ret_flags. Qed.

(** Every user future that was started has completed, and its block has run to its end. *)
Lemma ret_started_finished x : In x (starts (trace s)) <-> In x (g_finished s).
Proof.
  destruct ret_members as [Hm _]. rewrite (v_started _ _ H1 x), Hm. simpl. tauto.
Qed.

Lemma ret_started_ended x : In x (starts (trace s)) -> In x (ends (trace s)).
Proof. intros H. apply (v_fin_ended _ _ H1). apply ret_started_finished. exact H. Qed.

Lemma ret_ended_finished x : In x (ends (trace s)) <-> In x (g_finished s).
Proof.
  destruct ret_members as [_ Hc]. rewrite (v_ended_split _ _ H1 x), Hc. simpl. tauto.
Qed.

Lemma ret_processed : processed s = starts (trace s).
Proof. destruct ret_members as [Hm _]. rewrite (x_processed _ _ H2), Hm. simpl. apply app_nil_r. Qed.

Lemma ret_starts_len : length (starts (trace s)) = length (g_finished s).
Proof.
  apply Permutation_length. apply NoDup_Permutation.
  - eapply trace_starts_nodup. apply (v_trace _ _ H1).
  - apply (v_fin_nodup _ _ H1).
  - apply ret_started_finished.
Qed.

(** `fns_remaining == 0` exactly when every function was handed out. *)
Lemma ret_finished_iff : s_err s = None -> (s_rem s = 0 <-> length (starts (trace s)) = c_n cf).
Proof. intros He. pose proof (v_srem _ _ H1 He). rewrite ret_starts_len. lia. Qed.

Lemma ret_all_started : length (starts (trace s)) = c_n cf -> Permutation (starts (trace s)) (seq 0 (c_n cf)).
Proof.
  intros Hl. apply NoDup_Permutation_bis.
  - eapply trace_starts_nodup. apply (v_trace _ _ H1).
  - rewrite seq_length. lia.
  - intros x Hx. apply in_seq. assert (x < c_n cf) by (apply (Inv_fin_lt _ _ H1); apply ret_started_finished; exact Hx). lia.
Qed.

(** try_for_each_concurrent*: the errors reported are exactly the functions that failed. *)
Lemma ret_errs_exact : is_tfe (c_api cf) = true -> Permutation (errs s) (failed (trace s)).
Proof.
  intros Ht. apply NoDup_Permutation.
  - apply (v_errs _ _ H1).
  - assert (Hnd : NoDup (ends (trace s))) by (eapply trace_ends_nodup; apply (v_trace _ _ H1)).
    clear -Hnd. induction (trace s) as [|e T IH]; [constructor|].
    destruct e as [i|i [|]]; simpl in *; try (apply IH; assumption).
    + inversion Hnd; subst. apply IH. assumption.
    + inversion Hnd as [|x l Hn Hnd']; subst. constructor; [|apply IH; exact Hnd'].
      intros Hin. apply Hn. apply in_failed in Hin. apply in_ends. exists false. exact Hin.
  - intros x. split; [apply (x_errs_failed _ _ H2)|].
    intros Hf. apply (x_errs_complete _ _ H2 Ht); [|exact Hf].
    apply ret_ended_finished. apply in_failed in Hf. apply in_ends. exists false. exact Hf.
Qed.

(** Why a returned call did not finish: an interruption was delivered, or a function failed. *)
Lemma ret_clean_finished :
  s_err s = None -> w_ian (w s) = false -> failed (trace s) = [] -> s_rem s = 0.
Proof.
  intros He Hi Hf. destruct ret_flags as (_ & Hsf & _).
  pose proof (x_sfin_stx _ _ H2 Hsf) as Htx.
  destruct (x_stx_why _ _ H2 Htx) as [H|[H|[H|H]]]; [exact H | congruence | congruence |].
  pose proof (v_srem _ _ H1 He) as Hs. pose proof (Inv_fin_lt _ _ H1) as Hlt.
  destruct (g_finished s) as [|x l]; [simpl in Hs; lia|]. specialize (Hlt x (or_introl eq_refl)). lia.
Qed.

End Returned.

(** Shape of the result record. *)
Lemma make_result_fields cf s :
  s_err s = None \/ c_api cf <> ATryFold ->
  o_processed (make_result cf s) = processed s /\
  o_not_processed (make_result cf s) = not_processed cf s /\
  o_finished (make_result cf s) = (s_rem s =? 0) /\
  o_errs (make_result cf s) = (match c_api cf with ATryForEach => errs s | _ => [] end) /\
  o_kind (make_result cf s) =
    (match c_api cf with
     | ATryForEach =>
       if c_ctl cf then (if is_nil (errs s) then (if s_rem s =? 0 then KContinue else KBreak) else KBreak)
       else (if is_nil (errs s) then KOk else KErr)
     | _ => KOk end).
Proof.
  intros H. unfold make_result. destruct (c_api cf) eqn:Ha; destruct (s_err s) eqn:He; simpl;
    try (destruct H as [H|H]; congruence); repeat split; try reflexivity;
    destruct (is_nil (errs s)); destruct (c_ctl cf); destruct (s_rem s =? 0); reflexivity.
Qed.
