(** * SI_Queuer.v — the queuer preserves the invariant *)
From FG Require Import Dag Builder Sched DagFacts EdgeFacts RankFacts BuilderFacts TopoFacts SchedInv.
From RecordUpdate Require Import RecordSet.
Import RecordSetNotations.

(** States that agree on everything the invariant looks at. *)
Definition core_eq (s s' : state) : Prop :=
  panic s' = panic s /\ cap (ready s') = cap (ready s) /\ cap (done s') = cap (done s) /\
  buf (ready s') = buf (ready s) /\ rx_open (ready s') = rx_open (ready s) /\
  buf (done s') = buf (done s) /\
  g_ready_sent s' = g_ready_sent s /\ g_received s' = g_received s /\ g_done_sent s' = g_done_sent s /\
  g_qproc s' = g_qproc s /\ g_finished s' = g_finished s /\ counts s' = counts s /\
  members s' = members s /\ trace s' = trace s /\ completed s' = completed s /\
  s_err s' = s_err s /\ s_rem s' = s_rem s /\ q_rem s' = q_rem s /\ errs s' = errs s /\
  s_alive s' = s_alive s /\ w s' = w s.

Lemma Inv_core_eq cf s s' : core_eq s s' -> Inv cf s -> Inv cf s'.
Proof.
  intros (E1 & E2 & E3 & E4 & E5 & E6 & E7 & E8 & E9 & E10 & E11 & E12 & E13 & E14 & E15 & E16 & E17 & E18 & E19 & E20 & E21) H.
  destruct H. constructor; rewrite ?E20, ?E21, ?E1, ?E2, ?E3, ?E4, ?E5, ?E6, ?E7, ?E8, ?E9, ?E10, ?E11, ?E12, ?E13, ?E14, ?E15, ?E16, ?E17, ?E18, ?E19; assumption.
Qed.

Lemma core_eq_refl s : core_eq s s.
Proof. repeat split. Qed.

Lemma core_eq_drop_ready_tx s : core_eq s (drop_ready_tx s).
Proof.
  unfold drop_ready_tx. destruct (q_tx s); [|apply core_eq_refl].
  pose proof (drop_sender_buf (ready s)). pose proof (drop_sender_cap (ready s)). pose proof (drop_sender_rx_open (ready s)).
  destruct (drop_sender (ready s)) as [c wk]. simpl in *. repeat split; assumption.
Qed.

Lemma core_eq_take_s_tx s : core_eq s (take_s_tx s).
Proof.
  unfold take_s_tx. destruct (s_tx s); [|apply core_eq_refl].
  pose proof (drop_sender_buf (done s)). pose proof (drop_sender_cap (done s)).
  destruct (drop_sender (done s)) as [c wk]. simpl in *. repeat split; assumption.
Qed.

(** ** Consequences of the invariant used everywhere *)

Lemma Inv_recv_sub cf s : Inv cf s -> incl (g_received s) (g_ready_sent s).
Proof. intros H x Hx. destruct (v_ready _ _ H) as [rest [Heq _]]. rewrite Heq. apply in_or_app. left. exact Hx. Qed.

Lemma Inv_fin_lt cf s : Inv cf s -> forall x, In x (g_finished s) -> x < c_n cf.
Proof.
  intros H x Hx. apply (v_rs_lt _ _ H). apply (Inv_recv_sub _ _ H). apply (v_recv _ _ H). left.
  apply (v_started _ _ H). left. exact Hx.
Qed.

Lemma NoDup_bounded_length (l : list nat) n : NoDup l -> (forall x, In x l -> x < n) -> length l <= n.
Proof.
  intros Hnd Hlt. assert (H : length l <= length (seq 0 n)).
  { apply NoDup_incl_length; [exact Hnd|]. intros x Hx. apply in_seq. specialize (Hlt x Hx). lia. }
  rewrite seq_length in H. exact H.
Qed.

Lemma Inv_ds_lt cf s : Inv cf s -> forall x, In x (g_done_sent s) -> x < c_n cf.
Proof. intros H x Hx. apply (Inv_fin_lt _ _ H). apply (v_ds_fin _ _ H). exact Hx. Qed.

(** ** The fold over the children of a processed function *)

Definition qc_frame (s s' : state) : Prop :=
  cap (ready s') = cap (ready s) /\ rx_open (ready s') = rx_open (ready s) /\ done s' = done s /\
  g_received s' = g_received s /\ g_done_sent s' = g_done_sent s /\ g_qproc s' = g_qproc s /\
  g_finished s' = g_finished s /\ members s' = members s /\ trace s' = trace s /\
  completed s' = completed s /\ s_err s' = s_err s /\ s_rem s' = s_rem s /\ q_rem s' = q_rem s /\
  errs s' = errs s /\ s_alive s' = s_alive s /\ w s' = w s.

Lemma q_children cs : forall s,
  NoDup cs -> (forall c, In c cs -> c < length (counts s)) -> (forall c, In c cs -> 1 <= nth c (counts s) 0) ->
  panic s = None ->
  exists sent,
    panic (fold_left q_child cs s) = None /\
    length (counts (fold_left q_child cs s)) = length (counts s) /\
    (forall c, nth c (counts (fold_left q_child cs s)) 0 =
               if mem c cs then nth c (counts s) 0 - 1 else nth c (counts s) 0) /\
    g_ready_sent (fold_left q_child cs s) = g_ready_sent s ++ sent /\
    buf (ready (fold_left q_child cs s)) = buf (ready s) ++ sent /\
    (forall c, In c sent -> In c cs /\ nth c (counts s) 0 = 1) /\ NoDup sent /\
    qc_frame s (fold_left q_child cs s).
Proof.
  induction cs as [|c cs IH]; intros s Hnd Hlen Hpos Hpan; cbn [fold_left].
  - exists []. unfold qc_frame. rewrite !app_nil_r. repeat split; try assumption; try reflexivity; try constructor;
      try (match goal with H : In _ [] |- _ => destruct H end).
  - inversion Hnd as [|c' cs' Hnin Hnd']; subst.
    assert (Hc : c < length (counts s)) by (apply Hlen; left; reflexivity).
    assert (Hp : 1 <= nth c (counts s) 0) by (apply Hpos; left; reflexivity).
    set (s1 := q_child s c).
    assert (Hs1 : exists sent1,
       panic s1 = None /\ counts s1 = set_nth c (nth c (counts s) 0 - 1) (counts s) /\
       g_ready_sent s1 = g_ready_sent s ++ sent1 /\ buf (ready s1) = buf (ready s) ++ sent1 /\
       (sent1 = [] \/ (sent1 = [c] /\ nth c (counts s) 0 = 1)) /\ qc_frame s s1).
    { unfold s1, q_child. destruct (nth c (counts s) 0) as [|k] eqn:Hk; [lia|].
      replace (S k - 1) with k by lia.
      destruct ((k =? 0) && q_tx (s <| counts := set_nth c k (counts s) |>)) eqn:Hcond.
      - cbn [ready set eta_state counts].
        destruct (try_send (ready s) c) as [[ch r] wk] eqn:Hts. simpl ready in Hts.
        destruct r.
        + destruct (try_send_ok _ _ _ _ Hts) as [Hb [Hcap [Ho1 [Ho2 _]]]].
          exists [c]. apply andb_true_iff in Hcond. destruct Hcond as [Hk0 _]. apply Nat.eqb_eq in Hk0. subst k.
          unfold qc_frame. simpl. repeat split; try assumption; try reflexivity; try congruence. right. split; reflexivity.
        + exists []. unfold qc_frame. simpl. rewrite !app_nil_r. repeat split; try assumption; try reflexivity. left. reflexivity.
        + exists []. unfold qc_frame. simpl. rewrite !app_nil_r. repeat split; try assumption; try reflexivity. left. reflexivity.
      - exists []. unfold qc_frame. simpl. rewrite !app_nil_r. repeat split; try assumption; try reflexivity. left. reflexivity. }
    destruct Hs1 as [sent1 [Hp1 [Hc1 [Hr1 [Hb1 [Hsent1 Hf1]]]]]].
    assert (Hlen1 : length (counts s1) = length (counts s)) by (rewrite Hc1; apply set_nth_length).
    assert (Hnth1 : forall v, nth v (counts s1) 0 = if v =? c then nth c (counts s) 0 - 1 else nth v (counts s) 0).
    { intros v. rewrite Hc1. apply nth_set_nth. exact Hc. }
    destruct (IH s1 Hnd') as [sent [Hp2 [Hl2 [Hn2 [Hr2 [Hb2 [Hs2 [Hnd2 Hf2]]]]]]]].
    + intros v Hv. rewrite Hlen1. apply Hlen. right. exact Hv.
    + intros v Hv. rewrite Hnth1. destruct (v =? c) eqn:Hvc.
      * apply Nat.eqb_eq in Hvc. subst. contradiction.
      * apply Hpos. right. exact Hv.
    + exact Hp1.
    + exists (sent1 ++ sent). split; [exact Hp2|]. split; [rewrite Hl2; exact Hlen1|]. split.
      { intros v. rewrite Hn2, Hnth1. change (mem v (c :: cs)) with ((v =? c) || mem v cs).
        destruct (v =? c) eqn:Hvc; simpl.
        - apply Nat.eqb_eq in Hvc. subst v. destruct (mem c cs) eqn:Hm; [apply mem_spec in Hm; contradiction | reflexivity].
        - reflexivity. }
      split; [rewrite Hr2, Hr1, app_assoc; reflexivity|].
      split; [rewrite Hb2, Hb1, app_assoc; reflexivity|].
      split.
      { intros v Hv. apply in_app_or in Hv. destruct Hv as [Hv|Hv].
        - destruct Hsent1 as [->|[-> H1]]; [destruct Hv|]. destruct Hv as [<-|[]]. split; [left; reflexivity | exact H1].
        - destruct (Hs2 v Hv) as [Hin Hone]. split; [right; exact Hin|]. rewrite Hnth1 in Hone.
          destruct (v =? c) eqn:Hvc; [apply Nat.eqb_eq in Hvc; subst; contradiction | exact Hone]. }
      split.
      { destruct Hsent1 as [->|[-> H1]]; [exact Hnd2|]. simpl. constructor; [|exact Hnd2].
        intros Hin. destruct (Hs2 c Hin) as [Hin' _]. contradiction. }
      destruct Hf1 as (A1 & A2 & A3 & A4 & A5 & A6 & A7 & A8 & A9 & A10 & A11 & A12 & A13 & A14 & A15 & A16).
      destruct Hf2 as (B1 & B2 & B3 & B4 & B5 & B6 & B7 & B8 & B9 & B10 & B11 & B12 & B13 & B14 & B15 & B16).
      repeat split; congruence.
Qed.

(** ** [unproc] when one more function has been processed *)

Lemma filter_remove_len (l : list nat) (x : nat) :
  NoDup l -> length (filter (fun p => negb (p =? x)) l) = if mem x l then length l - 1 else length l.
Proof.
  induction l as [|y l IH]; intros Hnd; [reflexivity|].
  inversion Hnd as [|y' l' Hnin Hnd']; subst. cbn [filter]. change (mem x (y :: l)) with ((x =? y) || mem x l).
  rewrite (Nat.eqb_sym y x). destruct (x =? y) eqn:Hxy; simpl.
  - apply Nat.eqb_eq in Hxy. subst y. rewrite IH by exact Hnd'.
    destruct (mem x l) eqn:Hm; [apply mem_spec in Hm; contradiction | lia].
  - rewrite IH by exact Hnd'. destruct (mem x l) eqn:Hm; [|reflexivity].
    apply mem_spec in Hm. destruct l; [destruct Hm | simpl; lia].
Qed.

Lemma unproc_snoc es P id c :
  unproc es (P ++ [id]) c = filter (fun p => negb (p =? id)) (unproc es P c).
Proof.
  unfold unproc. induction (parents es c) as [|p l IH]; [reflexivity|]. cbn [filter].
  assert (Hm : mem p (P ++ [id]) = mem p P || (p =? id)).
  { unfold mem. rewrite existsb_app. simpl. rewrite orb_false_r. reflexivity. }
  rewrite Hm. destruct (mem p P); simpl; [exact IH|].
  destruct (p =? id); simpl; [exact IH | rewrite IH; reflexivity].
Qed.

Lemma unproc_NoDup es P c : uniq_pairs es -> NoDup (unproc es P c).
Proof. intros Hu. unfold unproc. apply NoDup_filter. apply parents_NoDup. exact Hu. Qed.

(** ** One queuer step *)

Lemma inv_q_step cf s : cfg_ok cf -> Inv cf s -> Inv cf (fst (q_step cf s)).
Proof.
  intros [Hw Hcounts] Hinv. pose proof Hw as [Hwf [Hac Hu]].
  unfold q_step. destruct (poll_recv (done s)) as [c r] eqn:Hrecv. destruct r as [| |id].
  - (* Pending *)
    simpl. destruct (poll_recv_other _ _ _ Hrecv ltac:(discriminate)) as [Hb [Hb' [Hcap [Ho Hs]]]].
    eapply Inv_core_eq; [|exact Hinv]. unfold core_eq. simpl. repeat split; congruence.
  - (* None *)
    simpl. destruct (poll_recv_other _ _ _ Hrecv ltac:(discriminate)) as [Hb [Hb' [Hcap [Ho Hs]]]].
    eapply Inv_core_eq; [|exact Hinv].
    assert (Hce := core_eq_drop_ready_tx (s <| done := drop_rx c |> <| q_fin := true |>)).
    destruct Hce as (E1 & E2 & E3 & E4 & E5 & E6 & E7 & E8 & E9 & E10 & E11 & E12 & E13 & E14 & E15 & E16 & E17 & E18 & E19 & E20 & E21).
    unfold core_eq. simpl in *. repeat split; congruence.
  - (* a notification *)
    destruct (poll_recv_some _ _ _ Hrecv) as [Hb [Hcap [Ho Hs]]].
    pose proof (v_done _ _ Hinv) as Hdone. rewrite Hb in Hdone.
    pose proof (v_ds_nodup _ _ Hinv) as Hdsnd. rewrite Hdone in Hdsnd.
    assert (HidP : ~ In id (g_qproc s)).
    { intros Hin. apply NoDup_remove_2 in Hdsnd. apply Hdsnd. apply in_or_app. left. exact Hin. }
    assert (Hidlt : id < c_n cf).
    { apply (Inv_ds_lt _ _ Hinv). rewrite Hdone. apply in_or_app. right. left. reflexivity. }
    assert (HPlen : length (g_qproc s) < c_n cf).
    { assert (H : length (g_qproc s ++ [id]) <= c_n cf).
      { apply NoDup_bounded_length.
        - replace (g_qproc s ++ id :: buf c) with ((g_qproc s ++ [id]) ++ buf c) in Hdsnd by (rewrite <- app_assoc; reflexivity).
          apply NoDup_app_l in Hdsnd. exact Hdsnd.
        - intros x Hx. apply (Inv_ds_lt _ _ Hinv). rewrite Hdone. apply in_app_or in Hx. apply in_or_app.
          destruct Hx as [Hx|[<-|[]]]; [left; exact Hx | right; left; reflexivity]. }
      rewrite app_length in H. simpl in H. lia. }
    pose proof (v_qrem _ _ Hinv) as Hqrem.
    change (q_rem (s <| done := c |> <| g_qproc := g_qproc s ++ [id] |>)) with (q_rem s).
    destruct (q_rem s) as [|qr] eqn:Hqr; [lia|].
    set (s0 := s <| done := c |> <| g_qproc := g_qproc s ++ [id] |> <| q_rem := qr |>).
    set (s1 := if q_rem s0 =? 0 then drop_ready_tx s0 else s0).
    assert (Hce1 : core_eq s0 s1).
    { unfold s1. destruct (q_rem s0 =? 0); [apply core_eq_drop_ready_tx | apply core_eq_refl]. }
    destruct Hce1 as (E1 & E2 & E3 & E4 & E5 & E6 & E7 & E8 & E9 & E10 & E11 & E12 & E13 & E14 & E15 & E16 & E17 & E18 & E19 & E20 & E21).
    set (cs := children (c_es cf) id).
    assert (Hcs : forall x, In x cs <-> Edge (c_es cf) id x) by (intros x; apply children_spec).
    assert (Hcslt : forall x, In x cs -> x < c_n cf).
    { intros x Hx. apply Hcs in Hx. apply (Edge_wf _ _ _ _ Hwf Hx). }
    assert (Hun : forall x, In x cs -> In id (unproc (c_es cf) (g_qproc s) x)).
    { intros x Hx. apply unproc_In. split; [apply Hcs; exact Hx | exact HidP]. }
    destruct (q_children cs s1) as [sent [Hp' [Hl' [Hn' [Hr' [Hb'' [Hsent [Hsnd Hfr]]]]]]]].
    { apply children_NoDup. exact Hu. }
    { intros x Hx. rewrite E12. simpl. rewrite (v_counts_len _ _ Hinv). apply Hcslt. exact Hx. }
    { intros x Hx. rewrite E12. simpl. rewrite (v_counts _ _ Hinv x (Hcslt x Hx)).
      pose proof (Hun x Hx) as Hin. destruct (unproc (c_es cf) (g_qproc s) x); [destruct Hin | simpl; lia]. }
    { rewrite E1. simpl. apply (v_nopanic _ _ Hinv). }
    simpl fst. fold s0. fold s1. fold cs. set (s' := fold_left q_child cs s1) in *.
    destruct Hfr as (F1 & F2 & F3 & F4 & F5 & F6 & F7 & F8 & F9 & F10 & F11 & F12 & F13 & F14 & F15 & F16).
    assert (Hcount' : forall x, x < c_n cf ->
              nth x (counts s') 0 = length (unproc (c_es cf) (g_qproc s ++ [id]) x)).
    { intros x Hx. rewrite Hn', E12. simpl. rewrite (v_counts _ _ Hinv x Hx), unproc_snoc.
      rewrite filter_remove_len by (apply unproc_NoDup; exact Hu).
      destruct (mem x cs) eqn:Hm.
      - apply mem_spec in Hm. pose proof (Hun x Hm) as Hin. apply mem_spec in Hin. rewrite Hin. reflexivity.
      - destruct (mem id (unproc (c_es cf) (g_qproc s) x)) eqn:Hm2; [|reflexivity].
        apply mem_spec in Hm2. apply unproc_In in Hm2. destruct Hm2 as [He _]. apply Hcs in He.
        apply mem_spec in He. congruence. }
    assert (Hsent_new : forall x, In x sent -> ~ In x (g_ready_sent s)).
    { intros x Hx Hin. destruct (Hsent x Hx) as [Hxc Hone]. rewrite E12 in Hone. simpl in Hone.
      rewrite (v_counts _ _ Hinv x (Hcslt x Hxc)), (v_sent _ _ Hinv x Hin) in Hone. discriminate. }
    destruct Hinv. constructor.
    + exact Hp'.
    + rewrite F1, E2. simpl. assumption.
    + rewrite F3, E3. simpl. rewrite Hcap. assumption.
    + destruct v_ready as [rest [Hrs Hopen]]. exists (rest ++ sent). rewrite Hr', F4, E7, E8. simpl. split.
      * rewrite Hrs, app_assoc. reflexivity.
      * intros Hro. rewrite F2, E5 in Hro. simpl in Hro. rewrite Hb'', E4. simpl. rewrite (Hopen Hro). reflexivity.
    + rewrite F5, F6, F3, E9, E10, E6. simpl. rewrite Hdone, <- app_assoc. reflexivity.
    + rewrite Hr', E7. simpl. apply NoDup_app_intro; [assumption | exact Hsnd |].
      intros x Hx Hx'. exact (Hsent_new x Hx' Hx).
    + intros x Hx. rewrite Hr', E7 in Hx. simpl in Hx. apply in_app_or in Hx. destruct Hx as [Hx|Hx].
      * apply v_rs_lt. exact Hx.
      * apply Hcslt. apply (Hsent x Hx).
    + rewrite F5, F7, E9, E11. simpl. assumption.
    + rewrite F5, E9. simpl. assumption.
    + rewrite Hl', E12. simpl. assumption.
    + intros x Hx. rewrite F6, E10. simpl. apply Hcount'. exact Hx.
    + intros x Hx. rewrite F6, E10. simpl. rewrite Hr', E7 in Hx. simpl in Hx. apply in_app_or in Hx. destruct Hx as [Hx|Hx].
      * rewrite unproc_snoc, (v_sent x Hx). reflexivity.
      * destruct (Hsent x Hx) as [Hxc Hone].
        pose proof (Hcount' x (Hcslt x Hxc)) as Hc'. rewrite Hn' in Hc'.
        apply mem_spec in Hxc. rewrite Hxc, Hone in Hc'. simpl in Hc'.
        destruct (unproc (c_es cf) (g_qproc s ++ [id]) x); [reflexivity | discriminate].
    + rewrite F8, E13. simpl. assumption.
    + rewrite F8, E13. simpl. assumption.
    + intros x. rewrite F9, F7, F8, E14, E11, E13. simpl. apply v_started.
    + intros x. rewrite F7, F8, E11, E13. simpl. apply v_fin_wait.
    + rewrite F7, E11. simpl. assumption.
    + intros x. rewrite F8, F9, E13, E14. simpl. apply v_new_fresh.
    + intros x. rewrite F9, F8, F4, E14, E13, E8. simpl. apply v_recv.
    + rewrite F9, E14. simpl. assumption.
    + intros x. rewrite F7, F9, E11, E14. simpl. apply v_fin_ended.
    + intros Ht x. rewrite F5, F9, E9, E14. simpl. apply v_ds_ok. exact Ht.
    + intros i ok. rewrite F10, F8, F9, E15, E13, E14. simpl. apply v_completed.
    + rewrite F10, E15. simpl. assumption.
    + intros x. rewrite F9, F7, F10, E14, E11, E15. simpl. apply v_ended_split.
    + rewrite F11, F12, F7, E16, E17, E11. simpl. assumption.
    + rewrite F13, F6, E18, E10. simpl. rewrite app_length. simpl. lia.
    + rewrite F14, F7, E19, E11. simpl. assumption.
    + rewrite F8, E13. simpl. assumption.
    + rewrite F15, F2, E20, E5. simpl. assumption.
    + rewrite F8, F16, E13, E21. simpl. assumption.
    + rewrite F11, F8, F15, E16, E13, E20. simpl. assumption.
Qed.

Lemma set_panic_done p s : done (set_panic p s) = done s.
Proof. unfold set_panic. destruct (panic s); reflexivity. Qed.

Lemma q_child_done s c : done (q_child s c) = done s.
Proof.
  unfold q_child. destruct (nth c (counts s) 0); [apply set_panic_done|].
  destruct ((n =? 0) && q_tx (s <| counts := set_nth c n (counts s) |>)); [|reflexivity].
  destruct (try_send _ c) as [[ch r] wk]. destruct r; reflexivity.
Qed.

Lemma q_children_done cs : forall s, done (fold_left q_child cs s) = done s.
Proof. induction cs as [|c cs IH]; intros s; simpl; [reflexivity|]. rewrite IH. apply q_child_done. Qed.

Lemma drop_ready_tx_done s : done (drop_ready_tx s) = done s.
Proof. unfold drop_ready_tx. destruct (q_tx s); [|reflexivity]. destruct (drop_sender (ready s)). reflexivity. Qed.

Lemma q_step_cont cf s :
  snd (q_step cf s) = true -> S (length (buf (done (fst (q_step cf s))))) = length (buf (done s)).
Proof.
  unfold q_step. destruct (poll_recv (done s)) as [c r] eqn:Hrecv. destruct r as [| |id]; simpl; try discriminate.
  intros _. destruct (poll_recv_some _ _ _ Hrecv) as [Hb _]. rewrite q_children_done.
  match goal with |- context [if ?b then drop_ready_tx ?x else ?x] =>
    assert (Hd : done (if b then drop_ready_tx x else x) = done x) by (destruct b; [apply drop_ready_tx_done | reflexivity]);
    rewrite Hd end.
  rewrite Hb. simpl. destruct (q_rem s); [rewrite set_panic_done|]; reflexivity.
Qed.

Lemma inv_q_loop cf : cfg_ok cf -> forall fuel s,
  Inv cf s -> length (buf (done s)) < fuel -> Inv cf (q_loop fuel cf s).
Proof.
  intros Hok. induction fuel as [|f IH]; intros s Hinv Hlen; [lia|].
  simpl. pose proof (inv_q_step cf s Hok Hinv) as Hstep. pose proof (q_step_cont cf s) as Hcont.
  destruct (q_step cf s) as [s' cont]. simpl in *. destruct cont; [|exact Hstep].
  apply IH; [exact Hstep|]. specialize (Hcont eq_refl). lia.
Qed.

Lemma Inv_done_buf_len cf s : Inv cf s -> length (buf (done s)) <= c_n cf.
Proof.
  intros H. assert (Hl : length (g_done_sent s) <= c_n cf).
  { apply NoDup_bounded_length; [apply (v_ds_nodup _ _ H) | apply (Inv_ds_lt _ _ H)]. }
  rewrite (v_done _ _ H), app_length in Hl. lia.
Qed.
