(** * SchedInv3.v — three small facts about reachable states needed by the liveness arguments *)
From FG Require Import Dag Builder Sched SchedInv SchedInv2.

Record Inv3 (cf : cfg) (s : state) : Prop := {
  (* a block that carries no function (an `Interrupted(None)` item) is never left waiting *)
  y_none_new : forall m, In m (members s) -> m_id m = None -> m_st m = MNew;
  (* as long as no interruption was delivered, every id taken out of the ready channel was recorded *)
  y_recv_processed : w_ian (w s) = false -> g_received s = processed s;
  (* a finished queuer has dropped its ready sender *)
  y_qfin_qtx : q_fin s = true -> q_tx s = false
}.
