(** * SI2_Stream.v — the stream half of a scheduler iteration ([stream_step]) and [sched_finish]
    preserve the second invariant [Inv2]. *)
From FG Require Import Dag Builder Sched DagFacts EdgeFacts RankFacts BuilderFacts TopoFacts
     SchedInv SchedInv2 SI_Queuer SI_Wrapper SI_Step.
From RecordUpdate Require Import RecordSet.
Import RecordSetNotations.

(** ** What a poll of the ready stream leaves alone, second part

    The fields [Inv2] reads and [wframe] does not mention. *)
Definition wframe2 (s s' : state) : Prop :=
  q_tx s' = q_tx s /\ q_fin s' = q_fin s /\ s_tx s' = s_tx s /\ result s' = result s /\
  senders (ready s') = senders (ready s).

Lemma inner_poll_spec2 s s' r :
  inner_poll s = (s', r) ->
  wframe2 s s' /\ processed s' = processed s /\
  match r with
  | RNone => senders (ready s) = 0
  | RPending => buf (ready s') = [] /\ rx_waker (ready s') = true
  | RSome _ => True
  end.
Proof.
  unfold inner_poll, poll_recv. destruct (buf (ready s)) as [|x rest] eqn:Hb.
  - destruct (senders (ready s) =? 0) eqn:Hs; intros H; inversion H; subst; clear H;
      unfold wframe2; simpl; repeat split; try congruence.
    apply Nat.eqb_eq. exact Hs.
  - intros H; inversion H; subst; clear H. unfold wframe2. simpl. repeat split.
Qed.

Lemma wrapper_poll_spec2 cf s s' r :
  wrapper_poll cf s = (s', r) ->
  wframe2 s s' /\ processed s' = processed s /\
  match r with
  | WNone => w_ian (w s) = true \/ senders (ready s) = 0
  | WPending => buf (ready s') = [] /\ rx_waker (ready s') = true /\ w_ian (w s') = false
  | _ => True
  end.
Proof.
  unfold wrapper_poll. destruct (w_ian (w s)) eqn:Hian.
  - intros H; inversion H; subst. unfold wframe2. repeat split. left. reflexivity.
  - destruct (interrupt_check (c_strat cf) (w s) (ipend s)) as [w1 ip] eqn:Hic.
    assert (Hw1 : w_ian w1 = false).
    { pose proof (interrupt_check_ian (c_strat cf) (w s) (ipend s)) as Hi. rewrite Hic in Hi. simpl in Hi. congruence. }
    set (s0 := s <| w := w1 |> <| ipend := ip |>).
    assert (Hip : wframe2 s (fst (inner_poll s0)) /\ processed (fst (inner_poll s0)) = processed s /\
                  w (fst (inner_poll s0)) = w1 /\
                  match snd (inner_poll s0) with
                  | RNone => senders (ready s) = 0
                  | RPending => buf (ready (fst (inner_poll s0))) = [] /\ rx_waker (ready (fst (inner_poll s0))) = true
                  | RSome _ => True
                  end).
    { destruct (inner_poll s0) as [s1 r1] eqn:H.
      pose proof (inner_poll_spec _ _ _ H) as (_ & Hw & _).
      apply inner_poll_spec2 in H. destruct H as (F & Hp & Hm).
      unfold wframe2 in *. simpl in *. repeat split; try tauto. }
    revert Hip. destruct (w_hp w1).
    + destruct (inner_poll s0) as [s1 r1]. simpl fst. simpl snd.
      intros ((E1 & E2 & E3 & E4 & E5) & Hp & Hw & Hm).
      destruct r1 as [| |x]; [| |]; try destruct (w_sig w1); intros H; inversion H; subst; clear H;
        unfold w_notify, w_reset, wframe2 in *; simpl; repeat split; try congruence; try tauto.
    + destruct (w_sig w1).
      * intros _ H; inversion H; subst; clear H. unfold w_notify, wframe2. simpl. repeat split.
      * destruct (inner_poll s0) as [s1 r1]. simpl fst. simpl snd.
        intros ((E1 & E2 & E3 & E4 & E5) & Hp & Hw & Hm).
        destruct r1 as [| |x]; intros H; inversion H; subst; clear H;
          unfold w_reset, wframe2 in *; simpl; repeat split; try congruence; try tauto.
Qed.

Lemma tracked_poll_spec2 cf s s' r :
  tracked_poll cf s = (s', r) ->
  wframe2 s s' /\
  processed s' = processed s ++ (match r with WItem x => [x] | WInt (Some x) => [x] | _ => [] end) /\
  match r with
  | WNone => w_ian (w s) = true \/ senders (ready s) = 0
  | WPending => buf (ready s') = [] /\ rx_waker (ready s') = true /\ w_ian (w s') = false
  | _ => True
  end.
Proof.
  unfold tracked_poll. destruct (wrapper_poll cf s) as [s1 r1] eqn:Hwp.
  apply wrapper_poll_spec2 in Hwp. destruct Hwp as (F & Hp & Hm).
  destruct r1 as [| |x|[x|]].
  - intros H; inversion H; subst. rewrite app_nil_r. split; [exact F|]. split; [exact Hp | exact Hm].
  - intros H; inversion H; subst. rewrite app_nil_r. split; [exact F|]. split; [exact Hp | exact Hm].
  - intros H; inversion H; subst; clear H. unfold wframe2 in *. simpl. rewrite Hp. repeat split; tauto.
  - destruct (c_incl cf); intros H; inversion H; subst; clear H.
    + unfold wframe2 in *. simpl. rewrite Hp. repeat split; tauto.
    + rewrite app_nil_r. split; [exact F|]. split; [exact Hp | exact I].
  - intros H; inversion H; subst; clear H. rewrite app_nil_r. split; [exact F|]. split; [exact Hp | exact I].
Qed.

(** ** Frame lemmas for [Inv2] *)

(** Everything [Inv2] reads except the block set, the run queue, [processed], the wrapper state,
    [s_alive] and whether the ready receiver is open. *)
Definition frame2 (s s' : state) : Prop :=
  trace s' = trace s /\ completed s' = completed s /\ q_fin s' = q_fin s /\ s_fin s' = s_fin s /\
  errs s' = errs s /\ g_finished s' = g_finished s /\ s_err s' = s_err s /\ done s' = done s /\
  s_tx s' = s_tx s /\ senders (ready s') = senders (ready s) /\ q_tx s' = q_tx s /\
  q_rem s' = q_rem s /\ s_rem s' = s_rem s /\ g_done_sent s' = g_done_sent s /\
  g_qproc s' = g_qproc s /\ g_ready_sent s' = g_ready_sent s /\ result s' = result s.

Lemma frame2_of s s' : wframe s s' -> wframe2 s s' -> frame2 s s'.
Proof.
  intros (E1 & E2 & E3 & E4 & E5 & E6 & E7 & E8 & E9 & E10 & E11 & E12 & E13 & E14 & E15 & E16 & E17 & E18 & E19)
         (G1 & G2 & G3 & G4 & G5).
  unfold frame2. repeat split; assumption.
Qed.

(** The block set is untouched (a pending poll, or the end of the stream). *)
Lemma inv2_same cf s s' :
  Inv2 cf s -> frame2 s s' -> result s = None ->
  members s' = members s -> runq s' = runq s -> processed s' = processed s ->
  w_ian (w s') = w_ian (w s) ->
  (rx_open (ready s') = true -> rx_open (ready s) = true) ->
  (s_alive s' = false -> s_alive s = false \/ w_ian (w s) = true \/ q_tx s = false) ->
  Inv2 cf s'.
Proof.
  intros H2 (E1 & E2 & E3 & E4 & E5 & E6 & E7 & E8 & E9 & E10 & E11 & E12 & E13 & E14 & E15 & E16 & E17)
         Hres Hm Hrq Hp Hw Hopen Hdead.
  destruct H2. constructor.
  all: rewrite ?Hm, ?Hrq, ?Hp, ?Hw, ?E1, ?E2, ?E3, ?E4, ?E5, ?E6, ?E7, ?E8, ?E9, ?E10, ?E11, ?E12, ?E13, ?E14, ?E15, ?E16, ?E17.
  all: try assumption.
  - (* x_result *) rewrite Hres. intros o Ho. discriminate Ho.
  - (* x_dead *) intros Hd. destruct (Hdead Hd) as [Hd'|[Hd'|Hd']]; [apply x_dead; exact Hd' | left; exact Hd' | right; left; exact Hd'].
  - (* x_sent_all *) intros Hq Ho. apply x_sent_all; [exact Hq | apply Hopen; exact Ho].
Qed.

Lemma new_keys_app a b : new_keys (a ++ b) = new_keys a ++ new_keys b.
Proof. unfold new_keys. apply flat_map_app. Qed.

Lemma in_new_keys ms k : In k (new_keys ms) -> In k (map m_key ms).
Proof.
  unfold new_keys. rewrite in_flat_map. intros [m [Hm Hk]]. apply in_map_iff. exists m.
  destruct (m_st m); simpl in Hk; [|destruct Hk]. destruct Hk as [Hk|[]]. split; [exact Hk | exact Hm].
Qed.

(** A new block enters the set (and the run queue), together with the record of its id. *)
Lemma inv2_push cf s s' m :
  Inv2 cf s -> frame2 s s' -> result s = None -> s_fin s = false -> s_alive s' = true ->
  rx_open (ready s') = rx_open (ready s) ->
  members s' = members s ++ [m] -> runq s' = runq s ++ [m_key m] ->
  m_st m = MNew ->
  ~ In (m_key m) (map m_key (members s)) ->
  processed s' = processed s ++ (match m_id m with Some x => [x] | None => [] end) ->
  (w_ian (w s) = true -> w_ian (w s') = true) ->
  (m_int m = true -> w_ian (w s') = true) ->
  (w_ian (w s') = true -> w_ian (w s) = true \/ m_int m = true) ->
  (m_id m = None -> m_int m = true) ->
  Inv2 cf s'.
Proof.
  intros H2 (E1 & E2 & E3 & E4 & E5 & E6 & E7 & E8 & E9 & E10 & E11 & E12 & E13 & E14 & E15 & E16 & E17)
         Hres Hfin Hal Hopen Hm Hrq Hst Hfresh Hp Hw1 Hw2 Hw3 Hni.
  assert (Hnk : new_keys (members s ++ [m]) = new_keys (members s) ++ [m_key m]).
  { rewrite new_keys_app. unfold new_keys at 2. simpl. rewrite Hst. reflexivity. }
  assert (Hnid : new_ids (members s ++ [m]) = new_ids (members s) ++ (match m_id m with Some x => [x] | None => [] end)).
  { rewrite new_ids_app. unfold new_ids at 2. simpl. rewrite Hst. destruct (m_id m); reflexivity. }
  assert (Hfr : ~ In (m_key m) (runq s)).
  { intros Hin. apply Hfresh. apply (x_runq_keys _ _ H2). exact Hin. }
  destruct H2. constructor.
  all: rewrite ?Hm, ?Hrq, ?Hp, ?Hopen, ?E1, ?E2, ?E3, ?E4, ?E5, ?E6, ?E7, ?E8, ?E9, ?E10, ?E11, ?E12, ?E13, ?E14, ?E15, ?E16, ?E17.
  all: try assumption.
  - (* x_processed *) rewrite Hnid, x_processed, app_assoc. reflexivity.
  - (* x_keys_nodup *) rewrite map_app. apply NoDup_app_intro; [exact x_keys_nodup | constructor; [intros [] | constructor] |].
    intros k Hk [<-|[]]. exact (Hfresh Hk).
  - (* x_runq_nodup *) apply NoDup_app_intro; [exact x_runq_nodup | constructor; [intros [] | constructor] |].
    intros k Hk [<-|[]]. exact (Hfr Hk).
  - (* x_runq_keys *) intros k Hk. rewrite map_app. apply in_or_app. apply in_app_or in Hk.
    destruct Hk as [Hk|Hk]; [left; apply x_runq_keys; exact Hk | right; exact Hk].
  - (* x_runq_new *) rewrite Hnk, filter_app.
    assert (Ha : filter (fun k => mem k (new_keys (members s) ++ [m_key m])) (runq s) = new_keys (members s)).
    { transitivity (filter (fun k => mem k (new_keys (members s))) (runq s)); [|exact x_runq_new]. apply filter_ext_in. intros k Hk.
      destruct (mem k (new_keys (members s))) eqn:Hmk.
      - apply mem_spec. apply in_or_app. left. apply mem_spec. exact Hmk.
      - apply mem_false. apply mem_false in Hmk. intros Hin. apply in_app_or in Hin.
        destruct Hin as [Hin|[<-|[]]]; [exact (Hmk Hin) | exact (Hfr Hk)]. }
    rewrite Ha. simpl.
    assert (Hb : mem (m_key m) (new_keys (members s) ++ [m_key m]) = true).
    { apply mem_spec. apply in_or_app. right. left. reflexivity. }
    rewrite Hb. reflexivity.
  - (* x_completed_runq *) intros i Hi. apply in_or_app. left. apply x_completed_runq. exact Hi.
  - (* x_result *) rewrite Hres. intros o Ho. discriminate Ho.
  - (* x_fin_members *) rewrite Hfin. intros Hd. discriminate Hd.
  - (* x_dead *) rewrite Hal. intros Hd. discriminate Hd.
  - (* x_ian *) intros Hi. destruct (Hw3 Hi) as [Hi'|Hi'].
    + destruct (x_ian Hi') as [Hs|[m0 [Hm0 Hint]]]; [left; exact Hs|].
      right. exists m0. split; [apply in_or_app; left; exact Hm0 | exact Hint].
    + right. exists m. split; [apply in_or_app; right; left; reflexivity | exact Hi'].
  - (* x_int_ian *) intros m0 Hm0 Hint. apply in_app_or in Hm0. destruct Hm0 as [Hm0|[<-|[]]].
    + apply Hw1. apply (x_int_ian m0); assumption.
    + apply Hw2. exact Hint.
  - (* x_none_int *) intros m0 Hm0 Hid. apply in_app_or in Hm0. destruct Hm0 as [Hm0|[<-|[]]].
    + apply (x_none_int m0); assumption.
    + apply Hni. exact Hid.
  - (* x_stx_why *) intros Hs. destruct (x_stx_why Hs) as [Hy|[Hy|Hy]]; [left; exact Hy | right; left; apply Hw1; exact Hy | right; right; exact Hy].
Qed.

(** ** Freshness of the key of a new block *)

Lemma member_key_recv cf s m0 :
  Inv cf s -> In m0 (members s) ->
  match m_id m0 with
  | Some i => m_key m0 = i /\ In i (g_received s) /\ i < c_n cf
  | None => m_key m0 = c_n cf
  end.
Proof.
  intros Hinv Hm0. pose proof (v_keys _ _ Hinv m0 Hm0) as Hk.
  destruct (m_id m0) as [i|] eqn:Hid; [|exact Hk].
  assert (Hr : In i (g_received s)).
  { apply (v_recv _ _ Hinv). destruct (m_st m0) eqn:Hst.
    - right. apply in_new_ids. exists m0. auto.
    - left. apply (v_started _ _ Hinv). right. apply in_wait_ids. exists m0. auto. }
  split; [exact Hk|]. split; [exact Hr|].
  apply (v_rs_lt _ _ Hinv). apply (Inv_recv_sub _ _ Hinv). exact Hr.
Qed.

Lemma key_fresh_some cf s x :
  Inv cf s -> ~ In x (g_received s) -> x < c_n cf -> ~ In x (map m_key (members s)).
Proof.
  intros Hinv Hnr Hlt Hin. apply in_map_iff in Hin. destruct Hin as [m0 [Hk Hm0]].
  pose proof (member_key_recv cf s m0 Hinv Hm0) as H. destruct (m_id m0) as [i|].
  - destruct H as (Hki & Hr & _). apply Hnr. congruence.
  - lia.
Qed.

Lemma key_fresh_none cf s :
  Inv cf s -> w_ian (w s) = false -> ~ In (c_n cf) (map m_key (members s)).
Proof.
  intros Hinv Hian Hin. apply in_map_iff in Hin. destruct Hin as [m0 [Hk Hm0]].
  pose proof (member_key_recv cf s m0 Hinv Hm0) as H. destruct (m_id m0) as [i|] eqn:Hid.
  - destruct H as (Hki & _ & Hlt). lia.
  - pose proof (v_none _ _ Hinv) as Hn. rewrite Hian in Hn.
    assert (Hf : In m0 (filter (fun m => is_none (m_id m)) (members s))).
    { apply filter_In. split; [exact Hm0 | rewrite Hid; reflexivity]. }
    destruct (filter (fun m => is_none (m_id m)) (members s)); [destruct Hf | simpl in Hn; lia].
Qed.

(** ** The stream half of a scheduler iteration *)

Lemma inv2_stream_step cf s :
  cfg_ok cf -> Inv cf s -> Inv2 cf s -> s_fin s = false -> result s = None ->
  Inv2 cf (fst (stream_step cf s)) /\
  result (fst (stream_step cf s)) = None /\ s_fin (fst (stream_step cf s)) = false /\
  q_fin (fst (stream_step cf s)) = q_fin s /\
  (* if the stream side made no progress and is still alive, it is settled: either the limit is
     reached, or the wrapper is waiting on an empty ready channel with its waker registered *)
  (snd (stream_step cf s) = false -> s_alive (fst (stream_step cf s)) = true ->
     limit_ok cf (fst (stream_step cf s)) = false \/
     (buf (ready (fst (stream_step cf s))) = [] /\ rx_waker (ready (fst (stream_step cf s))) = true /\
      w_ian (w (fst (stream_step cf s))) = false)).
Proof.
  intros _ Hinv H2 Hfin Hres. unfold stream_step.
  destruct (limit_ok cf s && s_alive s) eqn:Hg.
  2:{ simpl. split; [exact H2|]. split; [exact Hres|]. split; [exact Hfin|]. split; [reflexivity|].
      intros _ Hal. rewrite Hal, andb_true_r in Hg. left. exact Hg. }
  apply andb_true_iff in Hg. destruct Hg as [Hlim Halive].
  destruct (tracked_poll cf s) as [s1 r] eqn:Htp.
  pose proof (inv_tracked_poll cf s s1 r Hinv Halive Htp) as (Hinv1 & _ & _ & _ & _ & _ & _ & _ & _ & _ & Hr).
  pose proof (tracked_poll_spec cf s s1 r Htp) as (F & _).
  pose proof (tracked_poll_spec2 cf s s1 r Htp) as (F' & Hproc & Hwhy).
  pose proof (frame2_of s s1 F F') as FF.
  pose proof F as (E1 & E2 & E3 & E4 & E5 & E6 & E7 & E8 & E9 & E10 & E11 & E12 & E13 & E14 & E15 & E16 & E17 & E18 & E19).
  pose proof F' as (G1 & G2 & G3 & G4 & G5).
  assert (Hlt : forall x, In x (g_received s1) -> x < c_n cf).
  { intros x Hx. apply (v_rs_lt _ _ Hinv1). apply (Inv_recv_sub _ _ Hinv1). exact Hx. }
  (* the three cases in which a block is pushed *)
  assert (Hpush : forall m,
    m_st m = MNew -> ~ In (m_key m) (map m_key (members s)) ->
    processed s1 = processed s ++ (match m_id m with Some x => [x] | None => [] end) ->
    (w_ian (w s) = true -> w_ian (w s1) = true) ->
    (m_int m = true -> w_ian (w s1) = true) ->
    (w_ian (w s1) = true -> w_ian (w s) = true \/ m_int m = true) ->
    (m_id m = None -> m_int m = true) ->
    Inv2 cf (push_member s1 m) /\ result (push_member s1 m) = None /\ s_fin (push_member s1 m) = false /\
    q_fin (push_member s1 m) = q_fin s).
  { intros m Hst Hfr Hp Hw1 Hw2 Hw3 Hni.
    split; [|unfold push_member; simpl; repeat split; congruence].
    apply (inv2_push cf s (push_member s1 m) m H2); try assumption; unfold push_member; simpl; congruence. }
  destruct r as [| |x|[x|]].
  - (* pending *)
    simpl. destruct Hwhy as (Hb & Hwk & Hi).
    split; [|split; [congruence|]; split; [congruence|]; split; [exact G2|]; intros _ _; right; auto].
    apply (inv2_same cf s s1 H2 FF Hres E10 E18); [rewrite Hproc; apply app_nil_r | exact Hr | congruence |].
    intros Hd. left. congruence.
  - (* the stream ended *)
    simpl. split; [|split; [unfold drop_ready_rx; simpl; congruence|]; split; [unfold drop_ready_rx; simpl; congruence|];
                    split; [unfold drop_ready_rx; simpl; exact G2|]; unfold drop_ready_rx; simpl; intros _ Hd; discriminate Hd].
    apply (inv2_same cf s (drop_ready_rx s1) H2).
    + unfold frame2, drop_ready_rx, drop_rx in *. simpl. exact FF.
    + exact Hres.
    + unfold drop_ready_rx. simpl. exact E10.
    + unfold drop_ready_rx. simpl. exact E18.
    + unfold drop_ready_rx. simpl. rewrite Hproc. apply app_nil_r.
    + unfold drop_ready_rx. simpl. exact Hr.
    + unfold drop_ready_rx, drop_rx. simpl. intros Hd. discriminate Hd.
    + intros _. destruct Hwhy as [Hi|Hs]; [right; left; exact Hi|]. right. right.
      pose proof (x_senders_r _ _ H2) as Hsr. rewrite Hs in Hsr. destruct (q_tx s); [discriminate Hsr | reflexivity].
  - (* an item *)
    destruct Hr as (Hin & Hnin & _ & Hian). simpl.
    destruct (Hpush (mkMem x (Some x) false MNew)) as (A & B & C & D); simpl.
    + reflexivity.
    + apply (key_fresh_some cf s x Hinv Hnin). apply Hlt. exact Hin.
    + exact Hproc.
    + congruence.
    + intros Hd. discriminate Hd.
    + intros Hi. left. congruence.
    + intros Hd. discriminate Hd.
    + split; [exact A|]. split; [exact B|]. split; [exact C|]. split; [exact D|]. intros Hd. discriminate Hd.
  - (* interrupted, with an item *)
    destruct Hr as (Hin & Hnin & _ & Hian1 & Hian0). simpl.
    destruct (Hpush (mkMem x (Some x) true MNew)) as (A & B & C & D); simpl.
    + reflexivity.
    + apply (key_fresh_some cf s x Hinv Hnin). apply Hlt. exact Hin.
    + exact Hproc.
    + intros _. exact Hian1.
    + intros _. exact Hian1.
    + intros _. right. reflexivity.
    + intros Hd. discriminate Hd.
    + split; [exact A|]. split; [exact B|]. split; [exact C|]. split; [exact D|]. intros Hd. discriminate Hd.
  - (* interrupted, no item (or an item that is not included) *)
    destruct Hr as (Hian1 & Hian0). simpl.
    destruct (Hpush (mkMem (c_n cf) None true MNew)) as (A & B & C & D); simpl.
    + reflexivity.
    + apply (key_fresh_none cf s Hinv Hian0).
    + exact Hproc.
    + intros _. exact Hian1.
    + intros _. exact Hian1.
    + intros _. right. reflexivity.
    + intros _. reflexivity.
    + split; [exact A|]. split; [exact B|]. split; [exact C|]. split; [exact D|]. intros Hd. discriminate Hd.
Qed.

(** ** The scheduler completes *)

(** Once the queuer has processed every function, every function has finished. *)
Lemma qrem0_srem0 cf s : Inv cf s -> q_rem s = 0 -> s_err s = None -> s_rem s = 0.
Proof.
  intros Hinv Hq He.
  pose proof (v_qrem _ _ Hinv) as Hqr. rewrite Hq in Hqr. simpl in Hqr.
  pose proof (v_ds_nodup _ _ Hinv) as Hnd. rewrite (v_done _ _ Hinv) in Hnd. apply NoDup_app_l in Hnd.
  assert (Hincl : incl (g_qproc s) (g_finished s)).
  { intros x Hx. apply (v_ds_fin _ _ Hinv). rewrite (v_done _ _ Hinv). apply in_or_app. left. exact Hx. }
  pose proof (NoDup_incl_length Hnd Hincl) as Hle.
  pose proof (NoDup_bounded_length _ _ (v_fin_nodup _ _ Hinv) (Inv_fin_lt _ _ Hinv)) as Hle2.
  pose proof (v_srem _ _ Hinv He) as Hsr. lia.
Qed.

(** When the scheduler is about to complete, the done sender is already gone. *)
Lemma finish_stx_false cf s :
  Inv cf s -> Inv2 cf s -> members s = [] -> s_alive s = false -> s_tx s = false.
Proof.
  intros Hinv H2 Hm Hal.
  assert (Herr : s_err s <> None -> s_tx s = false).
  { intros Hne. destruct (s_err s) as [i|] eqn:He; [|congruence].
    destruct (x_serr_some _ _ H2 i He) as (_ & Hf & _). apply (x_sfin_stx _ _ H2). exact Hf. }
  destruct (x_dead _ _ H2 Hal) as [Hi|[Hq|He]].
  - destruct (x_ian _ _ H2 Hi) as [Hs|[m [Hin _]]]; [exact Hs|]. rewrite Hm in Hin. destruct Hin.
  - destruct (x_qtx _ _ H2 Hq) as [Hr|Hf]; [|apply (x_qfin_stx _ _ H2); exact Hf].
    destruct (s_err s) as [i|] eqn:He; [apply Herr; discriminate|].
    apply (x_srem_stx _ _ H2). apply (qrem0_srem0 cf s Hinv Hr He).
  - apply Herr. exact He.
Qed.

Lemma inv2_sched_finish cf s :
  Inv cf s -> Inv2 cf s -> members s = [] -> s_alive s = false -> result s = None ->
  Inv2 cf (sched_finish cf s).
Proof.
  intros Hinv H2 Hm Hal Hres.
  pose proof (finish_stx_false cf s Hinv H2 Hm Hal) as Hstx.
  assert (Heq : sched_finish cf s = s <| s_fin := true |>).
  { unfold sched_finish. destruct (is_seq (c_api cf)); [|reflexivity].
    unfold take_s_tx. simpl. rewrite Hstx. reflexivity. }
  rewrite Heq.
  assert (Hcomp : completed s = []).
  { destruct (completed s) as [|[i ok] l] eqn:Hc; [reflexivity|].
    destruct (v_completed _ _ Hinv i ok) as [Hw _]; [rewrite Hc; left; reflexivity|].
    rewrite Hm in Hw. destruct Hw. }
  destruct H2. constructor; simpl.
  all: try assumption.
  - (* x_result *) rewrite Hres. intros o Ho. discriminate Ho.
  - (* x_fin_members *) intros _. split; assumption.
  - (* x_serr_some *) intros i Hi. destruct (x_serr_some i Hi) as (A & _ & C). split; [exact A|]. split; [reflexivity | exact C].
  - (* x_sfin_stx *) intros _. exact Hstx.
Qed.

Print Assumptions inv2_stream_step.
Print Assumptions inv2_sched_finish.
