(** * DriveFacts.v — every call returns if the user futures complete: from any reachable state,
    letting the executor poll while the task is woken and resolving, one at a time, any user
    future that is in flight (with any outcome) makes the call return after at most [c_n cf]
    completions. *)
From FG Require Import Dag Builder Sched DagFacts EdgeFacts RankFacts BuilderFacts TopoFacts
     SchedInv SchedInv2 SchedInv3 SafetyFacts LiveFacts LiveStep SI_Queuer SI_Init SI_Step SI2_Queuer SI2_Step
     SI3_Run LiveRun SettleFacts.
From RecordUpdate Require Import RecordSet.
Import RecordSetNotations.
From Coq Require Import Lia.

(** ** Polls only append to the trace *)

Definition Ext (s s' : state) : Prop := exists T, trace s' = trace s ++ T.

Lemma Ext_refl s : Ext s s.
Proof. exists []. symmetry. apply app_nil_r. Qed.

Lemma Ext_trans s1 s2 s3 : Ext s1 s2 -> Ext s2 s3 -> Ext s1 s3.
Proof. intros [T1 H1] [T2 H2]. exists (T1 ++ T2). rewrite H2, H1. symmetry. apply app_assoc. Qed.

Lemma Ext_same s s' : trace s' = trace s -> Ext s s'.
Proof. intros H. exists []. rewrite H. symmetry. apply app_nil_r. Qed.

Lemma Ext_set_panic p s : Ext s (set_panic p s).
Proof. unfold set_panic. destruct (panic s); [apply Ext_refl|]. apply Ext_same; reflexivity. Qed.

Lemma Ext_drop_ready_tx s : Ext s (drop_ready_tx s).
Proof.
  unfold drop_ready_tx. destruct (q_tx s); [|apply Ext_refl].
  destruct (drop_sender (ready s)) as [c wk]. apply Ext_same; reflexivity.
Qed.

Lemma Ext_q_child s c : Ext s (q_child s c).
Proof.
  unfold q_child. destruct (nth c (counts s) 0) as [|k]; [apply Ext_set_panic|].
  cbv zeta. set (s0 := s <| counts := set_nth c k (counts s) |>).
  destruct ((k =? 0) && q_tx s0); [|apply Ext_same; reflexivity].
  destruct (try_send (ready s0) c) as [[ch r] wk]. destruct r; apply Ext_same; reflexivity.
Qed.

Lemma Ext_take_s_tx s : Ext s (take_s_tx s).
Proof.
  unfold take_s_tx. destruct (s_tx s); [|apply Ext_refl].
  destruct (drop_sender (done s)) as [c wk]. apply Ext_same; reflexivity.
Qed.

Lemma Ext_done_send s id : Ext s (done_send s id).
Proof.
  unfold done_send. destruct (try_send (done s) id) as [[c r] wk]. destruct r.
  - apply Ext_same; reflexivity.
  - apply Ext_set_panic.
  - apply Ext_refl.
Qed.

Lemma Ext_fold_q_child l : forall s, Ext s (fold_left q_child l s).
Proof.
  induction l as [|c l IH]; intros s; simpl; [apply Ext_refl|].
  apply (Ext_trans _ (q_child s c)); [apply Ext_q_child | apply IH].
Qed.

Lemma Ext_q_step cf s : Ext s (fst (q_step cf s)).
Proof.
  unfold q_step. destruct (poll_recv (done s)) as [c r]. destruct r as [| |id].
  - simpl. apply Ext_same; reflexivity.
  - simpl. apply (Ext_trans _ (s <| done := drop_rx c |> <| q_fin := true |>)); [apply Ext_same; reflexivity|].
    apply Ext_drop_ready_tx.
  - cbv zeta. set (s0 := s <| done := c |> <| g_qproc := g_qproc s ++ [id] |>).
    assert (H0 : Ext s s0) by (apply Ext_same; reflexivity).
    set (s1 := match q_rem s0 with 0 => set_panic PQRem s0 | S r => s0 <| q_rem := r |> end).
    assert (H1 : Ext s s1).
    { apply (Ext_trans _ s0); [exact H0|]. unfold s1. destruct (q_rem s0); [apply Ext_set_panic|]. apply Ext_same; reflexivity. }
    set (s2 := if q_rem s1 =? 0 then drop_ready_tx s1 else s1).
    assert (H2 : Ext s s2).
    { unfold s2. destruct (q_rem s1 =? 0); [|exact H1]. apply (Ext_trans _ s1); [exact H1 | apply Ext_drop_ready_tx]. }
    simpl. apply (Ext_trans _ s2); [exact H2 | apply Ext_fold_q_child].
Qed.

Lemma Ext_q_loop cf : forall fuel s, Ext s (q_loop fuel cf s).
Proof.
  induction fuel as [|f IH]; intros s; simpl; [apply Ext_set_panic|].
  pose proof (Ext_q_step cf s) as H1. destruct (q_step cf s) as [s1 cont]. simpl in H1.
  destruct cont; [|exact H1]. apply (Ext_trans _ s1); [exact H1 | apply IH].
Qed.

Lemma Ext_drop_ready_rx s : Ext s (drop_ready_rx s).
Proof. apply Ext_same; reflexivity. Qed.
Lemma Ext_remove_member s k : Ext s (remove_member s k).
Proof. apply Ext_same; reflexivity. Qed.
Lemma Ext_set_member_wait s k : Ext s (set_member_wait s k).
Proof. apply Ext_same; reflexivity. Qed.
Lemma Ext_complete s i ok : Ext s (complete s i ok).
Proof. exists [End i ok]. reflexivity. Qed.

Lemma Ext_start_block cf s m id : Ext s (start_block cf s m id).
Proof.
  unfold start_block. eapply Ext_trans; [|apply Ext_set_member_wait].
  match goal with |- Ext _ (?x <| trace := _ |>) => apply (Ext_trans _ x); [|exists [Start id]; reflexivity] end.
  destruct (c_mut cf && is_waiting_b s id); [apply Ext_set_panic | apply Ext_refl].
Qed.

Lemma Ext_push_member s m : Ext s (push_member s m).
Proof. apply Ext_same; reflexivity. Qed.

Lemma Ext_finish_block cf s m id ok : Ext s (finish_block cf s m id ok).
Proof.
  unfold finish_block.
  pose proof (Ext_remove_member s (m_key m)) as H0. set (s0 := remove_member s (m_key m)) in *.
  destruct (negb ok && match c_api cf with ATryFold => true | _ => false end).
  - apply (Ext_trans _ (drop_ready_rx (take_s_tx s0))); [|apply Ext_same; reflexivity].
    apply (Ext_trans _ (take_s_tx s0)); [|apply Ext_drop_ready_rx].
    apply (Ext_trans _ s0); [exact H0 | apply Ext_take_s_tx].
  - set (s1 := if negb ok && match c_api cf with ATryForEach => true | _ => false end
               then take_s_tx (if Nat.max 1 (c_n cf) <=? length (errs s0) then set_panic PResult s0
                               else s0 <| errs := errs s0 ++ [id] |>)
               else s0).
    assert (H1 : Ext s s1).
    { unfold s1. destruct (negb ok && match c_api cf with ATryForEach => true | _ => false end); [|exact H0].
      eapply Ext_trans; [|apply Ext_take_s_tx]. apply (Ext_trans _ s0); [exact H0|].
      destruct (Nat.max 1 (c_n cf) <=? length (errs s0)); [apply Ext_set_panic|]. apply Ext_same; reflexivity. }
    set (s2 := if s_tx s1 then done_send s1 id else s1).
    assert (H2 : Ext s s2).
    { unfold s2. destruct (s_tx s1); [|exact H1]. apply (Ext_trans _ s1); [exact H1 | apply Ext_done_send]. }
    set (s3 := match s_rem s2 with 0 => set_panic PSRem s2 | S r => s2 <| s_rem := r |> end).
    assert (H3 : Ext s s3).
    { apply (Ext_trans _ s2); [exact H2|]. unfold s3. destruct (s_rem s2); [apply Ext_set_panic|]. apply Ext_same; reflexivity. }
    set (s4 := if s_rem s3 =? 0 then take_s_tx s3 else s3).
    assert (H4 : Ext s s4).
    { unfold s4. destruct (s_rem s3 =? 0); [|exact H3]. apply (Ext_trans _ s3); [exact H3 | apply Ext_take_s_tx]. }
    set (s5 := if m_int m then take_s_tx s4 else s4).
    assert (H5 : Ext s s5).
    { unfold s5. destruct (m_int m); [|exact H4]. apply (Ext_trans _ s4); [exact H4 | apply Ext_take_s_tx]. }
    apply (Ext_trans _ s5); [exact H5 | apply Ext_same; reflexivity].
Qed.

Lemma Ext_resume_block cf s m id : Ext s (fst (resume_block cf s m id)).
Proof.
  unfold resume_block. destruct (lookup id (completed s)); [|apply Ext_refl].
  simpl. eapply Ext_trans; [|apply Ext_finish_block]. apply Ext_same; reflexivity.
Qed.

Lemma Ext_block_poll cf s m : Ext s (fst (block_poll cf s m)).
Proof.
  unfold block_poll. destruct (m_st m); destruct (m_id m) as [id|].
  - destruct (lookup id (c_imm cf)).
    + eapply Ext_trans; [|apply Ext_resume_block].
      eapply Ext_trans; [|apply Ext_complete]. apply Ext_start_block.
    + simpl. apply Ext_start_block.
  - simpl. eapply Ext_trans; [|apply Ext_remove_member]. destruct (m_int m); [apply Ext_take_s_tx | apply Ext_refl].
  - apply Ext_resume_block.
  - apply Ext_refl.
Qed.

Lemma Ext_inner_poll s : Ext s (fst (inner_poll s)).
Proof.
  unfold inner_poll. destruct (poll_recv (ready s)) as [c r]. destruct r; simpl; apply Ext_same; reflexivity.
Qed.

Lemma Ext_w s x : Ext s (s <| w := x |>).
Proof. apply Ext_same; reflexivity. Qed.

Lemma Ext_wrapper_poll cf s : Ext s (fst (wrapper_poll cf s)).
Proof.
  unfold wrapper_poll. destruct (w_ian (w s)); [apply Ext_refl|].
  destruct (interrupt_check (c_strat cf) (w s) (ipend s)) as [w1 ip].
  set (s0 := s <| w := w1 |> <| ipend := ip |>).
  assert (H0 : Ext s s0) by (apply Ext_same; reflexivity).
  pose proof (Ext_inner_poll s0) as H1.
  destruct (w_hp w1).
  - destruct (inner_poll s0) as [s1 r]. simpl in H1.
    assert (H2 : Ext s s1) by (apply (Ext_trans _ s0); assumption).
    destruct r; simpl; try exact H2;
      destruct (w_sig w1); simpl; unfold w_notify, w_reset; (eapply Ext_trans; [exact H2 | apply Ext_w]).
  - destruct (w_sig w1); [unfold w_notify; simpl; eapply Ext_trans; [exact H0 | apply Ext_w]|].
    destruct (inner_poll s0) as [s1 r]. simpl in H1.
    assert (H2 : Ext s s1) by (apply (Ext_trans _ s0); assumption).
    destruct r; simpl; unfold w_reset; (eapply Ext_trans; [exact H2 | apply Ext_w]).
Qed.

Lemma Ext_tracked_poll cf s : Ext s (fst (tracked_poll cf s)).
Proof.
  unfold tracked_poll. pose proof (Ext_wrapper_poll cf s) as H1.
  destruct (wrapper_poll cf s) as [s1 r]. simpl in H1.
  destruct r as [| |x|[x|]]; simpl; try exact H1;
    try (eapply Ext_trans; [exact H1 | apply Ext_same; reflexivity]).
  destruct (c_incl cf); simpl; [|exact H1]. eapply Ext_trans; [exact H1 | apply Ext_same; reflexivity].
Qed.

Lemma Ext_stream_step cf s : Ext s (fst (stream_step cf s)).
Proof.
  unfold stream_step. destruct (limit_ok cf s && s_alive s); [|apply Ext_refl].
  pose proof (Ext_tracked_poll cf s) as H1. destruct (tracked_poll cf s) as [s1 r]. simpl in H1.
  destruct r as [| |x|[x|]]; simpl; try exact H1;
    (eapply Ext_trans; [exact H1|]); first [apply Ext_push_member | apply Ext_drop_ready_rx].
Qed.

Lemma Ext_runq_loop cf : forall fuel s, Ext s (fst (runq_loop fuel cf s)).
Proof.
  induction fuel as [|f IH]; intros s; simpl; [apply Ext_set_panic|].
  destruct (runq s) as [|k rest]; [apply Ext_refl|].
  set (s0 := s <| runq := rest |>). assert (H0 : Ext s s0) by (apply Ext_same; reflexivity).
  destruct (find_member s0 k) as [m|]; [|apply (Ext_trans _ s0); [exact H0 | apply IH]].
  pose proof (Ext_block_poll cf s0 m) as H1. destruct (block_poll cf s0 m) as [s1 rdy]. simpl in H1.
  assert (H2 : Ext s s1) by (apply (Ext_trans _ s0); assumption).
  destruct rdy; [exact H2 | apply (Ext_trans _ s1); [exact H2 | apply IH]].
Qed.

Lemma Ext_sched_finish cf s : Ext s (sched_finish cf s).
Proof.
  unfold sched_finish. set (s0 := s <| s_fin := true |>).
  assert (H0 : Ext s s0) by (apply Ext_same; reflexivity).
  destruct (is_seq (c_api cf)); [|exact H0]. apply (Ext_trans _ s0); [exact H0 | apply Ext_take_s_tx].
Qed.

Lemma Ext_conc_loop cf : forall fuel s, Ext s (conc_loop fuel cf s).
Proof.
  induction fuel as [|f IH]; intros s; cbn [conc_loop]; [apply Ext_set_panic|].
  pose proof (Ext_stream_step cf s) as H1. destruct (stream_step cf s) as [s1 prog]. simpl in H1.
  pose proof (Ext_runq_loop cf (length (runq s1) + 1) s1) as H2.
  destruct (runq_loop (length (runq s1) + 1) cf s1) as [s2 fr]. simpl in H2.
  assert (H3 : Ext s s2) by (apply (Ext_trans _ s1); assumption).
  assert (H4 : Ext s (conc_loop f cf s2)) by (apply (Ext_trans _ s2); [exact H3 | apply IH]).
  destruct (s_fin s2); [exact H3|]. destruct fr.
  - exact H4.
  - destruct prog; [exact H4 | exact H3].
  - destruct (negb (s_alive s2)); [apply (Ext_trans _ s2); [exact H3 | apply Ext_sched_finish]|].
    destruct prog; [exact H4 | exact H3].
Qed.

Lemma Ext_poll cf s : Ext s (poll cf s).
Proof.
  unfold poll. destruct (result s); [apply Ext_refl|].
  set (s0 := s <| woken := false |>).
  assert (H0 : Ext s s0) by (apply Ext_same; reflexivity).
  set (s1 := if q_fin s0 then s0 else q_loop (poll_fuel cf) cf s0).
  assert (H1 : Ext s s1).
  { apply (Ext_trans _ s0); [exact H0|]. unfold s1. destruct (q_fin s0); [apply Ext_refl | apply Ext_q_loop]. }
  set (s2 := if s_fin s1 then s1 else conc_loop (poll_fuel cf) cf s1).
  assert (H2 : Ext s s2).
  { apply (Ext_trans _ s1); [exact H1|]. unfold s2. destruct (s_fin s1); [apply Ext_refl | apply Ext_conc_loop]. }
  destruct (q_fin s2 && s_fin s2); [|exact H2].
  apply (Ext_trans _ s2); [exact H2 | apply Ext_same; reflexivity].
Qed.

Lemma Ext_settle cf : forall fuel s, Ext s (settle fuel cf s).
Proof.
  induction fuel as [|f IH]; intros s; simpl; [apply Ext_refl|].
  destruct (woken s && is_none (result s) && is_none (panic s)); [|apply Ext_refl].
  apply (Ext_trans _ (poll cf s)); [apply Ext_poll | apply IH].
Qed.

(** No event removes anything from the trace. *)
Lemma Ext_step cf s e : Ext s (step cf s e).
Proof.
  destruct e as [i ok| | |]; simpl.
  - destruct (is_waiting s i && is_none (lookup i (completed s))); [|apply Ext_refl].
    exists [End i ok]. reflexivity.
  - apply Ext_same; reflexivity.
  - apply Ext_poll.
  - apply Ext_settle.
Qed.

Lemma Ext_ends_le s s' : Ext s s' -> length (ends (trace s)) <= length (ends (trace s')).
Proof. intros [T H]. rewrite H, ends_app, app_length. lia. Qed.

(** ** The measure: functions whose user future has not resolved yet *)

Definition enabled (s : state) (i : nat) : Prop :=
  is_waiting s i = true /\ lookup i (completed s) = None.

(** A scheduler of completions: any function from states to (function id, outcome) that picks an
    enabled completion whenever one exists. *)
Definition fair_pick (pick : state -> nat * bool) : Prop :=
  forall s, (exists i, enabled s i) -> enabled s (fst (pick s)).

Fixpoint drive (pick : state -> nat * bool) (k : nat) (cf : cfg) (s : state) : state :=
  let s := settle (settle_fuel cf) cf s in
  match k with
  | 0 => s
  | S k' => if is_none (result s) then drive pick k' cf (step cf s (ECmp (fst (pick s)) (snd (pick s)))) else s
  end.

(** Number of functions that have not ended (started and in flight, or not started yet). *)
Definition unended (cf : cfg) (s : state) : nat := c_n cf - length (ends (trace s)).

Lemma Inv_wait_lt cf s : Inv cf s -> forall x, In x (wait_ids (members s)) -> x < c_n cf.
Proof.
  intros H x Hx.
  assert (Hs : In x (starts (trace s))) by (apply (v_started _ _ H); right; exact Hx).
  assert (Hr : In x (g_received s)) by (apply (v_recv _ _ H); left; exact Hs).
  apply (v_rs_lt _ _ H). destruct (v_ready _ _ H) as [rest [Heq _]]. rewrite Heq. apply in_or_app. left. exact Hr.
Qed.

Lemma Inv_ends_lt cf s : Inv cf s -> forall x, In x (ends (trace s)) -> x < c_n cf.
Proof.
  intros H x Hx. apply (v_ended_split _ _ H) in Hx. destruct Hx as [Hx|Hx].
  - apply (Inv_fin_lt _ _ H). exact Hx.
  - apply in_map_iff in Hx. destruct Hx as [[i ok] [Hi Hin]]. simpl in Hi. subst i.
    apply (Inv_wait_lt _ _ H). apply (v_completed _ _ H x ok). exact Hin.
Qed.

Lemma Inv_ends_len cf s : Inv cf s -> length (ends (trace s)) <= c_n cf.
Proof.
  intros H. apply NoDup_bounded_length; [eapply trace_ends_nodup; apply (v_trace _ _ H) | apply (Inv_ends_lt _ _ H)].
Qed.

Lemma lookup_none_notin' {A} (k : nat) (l : list (nat * A)) : lookup k l = None -> ~ In k (map fst l).
Proof. intros H. apply lookup_none_notin. rewrite H. reflexivity. Qed.

(** A function whose completion is enabled has not ended: at least one function is unended. *)
Lemma enabled_unended cf s i : Inv cf s -> enabled s i -> length (ends (trace s)) < c_n cf.
Proof.
  intros H [Hw Hl]. apply is_waiting_spec in Hw.
  assert (Hn : ~ In i (ends (trace s))).
  { intros Hin. apply (v_ended_split _ _ H) in Hin. destruct Hin as [Hin|Hin].
    - exact (v_fin_wait _ _ H i Hin Hw).
    - exact (lookup_none_notin' _ _ Hl Hin). }
  assert (Hlen : length (i :: ends (trace s)) <= c_n cf).
  { apply NoDup_bounded_length.
    - constructor; [exact Hn | eapply trace_ends_nodup; apply (v_trace _ _ H)].
    - intros x [<-|Hx]; [apply (Inv_wait_lt _ _ H); exact Hw | apply (Inv_ends_lt _ _ H); exact Hx]. }
  simpl in Hlen. lia.
Qed.

(** An enabled completion takes effect and records one more end. *)
Lemma enabled_step_ends cf s i ok :
  enabled s i -> length (ends (trace (step cf s (ECmp i ok)))) = S (length (ends (trace s))).
Proof.
  intros [Hw Hl]. simpl. rewrite Hw, Hl. simpl.
  change (trace ((complete s i ok) <| runq := if mem i (runq s) then runq s else runq s ++ [i] |> <| woken := true |>))
    with (trace s ++ [End i ok]).
  rewrite ends_snoc_end, app_length. simpl. lia.
Qed.

Lemma enabled_step_unended cf s i ok :
  Inv cf s -> enabled s i -> S (unended cf (step cf s (ECmp i ok))) = unended cf s.
Proof.
  intros H He. unfold unended. rewrite (enabled_step_ends cf s i ok He).
  pose proof (enabled_unended cf s i H He). lia.
Qed.

(** ** The capstone *)

Lemma drive_returns cf pick :
  cfg_ok cf -> cfg_ok2 cf -> fair_pick pick ->
  forall k evs, unended cf (run cf evs) <= k -> result (drive pick k cf (run cf evs)) <> None.
Proof.
  intros Hok Hok2 Hfair. induction k as [|k IH]; intros evs Hk.
  - cbn [drive]. change (settle (settle_fuel cf) cf (run cf evs)) with (step cf (run cf evs) ESettle).
    rewrite <- run_snoc.
    destruct (settled_waits_for_member cf evs Hok Hok2) as [Hr|(m & i & _ & _ & _ & Hw & Hl)]; [exact Hr|].
    exfalso. set (s' := run cf (evs ++ [ESettle])) in *.
    pose proof (enabled_unended cf s' i (inv_run cf _ Hok) (conj Hw Hl)) as Hlt.
    assert (Hle : length (ends (trace (run cf evs))) <= length (ends (trace s'))).
    { apply Ext_ends_le. unfold s'. rewrite run_snoc. apply Ext_step. }
    unfold unended in Hk. lia.
  - cbn [drive]. change (settle (settle_fuel cf) cf (run cf evs)) with (step cf (run cf evs) ESettle).
    rewrite <- run_snoc. set (s' := run cf (evs ++ [ESettle])).
    destruct (result s') eqn:Hres; [simpl; rewrite Hres; discriminate|]. cbn [is_none].
    destruct (settled_waits_for_member cf evs Hok Hok2) as [Hr|(m & i & _ & _ & _ & Hw & Hl)];
      [fold s' in Hr; congruence|]. fold s' in Hw, Hl.
    assert (He : enabled s' (fst (pick s'))) by (apply Hfair; exists i; split; assumption).
    unfold s' at 1. rewrite <- run_snoc. apply IH. rewrite run_snoc. fold s'.
    assert (Hinv : Inv cf s') by (apply inv_run; exact Hok).
    pose proof (enabled_step_unended cf s' _ (snd (pick s')) Hinv He) as Hs.
    assert (Hle : length (ends (trace (run cf evs))) <= length (ends (trace s'))).
    { apply Ext_ends_le. unfold s'. rewrite run_snoc. apply Ext_step. }
    pose proof (enabled_unended cf s' _ Hinv He) as Hlt.
    unfold unended in *. lia.
Qed.

(** From any reachable state, any scheduler that keeps resolving in-flight user futures (with any
    outcomes) and lets the executor poll while woken makes the call return after at most [c_n cf]
    completions. *)
Theorem eventually_returns cf evs pick :
  cfg_ok cf -> cfg_ok2 cf -> fair_pick pick ->
  result (drive pick (c_n cf) cf (run cf evs)) <> None.
Proof.
  intros Hok Hok2 Hfair. apply drive_returns; try assumption. unfold unended. lia.
Qed.

(** Sharper: as many completions as there are functions that have not ended yet are enough. *)
Theorem eventually_returns_sharp cf evs pick :
  cfg_ok cf -> cfg_ok2 cf -> fair_pick pick ->
  result (drive pick (c_n cf - length (ends (trace (run cf evs)))) cf (run cf evs)) <> None.
Proof.
  intros Hok Hok2 Hfair. apply drive_returns; try assumption. unfold unended. lia.
Qed.

(** The unended functions are those in flight (started, not ended) and those not started yet. *)
Lemma unended_split cf s :
  Inv cf s ->
  unended cf s = (length (starts (trace s)) - length (ends (trace s))) + (c_n cf - length (starts (trace s))) /\
  length (ends (trace s)) <= length (starts (trace s)) <= c_n cf.
Proof.
  intros H. unfold unended.
  assert (A : length (ends (trace s)) <= length (starts (trace s))).
  { apply NoDup_incl_length; [eapply trace_ends_nodup; apply (v_trace _ _ H)|].
    intros x Hx. destruct (in_ends_split _ _ Hx) as (ok & T1 & T2 & Heq).
    pose proof (trace_end_after_start _ _ _ _ _ _ (v_trace _ _ H) Heq) as Hs.
    rewrite Heq, starts_app. apply in_or_app. left. exact Hs. }
  assert (B : length (starts (trace s)) <= c_n cf).
  { apply NoDup_bounded_length; [eapply trace_starts_nodup; apply (v_trace _ _ H)|].
    intros x Hx. apply (v_started _ _ H) in Hx. destruct Hx as [Hx|Hx];
      [apply (Inv_fin_lt _ _ H); exact Hx | apply (Inv_wait_lt _ _ H); exact Hx]. }
  lia.
Qed.

(** Once the call has returned, further rounds change nothing: [drive] with more rounds than needed
    gives the same verdict (the bound is an upper bound, not an exact count). *)
Lemma drive_returns_ge cf evs pick k :
  cfg_ok cf -> cfg_ok2 cf -> fair_pick pick ->
  c_n cf - length (ends (trace (run cf evs))) <= k ->
  result (drive pick k cf (run cf evs)) <> None.
Proof. intros Hok Hok2 Hfair Hk. apply drive_returns; assumption. Qed.

(** ** A concrete scheduler and two concrete calls *)

(** Resolve the first in-flight function whose future has not resolved yet, with outcome [ok]. *)
Definition pick_first (ok : bool) (s : state) : nat * bool :=
  match find (fun i => is_none (lookup i (completed s))) (wait_ids (members s)) with
  | Some i => (i, ok)
  | None => (0, ok)
  end.

Lemma pick_first_fair ok : fair_pick (pick_first ok).
Proof.
  intros s [i [Hw Hl]]. unfold pick_first.
  destruct (find (fun i => is_none (lookup i (completed s))) (wait_ids (members s))) as [j|] eqn:Hf.
  - destruct (find_some _ _ Hf) as [Hin Hn]. simpl. split; [apply is_waiting_spec; exact Hin|].
    destruct (lookup j (completed s)); [discriminate | reflexivity].
  - exfalso. apply is_waiting_spec in Hw. pose proof (find_none _ _ Hf i Hw) as Hc. simpl in Hc.
    rewrite Hl in Hc. discriminate.
Qed.

(** Two independent functions, `for_each_concurrent`, no limit: both are started by the first
    settle, two completions later the call has returned [Ok] having processed both. *)
Definition cf_two : cfg := mkCfg 2 [] [0; 0] AForEach false false 0 SNonInt true [] true.

Example drive_two_returns :
  let s := drive (pick_first true) (c_n cf_two) cf_two (run cf_two []) in
  exists o, result s = Some o /\ o_kind o = KOk /\ o_finished o = true /\
            o_processed o = [1; 0] /\ o_not_processed o = [] /\
            ends (trace s) = [1; 0] /\ panic s = None.
Proof. vm_compute. eexists. repeat split; reflexivity. Qed.

(** One round is not enough for it: the bound [c_n cf] is tight here. *)
Example drive_two_one_round_pending :
  result (drive (pick_first true) 1 cf_two (run cf_two [])) = None.
Proof. vm_compute. reflexivity. Qed.

(** Fan-in a, b -> c with `try_for_each_concurrent` and every user future failing: the call
    returns [Err] after two completions, c is never started. *)
Definition cf_fanin_try : cfg :=
  mkCfg 3 [(0, 2, Logic); (1, 2, Logic)] [0; 0; 2] ATryForEach false false 0 SNonInt true [] true.

Example drive_fanin_fail_returns :
  let s := drive (pick_first false) (c_n cf_fanin_try) cf_fanin_try (run cf_fanin_try []) in
  exists o, result s = Some o /\ o_kind o = KErr /\ o_finished o = false /\
            starts (trace s) = [1; 0] /\ o_not_processed o = [2] /\ o_errs o = [1; 0] /\ panic s = None.
Proof. vm_compute. eexists. repeat split; reflexivity. Qed.

(** The same call with every user future succeeding: three completions are needed and enough. *)
Example drive_fanin_ok_returns :
  let s := drive (pick_first true) (c_n cf_fanin_try) cf_fanin_try (run cf_fanin_try []) in
  exists o, result s = Some o /\ o_kind o = KOk /\ o_finished o = true /\
            trace s = [Start 1; Start 0; End 1 true; End 0 true; Start 2; End 2 true] /\ panic s = None.
Proof. vm_compute. eexists. repeat split; reflexivity. Qed.

Example drive_fanin_ok_two_rounds_pending :
  result (drive (pick_first true) 2 cf_fanin_try (run cf_fanin_try [])) = None.
Proof. vm_compute. reflexivity. Qed.

Print Assumptions eventually_returns.
Print Assumptions eventually_returns_sharp.
Print Assumptions pick_first_fair.
