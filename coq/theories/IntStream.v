(** * IntStream.v — C08 for the stream machine ([sstep], [srun])

    Every poll of the stream records in [processed] exactly the item it delivers; with the
    interruptible wrapper the credit of IntCredit.v bounds the items yielded after a signal; once
    the wrapper has notified the interruption the stream has ended. *)
From FG Require Import Dag Builder Sched SchedInv SI_Queuer SI_Wrapper IntCredit LiveFacts IntRun.
From RecordUpdate Require Import RecordSet.
Import RecordSetNotations.

Ltac wi_now := apply wi_same; reflexivity.

(** ** The inner stream [st_inner] *)

Lemma wi_st_drain_one sc s : wi s (fst (st_drain_one sc s)).
Proof.
  unfold st_drain_one. destruct (poll_recv (done s)) as [c r]. destruct r as [| |id]; simpl fst.
  - wi_now.
  - wi_now.
  - eapply wi_trans; [|apply wi_fold_q_child]. wi_now.
Qed.

Lemma wi_st_drain sc : forall fuel s, wi s (st_drain fuel sc s).
Proof.
  induction fuel as [|f IH]; intros s; simpl; [apply wi_set_panic|].
  pose proof (wi_st_drain_one sc s) as H. destruct (st_drain_one sc s) as [s' cont]. simpl in H.
  destruct cont; [|exact H]. apply (wi_trans _ _ _ H), IH.
Qed.

Lemma wi_inner_poll s : wi s (fst (inner_poll s)).
Proof.
  destruct (inner_poll s) as [s' r] eqn:E. simpl.
  destruct (inner_poll_frame _ _ _ E) as [A B]. pose proof (inner_poll_processed _ _ _ E) as C.
  apply wi_same; assumption.
Qed.

Definition yielded (r : rres) : list nat := match r with RSome x => [x] | _ => [] end.

(** [st_inner] touches neither the wrapper nor [ipend], and records exactly the id it returns. *)
Lemma st_inner_spec sc s s' r :
  st_inner sc s = (s', r) ->
  w s' = w s /\ ipend s' = ipend s /\ processed s' = processed s ++ yielded r.
Proof.
  unfold st_inner. cbv zeta.
  set (s0 := if sc_drain sc then st_drain (sc_n sc + 2) sc s else fst (st_drain_one sc s)).
  assert (H0 : wi s s0) by (unfold s0; destruct (sc_drain sc); [apply wi_st_drain | apply wi_st_drain_one]).
  destruct (s_tx s0).
  - pose proof (wi_inner_poll s0) as H1. destruct (inner_poll s0) as [s1 r1]. simpl in H1.
    pose proof (wi_trans _ _ _ H0 H1) as (A & B & C).
    destruct r1 as [| |id].
    + intros E; inversion E; subst; clear E. simpl. rewrite app_nil_r. repeat split; assumption.
    + intros E; inversion E; subst; clear E. simpl. rewrite app_nil_r. repeat split; assumption.
    + set (s2 := clone_done_tx s1).
      set (s3 := s2 <| members := members s2 ++ [mkMem id (Some id) false MWait] |>
                    <| trace := trace s2 ++ [Start id] |> <| processed := processed s2 ++ [id] |>).
      assert (H3 : w s3 = w s /\ ipend s3 = ipend s /\ processed s3 = processed s ++ [id]).
      { unfold s3, s2, clone_done_tx. simpl. rewrite <- A, <- B, <- C. repeat split; reflexivity. }
      set (s4 := match s_rem s3 with 0 => set_panic PSRem s3 | S r => s3 <| s_rem := r |> end).
      assert (H4 : wi s3 s4) by (unfold s4; destruct (s_rem s3); [apply wi_set_panic | wi_now]).
      set (s5 := if s_rem s4 =? 0 then drop_ready_tx (take_s_tx s4) else s4).
      assert (H5 : wi s3 s5).
      { unfold s5. destruct (s_rem s4 =? 0); [|exact H4]. apply (wi_trans _ _ _ H4).
        eapply wi_trans; [apply wi_take_s_tx | apply wi_drop_ready_tx]. }
      intros E; inversion E; subst s' r; clear E. simpl yielded.
      destruct H5 as (A5 & B5 & C5). destruct H3 as (A3 & B3 & C3).
      rewrite A5, B5, C5, A3, B3, C3. repeat split; reflexivity.
  - intros E; inversion E; subst; clear E. simpl. rewrite app_nil_r.
    destruct H0 as (A & B & C). repeat split; assumption.
Qed.

Lemma st_inner_frame sc t t' x : st_inner sc t = (t', x) -> w t' = w t /\ ipend t' = ipend t.
Proof. intros E. destruct (st_inner_spec _ _ _ _ E) as (A & B & _). split; assumption. Qed.

(** ** The generic wrapper forwards the inner item in the same poll and invents none *)

Definition wyielded (r : witem) : list nat := match r with WItem x | WInt (Some x) => [x] | _ => [] end.

Lemma wyielded_length r : length (wyielded r) = delivered r.
Proof. destruct r as [| |x|[x|]]; reflexivity. Qed.

Lemma wrapper_gen_processed st inner s s' r :
  (forall t t' x, inner t = (t', x) -> processed t' = processed t ++ yielded x) ->
  wrapper_poll_gen st inner s = (s', r) -> processed s' = processed s ++ wyielded r.
Proof.
  intros Hin. unfold wrapper_poll_gen.
  destruct (w_ian (w s)); [intros E; inversion E; subst; simpl; rewrite app_nil_r; reflexivity|].
  destruct (interrupt_check st (w s) (ipend s)) as [w1 ip1].
  destruct (w_hp w1).
  - destruct (inner (s <| w := w1 |> <| ipend := ip1 |>)) as [s1 r1] eqn:Hi.
    apply Hin in Hi. cbn in Hi.
    destruct r1 as [| |x]; [| |]; try destruct (w_sig w1); intros E; inversion E; subst; clear E;
      unfold w_notify, w_reset; cbn; cbn in Hi; rewrite ?app_nil_r in *; exact Hi.
  - destruct (w_sig w1).
    + intros E; inversion E; subst; clear E. cbn. rewrite app_nil_r. reflexivity.
    + destruct (inner (s <| w := w1 |> <| ipend := ip1 |>)) as [s1 r1] eqn:Hi.
      apply Hin in Hi. cbn in Hi.
      destruct r1 as [| |x]; intros E; inversion E; subst; clear E;
        unfold w_reset; cbn; cbn in Hi; rewrite ?app_nil_r in *; exact Hi.
Qed.

(** ** One poll of the stream *)

Lemma sstep_next_processed sc s s' r :
  sstep sc s SNext = (s', r) ->
  processed s' = processed s ++ match r with WItem x | WInt (Some x) => [x] | _ => [] end.
Proof.
  unfold sstep. destruct (negb (s_alive s)).
  { intros E; inversion E; subst. rewrite app_nil_r. reflexivity. }
  cbv zeta. set (s0 := s <| woken := false |>). change (processed s) with (processed s0).
  destruct (sc_interruptible sc).
  - intros E. apply (wrapper_gen_processed _ (st_inner sc) _ _ _) in E; [exact E|].
    intros t t' x Ht. exact (proj2 (proj2 (st_inner_spec _ _ _ _ Ht))).
  - destruct (st_inner sc s0) as [s1 r1] eqn:Hi.
    destruct (st_inner_spec _ _ _ _ Hi) as (_ & _ & Hp).
    intros E; inversion E; subst; clear E. rewrite Hp. destruct r1; reflexivity.
Qed.

(** The events other than [SNext] and [SInt] leave wrapper, [ipend] and [processed] alone. *)
Lemma wi_sstep_drop sc s i : wi s (fst (sstep sc s (SDrop i))).
Proof.
  unfold sstep. destruct (is_held s i); [|apply wi_refl]. cbv zeta.
  set (s0 := remove_member s i). set (s1 := s0 <| trace := trace s0 ++ [End i true] |>).
  assert (H1 : wi s s1) by wi_now.
  set (s2 := match try_send (done s1) i with
             | (c, SOk, wk) => s1 <| done := c |> <| woken := woken s1 || wk |> <| g_done_sent := g_done_sent s1 ++ [i] |>
             | _ => s1
             end).
  assert (H2 : wi s s2).
  { unfold s2. destruct (try_send (done s1) i) as [[c r] wk]. destruct r; apply (wi_trans _ _ _ H1); wi_now. }
  destruct (drop_sender (done s2)) as [c wk]. simpl fst. apply (wi_trans _ _ _ H2). wi_now.
Qed.

Lemma wi_sstep_dropstream sc s : wi s (fst (sstep sc s SDropStream)).
Proof.
  unfold sstep. destruct (s_alive s); [|apply wi_refl]. cbv zeta. simpl fst.
  eapply wi_trans; [|wi_now].
  eapply wi_trans; [apply wi_take_s_tx | apply wi_drop_ready_tx].
Qed.

Lemma sstep_credit sc s e :
  sc_interruptible sc = true -> sc_strat sc <> SNonInt -> sc_strat sc <> SIgnore ->
  wrap_ok (sc_strat sc) (w s) -> signal_present s ->
  wrap_ok (sc_strat sc) (w (fst (sstep sc s e))) /\ signal_present (fst (sstep sc s e)) /\
  length (processed (fst (sstep sc s e))) + pcredit (sc_strat sc) true (w (fst (sstep sc s e)))
    <= length (processed s) + pcredit (sc_strat sc) true (w s).
Proof.
  intros Hi N1 N2 A B.
  assert (Hwi : forall s', wi s s' ->
            wrap_ok (sc_strat sc) (w s') /\ signal_present s' /\
            length (processed s') + pcredit (sc_strat sc) true (w s')
              <= length (processed s) + pcredit (sc_strat sc) true (w s)).
  { intros s' (Hw & Hp & Hpr). unfold signal_present. rewrite Hw, Hp, Hpr.
    split; [exact A|]. split; [exact B | apply Nat.le_refl]. }
  destruct e as [|i| |].
  - destruct (sstep sc s SNext) as [s' r] eqn:E. simpl fst.
    pose proof (sstep_next_processed _ _ _ _ E) as Hpr.
    unfold sstep in E. destruct (negb (s_alive s)).
    { inversion E; subst. apply Hwi, wi_refl. }
    cbv zeta in E. rewrite Hi in E.
    set (s0 := s <| woken := false |>) in E.
    destruct (wrapper_gen_credit _ _ _ _ _ N1 N2 (st_inner_frame sc) (A : wrap_ok _ (w s0)) (B : signal_present s0) E)
      as (A' & B' & C').
    split; [exact A'|]. split; [exact B'|].
    rewrite Hpr, app_length. change (w s0) with (w s) in C'.
    pose proof (wyielded_length r) as Hl. unfold wyielded in Hl. rewrite Hl. lia.
  - apply Hwi, wi_sstep_drop.
  - simpl. split; [exact A|]. split; [left; simpl; lia | apply Nat.le_refl].
  - apply Hwi, wi_sstep_dropstream.
Qed.

Lemma sstep_wrap_ok sc s e : wrap_ok (sc_strat sc) (w s) -> wrap_ok (sc_strat sc) (w (fst (sstep sc s e))).
Proof.
  intros A. destruct e as [|i| |].
  - unfold sstep. destruct (negb (s_alive s)); [exact A|]. cbv zeta.
    set (s0 := s <| woken := false |>).
    destruct (sc_interruptible sc).
    + destruct (wrapper_poll_gen (sc_strat sc) (st_inner sc) s0) as [s' r] eqn:E. simpl.
      exact (wrapper_gen_wrap_ok _ _ _ _ _ (st_inner_frame sc) (A : wrap_ok _ (w s0)) E).
    + destruct (st_inner sc s0) as [s1 r1] eqn:E. simpl.
      destruct (st_inner_frame _ _ _ _ E) as [Hw _]. rewrite Hw. exact A.
  - destruct (wi_sstep_drop sc s i) as (Hw & _ & _). rewrite Hw. exact A.
  - exact A.
  - destruct (wi_sstep_dropstream sc s) as (Hw & _ & _). rewrite Hw. exact A.
Qed.

Lemma swrap_ok_steps sc : forall evs s,
  wrap_ok (sc_strat sc) (w s) -> wrap_ok (sc_strat sc) (w (fold_left (fun s e => fst (sstep sc s e)) evs s)).
Proof.
  induction evs as [|e evs IH]; intros s A; simpl; [exact A|].
  apply IH, sstep_wrap_ok, A.
Qed.

Lemma w_sinit sc : w (sinit sc) = wrap0.
Proof.
  unfold sinit. cbv zeta. destruct (sc_n sc =? 0); simpl; apply w_init.
Qed.

Theorem swrap_ok_run sc evs : wrap_ok (sc_strat sc) (w (srun sc evs)).
Proof.
  unfold srun. apply swrap_ok_steps. rewrite w_sinit. apply wrap_ok_init.
Qed.

(** ** Whole event lists *)

Lemma sstep_credit_steps sc :
  sc_interruptible sc = true -> sc_strat sc <> SNonInt -> sc_strat sc <> SIgnore ->
  forall evs s,
  wrap_ok (sc_strat sc) (w s) -> signal_present s ->
  length (processed (fold_left (fun s e => fst (sstep sc s e)) evs s))
    + pcredit (sc_strat sc) true (w (fold_left (fun s e => fst (sstep sc s e)) evs s))
    <= length (processed s) + pcredit (sc_strat sc) true (w s).
Proof.
  intros Hi N1 N2. induction evs as [|e evs IH]; intros s A B; simpl; [apply Nat.le_refl|].
  destruct (sstep_credit sc s e Hi N1 N2 A B) as (A' & B' & C').
  specialize (IH _ A' B'). lia.
Qed.

(** items yielded after the first signal *)
Theorem yielded_after_signal sc s evs :
  sc_interruptible sc = true -> sc_strat sc <> SNonInt -> sc_strat sc <> SIgnore ->
  wrap_ok (sc_strat sc) (w s) ->
  length (processed (fold_left (fun s e => fst (sstep sc s e)) (SInt :: evs) s)) <=
  length (processed s) +
  match sc_strat sc with
  | SFinish | SPollN 0 => if w_hp (w s) then 1 else 0
  | SPollN (S k') => S k'
  | _ => 0
  end.
Proof.
  intros Hi N1 N2 A. cbn [fold_left]. cbn [sstep fst].
  set (s1 := s <| ipend := S (ipend s) |>).
  assert (A1 : wrap_ok (sc_strat sc) (w s1)) by exact A.
  assert (B1 : signal_present s1) by (left; simpl; lia).
  pose proof (sstep_credit_steps sc Hi N1 N2 evs s1 A1 B1) as H.
  pose proof (pcredit_bound (sc_strat sc) true (w s)) as Hb.
  change (w s1) with (w s) in H. change (processed s1) with (processed s) in H.
  cbn [andb] in Hb.
  destruct (sc_strat sc) as [| | |[|k']]; lia.
Qed.

(** after the Interrupted item the stream ends: once [w_ian] is set every further poll returns None *)
Lemma sstep_after_interrupted sc s :
  sc_interruptible sc = true -> s_alive s = true -> w_ian (w s) = true -> snd (sstep sc s SNext) = WNone.
Proof.
  intros Hi Ha Hn. unfold sstep. rewrite Ha, Hi. cbn [negb]. cbv zeta.
  unfold wrapper_poll_gen.
  change (w (s <| woken := false |>)) with (w s). rewrite Hn. reflexivity.
Qed.

(** ... and changes nothing but the [woken] flag. *)
Lemma sstep_after_interrupted_state sc s :
  sc_interruptible sc = true -> s_alive s = true -> w_ian (w s) = true ->
  fst (sstep sc s SNext) = s <| woken := false |>.
Proof.
  intros Hi Ha Hn. unfold sstep. rewrite Ha, Hi. cbn [negb]. cbv zeta.
  unfold wrapper_poll_gen.
  change (w (s <| woken := false |>)) with (w s). rewrite Hn. reflexivity.
Qed.

Print Assumptions sstep_next_processed.
Print Assumptions sstep_credit.
Print Assumptions swrap_ok_run.
Print Assumptions yielded_after_signal.
Print Assumptions sstep_after_interrupted.
