(** * StreamInv.v — invariant of the stream machine ([Sched.sinit], [Sched.sstep]) *)
From FG Require Import Dag Builder Sched DagFacts EdgeFacts RankFacts BuilderFacts TopoFacts SchedInv.
From RecordUpdate Require Import RecordSet.
Import RecordSetNotations.

Definition scfg_ok (sc : scfg) : Prop :=
  wfg (sc_n sc) (sc_es sc) /\ sc_counts sc = incoming_counts (sc_n sc) (sc_es sc).

(** [members] = FnRefs held by the consumer; `Start i` = FnRef i yielded; `End i` = it was dropped. *)
Record SInv (sc : scfg) (s : state) : Prop := {
  sv_nopanic : panic s = None;
  sv_cap_r : cap (ready s) = Nat.max 1 (sc_n sc);
  sv_cap_d : cap (done s) = Nat.max 1 (sc_n sc);
  sv_ready : exists rest, g_ready_sent s = g_received s ++ rest /\
                          (rx_open (ready s) = true -> rest = buf (ready s));
  sv_done : exists rest, g_done_sent s = g_qproc s ++ rest /\
                         (rx_open (done s) = true -> rest = buf (done s));
  sv_rs_nodup : NoDup (g_ready_sent s);
  sv_rs_lt : forall x, In x (g_ready_sent s) -> x < sc_n sc;
  sv_ds_nodup : NoDup (g_done_sent s);
  sv_ds_ended : forall x, In x (g_done_sent s) -> In x (ends (trace s));
  sv_counts_len : length (counts s) = sc_n sc;
  sv_counts : forall c, c < sc_n sc -> nth c (counts s) 0 = length (unproc (sc_es sc) (g_qproc s) c);
  sv_sent : forall c, In c (g_ready_sent s) -> unproc (sc_es sc) (g_qproc s) c = [];
  sv_members : forall m, In m (members s) -> m_st m = MWait /\ m_id m = Some (m_key m);
  sv_wait_nodup : NoDup (wait_ids (members s));
  sv_started : starts (trace s) = g_received s;
  sv_processed : processed s = starts (trace s);
  sv_split : forall x, In x (starts (trace s)) <-> In x (ends (trace s)) \/ In x (wait_ids (members s));
  sv_disj : forall x, In x (ends (trace s)) -> ~ In x (wait_ids (members s));
  sv_trace : trace_ok (sc_es sc) (trace s);
  sv_srem : s_rem s + length (starts (trace s)) = sc_n sc;
  sv_alive_r : rx_open (ready s) = s_alive s;
  sv_alive_d : rx_open (done s) = s_alive s;
  sv_stx : s_tx s = s_alive s && negb (s_rem s =? 0);
  sv_qtx : q_tx s = s_tx s;
  sv_senders_d : senders (done s) = (if s_tx s then 1 else 0) + length (wait_ids (members s));
  sv_senders_r : senders (ready s) = (if q_tx s then 1 else 0);
  (* while the stream holds its ready sender, every function whose predecessors were all
     processed has been queued (the liveness half of [sv_sent]) *)
  sv_sent_all : q_tx s = true -> forall c, c < sc_n sc -> unproc (sc_es sc) (g_qproc s) c = [] -> In c (g_ready_sent s);
  (* while the stream is alive every dropped FnRef was announced *)
  sv_ends_sent : s_alive s = true -> forall x, In x (ends (trace s)) -> In x (g_done_sent s)
}.
