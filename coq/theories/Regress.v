(** * Regress.v — the model with its historical switches flipped back: the three defects that were
    found in the code and repaired ([fix:] commits in /repo, known_findings.txt). Each lemma shows,
    by evaluation of the model on a concrete witness, that the property's statement fails for the
    pre-repair variant — so the theorems are sensitive to the mechanism they are about. The
    witnesses are permanent corpus entries of the correspondence check. *)
From FG Require Import Dag Builder Sched DagFacts EdgeFacts.

(** F1 / C04: `try_for_each_concurrent_mut_internal` without the empty-graph release: after the
    first (and only possible) polls the call is pending, nobody will wake it, nothing is in flight. *)
Definition empty_graph : fngraph := mkFG [] [] [] [] [] [] [].
Lemma C04_refuted_no_empty_release :
  let cf := mk_cfg empty_graph false ATryForEach true false 0 SNonInt true [] false in
  let s := run cf [ESettle] in
  result s = None /\ woken s = false /\ members s = [] /\ panic s = None.
Proof. vm_compute. repeat split; reflexivity. Qed.

(** With the release (the repaired code) the same call returns in its first poll. *)
Lemma C04_empty_release_returns :
  let cf := mk_cfg empty_graph false ATryForEach true false 0 SNonInt true [] true in
  is_none (result (run cf [ESettle])) = false.
Proof. vm_compute. reflexivity. Qed.

(** F2 / C05: `stream_internal` handling one done-notification per poll. Graph a, b -> c; both
    roots yielded, one more poll (Pending), both FnRefs dropped, poll: Pending, waker flag clear,
    although c is releasable. *)
Definition fanin : list edge := [(0, 2, Logic); (1, 2, Logic)].
Definition sc_fanin (drain : bool) : scfg := mkSCfg 3 fanin [0; 0; 2] SNonInt false drain.
Definition stall_events : list sevent := [SNext; SNext; SNext; SDrop 1; SDrop 0].

Lemma C05_refuted_single_recv :
  let s := srun (sc_fanin false) stall_events in
  let '(s', r) := sstep (sc_fanin false) s SNext in
  r = WPending /\ woken s' = false /\ ~ In 2 (starts (trace s')) /\
  (forall p, In p [0; 1] -> In p (ends (trace s'))).
Proof.
  vm_compute. split; [reflexivity|]. split; [reflexivity|]. split.
  - intros [H|[H|[]]]; discriminate.
  - intros p [<-|[<-|[]]]; [right; left; reflexivity | left; reflexivity].
Qed.

Lemma C05_drain_yields :
  let s := srun (sc_fanin true) stall_events in
  snd (sstep (sc_fanin true) s SNext) = WItem 2.
Proof. vm_compute. reflexivity. Qed.
