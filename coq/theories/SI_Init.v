(** * SI_Init.v — the invariant holds initially *)
From FG Require Import Dag Builder Sched DagFacts EdgeFacts RankFacts BuilderFacts TopoFacts SchedInv.
From RecordUpdate Require Import RecordSet.
Import RecordSetNotations.

Lemma preload_fold ids : forall c sent,
  rx_open c = true -> length (buf c) + length ids <= cap c ->
  fold_left preload_one ids (c, sent, false) =
  (c <| buf := buf c ++ ids |> <| rx_waker := match ids with [] => rx_waker c | _ => false end |>, sent ++ ids, false).
Proof.
  induction ids as [|i ids IH]; intros c sent Ho Hl; simpl.
  - rewrite !app_nil_r. destruct c. reflexivity.
  - simpl in Hl. destruct (try_send_succeeds c i Ho ltac:(lia)) as [c' [wk Hts]].
    rewrite Hts. destruct (try_send_ok _ _ _ _ Hts) as [Hb [Hc [Ho' [_ [Hs _]]]]].
    rewrite IH; [|exact Ho'|rewrite Hb, app_length, Hc; simpl; lia].
    rewrite Hb, <- !app_assoc. simpl. f_equal. f_equal.
    unfold try_send in Hts. rewrite Ho in Hts. simpl in Hts.
    destruct (cap c <=? length (buf c)); [discriminate|]. inversion Hts; subst. simpl.
    destruct ids; reflexivity.
Qed.

Lemma filter_NoDup_len (f : nat -> bool) l n :
  NoDup l -> (forall x, In x l -> x < n) -> length (filter f l) <= n.
Proof.
  intros Hnd Hlt. assert (H : length (filter f l) <= length (seq 0 n)).
  { apply NoDup_incl_length; [apply NoDup_filter; exact Hnd|]. intros x Hx. apply filter_In in Hx.
    apply in_seq. specialize (Hlt x (proj1 Hx)). lia. }
  rewrite seq_length in H. exact H.
Qed.

Lemma filter_not_mem_nil l : filter (fun p => negb (mem p [])) l = l.
Proof. induction l as [|p l IH]; [reflexivity|]. cbn. f_equal. exact IH. Qed.

Theorem inv_init cf : cfg_ok cf -> Inv cf (init cf).
Proof.
  intros [Hw Hcounts]. unfold init.
  assert (Hpl_nodup : NoDup (preload_ids cf)) by (apply NoDup_filter; apply topo_NoDup; exact Hw).
  assert (Hpl_lt : forall x, In x (preload_ids cf) -> x < c_n cf).
  { intros x Hx. apply filter_In in Hx. apply (topo_incl _ _ Hw). tauto. }
  assert (Hpl_len : length (preload_ids cf) <= Nat.max 1 (c_n cf)).
  { unfold preload_ids. pose proof (filter_NoDup_len (fun i => nth i (c_counts cf) 0 =? 0) (topo (c_n cf) (c_es cf)) (c_n cf)
      (topo_NoDup _ _ Hw) (topo_incl _ _ Hw)). lia. }
  rewrite (preload_fold (preload_ids cf) (mkChan [] (Nat.max 1 (c_n cf)) 1 true false) []); [|reflexivity|exact Hpl_len].
  simpl app.
  assert (Hroot : forall c, In c (preload_ids cf) -> parents (c_es cf) c = []).
  { intros c Hc. apply filter_In in Hc. destruct Hc as [Hc H0]. apply Nat.eqb_eq in H0.
    rewrite Hcounts in H0. unfold incoming_counts in H0. rewrite nth_map_seq in H0 by (apply (topo_incl _ _ Hw); exact Hc).
    rewrite count_parents in H0. destruct (parents (c_es cf) c); [reflexivity | discriminate]. }
  constructor; simpl; try reflexivity; try (intros; contradiction); try (constructor); try discriminate.
  all: try (destruct (c_n cf =? 0); reflexivity).
  - exists (preload_ids cf). split; [reflexivity|]. intros _. destruct (c_n cf =? 0); reflexivity.
  - exact Hpl_nodup.
  - exact Hpl_lt.
  - intros x [].
  - rewrite Hcounts. unfold incoming_counts. rewrite map_length, seq_length. reflexivity.
  - intros c Hc. rewrite Hcounts. unfold incoming_counts. rewrite nth_map_seq by exact Hc.
    rewrite count_parents. unfold unproc. rewrite filter_not_mem_nil. reflexivity.
  - intros c Hc. unfold unproc. rewrite (Hroot c Hc). reflexivity.
  - tauto.
  - tauto.
  - intros _. tauto.
  - intros T1 x T2 H. destruct T1; discriminate.
  - intros T1 x ok T2 H. destruct T1; discriminate.
  - tauto.
  - tauto.
  - intros _. lia.
  - lia.
  - constructor.
  - intros x [].
  - intros _. lia.
Qed.
