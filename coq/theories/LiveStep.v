(** * LiveStep.v — what a poll leaves behind when it returns Pending without a wake-up scheduled *)
From FG Require Import Dag Builder Sched DagFacts EdgeFacts RankFacts BuilderFacts TopoFacts
     SchedInv SchedInv2 LiveFacts SI_Queuer SI_Wrapper SI_Block SI_Init SI_Step SI2_Queuer SI2_Stream SI2_Block SI2_Step.
From RecordUpdate Require Import RecordSet.
Import RecordSetNotations.

(** ** A block poll that returns Pending touches neither the ready channel nor the wrapper *)

Definition pframe (s s' : state) : Prop :=
  ready s' = ready s /\ length (members s') = length (members s) /\ w s' = w s /\ s_alive s' = s_alive s.

Lemma pframe_refl s : pframe s s.
Proof. repeat split. Qed.
Lemma pframe_trans a b c : pframe a b -> pframe b c -> pframe a c.
Proof. intros (A1 & A2 & A3 & A4) (B1 & B2 & B3 & B4). repeat split; congruence. Qed.

Lemma pframe_set_panic p s : pframe s (set_panic p s).
Proof. unfold set_panic. destruct (panic s); repeat split. Qed.

Lemma pframe_start_block cf s m id : pframe s (start_block cf s m id).
Proof.
  unfold start_block, set_member_wait.
  destruct (c_mut cf && is_waiting_b s id).
  - pose proof (pframe_set_panic PTryWrite s) as (A1 & A2 & A3 & A4). repeat split; simpl; try assumption.
    rewrite map_length. exact A2.
  - repeat split; simpl. apply map_length.
Qed.

Lemma block_poll_pending_frame cf s m :
  snd (block_poll cf s m) = false -> pframe s (fst (block_poll cf s m)).
Proof.
  unfold block_poll. destruct (m_st m); destruct (m_id m) as [id|]; simpl.
  - destruct (lookup id (c_imm cf)).
    + unfold resume_block. destruct (lookup id (completed (complete (start_block cf s m id) id b))); simpl; [discriminate|].
      intros _. eapply pframe_trans; [apply pframe_start_block|]. repeat split.
    + intros _. apply pframe_start_block.
  - discriminate.
  - unfold resume_block. destruct (lookup id (completed s)); simpl; [discriminate | intros _; apply pframe_refl].
  - intros _. apply pframe_refl.
Qed.

Lemma runq_loop_pending_frame cf : forall fuel s,
  snd (runq_loop fuel cf s) <> FReady -> pframe s (fst (runq_loop fuel cf s)).
Proof.
  induction fuel as [|f IH]; intros s H; cbn [runq_loop] in *; [apply pframe_set_panic|].
  destruct (runq s) as [|k rest]; [apply pframe_refl|].
  set (s0 := s <| runq := rest |>) in *.
  assert (H0 : pframe s s0) by (repeat split).
  destruct (find_member s0 k) as [m|].
  - pose proof (block_poll_pending_frame cf s0 m) as Hb.
    destruct (block_poll cf s0 m) as [s1 rdy]. simpl in *. destruct rdy; [simpl in H; congruence|].
    eapply pframe_trans; [exact H0|]. eapply pframe_trans; [apply Hb; reflexivity | apply IH; exact H].
  - eapply pframe_trans; [exact H0 | apply IH; exact H].
Qed.

Lemma runq_loop_pending_members cf : forall fuel s,
  length (runq s) < fuel -> snd (runq_loop fuel cf s) = FPending -> members (fst (runq_loop fuel cf s)) <> [].
Proof.
  induction fuel as [|f IH]; intros s Hl H; [lia|]. cbn [runq_loop] in *.
  destruct (runq s) as [|k rest] eqn:Hrq.
  - simpl in *. destruct (members s); [discriminate | discriminate].
  - set (s0 := s <| runq := rest |>) in *.
    destruct (find_member s0 k) as [m|].
    + pose proof (inv_block_poll cf s0 m) as _.
      destruct (block_poll cf s0 m) as [s1 rdy] eqn:Hbp. destruct rdy; [simpl in H; discriminate|].
      apply IH; [|exact H].
      assert (Hr : runq s1 = rest).
      { clear -Hbp. unfold block_poll in Hbp.
        destruct (m_st m); destruct (m_id m) as [id|]; simpl in Hbp.
        - destruct (lookup id (c_imm cf)).
          + unfold resume_block in Hbp. destruct (lookup id (completed (complete (start_block cf s0 m id) id b))); inversion Hbp.
            subst. unfold complete, start_block, set_member_wait. simpl.
            destruct (c_mut cf && is_waiting_b s0 id); [unfold set_panic; destruct (panic s0)|]; reflexivity.
          + inversion Hbp. unfold start_block, set_member_wait. simpl.
            destruct (c_mut cf && is_waiting_b s0 id); [unfold set_panic; destruct (panic s0)|]; reflexivity.
        - inversion Hbp.
        - unfold resume_block in Hbp. destruct (lookup id (completed s0)); inversion Hbp. reflexivity.
        - inversion Hbp. reflexivity. }
      rewrite Hr. simpl in Hl. lia.
    + apply IH; [simpl; simpl in Hl; lia | exact H].
Qed.

(** ** A Pending answer of a channel means its sender is still there *)

Lemma inner_poll_pending_senders s : snd (inner_poll s) = RPending -> senders (ready (fst (inner_poll s))) <> 0.
Proof.
  unfold inner_poll, poll_recv. destruct (buf (ready s)); simpl; [|discriminate].
  destruct (senders (ready s) =? 0) eqn:E; simpl; [discriminate|]. intros _. apply Nat.eqb_neq. exact E.
Qed.

Lemma wrapper_poll_pending_senders cf s :
  snd (wrapper_poll cf s) = WPending -> senders (ready (fst (wrapper_poll cf s))) <> 0.
Proof.
  unfold wrapper_poll. destruct (w_ian (w s)); [discriminate|].
  destruct (interrupt_check (c_strat cf) (w s) (ipend s)) as [w1 ip].
  set (s0 := s <| w := w1 |> <| ipend := ip |>).
  pose proof (inner_poll_pending_senders s0) as Hi.
  destruct (w_hp w1).
  - destruct (inner_poll s0) as [s1 r]. simpl in *. destruct r; simpl; try (destruct (w_sig w1); discriminate).
    intros _. apply Hi. reflexivity.
  - destruct (w_sig w1); [discriminate|].
    destruct (inner_poll s0) as [s1 r]. simpl in *. destruct r; simpl; try discriminate.
    intros _. apply Hi. reflexivity.
Qed.

Lemma tracked_poll_pending_senders cf s :
  snd (tracked_poll cf s) = WPending -> senders (ready (fst (tracked_poll cf s))) <> 0.
Proof.
  unfold tracked_poll. pose proof (wrapper_poll_pending_senders cf s) as Hw.
  destruct (wrapper_poll cf s) as [s1 r]. simpl in *.
  destruct r as [| |x|[x|]]; simpl; try discriminate; [exact Hw|].
  destruct (c_incl cf); discriminate.
Qed.

Lemma stream_step_idle_senders cf s :
  snd (stream_step cf s) = false -> s_alive (fst (stream_step cf s)) = true ->
  limit_ok cf (fst (stream_step cf s)) = true -> senders (ready (fst (stream_step cf s))) <> 0.
Proof.
  unfold stream_step. destruct (limit_ok cf s && s_alive s) eqn:Hg.
  - pose proof (tracked_poll_pending_senders cf s) as Ht.
    destruct (tracked_poll cf s) as [s1 r]. simpl in *.
    destruct r as [| |x|[x|]]; simpl; try discriminate.
    intros _ _ _. apply Ht. reflexivity.
  - simpl. intros _ Ha Hl. rewrite Hl, Ha in Hg. discriminate.
Qed.

Lemma q_step_stop_senders cf s :
  snd (q_step cf s) = false ->
  q_fin (fst (q_step cf s)) = true \/
  (buf (done (fst (q_step cf s))) = [] /\ rx_waker (done (fst (q_step cf s))) = true /\ senders (done (fst (q_step cf s))) <> 0).
Proof.
  unfold q_step, poll_recv. destruct (buf (done s)) as [|x l] eqn:Hb; simpl.
  - destruct (senders (done s) =? 0) eqn:E; simpl; intros _.
    + left. unfold drop_ready_tx. simpl. destruct (q_tx s); [destruct (drop_sender (ready s))|]; reflexivity.
    + right. split; [exact Hb|]. split; [reflexivity|]. apply Nat.eqb_neq. exact E.
  - discriminate.
Qed.

Lemma q_loop_stop_senders cf : forall fuel s,
  length (buf (done s)) < fuel ->
  q_fin (q_loop fuel cf s) = true \/
  (buf (done (q_loop fuel cf s)) = [] /\ rx_waker (done (q_loop fuel cf s)) = true /\ senders (done (q_loop fuel cf s)) <> 0).
Proof.
  induction fuel as [|f IH]; intros s Hl; [lia|]. simpl.
  pose proof (q_step_stop_senders cf s) as Hs. pose proof (q_step_cont cf s) as Hc.
  destruct (q_step cf s) as [s' cont]. simpl in *. destruct cont.
  - apply IH. specialize (Hc eq_refl). lia.
  - apply Hs. reflexivity.
Qed.

(** ** The scheduler half is settled when it returns without having finished *)

Definition SS (cf : cfg) (s : state) : Prop :=
  runq s = [] /\
  (s_alive s = true ->
     limit_ok cf s = false \/
     (buf (ready s) = [] /\ rx_waker (ready s) = true /\ w_ian (w s) = false /\ senders (ready s) <> 0)) /\
  (s_alive s = false -> members s <> []).

Lemma limit_ok_len cf s s' : length (members s') = length (members s) -> limit_ok cf s' = limit_ok cf s.
Proof. intros H. unfold limit_ok. rewrite H. reflexivity. Qed.

Lemma live_conc_loop cf : cfg_ok cf -> forall fuel s,
  Inv cf s -> Inv2 cf s -> s_fin s = false -> result s = None -> phi s < fuel ->
  s_fin (conc_loop fuel cf s) = true \/ SS cf (conc_loop fuel cf s).
Proof.
  intros Hok. induction fuel as [|f IH]; intros s Hinv Hinv2 Hfin Hres Hphi; [lia|].
  cbn [conc_loop].
  destruct (inv_stream_step cf s Hinv) as (Hinv1 & Hfin1 & Hle1 & Hlt1).
  destruct (inv2_stream_step cf s Hok Hinv Hinv2 Hfin Hres) as (Hx1 & Hres1 & Hsf1 & Hqf1 & Hidle).
  pose proof (stream_step_idle_senders cf s) as Hsend.
  destruct (stream_step cf s) as [s1 prog]. simpl in *.
  destruct (inv_runq_loop cf Hok (length (runq s1) + 1) s1 Hinv1 ltac:(lia)) as (Hinv2' & Hle2 & Hlt2 & _).
  destruct (inv2_runq_loop cf Hok (length (runq s1) + 1) s1 Hinv1 Hx1 Hsf1 Hres1 ltac:(lia))
    as (Hx2 & Hres2 & Hqf2 & Hsf2 & Hrq2 & Hmem2).
  pose proof (runq_loop_pending_frame cf (length (runq s1) + 1) s1) as Hpf.
  pose proof (runq_loop_pending_members cf (length (runq s1) + 1) s1 ltac:(lia)) as Hpm.
  destruct (runq_loop (length (runq s1) + 1) cf s1) as [s2 fr]. simpl in *.
  destruct (s_fin s2) eqn:Hs2; [left; exact Hs2|].
  assert (Hsettled : prog = false -> fr <> FReady -> (fr = FPending \/ s_alive s2 = true) -> SS cf s2).
  { intros -> Hfr Hcase. destruct (Hpf Hfr) as (P1 & P2 & P3 & P4).
    split; [apply Hrq2; exact Hfr|]. split.
    - intros Ha. rewrite P4 in Ha. specialize (Hidle eq_refl Ha).
      rewrite (limit_ok_len cf s1 s2 P2), P1, P3.
      destruct (limit_ok cf s1) eqn:Hl; [right | left; reflexivity].
      destruct Hidle as [Hd|(B1 & B2 & B3)]; [discriminate|].
      repeat split; try assumption. apply Hsend; auto.
    - intros Ha. destruct Hcase as [->|Hc]; [apply Hpm; reflexivity | congruence]. }
  destruct fr.
  - apply IH; [exact Hinv2' | exact Hx2 | exact Hs2 | exact Hres2 | specialize (Hlt2 eq_refl); lia].
  - destruct prog.
    + apply IH; [exact Hinv2' | exact Hx2 | exact Hs2 | exact Hres2 | specialize (Hlt1 eq_refl); lia].
    + right. apply Hsettled; [reflexivity | discriminate | left; reflexivity].
  - destruct (negb (s_alive s2)) eqn:Hal.
    + left. unfold sched_finish. destruct (is_seq (c_api cf)); [unfold take_s_tx; destruct (s_tx _); [destruct (drop_sender _)|]|]; reflexivity.
    + apply negb_false_iff in Hal. destruct prog.
      * apply IH; [exact Hinv2' | exact Hx2 | exact Hs2 | exact Hres2 | specialize (Hlt1 eq_refl); lia].
      * right. apply Hsettled; [reflexivity | discriminate | right; exact Hal].
Qed.
