(** * TopoFacts.v — petgraph's `Topo` on a well-formed graph: the order is a permutation of the
    node ids in which every edge goes forward; the same for the flipped graph. *)

From Coq Require Import Permutation.
From FG Require Import Dag DagFacts EdgeFacts.

(** [a] occurs strictly before [b] in [l]. *)
Definition Before (l : list nat) (a b : nat) : Prop :=
  exists l1 l2 l3, l = l1 ++ a :: l2 ++ b :: l3.

(** ** The flipped graph *)

Lemma Edge_flip es a b : Edge (flip_edges es) a b <-> Edge es b a.
Proof.
  unfold Edge, flip_edges. split.
  - intros [k Hk]. apply in_map_iff in Hk. destruct Hk as [e [Heq Hin]].
    inversion Heq; subst. exists (ekind e). rewrite <- edge_eta. exact Hin.
  - intros [k Hk]. exists k. apply in_map_iff. exists (b, a, k).
    split; [reflexivity | exact Hk].
Qed.

Lemma Path_flip_1 es a b : Path (flip_edges es) a b -> Path es b a.
Proof.
  induction 1 as [a|a b c He Hp IH]; [apply Path_refl|].
  apply (proj1 (Edge_flip es a b)) in He. eapply Path_snoc; [exact IH | exact He].
Qed.

Lemma Path_flip_2 es a b : Path es a b -> Path (flip_edges es) b a.
Proof.
  induction 1 as [a|a b c He Hp IH]; [apply Path_refl|].
  apply (proj2 (Edge_flip es b a)) in He. eapply Path_snoc; [exact IH | exact He].
Qed.

Lemma Path_flip es a b : Path (flip_edges es) a b <-> Path es b a.
Proof. split; [apply Path_flip_1 | apply Path_flip_2]. Qed.

Lemma pairs_flip_In es a b : In (a, b) (pairs (flip_edges es)) <-> In (b, a) (pairs es).
Proof. rewrite !in_pairs_Edge. apply Edge_flip. Qed.

Lemma uniq_pairs_flip es : uniq_pairs es -> uniq_pairs (flip_edges es).
Proof.
  unfold uniq_pairs. induction es as [|e es IH]; intros Hu; simpl; [constructor|].
  inversion Hu as [|p ps Hnin Hu']; subst.
  constructor; [|apply IH; exact Hu'].
  intros Hin. apply Hnin.
  change (In (edst e, esrc e) (pairs (flip_edges es))) in Hin.
  apply (proj1 (pairs_flip_In es (edst e) (esrc e))) in Hin.
  destruct e as [[x y] k]. exact Hin.
Qed.

Lemma wfg_flip n es : wfg n es -> wfg n (flip_edges es).
Proof.
  intros [Hwf [Hac Hu]]. split; [|split].
  - intros e He. unfold flip_edges in He. apply in_map_iff in He.
    destruct He as [e0 [Heq Hin]]. subst e. destruct (Hwf _ Hin) as [H1 H2].
    unfold esrc, edst. simpl. split; [exact H2 | exact H1].
  - intros a b He Hp. apply (proj1 (Edge_flip es a b)) in He.
    apply (proj1 (Path_flip es b a)) in Hp. exact (Hac _ _ He Hp).
  - apply uniq_pairs_flip. exact Hu.
Qed.

(** ** Small list facts *)

Lemma mem_cons a x l : mem a (x :: l) = (a =? x) || mem a l.
Proof. reflexivity. Qed.

Lemma filter_len_le {A} (f : A -> bool) (l : list A) : length (filter f l) <= length l.
Proof.
  induction l as [|x l IH]; simpl; [lia|]. destruct (f x); simpl; lia.
Qed.

Lemma forallb_false_ex {A} (f : A -> bool) (l : list A) :
  forallb f l = false -> exists x, In x l /\ f x = false.
Proof.
  induction l as [|y l IH]; simpl; intros H; [discriminate|].
  destruct (f y) eqn:Hy.
  - simpl in H. destruct (IH H) as [x [Hx Hfx]]. exists x. split; [right; exact Hx | exact Hfx].
  - exists y. split; [left; reflexivity | exact Hy].
Qed.

Lemma all_in_spec l vis : all_in l vis = true <-> forall p, In p l -> In p vis.
Proof.
  unfold all_in. rewrite forallb_forall. split.
  - intros H p Hp. apply mem_spec. apply H. exact Hp.
  - intros H p Hp. apply mem_spec. apply H. exact Hp.
Qed.

Lemma children_length es x :
  length (children es x) = length (filter (fun e => esrc e =? x) es).
Proof. unfold children. rewrite rev_length, map_length. reflexivity. Qed.

(** Number of edges whose source is not in [out]. *)
Definition unv (es : list edge) (out : list nat) : nat :=
  length (filter (fun e => negb (mem (esrc e) out)) es).

Lemma unv_cons es x out :
  mem x out = false -> unv es (x :: out) + length (children es x) = unv es out.
Proof.
  intros Hx. rewrite children_length. unfold unv.
  induction es as [|e es IH]; [reflexivity|].
  cbn [filter]. rewrite mem_cons.
  destruct (esrc e =? x) eqn:He.
  - apply Nat.eqb_eq in He. rewrite He, Hx. cbn [orb negb length]. lia.
  - cbn [orb]. destruct (negb (mem (esrc e) out)); cbn [length]; lia.
Qed.

Lemma roots_spec n es x : In x (roots n es) <-> x < n /\ parents es x = [].
Proof.
  unfold roots. rewrite filter_In, in_seq. split.
  - intros [Hx Hnil]. split; [lia|]. destruct (parents es x); [reflexivity | discriminate].
  - intros [Hx Hnil]. split; [lia|]. rewrite Hnil. reflexivity.
Qed.

Lemma roots_length n es : length (roots n es) <= n.
Proof.
  unfold roots. pose proof (filter_len_le (fun a => is_nil (parents es a)) (seq 0 n)) as H.
  rewrite seq_length in H. exact H.
Qed.

(** ** The loop invariant *)

Section Topo.
Variables (n : nat) (es : list edge).
Hypothesis Hw : wfg n es.

Let Hwf : wf_edges n es := proj1 Hw.
Let Hac : acyclic es := proj1 (proj2 Hw).

(** [out]: visited nodes, latest first. *)
Record Inv (stack out : list nat) : Prop := mkInv {
  inv_nd : NoDup out;
  inv_lt : forall x, In x out -> x < n;
  inv_stack : forall x, In x stack -> x < n /\ forall p, Edge es p x -> In p out;
  inv_ord : forall l1 x l2, out = l1 ++ x :: l2 -> forall p, Edge es p x -> In p l2;
  inv_ready : forall x, x < n -> ~ In x out -> (forall p, Edge es p x -> In p out) -> In x stack
}.

Lemma Inv_init : Inv (rev (roots n es)) [].
Proof.
  constructor.
  - constructor.
  - intros x [].
  - intros x Hx. apply in_rev in Hx. apply roots_spec in Hx. destruct Hx as [Hlt Hnil].
    split; [exact Hlt|]. intros p Hp. apply parents_spec in Hp. rewrite Hnil in Hp. destruct Hp.
  - intros l1 x l2 Heq. destruct l1; discriminate.
  - intros x Hlt _ Hpar. apply in_rev. rewrite rev_involutive. apply roots_spec.
    split; [exact Hlt|]. destruct (parents es x) as [|p ps] eqn:Hp; [reflexivity|].
    exfalso. apply (Hpar p). apply parents_spec. rewrite Hp. left. reflexivity.
Qed.

Lemma Inv_skip x st out : Inv (x :: st) out -> In x out -> Inv st out.
Proof.
  intros [Hnd Hlt Hst Hord Hrdy] Hx. constructor.
  - exact Hnd.
  - exact Hlt.
  - intros y Hy. apply Hst. right. exact Hy.
  - exact Hord.
  - intros y Hy Hnin Hpar. destruct (Hrdy y Hy Hnin Hpar) as [Heq|Hin]; [|exact Hin].
    subst y. contradiction.
Qed.

Lemma Inv_visit x st out :
  Inv (x :: st) out -> ~ In x out ->
  Inv (rev (filter (fun c => all_in (parents es c) (x :: out)) (children es x)) ++ st) (x :: out).
Proof.
  intros [Hnd Hlt Hst Hord Hrdy] Hx.
  destruct (Hst x (or_introl eq_refl)) as [Hxn Hxpar].
  constructor.
  - constructor; [exact Hx | exact Hnd].
  - intros y [Hy|Hy]; [subst y; exact Hxn | apply Hlt; exact Hy].
  - intros y Hy. apply in_app_or in Hy. destruct Hy as [Hy|Hy].
    + apply in_rev in Hy. apply filter_In in Hy. destruct Hy as [Hch Hall].
      apply children_spec in Hch. split; [apply (Edge_wf _ _ _ _ Hwf Hch)|].
      intros p Hp. apply (proj1 (all_in_spec _ _) Hall). apply parents_spec. exact Hp.
    + destruct (Hst y (or_intror Hy)) as [Hyn Hypar]. split; [exact Hyn|].
      intros p Hp. right. apply Hypar. exact Hp.
  - intros l1 y l2 Heq p Hp. destruct l1 as [|z l1].
    + simpl in Heq. inversion Heq; subst. apply Hxpar. exact Hp.
    + simpl in Heq. inversion Heq; subst. eapply Hord; [reflexivity | exact Hp].
  - intros y Hyn Hnin Hpar. apply in_or_app.
    assert (Hyx : y <> x) by (intros ->; apply Hnin; left; reflexivity).
    assert (Hyout : ~ In y out) by (intros H; apply Hnin; right; exact H).
    destruct (mem y (children es x)) eqn:Hm.
    + left. apply mem_spec in Hm. apply in_rev. rewrite rev_involutive.
      apply filter_In. split; [exact Hm|]. apply all_in_spec.
      intros p Hp. apply Hpar. apply parents_spec. exact Hp.
    + right. apply mem_false in Hm.
      assert (Hpar' : forall p, Edge es p y -> In p out).
      { intros p Hp. destruct (Hpar p Hp) as [Heq|Hin]; [|exact Hin].
        subst p. exfalso. apply Hm. apply children_spec. exact Hp. }
      destruct (Hrdy y Hyn Hyout Hpar') as [Heq|Hin]; [|exact Hin].
      exfalso. apply Hyx. symmetry. exact Heq.
Qed.

Lemma topo_loop_inv fuel : forall stack out,
  Inv stack out -> length stack + unv es out <= fuel ->
  exists out', topo_loop fuel es stack out = rev out' /\ Inv [] out'.
Proof.
  induction fuel as [|f IH]; intros stack out HI Hfuel.
  - destruct stack as [|x st]; [|simpl in Hfuel; lia].
    exists out. split; [reflexivity | exact HI].
  - destruct stack as [|x st].
    + exists out. split; [reflexivity | exact HI].
    + cbn [topo_loop]. cbv zeta. destruct (mem x out) eqn:Hm.
      * apply IH.
        -- apply (Inv_skip x); [exact HI | apply mem_spec; exact Hm].
        -- simpl in Hfuel. lia.
      * apply IH.
        -- apply Inv_visit; [exact HI | apply mem_false; exact Hm].
        -- rewrite app_length, rev_length.
           pose proof (filter_len_le (fun c => all_in (parents es c) (x :: out)) (children es x)) as Hle.
           pose proof (unv_cons es x out Hm) as Hunv.
           simpl in Hfuel. lia.
Qed.

Lemma topo_run : exists out, topo n es = rev out /\ Inv [] out.
Proof.
  unfold topo. apply topo_loop_inv; [apply Inv_init|].
  rewrite rev_length. pose proof (roots_length n es) as Hr.
  unfold unv. pose proof (filter_len_le (fun e => negb (mem (esrc e) [])) es) as Hf. lia.
Qed.

(** With an empty stack every node has been visited: otherwise walk up to an unvisited node
    all of whose parents are visited ([height] is the measure), which would be on the stack. *)
Lemma Inv_complete out : Inv [] out -> forall x, x < n -> In x out.
Proof.
  intros [Hnd Hlt Hst Hord Hrdy].
  assert (H : forall h x, height n es x < h -> x < n -> In x out).
  { induction h as [|h IH]; intros x Hh Hx; [lia|].
    destruct (mem x out) eqn:Hm; [apply mem_spec; exact Hm|].
    apply mem_false in Hm. exfalso.
    destruct (all_in (parents es x) out) eqn:Hall.
    - apply (Hrdy x Hx Hm). intros p Hp.
      apply (proj1 (all_in_spec _ _) Hall). apply parents_spec. exact Hp.
    - unfold all_in in Hall. apply forallb_false_ex in Hall.
      destruct Hall as [p [Hp Hpm]]. apply mem_false in Hpm. apply parents_spec in Hp.
      apply Hpm. apply IH.
      + pose proof (height_edge n es p x Hwf Hac Hp) as Hlt'. lia.
      + apply (Edge_wf _ _ _ _ Hwf Hp). }
  intros x Hx. apply (H (S (height n es x))); [lia | exact Hx].
Qed.

Theorem topo_NoDup : NoDup (topo n es).
Proof.
  destruct topo_run as [out [Heq HI]]. rewrite Heq. apply NoDup_rev. apply (inv_nd _ _ HI).
Qed.

Theorem topo_incl : forall x, In x (topo n es) -> x < n.
Proof.
  destruct topo_run as [out [Heq HI]]. rewrite Heq. intros x Hx.
  apply in_rev in Hx. apply (inv_lt _ _ HI). exact Hx.
Qed.

Theorem topo_complete : forall x, x < n -> In x (topo n es).
Proof.
  destruct topo_run as [out [Heq HI]]. rewrite Heq. intros x Hx.
  apply in_rev. rewrite rev_involutive. apply (Inv_complete out HI). exact Hx.
Qed.

Theorem topo_perm : Permutation (topo n es) (seq 0 n).
Proof.
  apply NoDup_Permutation; [apply topo_NoDup | apply seq_NoDup |].
  intros x. rewrite in_seq. split.
  - intros Hx. apply topo_incl in Hx. lia.
  - intros Hx. apply topo_complete. lia.
Qed.

Theorem topo_length : length (topo n es) = n.
Proof. rewrite (Permutation_length topo_perm). apply seq_length. Qed.

Theorem topo_respects : forall a b, Edge es a b -> Before (topo n es) a b.
Proof.
  destruct topo_run as [out [Heq HI]]. rewrite Heq. intros a b He.
  assert (Hb : In b out).
  { apply (Inv_complete out HI). apply (Edge_wf _ _ _ _ Hwf He). }
  apply in_split in Hb. destruct Hb as [l1 [l2 Hout]].
  pose proof (inv_ord _ _ HI l1 b l2 Hout a He) as Ha.
  apply in_split in Ha. destruct Ha as [m1 [m2 Hl2]].
  exists (rev m2), (rev m1), (rev l1).
  rewrite Hout, Hl2.
  rewrite rev_app_distr. cbn [rev]. rewrite rev_app_distr. cbn [rev].
  rewrite <- !app_assoc. reflexivity.
Qed.

End Topo.

(** ** [Before] in a duplicate-free list is a strict order on its elements *)

Lemma Before_In l a b : Before l a b -> In a l /\ In b l.
Proof.
  intros [l1 [l2 [l3 ->]]]. split.
  - apply in_or_app. right. left. reflexivity.
  - apply in_or_app. right. right. apply in_or_app. right. left. reflexivity.
Qed.

Lemma Before_neq l a b : NoDup l -> Before l a b -> a <> b.
Proof.
  intros Hnd [l1 [l2 [l3 ->]]] ->.
  apply NoDup_remove_2 in Hnd. apply Hnd.
  apply in_or_app. right. apply in_or_app. right. left. reflexivity.
Qed.

(** Paths go forward as well. *)
Theorem topo_respects_path n es : wfg n es ->
  forall a b, Path es a b -> a = b \/ Before (topo n es) a b.
Proof.
  intros Hw a b Hp. induction Hp as [a|a b c He Hp IH]; [left; reflexivity|]. right.
  pose proof (topo_respects n es Hw a b He) as Hab.
  destruct IH as [<-|Hbc]; [exact Hab|].
  destruct Hab as [l1 [l2 [l3 Hab]]]. destruct Hbc as [m1 [m2 [m3 Hbc]]].
  pose proof (topo_NoDup n es Hw) as Hnd.
  (* b occurs once: the two decompositions around b agree *)
  assert (Hsplit : l1 ++ a :: l2 = m1 /\ l3 = m2 ++ c :: m3).
  { rewrite Hab in Hbc, Hnd.
    replace (l1 ++ a :: l2 ++ b :: l3) with ((l1 ++ a :: l2) ++ b :: l3) in Hbc, Hnd
      by (rewrite <- app_assoc; reflexivity).
    revert Hbc Hnd. generalize (l1 ++ a :: l2) as u. generalize (m2 ++ c :: m3) as w.
    intros w u. revert m1. induction u as [|z u IHu]; intros m1 Hbc Hnd.
    - destruct m1 as [|y m1]; simpl in Hbc.
      + inversion Hbc. split; reflexivity.
      + exfalso. inversion Hbc; subst. simpl in Hnd. inversion Hnd as [|q qs Hnin _]; subst.
        apply Hnin. apply in_or_app. right. left. reflexivity.
    - destruct m1 as [|y m1]; simpl in Hbc.
      + exfalso. inversion Hbc; subst. simpl in Hnd. inversion Hnd as [|q qs Hnin _]; subst.
        apply Hnin. apply in_or_app. right. left. reflexivity.
      + inversion Hbc as [[Hzy Hrest]]. simpl in Hnd. inversion Hnd as [|q qs _ Hnd']; subst.
        destruct (IHu m1 Hrest Hnd') as [H1 H2]. split; [rewrite H1; reflexivity | exact H2]. }
  destruct Hsplit as [_ Hl3]. exists l1, (l2 ++ b :: m2), m3.
  rewrite Hab, Hl3. rewrite <- app_assoc. reflexivity.
Qed.

(** ** The same for the flipped graph (`graph_structure_rev`): edges go backward *)

Theorem topo_flip_NoDup n es : wfg n es -> NoDup (topo n (flip_edges es)).
Proof. intros Hw. apply topo_NoDup. apply wfg_flip. exact Hw. Qed.

Theorem topo_flip_perm n es : wfg n es -> Permutation (topo n (flip_edges es)) (seq 0 n).
Proof. intros Hw. apply topo_perm. apply wfg_flip. exact Hw. Qed.

Theorem topo_flip_respects n es : wfg n es ->
  forall a b, Edge es a b -> Before (topo n (flip_edges es)) b a.
Proof.
  intros Hw a b He. apply topo_respects; [apply wfg_flip; exact Hw|].
  apply Edge_flip. exact He.
Qed.

Print Assumptions topo_perm.
Print Assumptions topo_respects.
Print Assumptions topo_respects_path.
Print Assumptions topo_flip_respects.
Print Assumptions wfg_flip.
