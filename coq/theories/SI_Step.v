(** * SI_Step.v — the invariant is preserved by polls and by every external event; hence it
    holds in every reachable state of every run (no fuel is ever exhausted, no panic site reached). *)
From FG Require Import Dag Builder Sched DagFacts EdgeFacts RankFacts BuilderFacts TopoFacts
     SchedInv SI_Queuer SI_Wrapper SI_Block SI_Init.
From RecordUpdate Require Import RecordSet.
Import RecordSetNotations.

(** ** Fields the invariant does not read *)

Lemma Inv_set_runq cf s r : Inv cf s -> Inv cf (s <| runq := r |>).
Proof. apply Inv_core_eq. unfold core_eq. simpl. repeat split; reflexivity. Qed.
Lemma Inv_set_woken cf s b : Inv cf s -> Inv cf (s <| woken := b |>).
Proof. apply Inv_core_eq. unfold core_eq. simpl. repeat split; reflexivity. Qed.
Lemma Inv_set_ipend cf s k : Inv cf s -> Inv cf (s <| ipend := k |>).
Proof. apply Inv_core_eq. unfold core_eq. simpl. repeat split; reflexivity. Qed.
Lemma Inv_set_result cf s r : Inv cf s -> Inv cf (s <| result := r |>).
Proof. apply Inv_core_eq. unfold core_eq. simpl. repeat split; reflexivity. Qed.

(** ** The potential that bounds the scheduler loop *)

Definition bufr (s : state) : nat := if rx_open (ready s) then length (buf (ready s)) else 0.
Definition phi (s : state) : nat :=
  2 * bufr s + length (members s) + (if w_ian (w s) then 0 else 2).

Lemma members_count ms :
  length ms = length (wait_ids ms) + length (new_ids ms) + length (filter (fun m => is_none (m_id m)) ms).
Proof.
  induction ms as [|m ms IH]; [reflexivity|].
  change (wait_ids (m :: ms)) with ((match m_st m, m_id m with MWait, Some i => [i] | _, _ => [] end) ++ wait_ids ms).
  change (new_ids (m :: ms)) with ((match m_st m, m_id m with MNew, Some i => [i] | _, _ => [] end) ++ new_ids ms).
  cbn [filter length]. rewrite !app_length.
  destruct (m_st m); destruct (m_id m); simpl; lia.
Qed.

Lemma phi_bound cf s : Inv cf s -> phi s <= 2 * c_n cf + 2.
Proof.
  intros H. unfold phi. rewrite members_count.
  assert (Hids : length (wait_ids (members s)) + length (new_ids (members s)) <= length (g_received s)).
  { rewrite <- app_length. apply NoDup_incl_length; [apply (v_mem_nodup _ _ H)|].
    intros x Hx. apply (v_recv _ _ H). apply in_app_or in Hx. destruct Hx as [Hx|Hx]; [|right; exact Hx].
    left. apply (v_started _ _ H). right. exact Hx. }
  assert (Hrs : length (g_ready_sent s) <= c_n cf).
  { apply NoDup_bounded_length; [apply (v_rs_nodup _ _ H) | apply (v_rs_lt _ _ H)]. }
  assert (Hb : length (g_received s) + bufr s <= length (g_ready_sent s)).
  { destruct (v_ready _ _ H) as [rest [Heq Hopen]]. rewrite Heq, app_length. unfold bufr.
    destruct (rx_open (ready s)); [rewrite (Hopen eq_refl); lia | lia]. }
  pose proof (v_none _ _ H) as Hn. destruct (w_ian (w s)); lia.
Qed.

(** ** The stream half of a scheduler iteration *)

Lemma limit_ok_members cf s s' : members s' = members s -> limit_ok cf s' = limit_ok cf s.
Proof. intros H. unfold limit_ok. rewrite H. reflexivity. Qed.

Lemma bufr_open s : s_alive s = rx_open (ready s) -> s_alive s = true -> bufr s = length (buf (ready s)).
Proof. intros H1 H2. unfold bufr. rewrite <- H1, H2. reflexivity. Qed.

Lemma inv_stream_step cf s :
  Inv cf s ->
  Inv cf (fst (stream_step cf s)) /\ s_fin (fst (stream_step cf s)) = s_fin s /\
  phi (fst (stream_step cf s)) <= phi s /\
  (snd (stream_step cf s) = true -> phi (fst (stream_step cf s)) < phi s).
Proof.
  intros Hinv. unfold stream_step.
  destruct (limit_ok cf s && s_alive s) eqn:Hg;
    [|simpl; split; [exact Hinv|]; split; [reflexivity|]; split; [lia | intros Hd; discriminate Hd]].
  apply andb_true_iff in Hg. destruct Hg as [Hlim Halive].
  destruct (tracked_poll cf s) as [s1 r] eqn:Htp.
  destruct (inv_tracked_poll cf s s1 r Hinv Halive Htp) as (Hinv1 & Hm & Ht & Hrq & Hal & Hcomp & Hfin & Hpan & Herr & Hbuf & Hr).
  assert (Herr1 : s_err s1 = None).
  { rewrite Herr. destruct (s_err s) eqn:He; [|reflexivity].
    destruct (v_serr _ _ Hinv) as [_ Hf]; [rewrite He; discriminate | congruence]. }
  assert (Hb0 : bufr s = length (buf (ready s))) by (apply bufr_open; [apply (v_alive _ _ Hinv) | exact Halive]).
  assert (Hb1 : bufr s1 = length (buf (ready s1))).
  { apply bufr_open; [apply (v_alive _ _ Hinv1) | rewrite Hal; exact Halive]. }
  assert (Hlim1 : limit_ok cf s1 = true) by (rewrite (limit_ok_members cf s s1 Hm); exact Hlim).
  assert (Hfresh : forall x, ~ In x (g_received s) ->
            ~ In x (starts (trace s1)) /\ ~ In x (new_ids (members s1))).
  { intros x Hx. rewrite Ht, Hm. split; intros Hin; apply Hx; apply (v_recv _ _ Hinv); [left|right]; exact Hin. }
  assert (Hphi_s : phi s = 2 * length (buf (ready s)) + length (members s) + (if w_ian (w s) then 0 else 2)).
  { unfold phi. rewrite Hb0. reflexivity. }
  assert (Hphi_push : forall m, phi (push_member s1 m) =
            2 * length (buf (ready s1)) + S (length (members s)) + (if w_ian (w s1) then 0 else 2)).
  { intros m. unfold phi, push_member, bufr. simpl. fold (bufr s1). rewrite Hb1, app_length, Hm. simpl. lia. }
  destruct r as [| |x|[x|]].
  - (* pending *)
    simpl. split; [exact Hinv1|]. split; [exact Hfin|].
    split; [|intros Hd; discriminate Hd]. rewrite Hphi_s. unfold phi. rewrite Hb1, Hm, Hr. lia.
  - (* stream ended *)
    simpl. split; [apply inv_drop_ready_rx; exact Hinv1|]. split; [exact Hfin|].
    split; [|intros Hd; discriminate Hd]. rewrite Hphi_s. unfold phi, bufr, drop_ready_rx. simpl. rewrite Hm, Hr. lia.
  - (* an item *)
    destruct Hr as (Hin & Hnin & Hlen & Hian). destruct (Hfresh x Hnin) as [Hf1 Hf2].
    simpl. split; [apply inv_push_some; assumption|]. split; [exact Hfin|].
    assert (Hphi : phi (push_member s1 (mkMem x (Some x) false MNew)) < phi s).
    { rewrite Hphi_push, Hphi_s, Hian. lia. }
    split; [lia | intros _; exact Hphi].
  - (* interrupted, with an item *)
    destruct Hr as (Hin & Hnin & Hlen & Hian1 & Hian0). destruct (Hfresh x Hnin) as [Hf1 Hf2].
    simpl. split; [apply inv_push_some; assumption|]. split; [exact Hfin|].
    assert (Hphi : phi (push_member s1 (mkMem x (Some x) true MNew)) < phi s).
    { rewrite Hphi_push, Hphi_s, Hian1, Hian0. lia. }
    split; [lia | intros _; exact Hphi].
  - (* interrupted, no item *)
    destruct Hr as (Hian1 & Hian0).
    assert (Hnone : filter (fun m => is_none (m_id m)) (members s1) = []).
    { rewrite Hm. pose proof (v_none _ _ Hinv) as Hn. rewrite Hian0 in Hn.
      destruct (filter (fun m => is_none (m_id m)) (members s)); [reflexivity | simpl in Hn; lia]. }
    simpl. split; [apply inv_push_none; assumption|]. split; [exact Hfin|].
    assert (Hphi : phi (push_member s1 (mkMem (c_n cf) None true MNew)) < phi s).
    { rewrite Hphi_push, Hphi_s, Hian1, Hian0. lia. }
    split; [lia | intros _; exact Hphi].
Qed.

(** ** The run queue *)

Lemma find_member_In s k m : find_member s k = Some m -> In m (members s).
Proof. unfold find_member. intros H. apply find_some in H. tauto. Qed.

Lemma inv_runq_loop cf : cfg_ok cf -> forall fuel s,
  Inv cf s -> length (runq s) < fuel ->
  Inv cf (fst (runq_loop fuel cf s)) /\
  phi (fst (runq_loop fuel cf s)) <= phi s /\
  (snd (runq_loop fuel cf s) = FReady -> phi (fst (runq_loop fuel cf s)) < phi s) /\
  (s_fin (fst (runq_loop fuel cf s)) = s_fin s \/ s_fin (fst (runq_loop fuel cf s)) = true).
Proof.
  intros Hok. induction fuel as [|f IH]; intros s Hinv Hlen; [lia|].
  cbn [runq_loop]. destruct (runq s) as [|k rest] eqn:Hrq.
  - simpl. split; [exact Hinv|]. split; [lia|].
    split; [destruct (is_nil (members s)); intros Hd; discriminate Hd | left; reflexivity].
  - set (s0 := s <| runq := rest |>).
    assert (Hinv0 : Inv cf s0) by (apply Inv_set_runq; exact Hinv).
    assert (Hphi0 : phi s0 = phi s) by reflexivity.
    assert (Hfin0 : s_fin s0 = s_fin s) by reflexivity.
    assert (Hrd0 : ready s0 = ready s) by reflexivity.
    assert (Hmem0 : members s0 = members s) by reflexivity.
    assert (Hw0 : w s0 = w s) by reflexivity.
    destruct (find_member s0 k) as [m|] eqn:Hfm.
    + pose proof (inv_block_poll cf s0 m Hok Hinv0 (find_member_In _ _ _ Hfm)) as Hbp.
      destruct (block_poll cf s0 m) as [s1 rdy] eqn:Hbpe. simpl in Hbp.
      destruct Hbp as (Hinv1 & Hrq1 & Hw1 & Hm1 & Hm1' & Hb1 & Hfin1 & Hrx1 & Hse1).
      rewrite ?Hrd0, ?Hmem0, ?Hw0 in *.
      assert (Hbufr : bufr s1 <= bufr s).
      { unfold bufr. destruct Hrx1 as [Hrx1|Hrx1]; rewrite Hrx1; [destruct (rx_open (ready s)); lia | lia]. }
      assert (Hphi1 : phi s1 <= phi s) by (unfold phi; rewrite Hw1; lia).
      destruct rdy.
      * simpl. split; [exact Hinv1|]. split; [lia|]. split.
        -- intros _. specialize (Hm1' eq_refl). unfold phi. rewrite Hw1. lia.
        -- rewrite <- Hfin0. exact Hfin1.
      * destruct (IH s1 Hinv1) as (A1 & A2 & A3 & A4).
        { rewrite Hrq1. simpl. simpl in Hlen. lia. }
        split; [exact A1|]. split; [lia|]. split; [intros Hr; specialize (A3 Hr); lia|].
        destruct A4 as [A4|A4]; [|right; exact A4]. rewrite A4, <- Hfin0. exact Hfin1.
    + destruct (IH s0 Hinv0) as (A1 & A2 & A3 & A4).
      { simpl. simpl in Hlen. lia. }
      split; [exact A1|]. split; [lia|]. split; [intros Hr; specialize (A3 Hr); lia|].
      rewrite <- Hfin0. exact A4.
Qed.

(** ** The scheduler loop *)

Lemma inv_conc_loop cf : cfg_ok cf -> forall fuel s,
  Inv cf s -> phi s < fuel -> Inv cf (conc_loop fuel cf s).
Proof.
  intros Hok. induction fuel as [|f IH]; intros s Hinv Hphi; [lia|].
  cbn [conc_loop].
  destruct (inv_stream_step cf s Hinv) as (Hinv1 & Hfin1 & Hle1 & Hlt1).
  destruct (stream_step cf s) as [s1 prog]. simpl in *.
  destruct (inv_runq_loop cf Hok (length (runq s1) + 1) s1 Hinv1 ltac:(lia)) as (Hinv2 & Hle2 & Hlt2 & _).
  destruct (runq_loop (length (runq s1) + 1) cf s1) as [s2 fr]. simpl in *.
  destruct (s_fin s2); [exact Hinv2|].
  destruct fr.
  - apply IH; [exact Hinv2|]. specialize (Hlt2 eq_refl). lia.
  - destruct prog; [|exact Hinv2]. apply IH; [exact Hinv2|]. specialize (Hlt1 eq_refl). lia.
  - destruct (negb (s_alive s2)); [apply inv_sched_finish; exact Hinv2|].
    destruct prog; [|exact Hinv2]. apply IH; [exact Hinv2|]. specialize (Hlt1 eq_refl). lia.
Qed.

(** ** One poll, settling, events, runs *)

Lemma inv_poll cf s : cfg_ok cf -> Inv cf s -> Inv cf (poll cf s).
Proof.
  intros Hok Hinv. unfold poll. destruct (result s); [exact Hinv|].
  set (s0 := s <| woken := false |>).
  assert (H0 : Inv cf s0) by (apply Inv_set_woken; exact Hinv).
  set (s1 := if q_fin s0 then s0 else q_loop (poll_fuel cf) cf s0).
  assert (H1 : Inv cf s1).
  { unfold s1. destruct (q_fin s0); [exact H0|]. apply inv_q_loop; [exact Hok | exact H0|].
    pose proof (Inv_done_buf_len _ _ H0). unfold poll_fuel. lia. }
  set (s2 := if s_fin s1 then s1 else conc_loop (poll_fuel cf) cf s1).
  assert (H2 : Inv cf s2).
  { unfold s2. destruct (s_fin s1); [exact H1|]. apply inv_conc_loop; [exact Hok | exact H1|].
    pose proof (phi_bound _ _ H1). unfold poll_fuel. lia. }
  destruct (q_fin s2 && s_fin s2); [apply Inv_set_result; exact H2 | exact H2].
Qed.

Lemma inv_settle cf : cfg_ok cf -> forall fuel s, Inv cf s -> Inv cf (settle fuel cf s).
Proof.
  intros Hok. induction fuel as [|f IH]; intros s Hinv; [exact Hinv|].
  simpl. destruct (woken s && is_none (result s) && is_none (panic s)); [|exact Hinv].
  apply IH. apply inv_poll; assumption.
Qed.

Lemma lookup_none_notin {A} (k : nat) (l : list (nat * A)) :
  is_none (lookup k l) = true -> ~ In k (map fst l).
Proof.
  unfold lookup. intros H Hin. apply in_map_iff in Hin. destruct Hin as [[k' v] [Hk Hin]]. simpl in Hk. subst k'.
  destruct (find (fun p => fst p =? k) l) eqn:Hf; [discriminate|].
  apply (find_none _ _ Hf) in Hin. simpl in Hin. rewrite Nat.eqb_refl in Hin. discriminate.
Qed.

Theorem inv_step cf s e : cfg_ok cf -> Inv cf s -> Inv cf (step cf s e).
Proof.
  intros Hok Hinv. destruct e as [i ok| | |]; simpl.
  - destruct (is_waiting s i && is_none (lookup i (completed s))) eqn:Hg; [|exact Hinv].
    apply andb_true_iff in Hg. destruct Hg as [Hw Hn].
    apply Inv_set_woken. apply Inv_set_runq. apply inv_complete; [exact Hinv | apply is_waiting_spec; exact Hw |].
    apply lookup_none_notin. exact Hn.
  - apply Inv_set_ipend. exact Hinv.
  - apply inv_poll; assumption.
  - apply inv_settle; assumption.
Qed.

Theorem inv_run cf evs : cfg_ok cf -> Inv cf (run cf evs).
Proof.
  intros Hok. unfold run.
  assert (H : forall s, Inv cf s -> Inv cf (fold_left (step cf) evs s)).
  { induction evs as [|e evs IH]; intros s Hs; [exact Hs|]. simpl. apply IH. apply inv_step; assumption. }
  apply H. apply inv_init. exact Hok.
Qed.
