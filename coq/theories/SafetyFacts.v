(** * SafetyFacts.v — what a well-shaped trace ([trace_ok]) implies: transitive ordering,
    no overlap of path-connected functions, at-most-once. Pure list reasoning. *)

From FG Require Import Dag Builder Sched DagFacts EdgeFacts SchedInv.

(** [j] has ended before [i] is started (vacuous when [i] never starts). *)
Definition ended_before (T : list tev) (j i : nat) : Prop :=
  forall T1 T2, T = T1 ++ Start i :: T2 -> In j (ends T1).

Lemma ends_prefix T1 T2 x : In x (ends T1) -> In x (ends (T1 ++ T2)).
Proof. intros H. rewrite ends_app. apply in_or_app. left. exact H. Qed.

Lemma in_ends_split T x : In x (ends T) -> exists ok T1 T2, T = T1 ++ End x ok :: T2.
Proof.
  intros H. apply in_ends in H. destruct H as [ok H]. apply in_split in H. destruct H as [T1 [T2 H]].
  exists ok, T1, T2. exact H.
Qed.

Lemma in_starts_split T x : In x (starts T) -> exists T1 T2, T = T1 ++ Start x :: T2.
Proof. intros H. apply in_starts in H. apply in_split in H. exact H. Qed.

(** Transitivity along paths of the structure being walked. *)
Theorem path_ended_before es T j i :
  trace_ok es T -> Path es j i -> j <> i -> ended_before T j i.
Proof.
  intros Hok Hp. revert T Hok.
  induction Hp as [a|a b c He Hp IH]; intros T Hok Hne; [congruence|].
  (* a -> b ~> c ; we show it by a second induction taking the path from its last edge *)
  assert (Hgen : forall x, Path es a x -> forall y, Edge es x y \/ x = y -> a <> y -> ended_before T a y).
  { clear b c He Hp IH Hne.
    intros x Hax. induction Hax as [a|a b c He Hp IH].
    - intros y [Hay|<-] Hne; [|congruence]. intros T1 T2 Heq. apply (proj1 Hok T1 y T2 Heq). exact Hay.
    - intros y Hcy Hne.
      destruct (Nat.eq_dec b y) as [<-|Hby].
      + intros T1 T2 Heq. apply (proj1 Hok T1 b T2 Heq). exact He.
      + specialize (IH y Hcy Hby). intros T1 T2 Heq.
        pose proof (IH T1 T2 Heq) as Hb. (* b ended before y starts *)
        destruct (in_ends_split _ _ Hb) as [ok [U1 [U2 HU]]].
        destruct (proj2 Hok U1 b ok (U2 ++ Start y :: T2)) as [Hbs _].
        { rewrite Heq, HU, <- app_assoc. reflexivity. }
        destruct (in_starts_split _ _ Hbs) as [V1 [V2 HV]].
        assert (Ha : In a (ends V1)).
        { apply (proj1 Hok V1 b (V2 ++ End b ok :: U2 ++ Start y :: T2)); [|exact He].
          rewrite Heq, HU, HV, <- !app_assoc. reflexivity. }
        rewrite HU, HV. rewrite <- app_assoc. apply ends_prefix. exact Ha. }
  destruct (Path_inv_last _ _ _ Hp) as [<-|[d [Hbd Hdc]]].
  - apply (Hgen a (Path_refl es a) b); [left; exact He | exact Hne].
  - apply (Hgen d); [eapply Path_step; eauto | left; exact Hdc | exact Hne].
Qed.

(** Two functions joined by a path are never in flight together: in every prefix of the trace in
    which both have started, one of them has already ended. *)
Theorem path_no_overlap es T i j :
  trace_ok es T -> i <> j -> (Path es i j \/ Path es j i) ->
  forall T0 T', T = T0 ++ T' -> In i (starts T0) -> In j (starts T0) -> In i (ends T0) \/ In j (ends T0).
Proof.
  intros Hok Hne Hpath T0 T' Heq Hi Hj.
  destruct Hpath as [Hp|Hp].
  - left. destruct (in_starts_split _ _ Hj) as [V1 [V2 HV]].
    pose proof (path_ended_before es T i j Hok Hp Hne V1 (V2 ++ T')) as H.
    rewrite HV. apply ends_prefix. apply H. rewrite Heq, HV, <- app_assoc. reflexivity.
  - right. destruct (in_starts_split _ _ Hi) as [V1 [V2 HV]].
    pose proof (path_ended_before es T j i Hok Hp (fun e => Hne (eq_sym e)) V1 (V2 ++ T')) as H.
    rewrite HV. apply ends_prefix. apply H. rewrite Heq, HV, <- app_assoc. reflexivity.
Qed.

Theorem trace_starts_nodup es T : trace_ok es T -> NoDup (starts T).
Proof.
  induction T as [|e T IH] using rev_ind; intros Hok; [constructor|].
  assert (Hok' : trace_ok es T).
  { destruct Hok as [H1 H2]. split.
    - intros T1 x T2 Heq. apply (H1 T1 x (T2 ++ [e])). rewrite Heq, <- app_assoc. reflexivity.
    - intros T1 x ok T2 Heq. apply (H2 T1 x ok (T2 ++ [e])). rewrite Heq, <- app_assoc. reflexivity. }
  destruct e as [x|x ok].
  - rewrite starts_snoc_start. apply NoDup_app_intro; [apply IH; exact Hok' | constructor; [intros []|constructor] |].
    intros y Hy [<-|[]]. destruct (proj1 Hok T x []) as [_ Hn]; [reflexivity | exact (Hn Hy)].
  - rewrite starts_snoc_end. apply IH. exact Hok'.
Qed.

Theorem trace_ends_nodup es T : trace_ok es T -> NoDup (ends T).
Proof.
  induction T as [|e T IH] using rev_ind; intros Hok; [constructor|].
  assert (Hok' : trace_ok es T).
  { destruct Hok as [H1 H2]. split.
    - intros T1 x T2 Heq. apply (H1 T1 x (T2 ++ [e])). rewrite Heq, <- app_assoc. reflexivity.
    - intros T1 x ok T2 Heq. apply (H2 T1 x ok (T2 ++ [e])). rewrite Heq, <- app_assoc. reflexivity. }
  destruct e as [x|x ok].
  - rewrite ends_snoc_start. apply IH. exact Hok'.
  - rewrite ends_snoc_end. apply NoDup_app_intro; [apply IH; exact Hok' | constructor; [intros []|constructor] |].
    intros y Hy [<-|[]]. destruct (proj2 Hok T x ok []) as [_ Hn]; [reflexivity | exact (Hn Hy)].
Qed.

(** Every end is preceded by its start. *)
Theorem trace_end_after_start es T x ok T1 T2 :
  trace_ok es T -> T = T1 ++ End x ok :: T2 -> In x (starts T1).
Proof. intros Hok Heq. apply (proj2 Hok T1 x ok T2 Heq). Qed.

(** In-flight count of a trace prefix. *)
Definition inflight (T : list tev) : nat := length (starts T) - length (ends T).
