(** C04 — every streaming call returns: no deadlock, lost wake-up or panic.
    Proved so far: no panic site and no fuel exhaustion is reachable (all graphs incl. the empty
    one, all StreamOpts, all event lists); see the file's end for what is still open. *)
From FG Require Import Dag Builder Sched DagFacts EdgeFacts RankFacts BuilderFacts TopoFacts AugFacts BuildFacts
     SchedInv SafetyFacts CfgFacts StreamInv SI_Queuer SI_Step SI_Stream SafetyInv StreamFacts.
From FG Require Import Regress.

Theorem C04_no_panic : forall ops G p q rev a mt ctl lim st incl imm er evs,
  build (builder_run ops) = BOk G p q ->
  panic (run (mk_cfg G rev a mt ctl lim st incl imm er) evs) = None.
Proof.
  intros ops G p q rev a mt ctl lim st incl imm er evs Hb.
  pose proof (build_ok_intro ops G p q Hb) as Hok.
  apply (v_nopanic _ _ (inv_run _ evs (cfg_ok_mk _ _ _ _ rev a mt ctl lim st incl imm er Hok))).
Qed.
Print Assumptions C04_no_panic.

(** The empty graph returns in its first poll on every path (descriptor [er = true], which is what
    all eight internal paths now do; the variant without the release hangs:
    [Regress.C04_refuted_no_empty_release]). *)
Theorem C04_empty_graph_returns : forall a mt ctl lim st incl imm rev,
  is_none (result (run (mk_cfg empty_graph rev a mt ctl lim st incl imm true) [ESettle])) = false.
Proof. intros a mt ctl lim st incl imm rev. destruct a, rev, st, ctl, lim, mt, incl; vm_compute; reflexivity. Qed.
Print Assumptions C04_empty_graph_returns.
