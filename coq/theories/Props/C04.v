(** C04 — every streaming call returns: no deadlock, lost wake-up, livelock or panic.
    Proved: no panic site and no fuel exhaustion is reachable; a pending call without an outstanding
    wake-up always has a user future in flight (whose completion wakes it); re-polling while woken
    always quiesces (at most 2n+3 polls); a call that has returned has no user future in flight;
    and from every reachable state every scheduler that keeps completing in-flight user futures
    makes the call return after at most (number of functions not yet ended) completions. *)
From FG Require Import Dag Builder Sched DagFacts EdgeFacts RankFacts BuilderFacts TopoFacts AugFacts BuildFacts
     SchedInv SafetyFacts CfgFacts StreamInv SI_Queuer SI_Step SI_Stream SafetyInv StreamFacts.
From FG Require Import Regress SchedInv2 SchedInv3 SI2_Step SI3_Run LiveRun OutcomeFacts SettleFacts DriveFacts.

Theorem C04_no_panic : forall ops G p q rev a mt ctl lim st incl imm er evs,
  build (builder_run ops) = BOk G p q ->
  panic (run (mk_cfg G rev a mt ctl lim st incl imm er) evs) = None.
Proof.
  intros ops G p q rev a mt ctl lim st incl imm er evs Hb.
  pose proof (build_ok_intro ops G p q Hb) as Hok.
  apply (v_nopanic _ _ (inv_run _ evs (cfg_ok_mk _ _ _ _ rev a mt ctl lim st incl imm er Hok))).
Qed.
Print Assumptions C04_no_panic.

(** The empty graph returns in its first poll on every path (descriptor [er = true], which is what
    all eight internal paths now do; the variant without the release hangs:
    [Regress.C04_refuted_no_empty_release]). *)
Theorem C04_empty_graph_returns : forall a mt ctl lim st incl imm rev,
  is_none (result (run (mk_cfg empty_graph rev a mt ctl lim st incl imm true) [ESettle])) = false.
Proof. intros a mt ctl lim st incl imm rev. destruct a, rev, st, ctl, lim, mt, incl; vm_compute; reflexivity. Qed.
Print Assumptions C04_empty_graph_returns.

(** All invariants and the liveness predicate, for every run on every built graph. *)
Lemma run_all_invs : forall ops G p q rev a mt ctl lim st incl imm evs,
  build (builder_run ops) = BOk G p q ->
  let cf := mk_cfg G rev a mt ctl lim st incl imm true in
  cfg_ok cf /\ Inv cf (run cf evs) /\ Inv2 cf (run cf evs) /\ Inv3 cf (run cf evs) /\ Live cf (run cf evs).
Proof.
  intros ops G p q rev a mt ctl lim st incl imm evs Hb cf.
  pose proof (build_ok_intro ops G p q Hb) as Hok.
  pose proof (cfg_ok_mk _ _ _ _ rev a mt ctl lim st incl imm true Hok) as Hc. fold cf in Hc.
  destruct (inv2_run cf evs Hc eq_refl) as [H1 H2].
  split; [exact Hc|]. split; [exact H1|]. split; [exact H2|].
  split; [apply inv3_run; [exact Hc | reflexivity] | apply live_run; [exact Hc | reflexivity]].
Qed.

(** No deadlock, no lost wake-up: in every reachable state of every call in which the call is
    pending ([result = None]) and no wake-up of its task is outstanding ([woken = false]), some
    function it started has not completed yet – the completion of that user future wakes the task. *)
Theorem C04_no_deadlock : forall ops G p q rev a mt ctl lim st incl imm evs,
  build (builder_run ops) = BOk G p q ->
  let s := run (mk_cfg G rev a mt ctl lim st incl imm true) evs in
  result s = None -> woken s = false ->
  exists i, In i (starts (trace s)) /\ ~ In i (ends (trace s)).
Proof.
  intros ops G p q rev a mt ctl lim st incl imm evs Hb s Hres Hw.
  destruct (run_all_invs ops G p q rev a mt ctl lim st incl imm evs Hb) as (Hc & H1 & H2 & H3 & Hl).
  destruct (no_deadlock_state _ _ Hc H1 H2 H3 Hl Hres Hw) as [i [Hi Hn]].
  exists i. split.
  - apply (v_started _ _ H1). right. exact Hi.
  - intros He. apply (v_ended_split _ _ H1) in He. destruct He as [He|He]; [|exact (Hn He)].
    exact (v_fin_wait _ _ H1 i He Hi).
Qed.
Print Assumptions C04_no_deadlock.

(** Every user future the call started has completed by the time it returns. *)
Theorem C04_returns_complete : forall ops G p q rev a mt ctl lim st incl imm evs o,
  build (builder_run ops) = BOk G p q ->
  let s := run (mk_cfg G rev a mt ctl lim st incl imm true) evs in
  result s = Some o -> forall x, In x (starts (trace s)) -> In x (ends (trace s)).
Proof.
  intros ops G p q rev a mt ctl lim st incl imm evs o Hb s Hres.
  destruct (run_all_invs ops G p q rev a mt ctl lim st incl imm evs Hb) as (Hc & H1 & H2 & _).
  apply (ret_started_ended _ _ o H1 H2 Hres).
Qed.
Print Assumptions C04_returns_complete.

(** No livelock: polling while the task's waker flag is set always comes to rest within the fuel of
    [ESettle] (2n+6 polls; at most 2n+3 are ever needed), and then the call has returned or is
    waiting for the completion of a user future it started (an [ECmp] event is enabled). *)
Theorem C04_settle_quiesces : forall ops G p q rev a mt ctl lim st incl imm evs,
  build (builder_run ops) = BOk G p q ->
  let s := run (mk_cfg G rev a mt ctl lim st incl imm true) (evs ++ [ESettle]) in
  (woken s = false \/ result s <> None) /\
  (result s <> None \/ exists i, enabled s i).
Proof.
  intros ops G p q rev a mt ctl lim st incl imm evs Hb s.
  destruct (run_all_invs ops G p q rev a mt ctl lim st incl imm evs Hb) as (Hc & _).
  split; [exact (settle_quiesces _ evs Hc eq_refl)|].
  destruct (settled_waits_for_member _ evs Hc eq_refl) as [H|(m & i & _ & _ & _ & Hw & Hl)]; [left; exact H|].
  right. exists i. split; assumption.
Qed.
Print Assumptions C04_settle_quiesces.

(** The call returns: from the state after ANY history, ANY scheduler [pick] that completes some
    in-flight user future whenever there is one (with any outcome) and lets the executor poll while
    woken, drives the call to its result within [c_n] completions. *)
Theorem C04_eventually_returns : forall ops G p q rev a mt ctl lim st incl imm evs pick,
  build (builder_run ops) = BOk G p q -> fair_pick pick ->
  let cf := mk_cfg G rev a mt ctl lim st incl imm true in
  result (drive pick (c_n cf - length (ends (trace (run cf evs)))) cf (run cf evs)) <> None.
Proof.
  intros ops G p q rev a mt ctl lim st incl imm evs pick Hb Hp cf.
  destruct (run_all_invs ops G p q rev a mt ctl lim st incl imm evs Hb) as (Hc & _).
  exact (eventually_returns_sharp cf evs pick Hc eq_refl Hp).
Qed.
Print Assumptions C04_eventually_returns.

(** Non-vacuity: a pending call with woken = false and a function in flight. *)
Example C04_example :
  let ops := [AddFn (mkFn 0 [] []); AddFn (mkFn 1 [] []); AddLogic 0 1] in
  match build (builder_run ops) with
  | BOk G _ _ =>
    let s := run (mk_cfg G false AForEach false false 0 SNonInt true [] true) [ESettle] in
    is_none (result s) = true /\ woken s = false /\ starts (trace s) = [0] /\ ends (trace s) = []
  | _ => False
  end.
Proof. vm_compute. repeat split; reflexivity. Qed.
