(** C15 — a graph can be run again after any earlier run, with identical behaviour.
    Partial: the theorem pins the claim that a run keeps no state in the graph value (in the model
    [init] only reads it); the decisive tie to the code is the history correspondence (sequences of
    up to four real runs — completed, interrupted, failed, dropped midway, shared and `_mut` — on
    one real `FnGraph` value, every run compared with the model run from a fresh state). *)
From FG Require Import Dag Builder Sched HistFacts.

Theorem C15_frame : forall h G, fst (run_history G h) = G.
Proof. exact history_frame. Qed.
Print Assumptions C15_frame.

Theorem C15_reuse : forall h G k d,
  nth k (snd (run_history G h)) d = nth k (map (fun r => run (cfg_of G (fst r)) (snd r)) h) d.
Proof. intros h G k d. rewrite reuse. reflexivity. Qed.
Print Assumptions C15_reuse.

Example C15_example :
  let G := mkFG [mkFn 0 [] []; mkFn 1 [] []] [(0, 1, Logic)] [(0, 1, Logic)] [(1, 0, Logic)] [0; 1] [0; 1] [1; 0] in
  let p := mkRunp false AForEach false false 0 SNonInt true [] in
  let h := [(p, [ESettle]); (p, [ESettle; ECmp 0 true; ESettle; ECmp 1 true; ESettle])] in
  map (fun s => is_none (result s)) (snd (run_history G h)) = [true; false].
Proof. vm_compute. reflexivity. Qed.
