(** C09 — StreamOutcome reports exactly what was and was not run. *)
From FG Require Import Dag Builder Sched DagFacts EdgeFacts RankFacts BuilderFacts TopoFacts AugFacts BuildFacts
     SchedInv SchedInv2 SafetyFacts CfgFacts SI_Queuer SI_Step SI2_Step SafetyInv OutcomeFacts CarryOver
     SelfSignal SelfSignalInv SelfSignalInv2.
From Coq Require Import Permutation.

(** Both invariants hold in every reachable state of every call on every built graph. *)
Lemma run_invs : forall ops G p q rev a mt ctl lim st incl imm evs,
  build (builder_run ops) = BOk G p q ->
  let cf := mk_cfg G rev a mt ctl lim st incl imm true in
  Inv cf (run cf evs) /\ Inv2 cf (run cf evs) /\ c_n cf = ncount (builder_run ops).
Proof.
  intros ops G p q rev a mt ctl lim st incl imm evs Hb cf.
  pose proof (build_ok_intro ops G p q Hb) as Hok.
  destruct (inv2_run cf evs (cfg_ok_mk _ _ _ _ rev a mt ctl lim st incl imm true Hok) eq_refl) as [H1 H2].
  split; [exact H1|]. split; [exact H2|]. unfold cf, mk_cfg. simpl. unfold fg_n. rewrite (bo_nodes _ _ _ _ Hok). reflexivity.
Qed.

(** When a fold / for_each variant has returned an outcome [o] (any graph, schedule, interrupt
    timing, failing subset, include flag):  fn_ids_processed is the list of functions handed to
    the caller, in the order they were started;  fn_ids_not_processed is the remaining functions in
    insertion order;  the state is Finished iff every function was processed;  the control
    variants return Continue iff the state is Finished and no function broke. *)
Theorem C09_outcome_exact : forall ops G p q rev a mt ctl lim st incl imm evs o,
  build (builder_run ops) = BOk G p q ->
  let cf := mk_cfg G rev a mt ctl lim st incl imm true in
  let s := run cf evs in
  result s = Some o -> s_err s = None ->
  o_processed o = starts (trace s) /\
  o_not_processed o = filter (fun i => negb (mem i (starts (trace s)))) (seq 0 (ncount (builder_run ops))) /\
  (o_finished o = true <-> length (starts (trace s)) = ncount (builder_run ops)) /\
  (a = ATryForEach -> ctl = true ->
     (o_kind o = KContinue <-> (o_finished o = true /\ failed (trace s) = []))).
Proof.
  intros ops G p q rev a mt ctl lim st incl imm evs o Hb cf s Hres Herr.
  destruct (run_invs ops G p q rev a mt ctl lim st incl imm evs Hb) as (H1 & H2 & Hn). fold cf in H1, H2, Hn. fold s in H1, H2.
  assert (Hapi : c_api cf = a) by reflexivity.
  assert (Hctl : c_ctl cf = ctl) by reflexivity.
  clearbody s. clearbody cf.
  destruct (ret_flags cf s o H2 Hres) as (_ & _ & Ho).
  destruct (make_result_fields cf s (or_introl Herr)) as (F1 & F2 & F3 & F4 & F5).
  pose proof (ret_processed cf s o H2 Hres) as Hp.
  pose proof (ret_finished_iff cf s o H1 H2 Hres Herr) as Hfin.
  subst o. rewrite F1, F2, F3, Hp. unfold not_processed. rewrite Hp, Hn.
  split; [reflexivity|]. split; [reflexivity|]. split.
  - rewrite Nat.eqb_eq, <- Hn. exact Hfin.
  - intros Ha Hc. rewrite F5, Hapi, Hctl, Ha, Hc.
    assert (Ht : is_tfe (c_api cf) = true) by (rewrite Hapi, Ha; reflexivity).
    pose proof (ret_errs_exact cf s _ H1 H2 Hres Ht) as Hperm.
    destruct (errs s) as [|e l] eqn:He; simpl.
    + apply Permutation_nil in Hperm. destruct (s_rem s =? 0); split; try tauto; try discriminate.
      intros [Hd _]. discriminate.
    + split; [discriminate|]. intros [_ Hf]. rewrite Hf in Hperm. apply Permutation_sym, Permutation_nil in Hperm. discriminate.
Qed.
Print Assumptions C09_outcome_exact.

(** ... and when a user future sends the interrupt signal itself, inside a poll of the call
    ([SelfSignal.run_sig], any signalling function; known finding F4 concerns the C08 bound only). *)
Lemma run_sig_invs : forall ops G p q rev a mt ctl lim st incl imm sg evs,
  build (builder_run ops) = BOk G p q ->
  let cf := mk_cfg G rev a mt ctl lim st incl imm true in
  Inv cf (fst (run_sig sg cf evs)) /\ Inv2 cf (fst (run_sig sg cf evs)) /\ c_n cf = ncount (builder_run ops).
Proof.
  intros ops G p q rev a mt ctl lim st incl imm sg evs Hb cf.
  pose proof (build_ok_intro ops G p q Hb) as Hok.
  destruct (inv2_run_sig sg cf evs (cfg_ok_mk _ _ _ _ rev a mt ctl lim st incl imm true Hok) eq_refl) as [H1 H2].
  split; [exact H1|]. split; [exact H2|]. unfold cf, mk_cfg. simpl. unfold fg_n. rewrite (bo_nodes _ _ _ _ Hok). reflexivity.
Qed.

Theorem C09_outcome_exact_when_a_user_future_sends_the_signal : forall ops G p q rev a mt ctl lim st incl imm sg evs o,
  build (builder_run ops) = BOk G p q ->
  let cf := mk_cfg G rev a mt ctl lim st incl imm true in
  let s := fst (run_sig sg cf evs) in
  result s = Some o -> s_err s = None ->
  o_processed o = starts (trace s) /\
  o_not_processed o = filter (fun i => negb (mem i (starts (trace s)))) (seq 0 (ncount (builder_run ops))) /\
  (o_finished o = true <-> length (starts (trace s)) = ncount (builder_run ops)) /\
  (a = ATryForEach -> ctl = true ->
     (o_kind o = KContinue <-> (o_finished o = true /\ failed (trace s) = []))).
Proof.
  intros ops G p q rev a mt ctl lim st incl imm sg evs o Hb cf s Hres Herr.
  destruct (run_sig_invs ops G p q rev a mt ctl lim st incl imm sg evs Hb) as (H1 & H2 & Hn). fold cf in H1, H2, Hn. fold s in H1, H2.
  assert (Hapi : c_api cf = a) by reflexivity.
  assert (Hctl : c_ctl cf = ctl) by reflexivity.
  clearbody s. clearbody cf.
  destruct (ret_flags cf s o H2 Hres) as (_ & _ & Ho).
  destruct (make_result_fields cf s (or_introl Herr)) as (F1 & F2 & F3 & F4 & F5).
  pose proof (ret_processed cf s o H2 Hres) as Hp.
  pose proof (ret_finished_iff cf s o H1 H2 Hres Herr) as Hfin.
  subst o. rewrite F1, F2, F3, Hp. unfold not_processed. rewrite Hp, Hn.
  split; [reflexivity|]. split; [reflexivity|]. split.
  - rewrite Nat.eqb_eq, <- Hn. exact Hfin.
  - intros Ha Hc. rewrite F5, Hapi, Hctl, Ha, Hc.
    assert (Ht : is_tfe (c_api cf) = true) by (rewrite Hapi, Ha; reflexivity).
    pose proof (ret_errs_exact cf s _ H1 H2 Hres Ht) as Hperm.
    destruct (errs s) as [|e l] eqn:He; simpl.
    + apply Permutation_nil in Hperm. destruct (s_rem s =? 0); split; try tauto; try discriminate.
      intros [Hd _]. discriminate.
    + split; [discriminate|]. intros [_ Hf]. rewrite Hf in Hperm. apply Permutation_sym, Permutation_nil in Hperm. discriminate.
Qed.
Print Assumptions C09_outcome_exact_when_a_user_future_sends_the_signal.

(** The same for a call that starts on an InterruptibilityState shared with earlier operations
    (`reborrow()`): whatever was carried over – a signal already received ([recv]), the polls counted
    since ([cnt]), signals sent and not yet read ([pend]) – the outcome is exact, the state is
    Finished iff every function was processed (in particular never "not started"), nothing panics,
    and everything started has ended when the call returns. *)
Theorem C09_outcome_exact_on_shared_interruptibility_state : forall cf recv cnt pend evs o,
  cfg_ok cf -> cfg_ok2 cf ->
  let s := run_carry cf recv cnt pend evs in
  result s = Some o -> s_err s = None ->
  o_processed o = starts (trace s) /\
  o_not_processed o = filter (fun i => negb (mem i (starts (trace s)))) (seq 0 (c_n cf)) /\
  (o_finished o = true <-> length (starts (trace s)) = c_n cf) /\
  (c_api cf = ATryForEach -> c_ctl cf = true ->
     (o_kind o = KContinue <-> (o_finished o = true /\ failed (trace s) = []))) /\
  panic s = None /\ (forall x, In x (starts (trace s)) -> In x (ends (trace s))).
Proof.
  intros cf recv cnt pend evs o Hok Hok2 s Hres Herr.
  destruct (carry_outcome_exact cf recv cnt pend Hok Hok2 evs o Hres Herr) as (A & B & C & D).
  split; [exact A|]. split; [exact B|]. split; [exact C|]. split; [exact D|]. split.
  - exact (carry_no_panic cf recv cnt pend Hok Hok2 evs).
  - exact (carry_returns_complete cf recv cnt pend Hok Hok2 evs o Hres).
Qed.
Print Assumptions C09_outcome_exact_on_shared_interruptibility_state.

Example C09_example :
  let ops := [AddFn (mkFn 0 [] []); AddFn (mkFn 1 [] []); AddFn (mkFn 2 [] []); AddLogic 0 1; AddLogic 1 2] in
  match build (builder_run ops) with
  | BOk G _ _ =>
    result (run (mk_cfg G false AForEach false false 0 SFinish true [] true) [ESettle; EInt; ECmp 0 true; ESettle; ECmp 1 true; ESettle])
    = Some (mkOut KOk false [0; 1] [2] [])
  | _ => False
  end.
Proof. vm_compute. reflexivity. Qed.
