(** C12 — conflicting functions are ordered by logic rank, then insertion order. *)
From FG Require Import Dag Builder DagFacts EdgeFacts RankFacts BuilderFacts TopoFacts AugFacts AugNR BuildFacts.

(** Tie-break: in the built graph every edge goes forward in the lexicographic order
    (rank, insertion index), and every conflicting pair is joined by a path from the
    lexicographically smaller to the larger function.  (For a pair not ordered by user edges this
    is the statement of the property; for a pair ordered by user edges the user path already
    goes that way because ranks strictly increase along user edges.) *)
Theorem C12_tie_break : forall ops G pops queries,
  let B := builder_run ops in
  build B = BOk G pops queries ->
  (forall a b, Edge (fg_edges G) a b -> lexlt (fg_ranks G) a b) /\
  (forall i j, i < ncount B -> j < ncount B -> conflicting B i j ->
     nth i (fg_ranks G) 0 < nth j (fg_ranks G) 0 \/ (nth i (fg_ranks G) 0 = nth j (fg_ranks G) 0 /\ i < j) ->
     Path (fg_edges G) i j /\ ~ Path (fg_edges G) j i).
Proof.
  intros ops G pops queries B Hb.
  destruct (build_total_spec B (builder_wf ops)) as [G' [p' [q' [Hb' Hok]]]].
  rewrite Hb in Hb'. inversion Hb'; subst G' p' q'.
  split; [apply (bo_fwd _ _ _ _ Hok)|].
  intros i j Hi Hj Hc Hlt.
  assert (Hp : Path (fg_edges G) i j) by (apply (bo_conn _ _ _ _ Hok); assumption).
  split; [exact Hp|]. intros Hq.
  assert (Hfwd : forall a b, Path (fg_edges G) a b -> a = b \/ lexlt (fg_ranks G) a b).
  { intros a b H. induction H as [a|a b c He H IH]; [left; reflexivity|]. right.
    pose proof (bo_fwd _ _ _ _ Hok a b He) as H1. destruct IH as [<-|IH]; [exact H1 | eapply lexlt_trans; eauto]. }
  destruct (Hfwd j i Hq) as [->|Hji]; [exact (lexlt_irrefl _ _ Hlt) | exact (lexlt_asym _ _ _ Hlt Hji)].
Qed.
Print Assumptions C12_tie_break.

(** No Data edge repeats an ordering already implied by other edges: removing any Data edge of
    the built graph disconnects its endpoints. *)
Theorem C12_data_edge_nonredundant : forall ops G pops queries a b,
  build (builder_run ops) = BOk G pops queries ->
  In (a, b, Data) (fg_edges G) -> ~ Path (rm_pair (fg_edges G) a b) a b.
Proof.
  intros ops G pops queries a b Hb Hin.
  set (B := builder_run ops) in *.
  destruct (rank_calc_correct_and_bounded (ncount B) (edges B) (builder_wf ops)) as [rk [p [Hrc [Hlen [Hlong Hpops]]]]].
  assert (Hstrict : forall u v, Edge (edges B) u v -> rk_at rk u < rk_at rk v).
  { intros u v He. destruct (Edge_wf _ _ _ _ (proj1 (builder_wf ops)) He) as [Hu Hv].
    destruct (Hlong u Hu) as [Hc _]. destruct (Hlong v Hv) as [_ Hmax].
    specialize (Hmax (S (rk_at rk u)) (Chain_S _ _ _ _ Hc He)). unfold rk_at in *. lia. }
  unfold build in Hb. fold B in Hrc. rewrite Hrc in Hb.
  destruct (a_panic (augment B rk)) eqn:Hp; [discriminate|].
  destruct (copy_struct _ _ _ _) as [[st str]|]; [|discriminate].
  inversion Hb; subst G. simpl in *.
  exact (augment_nonredundant B (builder_wf ops) (builder_no_data ops) rk Hstrict a b Hin).
Qed.
Print Assumptions C12_data_edge_nonredundant.

(** `==` on built graphs is exactly equality of functions and raw edge lists. *)
Theorem C12_eq_iff : forall G1 G2,
  fngraph_eq G1 G2 = true <-> fg_nodes G1 = fg_nodes G2 /\ fg_edges G1 = fg_edges G2.
Proof. exact fngraph_eq_iff. Qed.
Print Assumptions C12_eq_iff.

(** Building is a function of the builder state: the same calls give equal graphs and ranks;
    and the builder state can be read back from the built graph, so two call sequences whose
    builder states differ in any function, edge endpoint, edge kind or edge position build
    graphs that compare unequal. *)
Theorem C12_build_injective : forall ops1 ops2 G1 G2 p1 q1 p2 q2,
  build (builder_run ops1) = BOk G1 p1 q1 -> build (builder_run ops2) = BOk G2 p2 q2 ->
  (fngraph_eq G1 G2 = true <->
   nodes (builder_run ops1) = nodes (builder_run ops2) /\ edges (builder_run ops1) = edges (builder_run ops2)).
Proof.
  intros ops1 ops2 G1 G2 p1 q1 p2 q2 H1 H2.
  destruct (build_total_spec _ (builder_wf ops1)) as [G1' [p1' [q1' [Hb1 Hok1]]]]. rewrite H1 in Hb1. inversion Hb1; subst.
  destruct (build_total_spec _ (builder_wf ops2)) as [G2' [p2' [q2' [Hb2 Hok2]]]]. rewrite H2 in Hb2. inversion Hb2; subst.
  rewrite fngraph_eq_iff. rewrite (bo_nodes _ _ _ _ Hok1), (bo_nodes _ _ _ _ Hok2).
  destruct (bo_edges _ _ _ _ Hok1) as [D1 [HD1 HF1]]. destruct (bo_edges _ _ _ _ Hok2) as [D2 [HD2 HF2]].
  split.
  - intros [Hn He]. split; [exact Hn|].
    rewrite <- (filter_user (edges (builder_run ops1)) D1), <- (filter_user (edges (builder_run ops2)) D2).
    + rewrite <- HD1, <- HD2, He. reflexivity.
    + apply builder_no_data.
    + eapply Forall_impl; [|exact HF2]. intros e [H _]. exact H.
    + apply builder_no_data.
    + eapply Forall_impl; [|exact HF1]. intros e [H _]. exact H.
  - intros [Hn He]. split; [exact Hn|].
    assert (Heq : builder_run ops1 = builder_run ops2).
    { destruct (builder_run ops1), (builder_run ops2). simpl in *. subst. reflexivity. }
    rewrite Heq in H1. rewrite H1 in H2. inversion H2. reflexivity.
Qed.
Print Assumptions C12_build_injective.

Theorem C12_same_calls_equal : forall ops G p q,
  build (builder_run ops) = BOk G p q -> fngraph_eq G G = true.
Proof. intros. apply fngraph_eq_iff. split; reflexivity. Qed.
Print Assumptions C12_same_calls_equal.

(** Non-vacuity: two conflicting roots (equal rank): the one inserted first comes first; and a
    conflicting pair of different rank. *)
Example C12_example :
  let ops := [AddFn (mkFn 0 [] [0]); AddFn (mkFn 1 [] [0]); AddFn (mkFn 2 [] []); AddFn (mkFn 3 [0] []); AddLogic 2 0] in
  match build (builder_run ops) with
  | BOk G _ _ => fg_ranks G = [1; 0; 0; 0] /\ fg_edges G = [(2, 0, Logic); (3, 0, Data); (1, 3, Data)]
  | _ => False
  end.
Proof. vm_compute. split; reflexivity. Qed.
