(** C20 — simultaneous runs on one graph do not influence each other.
    Partial (as C15): in the model two runs share nothing but the immutable graph; the tie to the code
    is the pair correspondence (two real runs on one `FnGraph`, interleaved in one task). *)
From FG Require Import Dag Builder Sched SchedInv SchedInv2 HistFacts SI_Step SI2_Step StreamInv SI_Stream.

(** For every interleaving of the events of two runs, each component of the product machine is
    exactly the single run on its own events. *)
Theorem C20_independent : forall cfA cfB evs,
  fst (run2 cfA cfB evs) = run cfA (proj_events true evs) /\
  snd (run2 cfA cfB evs) = run cfB (proj_events false evs).
Proof. exact independent. Qed.
Print Assumptions C20_independent.

(** Hence every single-run guarantee (both invariants, from which C01-C10 follow) holds for each
    of the two runs, whatever the other one does. *)
Theorem C20_each_run_keeps_its_guarantees : forall cfA cfB evs,
  cfg_ok cfA -> cfg_ok2 cfA -> cfg_ok cfB -> cfg_ok2 cfB ->
  (Inv cfA (fst (run2 cfA cfB evs)) /\ Inv2 cfA (fst (run2 cfA cfB evs))) /\
  (Inv cfB (snd (run2 cfA cfB evs)) /\ Inv2 cfB (snd (run2 cfA cfB evs))).
Proof.
  intros cfA cfB evs A1 A2 B1 B2. destruct (independent cfA cfB evs) as [-> ->].
  split; apply inv2_run; assumption.
Qed.
Print Assumptions C20_each_run_keeps_its_guarantees.

(** The same for two streams on one graph value (the second possibly created while FnRefs of the
    first are still held): each component is exactly the single stream on its own events, and keeps
    the stream invariant. *)
Theorem C20_streams_independent : forall scA scB evs,
  fst (srun2 scA scB evs) = srun scA (proj_sevents true evs) /\
  snd (srun2 scA scB evs) = srun scB (proj_sevents false evs).
Proof. exact sindependent. Qed.
Print Assumptions C20_streams_independent.

Theorem C20_each_stream_keeps_its_guarantees : forall scA scB evs,
  scfg_ok scA -> scfg_ok scB ->
  SInv scA (fst (srun2 scA scB evs)) /\ SInv scB (snd (srun2 scA scB evs)).
Proof.
  intros scA scB evs HA HB. destruct (sindependent scA scB evs) as [-> ->].
  split; apply sinv_run; assumption.
Qed.
Print Assumptions C20_each_stream_keeps_its_guarantees.

(** A stream next to a call (any API) on one graph value. *)
Theorem C20_stream_and_call_independent : forall sc cf evs,
  fst (mixrun sc cf evs) = srun sc (lefts _ _ evs) /\
  snd (mixrun sc cf evs) = run cf (rights _ _ evs).
Proof. exact mixed_independent. Qed.
Print Assumptions C20_stream_and_call_independent.

(** Non-vacuity: two for_each runs (forward and reverse) on the chain 0 -> 1, polled alternately. *)
Example C20_example :
  let ops := [AddFn (mkFn 0 [] []); AddFn (mkFn 1 [] []); AddLogic 0 1] in
  match build (builder_run ops) with
  | BOk G _ _ =>
    let cfA := mk_cfg G false AForEach false false 0 SFinish true [] true in
    let cfB := mk_cfg G true AForEach false false 0 SFinish true [] true in
    let evs := [(true, ESettle); (false, ESettle); (false, ECmp 1 true); (true, ECmp 0 true); (true, ESettle);
                (false, ESettle); (true, ECmp 1 true); (false, ECmp 0 true); (false, ESettle); (true, ESettle)] in
    starts (trace (fst (run2 cfA cfB evs))) = [0; 1] /\ starts (trace (snd (run2 cfA cfB evs))) = [1; 0] /\
    is_none (result (fst (run2 cfA cfB evs))) = false /\ is_none (result (snd (run2 cfA cfB evs))) = false
  | _ => False
  end.
Proof. vm_compute. repeat split; reflexivity. Qed.
