(** C02 — a function never starts before everything it depends on has finished. *)
From FG Require Import Dag Builder Sched DagFacts EdgeFacts RankFacts BuilderFacts TopoFacts AugFacts BuildFacts
     SchedInv SafetyFacts CfgFacts StreamInv SI_Queuer SI_Step SI_Stream SafetyInv StreamFacts Opts OptsFacts SelfSignal SelfSignalInv.

(** Call APIs (all eight internal paths, control wrappers, every limit / strategy / include flag /
    set of immediately-resolving futures, every list of external events: completions, failures,
    interrupt signals, spurious polls, settles). [ended_before T j i]: in every decomposition of the
    trace at a [Start i], [j] has an [End] before it. Forward order: j ~> i in the user graph. *)
Theorem C02_call_forward : forall ops G p q a mt ctl lim st incl imm er evs i j,
  build (builder_run ops) = BOk G p q ->
  Path (edges (builder_run ops)) j i -> j <> i ->
  ended_before (trace (run (mk_cfg G false a mt ctl lim st incl imm er) evs)) j i.
Proof.
  intros ops G p q a mt ctl lim st incl imm er evs i j Hb Hp Hne.
  pose proof (build_ok_intro ops G p q Hb) as Hok.
  set (cf := mk_cfg G false a mt ctl lim st incl imm er).
  pose proof (inv_run cf evs (cfg_ok_mk _ _ _ _ false a mt ctl lim st incl imm er Hok)) as Hinv.
  apply (path_ended_before (c_es cf)); [apply (v_trace _ _ Hinv) | | exact Hne].
  unfold cf. rewrite (mk_cfg_es _ _ _ _ false a mt ctl lim st incl imm er Hok).
  apply (user_path_in_built _ _ _ _ _ _ Hok). exact Hp.
Qed.
Print Assumptions C02_call_forward.

(** Reverse order: a function is handed out only after every function that depends on it
    (i ~> j in the user graph) has returned. *)
Theorem C02_call_reverse : forall ops G p q a mt ctl lim st incl imm er evs i j,
  build (builder_run ops) = BOk G p q ->
  Path (edges (builder_run ops)) i j -> j <> i ->
  ended_before (trace (run (mk_cfg G true a mt ctl lim st incl imm er) evs)) j i.
Proof.
  intros ops G p q a mt ctl lim st incl imm er evs i j Hb Hp Hne.
  pose proof (build_ok_intro ops G p q Hb) as Hok.
  set (cf := mk_cfg G true a mt ctl lim st incl imm er).
  pose proof (inv_run cf evs (cfg_ok_mk _ _ _ _ true a mt ctl lim st incl imm er Hok)) as Hinv.
  apply (path_ended_before (c_es cf)); [apply (v_trace _ _ Hinv) | | exact Hne].
  unfold cf. rewrite (mk_cfg_es _ _ _ _ true a mt ctl lim st incl imm er Hok).
  apply (proj2 (Path_flip _ _ _)). apply (user_path_in_built _ _ _ _ _ _ Hok). exact Hp.
Qed.
Print Assumptions C02_call_reverse.

(** Streams (stream, stream_with, stream_interruptible, stream_with_interruptible): Start i
    = the FnRef of [i] is yielded, End j = the FnRef of [j] is dropped; any interleaving of
    poll_next, drops, interrupt signals and dropping the stream. *)
Theorem C02_stream : forall ops G p q (rev : bool) st intr drain evs i j,
  build (builder_run ops) = BOk G p q ->
  (if rev then Path (edges (builder_run ops)) i j else Path (edges (builder_run ops)) j i) -> j <> i ->
  ended_before (trace (srun (mk_scfg G rev st intr drain) evs)) j i.
Proof.
  intros ops G p q rev st intr drain evs i j Hb Hp Hne.
  pose proof (build_ok_intro ops G p q Hb) as Hok.
  set (sc := mk_scfg G rev st intr drain).
  pose proof (sinv_run sc evs (scfg_ok_mk _ _ _ _ rev st intr drain Hok)) as Hinv.
  apply (path_ended_before (sc_es sc)); [apply (sv_trace _ _ Hinv) | | exact Hne].
  unfold sc. rewrite (mk_scfg_es _ _ _ _ rev st intr drain Hok). destruct rev.
  - apply (proj2 (Path_flip _ _ _)). apply (user_path_in_built _ _ _ _ _ _ Hok). exact Hp.
  - apply (user_path_in_built _ _ _ _ _ _ Hok). exact Hp.
Qed.
Print Assumptions C02_stream.

(** The order of a `*_with` call is decided by its `StreamOpts`, which the caller assembles with a
    chain of builder calls (`rev()`, `interruptibility_state(..)`, `interrupted_next_item_include(..)`
    in any order, any number of times: [Opts.opts_build]).  Whatever the chain: if it contains a
    `rev()` the call runs in reverse order, otherwise forward -- "multiple calls to rev() are the same
    as one", and no other setter undoes it. *)
Theorem C02_order_for_any_setter_chain : forall ops G p q calls a mt ctl lim imm er evs i j,
  build (builder_run ops) = BOk G p q ->
  (if existsb is_rev calls then Path (edges (builder_run ops)) i j else Path (edges (builder_run ops)) j i) ->
  j <> i ->
  ended_before (trace (run (mk_cfg_opts G (opts_build calls) a mt ctl lim imm er) evs)) j i.
Proof.
  intros ops G p q calls a mt ctl lim imm er evs i j Hb Hp Hne.
  unfold mk_cfg_opts. rewrite opts_rev_idempotent.
  destruct (existsb is_rev calls).
  - eapply C02_call_reverse; eassumption.
  - eapply C02_call_forward; eassumption.
Qed.
Print Assumptions C02_order_for_any_setter_chain.

Theorem C02_stream_order_for_any_setter_chain : forall ops G p q calls intr drain evs i j,
  build (builder_run ops) = BOk G p q ->
  (if existsb is_rev calls then Path (edges (builder_run ops)) i j else Path (edges (builder_run ops)) j i) ->
  j <> i ->
  ended_before (trace (srun (mk_scfg_opts G (opts_build calls) intr drain) evs)) j i.
Proof.
  intros ops G p q calls intr drain evs i j Hb Hp Hne.
  unfold mk_scfg_opts. rewrite opts_rev_idempotent.
  eapply C02_stream; eassumption.
Qed.
Print Assumptions C02_stream_order_for_any_setter_chain.

(** The order also holds when a user future sends the interrupt signal itself, inside a poll of the call
    ([SelfSignal.run_sig], any signalling function [sg]; known finding F4 concerns the C08 bound only). *)
Theorem C02_call_when_a_user_future_sends_the_signal : forall ops G p q (rev : bool) a mt ctl lim st incl imm er sg evs i j,
  build (builder_run ops) = BOk G p q ->
  (if rev then Path (edges (builder_run ops)) i j else Path (edges (builder_run ops)) j i) -> j <> i ->
  ended_before (trace (fst (run_sig sg (mk_cfg G rev a mt ctl lim st incl imm er) evs))) j i.
Proof.
  intros ops G p q rev a mt ctl lim st incl imm er sg evs i j Hb Hp Hne.
  pose proof (build_ok_intro ops G p q Hb) as Hok.
  set (cf := mk_cfg G rev a mt ctl lim st incl imm er).
  pose proof (inv_run_sig sg cf evs (cfg_ok_mk _ _ _ _ rev a mt ctl lim st incl imm er Hok)) as Hinv.
  apply (path_ended_before (c_es cf)); [apply (v_trace _ _ Hinv) | | exact Hne].
  unfold cf. rewrite (mk_cfg_es _ _ _ _ rev a mt ctl lim st incl imm er Hok). destruct rev.
  - apply (proj2 (Path_flip _ _ _)). apply (user_path_in_built _ _ _ _ _ _ Hok). exact Hp.
  - apply (user_path_in_built _ _ _ _ _ _ Hok). exact Hp.
Qed.
Print Assumptions C02_call_when_a_user_future_sends_the_signal.

(** Non-vacuity: chain 0 -> 1 -> 2, for_each_concurrent; 2 starts only after 0 and 1 ended. *)
Example C02_example :
  let ops := [AddFn (mkFn 0 [] []); AddFn (mkFn 1 [] []); AddFn (mkFn 2 [] []); AddLogic 0 1; AddLogic 1 2] in
  match build (builder_run ops) with
  | BOk G _ _ =>
    trace (run (mk_cfg G false AForEach false false 0 SNonInt true [] true) [ESettle; ECmp 0 true; ESettle; ECmp 1 true; ESettle])
    = [Start 0; End 0 true; Start 1; End 1 true; Start 2]
  | _ => False
  end.
Proof. vm_compute. reflexivity. Qed.
